(* The whole pattern pipeline as a model (parse -> validate -> abstract syntax ->
   emerge's expansion) and the per-case checker used for the correspondence and
   for the certified instances, with its soundness theorem. *)
From Coq Require Import String List Bool Arith NArith Lia.
From Verif Require Import Base.CharSet Reg.Dfa Reg.Regex Reg.EquivCheck Reg.Peg Reg.Pattern Reg.PatSem.
Import ListNotations.
Local Open Scope N_scope.

Fixpoint wf_patb (p : pat) : bool :=
  match p with
  | PEps | PSet _ => true
  | PCat a b | PAlt a b => wf_patb a && wf_patb b
  | PRep a lo hi => wf_patb a && match hi with Some h => (lo <=? h)%nat | None => true end
  end.

Lemma wf_patb_spec p : wf_patb p = true -> wf_pat p.
Proof.
  induction p as [|cs|a IHa b IHb|a IHa b IHb|a IHa lo hi]; simpl; intros H; auto.
  - apply andb_prop in H as [H1 H2]. auto.
  - apply andb_prop in H as [H1 H2]. auto.
  - apply andb_prop in H as [H1 H2]. split; [auto|]. destruct hi; [apply Nat.leb_le; exact H2 | exact I].
Qed.

(* membership-equality of two charsets, decided on the atoms *)
Definition cs_equivb (a b : charset) : bool :=
  forallb (fun c => Bool.eqb (cs_mem a c) (cs_mem b c)) (0 :: cs_bounds a ++ cs_bounds b).

Lemma cs_equivb_spec a b : cs_equivb a b = true -> forall c, cs_mem a c = cs_mem b c.
Proof.
  unfold cs_equivb. intros H c. rewrite forallb_forall in H.
  set (B := cs_bounds a ++ cs_bounds b).
  rewrite (cs_mem_rep B a c), (cs_mem_rep B b c).
  - apply Bool.eqb_prop. apply H. apply rep_in.
  - apply (cs_covered_incl (cs_bounds b)); [apply incl_appr, incl_refl | apply cs_covered_self].
  - apply (cs_covered_incl (cs_bounds a)); [apply incl_appl, incl_refl | apply cs_covered_self].
Qed.

Section PatCheck.
  Variable escaped : list N.
  Variable ascii_names : list (list N).
  Variable uni_cats : list (list N).
  Variable cls_letters : list N.
  Variable classes : list (string * charset).

  Definition parse_pat : list N -> option (regex * list N) := parse escaped ascii_names uni_cats cls_letters.

  Inductive model_res :=
  | MSyntax                 (* not (wholly) a sentence of the pattern grammar *)
  | MSem                    (* grammatical but meaningless: descending range / min > max *)
  | MOk (t : regex) (r : re).     (* r: the expansion as the code performs it *)

  Definition model (p : list N) : model_res :=
    match parse_pat p with
    | Some (t, []) =>
      if expr_ok (snd t) then
        let a := ast_regex classes t in
        if wf_patb a then MOk t (desugar_impl a) else MSem
      else MSem
    | _ => MSyntax
    end.

  Definition accept_model (p : list N) : bool :=
    match model p with MOk _ _ => true | _ => false end.

  (* acceptance rests on the whole text being a sentence of the grammar *)
  Theorem accepted_only_whole p : accept_model p = true -> exists t, pr_regex t = p.
  Proof.
    unfold accept_model, model. destruct (parse_pat p) as [[t [|c r]]|] eqn:E; try discriminate.
    intros _. exists t. apply parse_sound in E. rewrite app_nil_r in E. symmetry. exact E.
  Qed.

  Theorem accepted_is_meaningful p t r :
    model p = MOk t r ->
    pr_regex t = p /\ expr_ok (snd t) = true /\ wf_pat (ast_regex classes t) /\ r = desugar_impl (ast_regex classes t).
  Proof.
    unfold model. destruct (parse_pat p) as [[t' [|c r']]|] eqn:E; try discriminate.
    destruct (expr_ok (snd t')) eqn:Eok; [|discriminate].
    destruct (wf_patb (ast_regex classes t')) eqn:Ewf; [|discriminate].
    intros H. inversion H; subst. apply parse_sound in E. rewrite app_nil_r in E.
    repeat split; auto. apply wf_patb_spec. exact Ewf.
  Qed.

  (* ---- cases: what the implementation did, and the automata it built ---- *)
  (* impl outcome: 0 = accepted, 1 = "invalid regular expression", 2 = semantic error, 3 = anything else *)
  Definition automaton := (dfa * list N)%type.
  Definition case := (list N * N * list automaton)%type.

  Definition fuel : nat := N.to_nat 200000.

  Definition case_ok (c : case) : bool :=
    let '(p, impl, autos) := c in
    match model p with
    | MSyntax => impl =? 1
    | MSem => impl =? 2
    | MOk _ r => (impl =? 0) && forallb (fun a => dfa_re_check (fst a) (snd a) r fuel) autos
    end.

  (* the pattern has no set containing NUL (outside known finding D3) *)
  Definition pattern_nul_free (p : list N) : bool :=
    match model p with
    | MOk t _ => nul_free (ast_regex classes t)
    | _ => true
    end.

  (* what a passing case certifies in general: the automaton's language is the code-faithful expansion *)
  Theorem case_ok_impl p autos :
    case_ok (p, 0, autos) = true ->
    exists t, pr_regex t = p /\
      forall d finals, In (d, finals) autos ->
        forall s, accepts d finals s = true <-> matches (desugar_impl (ast_regex classes t)) s.
  Proof.
    unfold case_ok. destruct (model p) as [| |t r] eqn:Em; try discriminate.
    intros H. apply andb_prop in H as [_ H]. rewrite forallb_forall in H.
    destruct (accepted_is_meaningful _ _ _ Em) as [Hp [_ [Hwf Hr]]].
    exists t. split; [exact Hp|]. intros d finals Hin s.
    specialize (H _ Hin). simpl in H.
    rewrite (dfa_re_check_sound d finals r fuel H s). subst r. tauto.
  Qed.

  (* ... and, outside the known finding, exactly the documented meaning *)
  Theorem case_ok_sound p autos :
    case_ok (p, 0, autos) = true -> pattern_nul_free p = true ->
    exists t, pr_regex t = p /\
      forall d finals, In (d, finals) autos ->
        forall s, accepts d finals s = true <-> doc_sem (ast_regex classes t) s.
  Proof.
    unfold case_ok, pattern_nul_free. destruct (model p) as [| |t r] eqn:Em; try discriminate.
    intros H Hnf. apply andb_prop in H as [_ H]. rewrite forallb_forall in H.
    destruct (accepted_is_meaningful _ _ _ Em) as [Hp [_ [Hwf Hr]]].
    exists t. split; [exact Hp|]. intros d finals Hin s.
    specialize (H _ Hin). simpl in H.
    rewrite (dfa_re_check_sound d finals r fuel H s). subst r.
    rewrite (desugar_impl_nul_free _ Hnf).
    apply desugar_correct. exact Hwf.
  Qed.
End PatCheck.

(* search only: for a case whose automaton check fails, a string on which automaton and model differ,
   together with what the model says about it *)
Section Search.
  Variable escaped : list N.
  Variable ascii_names : list (list N).
  Variable uni_cats : list (list N).
  Variable cls_letters : list N.
  Variable classes : list (string * charset).

  Definition case_witness (c : case) : list (option (list N * bool)) :=
    let '(p, impl, autos) := c in
    match model escaped ascii_names uni_cats cls_letters classes p with
    | MOk _ r =>
      map (fun a : automaton =>
             match witness (fst a) [r] (okp_lang (snd a)) fuel with
             | Some w => Some (w, matchb r w)
             | None => None
             end) autos
    | _ => []
    end.

  Definition model_code (p : list N) : N :=
    match model escaped ascii_names uni_cats cls_letters classes p with
    | MOk _ _ => 0 | MSyntax => 1 | MSem => 2
    end.
End Search.
