(* The scanning loop (model of NextToken over an ideal reader) and the
   declarative maximal-munch token-stream specification, for an arbitrary
   transition function and accepting-state table.  Theorem
   [lex_all_spec]: the loop computes exactly the specified stream. *)
From Coq Require Import String List Bool Arith NArith Lia.
Import ListNotations.
Local Open Scope N_scope.

(* ---- positions (offset in code points, line, column), all of the FIRST character ---- *)
Record pos := { p_off : N; p_line : N; p_col : N }.
Definition pos0 : pos := {| p_off := 0; p_line := 1; p_col := 1 |}.
Definition pos_step (p : pos) (c : N) : pos :=
  if c =? 10 then {| p_off := p_off p + 1; p_line := p_line p + 1; p_col := 1 |}
  else {| p_off := p_off p + 1; p_line := p_line p; p_col := p_col p + 1 |}.
Definition pos_adv (p : pos) (u : list N) : pos := fold_left pos_step u p.

(* ---- what an accepting state yields ---- *)
Inductive lexmode :=
| Fixed (s : list N)      (* Skip(): lexeme is a constant *)
| Whole                   (* Lexeme() as is *)
| Strip1                  (* lexeme[1:len-1] *)
| TrimCut (c : N).        (* strings.Trim(lexeme, c) *)

Inductive evalres := Tok (kind : string) (m : lexmode) | Err.

(* What the scanning loop does with the state it stopped in:
   emit a token, skip the lexeme and continue, or report a lexical error. *)
Inductive cls_t := CTok (kind : string) (m : lexmode) | CSkip | CErr.

Definition classify (eval : N -> evalres) (skip : string -> bool) (q : N) : cls_t :=
  match eval q with
  | Err => CErr
  | Tok k m => if skip k then CSkip else CTok k m
  end.

Fixpoint drop_while_eq (c : N) (l : list N) : list N :=
  match l with
  | x :: t => if x =? c then drop_while_eq c t else l
  | [] => []
  end.

Definition strip1 (l : list N) : list N := removelast (tl l).

Definition apply_mode (m : lexmode) (u : list N) : list N :=
  match m with
  | Fixed s => s
  | Whole => u
  | Strip1 => strip1 u
  | TrimCut c => rev (drop_while_eq c (rev (drop_while_eq c u)))
  end.

Record token := { t_kind : string; t_lexeme : list N; t_pos : pos }.

Inductive ending :=
| EndEOF
| EndError (p : pos) (lexeme : list N)   (* "lexical error at <p>:<lexeme>" *)
| EndDiverge.                             (* the Go code would recurse forever *)

Section Scan.
  Variable adv : N -> N -> option N.
  Variable cls : N -> cls_t.

  (* run of the automaton from a state *)
  Definition oadv (oq : option N) (c : N) : option N :=
    match oq with Some q => adv q c | None => None end.
  Definition runq (q : N) (u : list N) : option N := fold_left oadv u (Some q).

  Lemma fold_oadv_none u : fold_left oadv u None = None.
  Proof. induction u as [|c u IH]; simpl; auto. Qed.

  (* The inner loop of NextToken: advance until dead or end of input. *)
  Fixpoint scan (curr : N) (acc : list N) (rest : list N) : (N * list N * list N) :=
    match rest with
    | [] => (curr, rev acc, [])
    | c :: rest' =>
      match adv curr c with
      | Some n => scan n (c :: acc) rest'
      | None => (curr, rev acc, rest)
      end
    end.

  (* One call of NextToken (with its tail calls for skipped terminals). *)
  Inductive ntres :=
  | NTok (t : token) (p' : pos) (rest : list N)
  | NEnd (e : ending).

  Fixpoint next_token (fuel : nat) (p : pos) (rest : list N) : ntres :=
    match fuel with
    | O => NEnd EndDiverge
    | S f =>
      match rest with
      | [] => NEnd EndEOF
      | _ =>
        let '(q, u, rest') := scan 0 [] rest in
        match cls q with
        | CErr => NEnd (EndError p u)
        | CSkip =>
          match u with
          | [] => NEnd EndDiverge      (* accepting start state: no progress *)
          | _ => next_token f (pos_adv p u) rest'
          end
        | CTok k m =>
          match u with
          | [] => NEnd EndDiverge
          | _ => NTok {| t_kind := k; t_lexeme := apply_mode m u; t_pos := p |} (pos_adv p u) rest'
          end
        end
      end
    end.

  Fixpoint lex_all (fuel : nat) (p : pos) (rest : list N) : list token * ending :=
    match fuel with
    | O => ([], EndDiverge)
    | S f =>
      match next_token (S (length rest)) p rest with
      | NEnd e => ([], e)
      | NTok t p' rest' =>
        let '(ts, e) := lex_all f p' rest' in (t :: ts, e)
      end
    end.

  Definition tokens (text : list N) : list token * ending :=
    lex_all (S (length text)) pos0 text.

  (* ---- declarative specification ---- *)

  (* [munch u r q]: u is the longest prefix of u ++ r the automaton can follow from state 0,
     ending in state q. *)
  Definition munch (u r : list N) (q : N) : Prop :=
    runq 0 u = Some q /\
    match r with [] => True | c :: _ => adv q c = None end.

  Inductive lexes : pos -> list N -> list token -> ending -> Prop :=
  | L_eof p : lexes p [] [] EndEOF
  | L_tok p u r q k m ts e :
      u ++ r <> [] -> munch u r q -> cls q = CTok k m -> u <> [] ->
      lexes (pos_adv p u) r ts e ->
      lexes p (u ++ r) ({| t_kind := k; t_lexeme := apply_mode m u; t_pos := p |} :: ts) e
  | L_skip p u r q ts e :
      u ++ r <> [] -> munch u r q -> cls q = CSkip -> u <> [] ->
      lexes (pos_adv p u) r ts e ->
      lexes p (u ++ r) ts e
  | L_err p u r q :
      u ++ r <> [] -> munch u r q -> cls q = CErr ->
      lexes p (u ++ r) [] (EndError p u).

  (* ---- the loop computes the specification ---- *)

  Lemma scan_spec : forall rest curr acc q u rest',
      scan curr acc rest = (q, u, rest') ->
      exists v, u = rev acc ++ v /\ rest = v ++ rest' /\
                fold_left oadv v (Some curr) = Some q /\
                match rest' with [] => True | c :: _ => adv q c = None end.
  Proof.
    induction rest as [|c rest IH]; intros curr acc q u rest' H; simpl in H.
    - inversion H; subst. exists []. rewrite app_nil_r. simpl. auto.
    - destruct (adv curr c) as [n|] eqn:Ha.
      + destruct (IH _ _ _ _ _ H) as [v [Hu [Hr [Hrun Hmax]]]].
        exists (c :: v). simpl in Hu. rewrite <- app_assoc in Hu. simpl in Hu.
        split; [exact Hu|]. split; [simpl; f_equal; exact Hr|].
        split; [simpl; rewrite Ha; exact Hrun | exact Hmax].
      + inversion H; subst. exists []. rewrite app_nil_r. simpl. auto.
  Qed.

  Lemma scan_munch rest q u rest' :
      scan 0 [] rest = (q, u, rest') -> rest = u ++ rest' /\ munch u rest' q.
  Proof.
    intros H. destruct (scan_spec _ _ _ _ _ _ H) as [v [Hu [Hr [Hrun Hmax]]]].
    simpl in Hu. subst v. split; [exact Hr|]. split; assumption.
  Qed.

  Lemma scan_length rest q u rest' :
      scan 0 [] rest = (q, u, rest') -> (length rest = length u + length rest')%nat.
  Proof. intros H. apply scan_munch in H as [-> _]. apply app_length. Qed.

  (* result of iterating next_token, as a relation usable in the proof *)
  Lemma next_token_rest fuel : forall p rest t p' rest',
      next_token fuel p rest = NTok t p' rest' -> (length rest' < length rest)%nat.
  Proof.
    induction fuel as [|f IH]; intros p rest t p' rest' H; simpl in H; [discriminate|].
    destruct rest as [|c0 rest0]; [discriminate|].
    destruct (scan 0 [] (c0 :: rest0)) as [[q u] r1] eqn:Hs.
    pose proof (scan_length _ _ _ _ Hs) as Hl.
    destruct (cls q) as [k m| |]; [| |discriminate];
    (destruct u as [|c u]; [discriminate|]).
    - inversion H; subst. cbn [length] in *. lia.
    - apply IH in H. cbn [length] in *. lia.
  Qed.

  Hypothesis start_not_accepting : cls 0 = CErr.

  (* Soundness of one NextToken call w.r.t. [lexes]: whatever [lexes] holds for the
     remaining text after the call extends to the text before the call. *)
  Lemma next_token_sound fuel : forall p rest,
      (length rest < fuel)%nat ->
      match next_token fuel p rest with
      | NTok t p' rest' => forall ts e, lexes p' rest' ts e -> lexes p rest (t :: ts) e
      | NEnd EndDiverge => False
      | NEnd e => lexes p rest [] e
      end.
  Proof.
    induction fuel as [|f IH]; intros p rest Hf; [lia|].
    simpl. destruct rest as [|c0 rest0]; [constructor|].
    destruct (scan 0 [] (c0 :: rest0)) as [[q u] r1] eqn:Hs.
    pose proof (scan_munch _ _ _ _ Hs) as [Hsplit Hm].
    pose proof (scan_length _ _ _ _ Hs) as Hl.
    assert (Hne : u ++ r1 <> []) by (rewrite <- Hsplit; discriminate).
    assert (Hu0 : u = [] -> cls q = CErr).
    { intros ->. destruct Hm as [Hr _]. simpl in Hr. inversion Hr; subst q. exact start_not_accepting. }
    destruct (cls q) as [k m| |] eqn:He.
    - destruct u as [|c u]; [specialize (Hu0 eq_refl); discriminate|].
      intros ts e Hlex. rewrite Hsplit. eapply L_tok; eauto; discriminate.
    - destruct u as [|c u]; [specialize (Hu0 eq_refl); discriminate|].
      assert (Hf' : (length r1 < f)%nat) by (cbn [length] in *; lia).
      specialize (IH (pos_adv p (c :: u)) r1 Hf').
      destruct (next_token f (pos_adv p (c :: u)) r1) as [t p' rest'|e].
      + intros ts e Hlex. rewrite Hsplit. eapply L_skip; eauto; discriminate.
      + destruct e; try exact IH.
        * rewrite Hsplit. eapply L_skip; eauto; discriminate.
        * rewrite Hsplit. eapply L_skip; eauto; discriminate.
    - rewrite Hsplit. eapply L_err; eauto.
  Qed.

  Lemma lex_all_sound fuel : forall p rest,
      (length rest < fuel)%nat ->
      lexes p rest (fst (lex_all fuel p rest)) (snd (lex_all fuel p rest)).
  Proof.
    induction fuel as [|f IH]; intros p rest Hf; [lia|].
    cbn [lex_all].
    pose proof (next_token_sound (S (length rest)) p rest (Nat.lt_succ_diag_r _)) as Hn.
    destruct (next_token (S (length rest)) p rest) as [t p' rest'|e] eqn:Hnt.
    - pose proof (next_token_rest _ _ _ _ _ _ Hnt) as Hlt.
      assert (Hf' : (length rest' < f)%nat) by lia.
      specialize (IH p' rest' Hf').
      destruct (lex_all f p' rest') as [ts e]. cbn [fst snd] in *. apply Hn. exact IH.
    - cbn [fst snd]. destruct e; [exact Hn | exact Hn | destruct Hn].
  Qed.

  Theorem tokens_spec text :
      lexes pos0 text (fst (tokens text)) (snd (tokens text)).
  Proof. apply lex_all_sound. apply Nat.lt_succ_diag_r. Qed.

  (* ---- the specification is functional: it determines the stream ---- *)

  Lemma runq_app q u v : fold_left oadv (u ++ v) (Some q) = fold_left oadv v (fold_left oadv u (Some q)).
  Proof. apply fold_left_app. Qed.

  Lemma munch_unique u r q u' r' q' :
      u ++ r = u' ++ r' -> munch u r q -> munch u' r' q' -> u = u' /\ r = r' /\ q = q'.
  Proof.
    revert u' r r'. unfold munch, runq.
    assert (Hgen : forall u u' r r' q0 q q',
      u ++ r = u' ++ r' ->
      fold_left oadv u (Some q0) = Some q -> match r with [] => True | c :: _ => adv q c = None end ->
      fold_left oadv u' (Some q0) = Some q' -> match r' with [] => True | c :: _ => adv q' c = None end ->
      u = u' /\ r = r' /\ q = q').
    { clear. induction u as [|c u IH]; intros u' r r' q0 q q' Heq Hr Hm Hr' Hm'.
      - simpl in Heq, Hr. inversion Hr; subst q0. destruct u' as [|c' u'].
        + simpl in Heq, Hr'. inversion Hr'. auto.
        + simpl in Heq. subst r. simpl in Hr'. rewrite Hm in Hr'.
          rewrite fold_oadv_none in Hr'. discriminate.
      - destruct u' as [|c' u'].
        + simpl in Heq, Hr'. inversion Hr'; subst q0. subst r'. simpl in Hr. rewrite Hm' in Hr.
          rewrite fold_oadv_none in Hr. discriminate.
        + simpl in Heq. inversion Heq; subst c'. simpl in Hr, Hr'.
          destruct (adv q0 c) as [n|] eqn:Ha.
          * destruct (IH u' r r' n q q' H1 Hr Hm Hr' Hm') as [-> [-> ->]]. auto.
          * rewrite fold_oadv_none in Hr. discriminate. }
    intros u' r r' Heq [Hr Hm] [Hr' Hm']. eapply Hgen; eauto.
  Qed.

  Theorem lexes_functional : forall p w ts e,
      lexes p w ts e -> forall ts' e', lexes p w ts' e' -> ts = ts' /\ e = e'.
  Proof.
    intros p w ts e H. induction H as
      [p | p u r q k m ts e Hne Hm He Hu Hl IH
         | p u r q ts e Hne Hm He Hu Hl IH
         | p u r q Hne Hm He]; intros ts' e' H'.
    - inversion H'; subst; auto; try (exfalso; match goal with H : _ ++ _ = [] |- _ => apply app_eq_nil in H as [-> ->]; congruence end).
    - remember (u ++ r) as w eqn:Hw. destruct H' as
        [p | p u' r' q' k' m' ts' e' Hne' Hm' He' Hu' Hl'
           | p u' r' q' ts' e' Hne' Hm' He' Hu' Hl'
           | p u' r' q' Hne' Hm' He'].
      + symmetry in Hw. apply app_eq_nil in Hw as [-> ->]. congruence.
      + destruct (munch_unique _ _ _ _ _ _ (eq_sym Hw) Hm Hm') as [-> [-> ->]].
        rewrite He in He'. inversion He'; subst k' m'.
        destruct (IH _ _ Hl') as [-> ->]. auto.
      + destruct (munch_unique _ _ _ _ _ _ (eq_sym Hw) Hm Hm') as [-> [-> ->]]. congruence.
      + destruct (munch_unique _ _ _ _ _ _ (eq_sym Hw) Hm Hm') as [-> [-> ->]]. congruence.
    - remember (u ++ r) as w eqn:Hw. destruct H' as
        [p | p u' r' q' k' m' ts' e' Hne' Hm' He' Hu' Hl'
           | p u' r' q' ts' e' Hne' Hm' He' Hu' Hl'
           | p u' r' q' Hne' Hm' He'].
      + symmetry in Hw. apply app_eq_nil in Hw as [-> ->]. congruence.
      + destruct (munch_unique _ _ _ _ _ _ (eq_sym Hw) Hm Hm') as [-> [-> ->]]. congruence.
      + destruct (munch_unique _ _ _ _ _ _ (eq_sym Hw) Hm Hm') as [-> [-> ->]].
        apply (IH _ _ Hl').
      + destruct (munch_unique _ _ _ _ _ _ (eq_sym Hw) Hm Hm') as [-> [-> ->]]. congruence.
    - remember (u ++ r) as w eqn:Hw. destruct H' as
        [p | p u' r' q' k' m' ts' e' Hne' Hm' He' Hu' Hl'
           | p u' r' q' ts' e' Hne' Hm' He' Hu' Hl'
           | p u' r' q' Hne' Hm' He'].
      + symmetry in Hw. apply app_eq_nil in Hw as [-> ->]. congruence.
      + destruct (munch_unique _ _ _ _ _ _ (eq_sym Hw) Hm Hm') as [-> [-> ->]]. congruence.
      + destruct (munch_unique _ _ _ _ _ _ (eq_sym Hw) Hm Hm') as [-> [-> ->]]. congruence.
      + destruct (munch_unique _ _ _ _ _ _ (eq_sym Hw) Hm Hm') as [-> [-> ->]]. auto.
  Qed.
End Scan.

(* ---- the specification only depends on the automaton up to labelled bisimulation ---- *)
Section Transfer.
  Variables adv1 adv2 : N -> N -> option N.
  Variables cls1 cls2 : N -> cls_t.

  Hypothesis bisim : forall u,
      match runq adv1 0 u, runq adv2 0 u with
      | Some q1, Some q2 => cls1 q1 = cls2 q2
      | None, None => True
      | _, _ => False
      end.

  Lemma munch_transfer u r q1 :
      munch adv1 u r q1 -> exists q2, munch adv2 u r q2 /\ cls1 q1 = cls2 q2.
  Proof.
    intros [Hr Hmax]. pose proof (bisim u) as Hb. rewrite Hr in Hb.
    destruct (runq adv2 0 u) as [q2|] eqn:Hr2; [|destruct Hb].
    exists q2. split; [|exact Hb]. split; [exact Hr2|].
    destruct r as [|c r]; [exact I|].
    pose proof (bisim (u ++ [c])) as Hb'. unfold runq in Hb'. rewrite !fold_left_app in Hb'.
    unfold runq in Hr, Hr2. rewrite Hr, Hr2 in Hb'. simpl in Hb'. rewrite Hmax in Hb'.
    destruct (adv2 q2 c); [destruct Hb' | reflexivity].
  Qed.

  Theorem lexes_transfer p w ts e : lexes adv1 cls1 p w ts e -> lexes adv2 cls2 p w ts e.
  Proof.
    intros H. induction H as
      [p | p u r q k m ts e Hne Hm He Hu Hl IH
         | p u r q ts e Hne Hm He Hu Hl IH
         | p u r q Hne Hm He].
    - constructor.
    - destruct (munch_transfer _ _ _ Hm) as [q2 [Hm2 Hc]]. eapply L_tok; eauto. congruence.
    - destruct (munch_transfer _ _ _ Hm) as [q2 [Hm2 Hc]]. eapply L_skip; eauto. congruence.
    - destruct (munch_transfer _ _ _ Hm) as [q2 [Hm2 Hc]]. eapply L_err; eauto. congruence.
  Qed.
End Transfer.

(* ---- boolean equalities (used by the reflection checks and by the correspondence cases) ---- *)
Fixpoint nlist_eqb (a b : list N) : bool :=
  match a, b with
  | [], [] => true
  | x :: a', y :: b' => (x =? y) && nlist_eqb a' b'
  | _, _ => false
  end.

Lemma nlist_eqb_spec a : forall b, nlist_eqb a b = true <-> a = b.
Proof.
  induction a as [|x a IH]; destruct b as [|y b]; simpl; split; intros H; try discriminate; try reflexivity.
  - apply andb_prop in H as [H1 H2]. apply N.eqb_eq in H1. apply IH in H2. subst. reflexivity.
  - inversion H; subst. rewrite N.eqb_refl. simpl. apply IH. reflexivity.
Qed.

Definition lexmode_eqb (a b : lexmode) : bool :=
  match a, b with
  | Fixed s, Fixed t => nlist_eqb s t
  | Whole, Whole => true
  | Strip1, Strip1 => true
  | TrimCut c, TrimCut d => c =? d
  | _, _ => false
  end.

Lemma lexmode_eqb_spec a b : lexmode_eqb a b = true <-> a = b.
Proof.
  destruct a, b; simpl; split; intros H; try discriminate; try reflexivity.
  - apply nlist_eqb_spec in H. subst. reflexivity.
  - inversion H. apply nlist_eqb_spec. reflexivity.
  - apply N.eqb_eq in H. subst. reflexivity.
  - inversion H. apply N.eqb_refl.
Qed.

Definition cls_eqb (a b : cls_t) : bool :=
  match a, b with
  | CTok k m, CTok k' m' => String.eqb k k' && lexmode_eqb m m'
  | CSkip, CSkip => true
  | CErr, CErr => true
  | _, _ => false
  end.

Lemma cls_eqb_spec a b : cls_eqb a b = true <-> a = b.
Proof.
  destruct a, b; simpl; split; intros H; try discriminate; try reflexivity.
  - apply andb_prop in H as [H1 H2]. apply String.eqb_eq in H1. apply lexmode_eqb_spec in H2. subst. reflexivity.
  - inversion H; subst. rewrite String.eqb_refl. simpl. apply lexmode_eqb_spec. reflexivity.
Qed.

Definition pos_eqb (a b : pos) : bool :=
  (p_off a =? p_off b) && (p_line a =? p_line b) && (p_col a =? p_col b).

Definition token_eqb (a b : token) : bool :=
  String.eqb (t_kind a) (t_kind b) && nlist_eqb (t_lexeme a) (t_lexeme b) && pos_eqb (t_pos a) (t_pos b).

Fixpoint tokens_eqb (a b : list token) : bool :=
  match a, b with
  | [], [] => true
  | x :: a', y :: b' => token_eqb x y && tokens_eqb a' b'
  | _, _ => false
  end.

Definition ending_eqb (a b : ending) : bool :=
  match a, b with
  | EndEOF, EndEOF => true
  | EndError p u, EndError q v => pos_eqb p q && nlist_eqb u v
  | EndDiverge, EndDiverge => true
  | _, _ => false
  end.

Definition mk_tok (k : string) (lx : list N) (o l c : N) : token :=
  {| t_kind := k; t_lexeme := lx; t_pos := {| p_off := o; p_line := l; p_col := c |} |}.
Definition mk_err (o l c : N) (lx : list N) : ending := EndError {| p_off := o; p_line := l; p_col := c |} lx.

(* indices of the cases on which [f] disagrees with the recorded observation *)
Fixpoint mismatches {A} (f : A -> bool) (i : N) (cases : list A) : list N :=
  match cases with
  | [] => []
  | c :: t => if f c then mismatches f (i + 1) t else i :: mismatches f (i + 1) t
  end.
