(* PEG parser combinators over lists of code points, mirroring the primitives of
   moorara/algo/parser/combinator that emerge's pattern grammar is written with
   (ExpectRune, ExpectRuneIn, ExpectRuneInRange, ExpectString, CONCAT, ALT (ordered
   choice), OPT, REP1, Map, Bind/ExcludeRunes), each with a soundness lemma w.r.t. a
   printer: whatever a parser returns, the consumed prefix is exactly the print of
   the result. *)
From Coq Require Import List Bool NArith Lia.
Import ListNotations.
Local Open Scope N_scope.

Definition P (A : Type) := list N -> option (A * list N).

Definition sound {A} (p : P A) (u : A -> list N) : Prop :=
  forall s a r, p s = Some (a, r) -> s = u a ++ r.

(* every success consumes at least one code point *)
Definition progress {A} (p : P A) : Prop :=
  forall s a r, p s = Some (a, r) -> (length r < length s)%nat.

Definition p_sat (f : N -> bool) : P N :=
  fun s => match s with c :: t => if f c then Some (c, t) else None | [] => None end.

Lemma sound_sat f : sound (p_sat f) (fun c => [c]).
Proof. intros [|c t] a r H; simpl in H; [discriminate|]. destruct (f c); inversion H; subst. reflexivity. Qed.

Lemma progress_sat f : progress (p_sat f).
Proof. intros [|c t] a r H; simpl in H; [discriminate|]. destruct (f c); inversion H; subst. simpl. lia. Qed.

Definition p_chr (c : N) : P N := p_sat (N.eqb c).
Definition p_range (lo hi : N) : P N := p_sat (fun c => (lo <=? c) && (c <=? hi)).
Definition p_in (l : list N) : P N := p_sat (fun c => existsb (N.eqb c) l).

Lemma p_chr_val c s a r : p_chr c s = Some (a, r) -> a = c.
Proof. destruct s as [|x t]; simpl; [discriminate|]. destruct (N.eqb_spec c x); intros H; inversion H; subst; reflexivity. Qed.

(* ExpectString *)
Fixpoint p_str (l : list N) : P unit :=
  fun s => match l with
           | [] => Some (tt, s)
           | c :: l' => match s with
                        | x :: t => if c =? x then p_str l' t else None
                        | [] => None
                        end
           end.

Lemma sound_str l : sound (p_str l) (fun _ => l).
Proof.
  induction l as [|c l IH]; intros s a r H; simpl in H.
  - inversion H; subst. reflexivity.
  - destruct s as [|x t]; [discriminate|]. destruct (N.eqb_spec c x); [|discriminate]. subst x.
    apply IH in H. simpl. f_equal. exact H.
Qed.

Lemma progress_str l : l <> [] -> progress (p_str l).
Proof.
  intros Hne s a r H. pose proof (sound_str l s a r H) as E. subst s. rewrite app_length.
  destruct l; [contradiction|]. simpl. lia.
Qed.

Definition p_seq {A B} (p : P A) (q : P B) : P (A * B) :=
  fun s => match p s with
           | Some (a, r) => match q r with Some (b, r') => Some ((a, b), r') | None => None end
           | None => None
           end.

Lemma sound_seq {A B} (p : P A) (q : P B) u v :
  sound p u -> sound q v -> sound (p_seq p q) (fun ab => u (fst ab) ++ v (snd ab)).
Proof.
  intros Hp Hq s [a b] r H. unfold p_seq in H.
  destruct (p s) as [[a' r1]|] eqn:E1; [|discriminate].
  destruct (q r1) as [[b' r2]|] eqn:E2; [|discriminate].
  inversion H; subst. simpl. rewrite <- app_assoc. rewrite <- (Hq _ _ _ E2). apply (Hp _ _ _ E1).
Qed.

Lemma progress_seq_l {A B} (p : P A) (q : P B) v :
  progress p -> sound q v -> progress (p_seq p q).
Proof.
  intros Hp Hq s [a b] r H. unfold p_seq in H.
  destruct (p s) as [[a' r1]|] eqn:E1; [|discriminate].
  destruct (q r1) as [[b' r2]|] eqn:E2; [|discriminate].
  inversion H; subst. apply Hp in E1. apply Hq in E2. subst r1. rewrite app_length in E1. lia.
Qed.

Definition p_alt {A} (p q : P A) : P A :=
  fun s => match p s with Some x => Some x | None => q s end.

Lemma sound_alt {A} (p q : P A) u : sound p u -> sound q u -> sound (p_alt p q) u.
Proof. intros Hp Hq s a r H. unfold p_alt in H. destruct (p s) eqn:E; [inversion H; subst; eauto | eauto]. Qed.

Lemma progress_alt {A} (p q : P A) : progress p -> progress q -> progress (p_alt p q).
Proof. intros Hp Hq s a r H. unfold p_alt in H. destruct (p s) eqn:E; [inversion H; subst; eauto | eauto]. Qed.

Definition p_map {A B} (f : A -> B) (p : P A) : P B :=
  fun s => match p s with Some (a, r) => Some (f a, r) | None => None end.

Lemma sound_map {A B} (f : A -> B) (p : P A) u v :
  sound p u -> (forall a, v (f a) = u a) -> sound (p_map f p) v.
Proof.
  intros Hp Hf s b r H. unfold p_map in H. destruct (p s) as [[a r1]|] eqn:E; [|discriminate].
  inversion H; subst. rewrite Hf. eauto.
Qed.

Lemma progress_map {A B} (f : A -> B) (p : P A) : progress p -> progress (p_map f p).
Proof.
  intros Hp s b r H. unfold p_map in H. destruct (p s) as [[a r1]|] eqn:E; [|discriminate].
  inversion H; subst. eauto.
Qed.

(* Bind(ExcludeRunes ...): keep the result only if it passes a test *)
Definition p_filter {A} (f : A -> bool) (p : P A) : P A :=
  fun s => match p s with Some (a, r) => if f a then Some (a, r) else None | None => None end.

Lemma sound_filter {A} (f : A -> bool) (p : P A) u : sound p u -> sound (p_filter f p) u.
Proof.
  intros Hp s a r H. unfold p_filter in H. destruct (p s) as [[a' r1]|] eqn:E; [|discriminate].
  destruct (f a'); inversion H; subst. eauto.
Qed.

Lemma progress_filter {A} (f : A -> bool) (p : P A) : progress p -> progress (p_filter f p).
Proof.
  intros Hp s a r H. unfold p_filter in H. destruct (p s) as [[a' r1]|] eqn:E; [|discriminate].
  destruct (f a'); inversion H; subst. eauto.
Qed.

Definition p_opt {A} (p : P A) : P (option A) :=
  fun s => match p s with Some (a, r) => Some (Some a, r) | None => Some (None, s) end.

Definition opt_print {A} (u : A -> list N) (o : option A) : list N :=
  match o with Some a => u a | None => [] end.

Lemma sound_opt {A} (p : P A) u : sound p u -> sound (p_opt p) (opt_print u).
Proof.
  intros Hp s o r H. unfold p_opt in H. destruct (p s) as [[a r1]|] eqn:E; inversion H; subst; simpl; eauto.
Qed.

(* REP: greedy repetition; fuel bounds the number of iterations (the input length suffices
   because every iteration consumes) *)
Fixpoint p_rep {A} (fuel : nat) (p : P A) : P (list A) :=
  fun s => match fuel with
           | O => match p s with Some _ => None (* out of fuel: reported as a failure *) | None => Some ([], s) end
           | S f => match p s with
                    | Some (a, r) => match p_rep f p r with
                                     | Some (l, r') => Some (a :: l, r')
                                     | None => None
                                     end
                    | None => Some ([], s)
                    end
           end.

Lemma sound_rep {A} fuel (p : P A) u : sound p u -> sound (p_rep fuel p) (flat_map u).
Proof.
  intros Hp. induction fuel as [|f IH]; intros s l r H; simpl in H.
  - destruct (p s); inversion H; subst. reflexivity.
  - destruct (p s) as [[a r1]|] eqn:E.
    + destruct (p_rep f p r1) as [[l' r2]|] eqn:E2; [|discriminate]. inversion H; subst.
      simpl. rewrite <- app_assoc. rewrite <- (IH _ _ _ E2). eauto.
    + inversion H; subst. reflexivity.
Qed.

Definition p_rep1 {A} (fuel : nat) (p : P A) : P (list A) :=
  fun s => match p_rep fuel p s with
           | Some (a :: l, r) => Some (a :: l, r)
           | _ => None
           end.

Lemma sound_rep1 {A} fuel (p : P A) u : sound p u -> sound (p_rep1 fuel p) (flat_map u).
Proof.
  intros Hp s l r H. unfold p_rep1 in H. destruct (p_rep fuel p s) as [[[|a l'] r1]|] eqn:E; try discriminate.
  inversion H; subst. apply (sound_rep fuel p u Hp _ _ _ E).
Qed.

Lemma progress_rep1 {A} fuel (p : P A) : progress p -> progress (p_rep1 fuel p).
Proof.
  intros Hp s l r H. unfold p_rep1 in H. destruct (p_rep fuel p s) as [[[|a l'] r1]|] eqn:E; try discriminate.
  inversion H; subst. clear H. destruct fuel as [|f]; simpl in E; [destruct (p s); inversion E|].
  destruct (p s) as [[a0 r0]|] eqn:E0; [|inversion E].
  destruct (p_rep f p r0) as [[l0 r2]|] eqn:E2; [|discriminate]. inversion E; subst.
  apply Hp in E0.
  assert (Hle : forall f s l r, p_rep f p s = Some (l, r) -> (length r <= length s)%nat).
  { clear - Hp. induction f as [|f IH]; intros s l r H; simpl in H; [destruct (p s); inversion H; subst; lia|].
    destruct (p s) as [[a r1]|] eqn:E; [|inversion H; subst; lia].
    destruct (p_rep f p r1) as [[l' r2]|] eqn:E2; [|discriminate]. inversion H; subst.
    apply Hp in E. apply IH in E2. lia. }
  apply Hle in E2. lia.
Qed.

(* REP1 with the iteration bound taken from the input (every iteration consumes) *)
Definition p_many1 {A} (p : P A) : P (list A) := fun s => p_rep1 (length s) p s.

Lemma sound_many1 {A} (p : P A) u : sound p u -> sound (p_many1 p) (flat_map u).
Proof. intros Hp s l r H. apply (sound_rep1 (length s) p u Hp s l r H). Qed.

Lemma progress_many1 {A} (p : P A) : progress p -> progress (p_many1 p).
Proof. intros Hp s l r H. apply (progress_rep1 (length s) p Hp s l r H). Qed.

(* first of a list of fixed strings, in order (ALT of ExpectString) *)
Fixpoint p_strs (l : list (list N)) : P (list N) :=
  match l with
  | [] => fun _ => None
  | x :: l' => p_alt (p_map (fun _ => x) (p_str x)) (p_strs l')
  end.

Lemma sound_strs l : sound (p_strs l) (fun x => x).
Proof.
  induction l as [|x l IH]; simpl; [intros s a r H; discriminate|].
  apply sound_alt; [|exact IH].
  apply (sound_map (fun _ => x) (p_str x) (fun _ => x) (fun y => y)); [apply sound_str | reflexivity].
Qed.
