(* From the abstract pattern (Reg/PatSem.v: the result of the mappers' reading of the concrete syntax) to the tree of the
   direct route, and the whole chain: for EVERY well-formed abstract pattern the position automaton of its tree accepts
   exactly the documented meaning of the pattern.
   A character set becomes the alternation of its characters (one leaf each), a repetition the tree quantifyNode builds,
   concatenation and alternation their two operands. *)
From Coq Require Import List Bool Arith NArith Lia.
From Verif Require Import Base.CharSet Reg.Regex Reg.PatSem Reg.Followpos Reg.FollowposQuant.
Import ListNotations.

(* the code points of an interval, ascending *)
Definition enum_iv (iv : interval) : list N :=
  let '(lo, hi) := iv in
  if (lo <=? hi)%N then map (fun i => (lo + N.of_nat i)%N) (seq 0 (N.to_nat (hi - lo) + 1)) else [].

Lemma enum_iv_spec iv c : In c (enum_iv iv) <-> in_iv iv c = true.
Proof.
  destruct iv as [lo hi]. unfold enum_iv, in_iv. simpl. destruct (lo <=? hi)%N eqn:E.
  - apply N.leb_le in E. rewrite in_map_iff, andb_true_iff, !N.leb_le. split.
    + intros [i [<- Hi]]. apply in_seq in Hi. lia.
    + intros [H1 H2]. exists (N.to_nat (c - lo)). split; [lia|]. apply in_seq. lia.
  - apply N.leb_gt in E. rewrite andb_true_iff, !N.leb_le. split; [intros [] | lia].
Qed.

Definition enum_cs (cs : charset) : list N := flat_map enum_iv cs.

Lemma enum_cs_spec cs c : In c (enum_cs cs) <-> cs_mem cs c = true.
Proof.
  unfold enum_cs, cs_mem. rewrite in_flat_map, existsb_exists. split.
  - intros [iv [Hiv H]]. exists iv. split; [exact Hiv | apply enum_iv_spec; exact H].
  - intros [iv [Hiv H]]. exists iv. split; [exact Hiv | apply enum_iv_spec; exact H].
Qed.

Fixpoint leaves (l : list N) : nodes :=
  match l with [] => NNil | c :: t => NCons (NChar c) (leaves t) end.

Lemma lang_leaves l w : lang_alt (leaves l) w <-> exists c, w = [c] /\ In c l.
Proof.
  induction l as [|a l IH]; simpl.
  - split; [intros [] | intros [c [_ []]]].
  - rewrite IH. split.
    + intros [->|[c [-> H]]]; [exists a; split; [reflexivity | left; reflexivity] | exists c; split; [reflexivity | right; exact H]].
    + intros [c [-> [->|H]]]; [left; reflexivity | right; exists c; split; [reflexivity | exact H]].
Qed.

Fixpoint tree_of (p : pat) : node :=
  match p with
  | PEps => NEmpty
  | PSet cs => NAlt (leaves (enum_cs cs))
  | PCat a b => NCat (NCons (tree_of a) (NCons (tree_of b) NNil))
  | PAlt a b => NAlt (NCons (tree_of a) (NCons (tree_of b) NNil))
  | PRep a lo hi => quantify (tree_of a) (QRange lo hi)
  end.

Lemma power_pow L L' : (forall w, L w <-> L' w) -> forall i w, power L i w <-> pow L' i w.
Proof.
  intros H i. induction i as [|i IH]; intros w; simpl; [reflexivity|]. split.
  - intros [u [v [-> [Hu Hv]]]]. exists u, v. repeat split; [apply H; exact Hu | apply IH; exact Hv].
  - intros [u [v [-> [Hu Hv]]]]. exists u, v. repeat split; [apply H; exact Hu | apply IH; exact Hv].
Qed.

(* the tree denotes the documented meaning of the pattern *)
Theorem tree_of_correct p : wf_pat p -> forall w, lang (tree_of p) w <-> doc_sem p w.
Proof.
  induction p as [|cs|a IHa b IHb|a IHa b IHb|a IHa lo hi]; intros Hwf w.
  - simpl. reflexivity.
  - simpl. rewrite lang_leaves. split; intros [c [-> H]]; exists c; (split; [reflexivity | apply enum_cs_spec; exact H]).
  - destruct Hwf as [Ha Hb]. simpl. split.
    + intros [u [v [-> [Hu [v1 [v2 [-> [Hv ->]]]]]]]]. rewrite app_nil_r. exists u, v1. repeat split; [apply IHa | apply IHb]; assumption.
    + intros [u [v [-> [Hu Hv]]]]. exists u, v. repeat split; [apply IHa; assumption|]. exists v, []. rewrite app_nil_r.
      repeat split. apply IHb; assumption.
  - destruct Hwf as [Ha Hb]. simpl. split.
    + intros [H|[H|[]]]; [left; apply IHa | right; apply IHb]; assumption.
    + intros [H|H]; [left; apply IHa | right; left; apply IHb]; assumption.
  - destruct Hwf as [Ha Hh]. change (tree_of (PRep a lo hi)) with (quantify (tree_of a) (QRange lo hi)).
    pose proof (power_pow (lang (tree_of a)) (doc_sem a) (IHa Ha)) as Hp.
    destruct hi as [h|].
    + rewrite (quantify_range (tree_of a) lo h w Hh). simpl. split.
      * intros [i [[H1 H2] H]]. exists i. repeat split; [exact H1 | exact H2 | apply Hp; exact H].
      * intros [i [H1 [H2 H]]]. exists i. repeat split; [exact H1 | exact H2 | apply Hp; exact H].
    + rewrite (quantify_at_least (tree_of a) lo w). simpl. split.
      * intros [i [H1 H]]. exists i. repeat split; [exact H1 | apply Hp; exact H].
      * intros [i [H1 [_ H]]]. exists i. split; [exact H1 | apply Hp; exact H].
Qed.

(* THE WHOLE DIRECT ROUTE, from the abstract pattern to the automaton *)
Theorem direct_route_is_the_documented_meaning p em :
  wf_pat p -> ~ In em (chars (tree_of p)) ->
  forall w, ~ In em w -> (accepts (tree_of p) em w = true <-> doc_sem p w).
Proof.
  intros Hwf Hem w Hw. rewrite (position_automaton_correct (tree_of p) em Hem w Hw). apply tree_of_correct. exact Hwf.
Qed.

(* ---- correspondence helper: structural equality modulo associativity of concatenation / alternation and one-operand nodes ---- *)
Fixpoint nodes_app (l m : nodes) : nodes :=
  match l with NNil => m | NCons x t => NCons x (nodes_app t m) end.

Fixpoint flat (n : node) : node :=
  match n with
  | NCat l => match flat_cat l with NCons x NNil => x | l' => NCat l' end
  | NAlt l => match flat_alt l with NCons x NNil => x | l' => NAlt l' end
  | NStar x => NStar (flat x)
  | other => other
  end
with flat_cat (l : nodes) : nodes :=
  match l with
  | NNil => NNil
  | NCons x t => match flat x with
                 | NCat l' => nodes_app l' (flat_cat t)
                 | x' => NCons x' (flat_cat t)
                 end
  end
with flat_alt (l : nodes) : nodes :=
  match l with
  | NNil => NNil
  | NCons x t => match flat x with
                 | NAlt l' => nodes_app l' (flat_alt t)
                 | x' => NCons x' (flat_alt t)
                 end
  end.

Definition same_tree_modulo_nesting (a b : node) : bool := node_eqb (flat a) (flat b).

(* alternatives are compared as collections (their order does not matter to any table or language) *)
Fixpoint node_sim (fuel : nat) (a b : node) : bool :=
  match fuel with
  | 0 => false
  | S f =>
    match a, b with
    | NChar c, NChar d => N.eqb c d
    | NEmpty, NEmpty => true
    | NStar x, NStar y => node_sim f x y
    | NCat l, NCat m => (fix go (l m : nodes) : bool :=
                           match l, m with
                           | NNil, NNil => true
                           | NCons x t, NCons y u => node_sim f x y && go t u
                           | _, _ => false
                           end) l m
    | NAlt l, NAlt m =>
      let fix len (l : nodes) : nat := match l with NNil => 0 | NCons _ t => S (len t) end in
      let fix has (x : node) (m : nodes) : bool := match m with NNil => false | NCons y u => node_sim f x y || has x u end in
      let fix all_in (l m : nodes) : bool := match l with NNil => true | NCons x t => has x m && all_in t m end in
      Nat.eqb (len l) (len m) && all_in l m && all_in m l
    | _, _ => false
    end
  end.

Definition same_tree (a b : node) : bool := node_sim 200 (flat a) (flat b).
