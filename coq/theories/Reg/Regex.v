(* Reference semantics of regular expressions over code points (sets of code
   points are interval lists), nullability, Antimirov partial derivatives and
   their correctness, and a boolean matcher. *)
From Coq Require Import List Bool NArith Lia.
From Verif Require Import Base.CharSet.
Import ListNotations.
Local Open Scope N_scope.

Inductive re :=
| Nul                      (* empty language *)
| Eps                      (* empty string *)
| Chr (s : charset)        (* one code point of the set *)
| Cat (a b : re)
| Alt (a b : re)
| Star (a : re).

Inductive matches : re -> list N -> Prop :=
| M_eps : matches Eps []
| M_chr s c : cs_mem s c = true -> matches (Chr s) [c]
| M_cat a b u v : matches a u -> matches b v -> matches (Cat a b) (u ++ v)
| M_altl a b u : matches a u -> matches (Alt a b) u
| M_altr a b u : matches b u -> matches (Alt a b) u
| M_star0 a : matches (Star a) []
| M_star1 a u v : matches a u -> matches (Star a) v -> matches (Star a) (u ++ v).

Fixpoint nullable (r : re) : bool :=
  match r with
  | Nul => false
  | Eps => true
  | Chr _ => false
  | Cat a b => nullable a && nullable b
  | Alt a b => nullable a || nullable b
  | Star _ => true
  end.

Lemma nullable_spec r : nullable r = true <-> matches r [].
Proof.
  induction r as [| |s|a IHa b IHb|a IHa b IHb|a IHa]; simpl.
  - split; intros H; [discriminate | inversion H].
  - split; intros H; [constructor | reflexivity].
  - split; intros H; [discriminate | inversion H].
  - split; intros H.
    + apply andb_prop in H as [Ha Hb]. change (@nil N) with (@nil N ++ []).
      constructor; [apply IHa | apply IHb]; assumption.
    + inversion H; subst.
      match goal with E : _ ++ _ = [] |- _ => apply app_eq_nil in E as [-> ->] end.
      apply andb_true_intro. split; [apply IHa | apply IHb]; assumption.
  - split; intros H.
    + apply orb_prop in H as [H|H]; [apply M_altl, IHa | apply M_altr, IHb]; exact H.
    + inversion H; subst; apply orb_true_intro; [left; apply IHa | right; apply IHb]; assumption.
  - split; intros H; [constructor | reflexivity].
Qed.

Lemma cat_inv a b s : matches (Cat a b) s -> exists u v, s = u ++ v /\ matches a u /\ matches b v.
Proof. intros H. inversion H; subst. eauto. Qed.

Lemma alt_inv a b s : matches (Alt a b) s -> matches a s \/ matches b s.
Proof. intros H. inversion H; subst; auto. Qed.

Lemma chr_inv cs s : matches (Chr cs) s -> exists c, s = [c] /\ cs_mem cs c = true.
Proof. intros H. inversion H; subst. eauto. Qed.

Lemma eps_inv s : matches Eps s -> s = [].
Proof. intros H. inversion H. reflexivity. Qed.

(* ---- syntactic equality and a (not necessarily total) order used only for canonical forms ---- *)
Fixpoint cs_eqb (a b : charset) : bool :=
  match a, b with
  | [], [] => true
  | (l1, h1) :: a', (l2, h2) :: b' => (l1 =? l2) && (h1 =? h2) && cs_eqb a' b'
  | _, _ => false
  end.

Lemma cs_eqb_spec a : forall b, cs_eqb a b = true <-> a = b.
Proof.
  induction a as [|[l1 h1] a IH]; destruct b as [|[l2 h2] b]; simpl; split; intros H; try discriminate; try reflexivity.
  - apply andb_prop in H as [H12 H3]. apply andb_prop in H12 as [H1 H2].
    apply N.eqb_eq in H1. apply N.eqb_eq in H2. apply IH in H3. subst. reflexivity.
  - inversion H; subst. rewrite !N.eqb_refl. simpl. apply IH. reflexivity.
Qed.

Fixpoint re_eqb (a b : re) : bool :=
  match a, b with
  | Nul, Nul => true
  | Eps, Eps => true
  | Chr s, Chr t => cs_eqb s t
  | Cat a1 a2, Cat b1 b2 => re_eqb a1 b1 && re_eqb a2 b2
  | Alt a1 a2, Alt b1 b2 => re_eqb a1 b1 && re_eqb a2 b2
  | Star a1, Star b1 => re_eqb a1 b1
  | _, _ => false
  end.

Lemma re_eqb_spec a : forall b, re_eqb a b = true <-> a = b.
Proof.
  induction a as [| |s|a1 IH1 a2 IH2|a1 IH1 a2 IH2|a1 IH1]; destruct b; simpl; split; intros H;
    try discriminate; try reflexivity.
  - apply cs_eqb_spec in H. subst. reflexivity.
  - inversion H. apply cs_eqb_spec. reflexivity.
  - apply andb_prop in H as [H1 H2]. apply IH1 in H1. apply IH2 in H2. subst. reflexivity.
  - inversion H; subst. apply andb_true_intro. split; [apply IH1 | apply IH2]; reflexivity.
  - apply andb_prop in H as [H1 H2]. apply IH1 in H1. apply IH2 in H2. subst. reflexivity.
  - inversion H; subst. apply andb_true_intro. split; [apply IH1 | apply IH2]; reflexivity.
  - apply IH1 in H. subst. reflexivity.
  - inversion H; subst. apply IH1. reflexivity.
Qed.

Fixpoint re_size (r : re) : N :=
  match r with
  | Nul | Eps => 1
  | Chr s => 1 + N.of_nat (length s)
  | Cat a b | Alt a b => 1 + re_size a + re_size b
  | Star a => 1 + re_size a
  end.

(* cheap pre-order for canonical ordering of sets: by size; ties keep insertion order *)
Definition re_leb (a b : re) : bool := re_size a <=? re_size b.

(* insertion into a set kept sorted by re_leb, without duplicates (syntactic) *)
Fixpoint rs_insert (x : re) (l : list re) : list re :=
  match l with
  | [] => [x]
  | h :: t => if re_eqb x h then l
              else if re_leb x h && negb (re_leb h x) then x :: l
              else h :: rs_insert x t
  end.

Lemma rs_insert_In x l y : In y (rs_insert x l) <-> y = x \/ In y l.
Proof.
  induction l as [|h t IH]; simpl.
  - split; [intros [H|[]]; auto | intros [H|[]]; auto].
  - destruct (re_eqb x h) eqn:E.
    + apply re_eqb_spec in E. subst h. simpl. split; [intros [H|H]; auto | intros [H|[H|H]]; auto].
    + destruct (re_leb x h && negb (re_leb h x)); simpl.
      * split; [intros [H|[H|H]]; auto | intros [H|[H|H]]; auto].
      * rewrite IH. split; [intros [H|[H|H]]; auto | intros [H|[H|H]]; auto].
Qed.

Definition rs_norm (l : list re) : list re := fold_right rs_insert [] l.

Lemma rs_norm_In l y : In y (rs_norm l) <-> In y l.
Proof.
  induction l as [|h t IH]; simpl; [tauto|].
  rewrite rs_insert_In, IH. split; [intros [H|H]; auto | intros [H|H]; auto].
Qed.

(* ---- partial derivatives ---- *)
Definition mkCat (a b : re) : re :=
  match a with
  | Eps => b
  | _ => Cat a b
  end.

Lemma mkCat_spec a b s : matches (mkCat a b) s <-> matches (Cat a b) s.
Proof.
  destruct a; simpl; try tauto. split; intros H.
  - change s with ([] ++ s). constructor; [constructor | exact H].
  - apply cat_inv in H as [u [v [-> [Hu Hv]]]]. apply eps_inv in Hu. subst. exact Hv.
Qed.

Fixpoint pd (c : N) (r : re) : list re :=
  match r with
  | Nul => []
  | Eps => []
  | Chr s => if cs_mem s c then [Eps] else []
  | Cat a b => map (fun a' => mkCat a' b) (pd c a) ++ (if nullable a then pd c b else [])
  | Alt a b => pd c a ++ pd c b
  | Star a => map (fun a' => mkCat a' (Star a)) (pd c a)
  end.

Lemma star_cons_inv a c s :
  matches (Star a) (c :: s) ->
  exists s1 s2, s = s1 ++ s2 /\ matches a (c :: s1) /\ matches (Star a) s2.
Proof.
  intros H. remember (Star a) as r eqn:Hr. remember (c :: s) as w eqn:Hw.
  revert c s Hw. induction H as [| | | | | |a' u v Hu _ Hv IHv]; try discriminate.
  inversion Hr; subst a'. intros c s Hw.
  destruct u as [|c' u].
  - simpl in Hw. apply (IHv eq_refl c s Hw).
  - simpl in Hw. inversion Hw; subst. exists u, v. auto.
Qed.

Lemma pd_spec r : forall c s, matches r (c :: s) <-> exists r', In r' (pd c r) /\ matches r' s.
Proof.
  induction r as [| |cs|a IHa b IHb|a IHa b IHb|a IHa]; intros c s; simpl.
  - split; [intros H; inversion H | intros [r' [[] _]]].
  - split; [intros H; inversion H | intros [r' [[] _]]].
  - split.
    + intros H. apply chr_inv in H as [c' [Heq Hm]]. inversion Heq; subst c' s. rewrite Hm.
      exists Eps. split; [left; reflexivity | constructor].
    + intros [r' [Hin Hm]]. destruct (cs_mem cs c) eqn:E; [|destruct Hin].
      destruct Hin as [<-|[]]. apply eps_inv in Hm. subst. constructor. exact E.
  - split.
    + intros H. apply cat_inv in H as [u [v [Heq [Hu Hv]]]].
      destruct u as [|c' u].
      * simpl in Heq. subst v.
        apply nullable_spec in Hu. rewrite Hu.
        apply IHb in Hv as [r' [Hin Hm]]. exists r'. split; [apply in_or_app; right; exact Hin | exact Hm].
      * simpl in Heq. inversion Heq; subst c' s.
        apply IHa in Hu as [r' [Hin Hm]]. exists (mkCat r' b). split.
        -- apply in_or_app. left. apply in_map_iff. exists r'. auto.
        -- apply mkCat_spec. constructor; assumption.
    + intros [r' [Hin Hm]]. apply in_app_or in Hin as [Hin|Hin].
      * apply in_map_iff in Hin as [a' [<- Hin]]. apply mkCat_spec in Hm.
        apply cat_inv in Hm as [u [v [-> [Hu Hv]]]].
        change (c :: u ++ v) with ((c :: u) ++ v). constructor; [|exact Hv].
        apply IHa. exists a'. auto.
      * destruct (nullable a) eqn:E; [|destruct Hin].
        change (c :: s) with ([] ++ c :: s). constructor; [apply nullable_spec; exact E|].
        apply IHb. exists r'. auto.
  - split.
    + intros H. apply alt_inv in H as [H|H].
      * apply IHa in H as [r' [Hin Hm]]. exists r'. split; [apply in_or_app; left; exact Hin | exact Hm].
      * apply IHb in H as [r' [Hin Hm]]. exists r'. split; [apply in_or_app; right; exact Hin | exact Hm].
    + intros [r' [Hin Hm]]. apply in_app_or in Hin as [Hin|Hin].
      * apply M_altl. apply IHa. exists r'. auto.
      * apply M_altr. apply IHb. exists r'. auto.
  - split.
    + intros H. apply star_cons_inv in H as [s1 [s2 [-> [H1 H2]]]].
      apply IHa in H1 as [r' [Hin Hm]]. exists (mkCat r' (Star a)). split.
      * apply in_map_iff. exists r'. auto.
      * apply mkCat_spec. constructor; assumption.
    + intros [r' [Hin Hm]]. apply in_map_iff in Hin as [a' [<- Hin]]. apply mkCat_spec in Hm.
      apply cat_inv in Hm as [u [v [-> [Hu Hv]]]].
      change (c :: u ++ v) with ((c :: u) ++ v). apply M_star1; [|exact Hv].
      apply IHa. exists a'. auto.
Qed.

(* ---- sets of partial derivatives ---- *)
Definition rset := list re.
Definition rs_matches (S : rset) (s : list N) : Prop := exists r, In r S /\ matches r s.
Definition rs_nullable (S : rset) : bool := existsb nullable S.
Definition rs_step (S : rset) (c : N) : rset := rs_norm (flat_map (pd c) S).
Definition rs_run (S : rset) (w : list N) : rset := fold_left rs_step w S.

Lemma rs_nullable_spec S : rs_nullable S = true <-> rs_matches S [].
Proof.
  unfold rs_nullable, rs_matches. rewrite existsb_exists. split; intros [r [Hin H]]; exists r;
    (split; [exact Hin|]); apply nullable_spec; exact H.
Qed.

Lemma rs_step_spec S c s : rs_matches (rs_step S c) s <-> rs_matches S (c :: s).
Proof.
  unfold rs_matches, rs_step. split.
  - intros [r' [Hin Hm]]. apply (proj1 (rs_norm_In _ _)) in Hin. apply in_flat_map in Hin as [r [Hr Hin]].
    exists r. split; [exact Hr|]. apply pd_spec. exists r'. auto.
  - intros [r [Hr Hm]]. apply pd_spec in Hm as [r' [Hin Hm]]. exists r'. split; [|exact Hm].
    apply rs_norm_In. apply in_flat_map. exists r. auto.
Qed.

Lemma rs_run_spec w : forall S s, rs_matches (rs_run S w) s <-> rs_matches S (w ++ s).
Proof.
  induction w as [|c w IH]; intros S s; simpl; [tauto|].
  rewrite IH. apply rs_step_spec.
Qed.

Definition matchb (r : re) (w : list N) : bool := rs_nullable (rs_run [r] w).

Theorem matchb_spec r w : matchb r w = true <-> matches r w.
Proof.
  unfold matchb. rewrite rs_nullable_spec, rs_run_spec, app_nil_r. unfold rs_matches. split.
  - intros [r' [[<-|[]] H]]. exact H.
  - intros H. exists r. split; [left; reflexivity | exact H].
Qed.

(* ---- atoms: partial derivatives only look at a code point through the charsets of r ---- *)
Fixpoint re_bounds (r : re) : list N :=
  match r with
  | Nul | Eps => []
  | Chr s => cs_bounds s
  | Cat a b | Alt a b => re_bounds a ++ re_bounds b
  | Star a => re_bounds a
  end.

Lemma pd_rep B r : forall c, incl (re_bounds r) B -> pd c r = pd (rep B c) r.
Proof.
  induction r as [| |s|a IHa b IHb|a IHa b IHb|a IHa]; intros c Hi; simpl in *; try reflexivity.
  - rewrite (cs_mem_rep B s c); [reflexivity|].
    apply (cs_covered_incl (cs_bounds s)); [exact Hi | apply cs_covered_self].
  - rewrite (IHa c), (IHb c); [reflexivity | |]; intros x Hx; apply Hi; apply in_or_app; auto.
  - rewrite (IHa c), (IHb c); [reflexivity | |]; intros x Hx; apply Hi; apply in_or_app; auto.
  - rewrite (IHa c); [reflexivity | exact Hi].
Qed.

Definition rs_bounds (S : rset) : list N := flat_map re_bounds S.

(* Partial derivatives never introduce new charsets. *)
Lemma mkCat_bounds a b : incl (re_bounds (mkCat a b)) (re_bounds a ++ re_bounds b).
Proof. destruct a; simpl; intros x Hx; auto. Qed.

Lemma pd_bounds r : forall c r', In r' (pd c r) -> incl (re_bounds r') (re_bounds r).
Proof.
  induction r as [| |s|a IHa b IHb|a IHa b IHb|a IHa]; intros c r' Hin; simpl in *.
  - destruct Hin.
  - destruct Hin.
  - destruct (cs_mem s c); [|destruct Hin]. destruct Hin as [<-|[]]. intros x [].
  - apply in_app_or in Hin as [Hin|Hin].
    + apply in_map_iff in Hin as [a' [<- Hin]]. specialize (IHa c a' Hin).
      intros x Hx. apply mkCat_bounds in Hx. apply in_app_or in Hx as [Hx|Hx]; apply in_or_app; auto.
    + destruct (nullable a); [|destruct Hin]. intros x Hx. apply in_or_app. right. apply (IHb c r' Hin x Hx).
  - apply in_app_or in Hin as [Hin|Hin]; intros x Hx; apply in_or_app; [left; apply (IHa c r' Hin x Hx) | right; apply (IHb c r' Hin x Hx)].
  - apply in_map_iff in Hin as [a' [<- Hin]]. specialize (IHa c a' Hin).
    intros x Hx. apply mkCat_bounds in Hx. simpl in Hx. apply in_app_or in Hx as [Hx|Hx]; auto.
Qed.

Lemma rs_step_bounds S c : incl (rs_bounds (rs_step S c)) (rs_bounds S).
Proof.
  unfold rs_bounds, rs_step. intros x Hx. apply in_flat_map in Hx as [r' [Hin Hx]].
  apply (proj1 (rs_norm_In _ _)) in Hin. apply in_flat_map in Hin as [r [Hr Hin]].
  apply in_flat_map. exists r. split; [exact Hr|]. apply (pd_bounds r c r' Hin x Hx).
Qed.

Lemma rs_step_rep B S c : incl (rs_bounds S) B -> rs_step S c = rs_step S (rep B c).
Proof.
  intros Hi. unfold rs_step. f_equal.
  induction S as [|r S IH]; simpl; [reflexivity|].
  rewrite (pd_rep B r c).
  - rewrite IH; [reflexivity|]. intros x Hx. apply Hi. unfold rs_bounds. simpl. apply in_or_app. right. exact Hx.
  - intros x Hx. apply Hi. unfold rs_bounds. simpl. apply in_or_app. left. exact Hx.
Qed.
