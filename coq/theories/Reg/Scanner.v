(* The combined scanner automaton: which terminal must own the state reached on a text.
   [winner] is the documented rule (the only matching definition; the literal when exactly one literal
   is among several matching definitions; otherwise a conflict).  [scanner_ok] instantiates the certified
   product check of Reg/EquivCheck.v; [scanner_check_sound] is its meaning for ALL texts. *)
From Coq Require Import List Bool Arith NArith Lia.
From Verif Require Import Base.CharSet Reg.Dfa Reg.Regex Reg.EquivCheck Reg.PatSem.
Import ListNotations.
Local Open Scope N_scope.

(* ---- string literals ---- *)
Fixpoint unescape (cs : list N) : list N :=
  match cs with
  | 92 :: c :: t => c :: unescape t          (* a backslash escapes the next character *)
  | c :: t => c :: unescape t
  | [] => []
  end.

Definition lit_re (cs : list N) : re := cat_list (map (fun c => Chr [(c, c)]) (unescape cs)).

Lemma chars_re_spec l : forall w, matches (cat_list (map (fun c => Chr [(c, c)]) l)) w <-> w = l.
Proof.
  induction l as [|c l IH]; intros w.
  - simpl. split; [apply eps_inv | intros ->; constructor].
  - change (map (fun c0 => Chr [(c0, c0)]) (c :: l)) with (Chr [(c, c)] :: map (fun c0 => Chr [(c0, c0)]) l).
    rewrite cat_list_cons. split.
    + intros [u [v [-> [Hu Hv]]]]. apply chr_inv in Hu as [x [-> Hx]]. apply IH in Hv. subst.
      unfold cs_mem, in_iv in Hx. simpl in Hx. rewrite orb_false_r in Hx.
      apply andb_prop in Hx as [H1 H2]. apply N.leb_le in H1. apply N.leb_le in H2.
      assert (x = c) by lia. subst. reflexivity.
    + intros ->. exists [c], l. repeat split.
      * constructor. unfold cs_mem, in_iv. simpl. rewrite N.leb_refl. reflexivity.
      * apply IH. reflexivity.
Qed.

(* a string literal denotes its own characters, with backslash escapes resolved *)
Theorem literal_denotation cs w : matches (lit_re cs) w <-> w = unescape cs.
Proof. apply chars_re_spec. Qed.

(* ---- the ownership rule ---- *)
Inductive verdict := VNone | VOwner (i : nat) | VConflict.

(* lits: which definitions are string literals; v: which definitions match the text *)
Definition matching (v : list bool) : list nat :=
  flat_map (fun p : nat * bool => if snd p then [fst p] else []) (combine (seq 0 (length v)) v).

Definition winner (lits : list bool) (v : list bool) : verdict :=
  match matching v with
  | [] => VNone
  | [i] => VOwner i
  | m => match filter (fun i => nth i lits false) m with
         | [i] => VOwner i
         | _ => VConflict
         end
  end.

(* term_map: for each definition index, the accepting states attributed to it *)
Definition owners (tm : list (list N)) (q : N) : list nat :=
  flat_map (fun p : nat * list N => if nmem q (snd p) then [fst p] else []) (combine (seq 0 (length tm)) tm).

Definition okp_scanner (lits : list bool) (finals : list N) (tm : list (list N)) (oq : option N) (v : list bool) : bool :=
  match winner lits v with
  | VNone => match oq with Some q => negb (nmem q finals) && match owners tm q with [] => true | _ => false end | None => true end
  | VOwner i => match oq with
                | Some q => nmem q finals && match owners tm q with [j] => Nat.eqb i j | _ => false end
                | None => false
                end
  | VConflict => false
  end.

Definition fuel : nat := N.to_nat 400000.

Definition scanner_ok (d : dfa) (finals : list N) (tm : list (list N)) (lits : list bool) (rs : list re) : bool :=
  Nat.eqb (length lits) (length rs) && Nat.eqb (length tm) (length rs) &&
  prod_check d rs (okp_scanner lits finals tm) fuel.

Theorem scanner_check_sound d finals tm lits rs :
  scanner_ok d finals tm lits rs = true ->
  forall w,
    let v := map (fun r => matchb r w) rs in
    match winner lits v with
    | VNone => accepts d finals w = false
    | VOwner i => accepts d finals w = true /\ exists q, run d w = Some q /\ owners tm q = [i]
    | VConflict => False
    end.
Proof.
  unfold scanner_ok. intros H w. apply andb_prop in H as [_ H].
  pose proof (prod_check_sound d rs (okp_scanner lits finals tm) fuel H w) as Hw. clear H. unfold okp_scanner in Hw. unfold accepts.
  cbv zeta. destruct (winner lits (map (fun r => matchb r w) rs)) as [|i|].
  - destruct (run d w) as [q|]; [|reflexivity]. apply andb_prop in Hw as [Hq _]. apply negb_true_iff in Hq. exact Hq.
  - destruct (run d w) as [q|]; [|discriminate Hw]. apply andb_prop in Hw as [Hq Ho].
    split; [exact Hq|]. exists q. split; [reflexivity|].
    destruct (owners tm q) as [|j [|k t]]; try discriminate Ho. apply Nat.eqb_eq in Ho. subst. reflexivity.
  - discriminate Hw.
Qed.

(* ---- conflicts: a text matched by several definitions with no single literal to break the tie ---- *)
Definition okp_noconflict (lits : list bool) (_ : option N) (v : list bool) : bool :=
  match winner lits v with VConflict => false | _ => true end.

Definition dummy_dfa : dfa := {| d_start := 0; d_edges := [] |}.

(* no text is in conflict (certified, all texts) *)
Definition conflict_free (lits : list bool) (rs : list re) : bool :=
  prod_check dummy_dfa rs (okp_noconflict lits) fuel.

Theorem conflict_free_sound lits rs :
  conflict_free lits rs = true -> forall w, winner lits (map (fun r => matchb r w) rs) <> VConflict.
Proof.
  unfold conflict_free. intros H w.
  pose proof (prod_check_sound dummy_dfa rs (okp_noconflict lits) fuel H w) as Hw. clear H.
  unfold okp_noconflict in Hw. intros E. rewrite E in Hw. discriminate Hw.
Qed.

(* a concrete conflicting text (found by search, then verified by evaluation) *)
Definition conflict_witness (lits : list bool) (rs : list re) : option (list N) :=
  match witness dummy_dfa rs (okp_noconflict lits) fuel with
  | Some w => match winner lits (map (fun r => matchb r w) rs) with VConflict => Some w | _ => None end
  | None => None
  end.

Theorem conflict_witness_sound lits rs w :
  conflict_witness lits rs = Some w -> winner lits (map (fun r => matchb r w) rs) = VConflict.
Proof.
  unfold conflict_witness. destruct (witness _ _ _ _) as [w0|]; [|discriminate].
  destruct (winner lits (map (fun r => matchb r w0) rs)) eqn:E; try discriminate.
  intros H. inversion H; subst. exact E.
Qed.
