(* Layout invariance at the scanner (C13): inserting a blank-class character between two lexemes (after a lexeme that the
   character cannot extend, or at the very beginning) does not change the sequence of token kinds and lexemes, nor the kind
   of ending — for EVERY text.  Generic in the automaton; the side conditions are a boolean check on the transition table
   (discharged by computation for the scanner translated from lexer.go). *)
From Coq Require Import List Bool NArith Lia String.
From Verif Require Import Reg.Dfa Reg.MaxMunch.
Import ListNotations.
Local Open Scope N_scope.

Section Layout.
  Variable adv : N -> N -> option N.
  Variable cls : N -> cls_t.
  Variable b : N.            (* the inserted character *)
  Variable w : N.            (* the state of a run of such characters *)

  (* side conditions *)
  Hypothesis start_b : adv 0 b = Some w.
  Hypothesis w_skip : cls w = CSkip.
  Hypothesis w_closed : forall c x, adv w c = Some x -> x = w /\ adv 0 c = Some w.    (* from w only w-class characters, staying in w *)
  Hypothesis w_loop : forall c, adv 0 c = Some w -> adv w c = Some w.

  Notation lexes := (lexes adv cls).
  Notation munch := (munch adv).
  Notation runq := (runq adv).

  Definition proj (ts : list token) : list (string * list N) := map (fun t => (t_kind t, t_lexeme t)) ts.
  Definition ekind (e : ending) : N := match e with EndEOF => 0 | EndError _ _ => 1 | EndDiverge => 2 end.

  (* the result does not depend on the starting position (positions only label tokens and the error) *)
  Lemma lexes_reposition p r ts e : lexes p r ts e ->
    forall p', exists ts' e', lexes p' r ts' e' /\ proj ts' = proj ts /\ ekind e' = ekind e.
  Proof.
    induction 1 as [p|p u r q k m ts e Hne Hm Hc Hu Hl IH|p u r q ts e Hne Hm Hc Hu Hl IH|p u r q Hne Hm Hc]; intros p'.
    - exists [], EndEOF. repeat split. constructor.
    - destruct (IH (pos_adv p' u)) as [ts' [e' [H1 [H2 H3]]]].
      exists ({| t_kind := k; t_lexeme := apply_mode m u; t_pos := p' |} :: ts'), e'.
      split; [eapply L_tok; eassumption|]. split; [simpl; rewrite H2; reflexivity | exact H3].
    - destruct (IH (pos_adv p' u)) as [ts' [e' [H1 [H2 H3]]]].
      exists ts', e'. split; [eapply L_skip; eassumption|]. split; assumption.
    - exists [], (EndError p' u). split; [eapply L_err; eassumption|]. split; reflexivity.
  Qed.

  Lemma runq_w u : forall q, runq w u = Some q -> q = w.
  Proof.
    induction u as [|c u IH]; intros q H; simpl in H.
    - unfold MaxMunch.runq in H. simpl in H. congruence.
    - unfold MaxMunch.runq in *. simpl in H. destruct (adv w c) as [x|] eqn:E.
      + destruct (w_closed c x E) as [-> _]. apply IH. exact H.
      + simpl in H. rewrite fold_oadv_none in H. discriminate H.
  Qed.

  Lemma lexes_nil p ts e : lexes p [] ts e -> ts = [] /\ e = EndEOF.
  Proof.
    intros H. remember [] as t eqn:Et. destruct H; try (split; reflexivity); exfalso; auto.
  Qed.

  (* one character of the class in front of any text *)
  Lemma insert_in_front p r ts e : lexes p r ts e ->
    forall p', exists ts' e', lexes p' (b :: r) ts' e' /\ proj ts' = proj ts /\ ekind e' = ekind e.
  Proof.
    intros H p'. destruct r as [|c r1].
    - (* the text ends here *)
      destruct (lexes_nil _ _ _ H) as [-> ->].
      exists [], EndEOF. split; [|split; reflexivity].
      change [b] with ([b] ++ []). eapply L_skip with (q := w); try discriminate.
      + split; [unfold MaxMunch.runq; simpl; rewrite start_b; reflexivity | exact I].
      + exact w_skip.
      + constructor.
    - destruct (adv 0 c) as [x|] eqn:E0.
      + destruct (N.eq_dec x w) as [->|Hx].
        * (* c is of the class: the character joins the run that follows *)
          assert (Hrunw : forall u' q, fold_left (oadv adv) u' (Some w) = Some q -> q = w) by (intros u' q0 Hq0; apply (runq_w u' q0 Hq0)).
          inversion H; subst.
          -- (* a token cannot start with a character of the class *)
             exfalso. destruct u as [|c' u']; [contradiction|]. simpl in H0. injection H0 as -> Hr.
             destruct H2 as [Hrun _]. unfold MaxMunch.runq in Hrun. simpl in Hrun. rewrite E0 in Hrun.
             pose proof (Hrunw u' q Hrun). subst q. congruence.
          -- destruct u as [|c' u']; [contradiction|]. simpl in H0. injection H0 as -> Hr. subst r1.
             destruct H2 as [Hrun Hdead].
             destruct (lexes_reposition _ _ _ _ H6 (pos_adv p' (b :: c :: u'))) as [ts' [e' [G1 [G2 G3]]]].
             exists ts', e'. split; [|split; assumption].
             change (lexes p' ((b :: c :: u') ++ r) ts' e').
             eapply L_skip with (q := q); try discriminate; try assumption.
             split; [|exact Hdead]. unfold MaxMunch.runq in *. simpl in *. rewrite start_b. simpl.
             rewrite E0 in Hrun. rewrite (w_loop c E0). exact Hrun.
          -- exfalso. destruct u as [|c' u'].
             ++ destruct H2 as [Hrun Hdead]. unfold MaxMunch.runq in Hrun. simpl in Hrun. injection Hrun as <-.
                simpl in H0. subst r. simpl in Hdead. congruence.
             ++ simpl in H0. injection H0 as -> Hr. destruct H2 as [Hrun _]. unfold MaxMunch.runq in Hrun. simpl in Hrun.
                rewrite E0 in Hrun. pose proof (Hrunw u' q Hrun). subst q. congruence.
        * (* c starts something else: the character is a lexeme of its own *)
          destruct (lexes_reposition _ _ _ _ H (pos_adv p' [b])) as [ts' [e' [H1 [H2 H3]]]].
          exists ts', e'. split; [|split; assumption].
          change (b :: c :: r1) with ([b] ++ c :: r1). eapply L_skip with (q := w); try discriminate; try assumption.
          split; [unfold MaxMunch.runq; simpl; rewrite start_b; reflexivity|].
          simpl. destruct (adv w c) as [y|] eqn:Ew; [|reflexivity].
          destruct (w_closed c y Ew) as [_ H0]. congruence.
      + destruct (lexes_reposition _ _ _ _ H (pos_adv p' [b])) as [ts' [e' [H1 [H2 H3]]]].
        exists ts', e'. split; [|split; assumption].
        change (b :: c :: r1) with ([b] ++ c :: r1). eapply L_skip with (q := w); try discriminate; try assumption.
        split; [unfold MaxMunch.runq; simpl; rewrite start_b; reflexivity|].
        simpl. destruct (adv w c) as [y|] eqn:Ew; [|reflexivity].
        destruct (w_closed c y Ew) as [_ H0]. congruence.
  Qed.

  (* the character after a lexeme that it cannot extend *)
  Theorem insert_after_lexeme p u r q ts e :
    lexes p (u ++ r) ts e -> munch u r q -> u <> [] -> cls q <> CErr -> adv q b = None ->
    exists ts' e', lexes p (u ++ b :: r) ts' e' /\ proj ts' = proj ts /\ ekind e' = ekind e.
  Proof.
    intros H Hm Hu Hq Hb.
    inversion H; subst.
    - exfalso. destruct u; [contradiction | discriminate].
    - destruct (munch_unique adv _ _ _ _ _ _ H0 H2 Hm) as [-> [-> ->]].
      destruct (insert_in_front _ _ _ _ H6 (pos_adv p u)) as [ts' [e' [G1 [G2 G3]]]].
      exists ({| t_kind := k; t_lexeme := apply_mode m u; t_pos := p |} :: ts'), e'.
      split; [|split; [simpl; rewrite G2; reflexivity | exact G3]].
      eapply L_tok with (q := q); try eassumption.
      + destruct u; [contradiction | discriminate].
      + destruct Hm as [Hrun _]. split; [exact Hrun | exact Hb].
    - destruct (munch_unique adv _ _ _ _ _ _ H0 H2 Hm) as [-> [-> ->]].
      destruct (insert_in_front _ _ _ _ H6 (pos_adv p u)) as [ts' [e' [G1 [G2 G3]]]].
      exists ts', e'. split; [|split; assumption].
      eapply L_skip with (q := q); try eassumption.
      + destruct u; [contradiction | discriminate].
      + destruct Hm as [Hrun _]. split; [exact Hrun | exact Hb].
    - destruct (munch_unique adv _ _ _ _ _ _ H0 H2 Hm) as [-> [-> ->]]. contradiction.
  Qed.

  (* ---- one character inserted directly after ANY token of the text ---- *)
  Inductive after_token : list N -> list N -> Prop :=
  | AT_here u r q k m : munch u r q -> u <> [] -> cls q = CTok k m -> adv q b = None -> after_token (u ++ r) (u ++ b :: r)
  | AT_later u r r' q : munch u r q -> u <> [] -> cls q <> CErr -> after_token r r' -> after_token (u ++ r) (u ++ r').

  Lemma after_token_head t t' : after_token t t' -> exists c t1 t1', t = c :: t1 /\ t' = c :: t1'.
  Proof.
    intros H. destruct H as [u r q k m _ Hu _ _|u r r' q _ Hu _ _]; destruct u as [|c u']; try contradiction; simpl; eauto.
  Qed.

  Theorem insertion_after_a_token t t' : after_token t t' ->
    forall p ts e, lexes p t ts e -> exists ts' e', lexes p t' ts' e' /\ proj ts' = proj ts /\ ekind e' = ekind e.
  Proof.
    induction 1 as [u r q k m Hm Hu Hc Hb|u r r' q Hm Hu Hc Hins IH]; intros p ts e Hl.
    - apply (insert_after_lexeme p u r q ts e Hl Hm Hu); [rewrite Hc; discriminate | exact Hb].
    - assert (Hm' : munch u r' q).
      { destruct Hm as [Hrun Hdead]. split; [exact Hrun|].
        destruct (after_token_head _ _ Hins) as [c [t1 [t1' [-> ->]]]]. exact Hdead. }
      inversion Hl; subst.
      + exfalso. destruct u; [contradiction | discriminate].
      + destruct (munch_unique adv _ _ _ _ _ _ H H1 Hm) as [-> [-> ->]].
        destruct (IH _ _ _ H5) as [ts' [e' [G1 [G2 G3]]]].
        exists ({| t_kind := k; t_lexeme := apply_mode m u; t_pos := p |} :: ts'), e'.
        split; [|split; [simpl; rewrite G2; reflexivity | exact G3]].
        eapply L_tok with (q := q); try eassumption. destruct u; [contradiction | discriminate].
      + destruct (munch_unique adv _ _ _ _ _ _ H H1 Hm) as [-> [-> ->]].
        destruct (IH _ _ _ H5) as [ts' [e' [G1 [G2 G3]]]].
        exists ts', e'. split; [|split; assumption].
        eapply L_skip with (q := q); try eassumption. destruct u; [contradiction | discriminate].
      + destruct (munch_unique adv _ _ _ _ _ _ H H1 Hm) as [-> [-> ->]]. contradiction.
  Qed.
End Layout.

(* ---- the side conditions as boolean checks on a transition table ---- *)
(* ---- a whole skipped lexeme (a comment) inserted between two lexemes ---- *)
Section SkipLexeme.
  Variable adv : N -> N -> option N.
  Variable cls : N -> cls_t.
  Variable v : list N.       (* the inserted lexeme *)
  Variable f : N.            (* the state it ends in *)

  Hypothesis v_nonempty : v <> [].
  Hypothesis f_skip : cls f = CSkip.

  Notation lexes := (lexes adv cls).
  Notation munch := (munch adv).

  (* in front of a text at which the scanner stops exactly after v *)
  Lemma skip_lexeme_in_front p r ts e : lexes p r ts e -> munch v r f ->
    forall p', exists ts' e', lexes p' (v ++ r) ts' e' /\ proj ts' = proj ts /\ ekind e' = ekind e.
  Proof.
    intros H Hm p'.
    destruct (lexes_reposition adv cls _ _ _ _ H (pos_adv p' v)) as [ts' [e' [H1 [H2 H3]]]].
    exists ts', e'. split; [|split; assumption].
    eapply L_skip with (q := f); try eassumption.
    destruct v; [contradiction | discriminate].
  Qed.

  (* after a lexeme that the first character of v cannot extend *)
  Theorem skip_lexeme_after_lexeme p u r q ts e :
    lexes p (u ++ r) ts e -> munch u r q -> u <> [] -> cls q <> CErr ->
    adv q (hd 0 v) = None -> munch v r f ->
    exists ts' e', lexes p (u ++ v ++ r) ts' e' /\ proj ts' = proj ts /\ ekind e' = ekind e.
  Proof.
    intros H Hm Hu Hq Hb Hv.
    assert (Hm' : munch u (v ++ r) q).
    { destruct Hm as [Hrun _]. split; [exact Hrun|]. destruct v; [contradiction | exact Hb]. }
    inversion H; subst.
    - exfalso. destruct u; [contradiction | discriminate].
    - destruct (munch_unique adv _ _ _ _ _ _ H0 H2 Hm) as [-> [-> ->]].
      destruct (skip_lexeme_in_front _ _ _ _ H6 Hv (pos_adv p u)) as [ts' [e' [G1 [G2 G3]]]].
      exists ({| t_kind := k; t_lexeme := apply_mode m u; t_pos := p |} :: ts'), e'.
      split; [|split; [simpl; rewrite G2; reflexivity | exact G3]].
      eapply L_tok with (q := q); try eassumption. destruct u; [contradiction | discriminate].
    - destruct (munch_unique adv _ _ _ _ _ _ H0 H2 Hm) as [-> [-> ->]].
      destruct (skip_lexeme_in_front _ _ _ _ H6 Hv (pos_adv p u)) as [ts' [e' [G1 [G2 G3]]]].
      exists ts', e'. split; [|split; assumption].
      eapply L_skip with (q := q); try eassumption. destruct u; [contradiction | discriminate].
    - destruct (munch_unique adv _ _ _ _ _ _ H0 H2 Hm) as [-> [-> ->]]. contradiction.
  Qed.

  (* directly after ANY token of the text *)
  Inductive after_token_s : list N -> list N -> Prop :=
  | ATS_here u r q k m : munch u r q -> u <> [] -> cls q = CTok k m -> adv q (hd 0 v) = None -> munch v r f ->
                         after_token_s (u ++ r) (u ++ v ++ r)
  | ATS_later u r r' q : munch u r q -> u <> [] -> cls q <> CErr -> after_token_s r r' -> after_token_s (u ++ r) (u ++ r').

  Lemma after_token_s_head t t' : after_token_s t t' -> exists c t1 t1', t = c :: t1 /\ t' = c :: t1'.
  Proof.
    intros H. destruct H as [u r q k m _ Hu _ _ _|u r r' q _ Hu _ _]; destruct u as [|c u']; try contradiction; simpl; eauto.
  Qed.

  Theorem skip_lexeme_after_a_token t t' : after_token_s t t' ->
    forall p ts e, lexes p t ts e -> exists ts' e', lexes p t' ts' e' /\ proj ts' = proj ts /\ ekind e' = ekind e.
  Proof.
    induction 1 as [u r q k m Hm Hu Hc Hb Hv|u r r' q Hm Hu Hc Hins IH]; intros p ts e Hl.
    - apply (skip_lexeme_after_lexeme p u r q ts e Hl Hm Hu); [rewrite Hc; discriminate | exact Hb | exact Hv].
    - assert (Hm' : munch u r' q).
      { destruct Hm as [Hrun Hdead]. split; [exact Hrun|].
        destruct (after_token_s_head _ _ Hins) as [c [t1 [t1' [-> ->]]]]. exact Hdead. }
      inversion Hl; subst.
      + exfalso. destruct u; [contradiction | discriminate].
      + destruct (munch_unique adv _ _ _ _ _ _ H H1 Hm) as [-> [-> ->]].
        destruct (IH _ _ _ H5) as [ts' [e' [G1 [G2 G3]]]].
        exists ({| t_kind := k; t_lexeme := apply_mode m u; t_pos := p |} :: ts'), e'.
        split; [|split; [simpl; rewrite G2; reflexivity | exact G3]].
        eapply L_tok with (q := q); try eassumption. destruct u; [contradiction | discriminate].
      + destruct (munch_unique adv _ _ _ _ _ _ H H1 Hm) as [-> [-> ->]].
        destruct (IH _ _ _ H5) as [ts' [e' [G1 [G2 G3]]]].
        exists ts', e'. split; [|split; assumption].
        eapply L_skip with (q := q); try eassumption. destruct u; [contradiction | discriminate].
      + destruct (munch_unique adv _ _ _ _ _ _ H H1 Hm) as [-> [-> ->]]. contradiction.
  Qed.
End SkipLexeme.

Definition opt_is (o : option N) (x : N) : bool := match o with Some y => y =? x | None => false end.
Definition opt_none (o : option N) : bool := match o with None => true | Some _ => false end.

Definition closed_ok (d : dfa) (w : N) : bool :=
  forallb (fun e => negb (e_from e =? w) || ((e_to e =? w) && (e_lo e =? e_hi e) && opt_is (step d 0 (e_lo e)) w)) (d_edges d).
Definition loop_ok (d : dfa) (w : N) : bool :=
  forallb (fun e => negb ((e_from e =? 0) && (e_to e =? w)) || ((e_lo e =? e_hi e) && opt_is (step d w (e_lo e)) w)) (d_edges d).
Definition tokens_dead_ok (d : dfa) (cls : N -> cls_t) (b : N) : bool :=
  forallb (fun e => match cls (e_from e) with CTok _ _ => opt_none (step d (e_from e) b) | _ => true end) (d_edges d).

Lemma step_edge d q c x : step d q c = Some x ->
  exists e, In e (d_edges d) /\ e_from e = q /\ e_lo e <= c /\ c <= e_hi e /\ e_to e = x.
Proof.
  unfold step. destruct (find (e_match q c) (d_edges d)) as [e|] eqn:E; [|discriminate].
  intros H. injection H as <-. apply find_some in E as [Hin Hm]. unfold e_match in Hm.
  apply andb_prop in Hm as [Hq Hiv]. apply N.eqb_eq in Hq. unfold CharSet.in_iv in Hiv. simpl in Hiv.
  apply andb_prop in Hiv as [H1 H2]. apply N.leb_le in H1, H2. exists e. repeat split; assumption.
Qed.

Lemma opt_is_eq o x : opt_is o x = true -> o = Some x.
Proof. destruct o as [y|]; simpl; [rewrite N.eqb_eq; congruence | discriminate]. Qed.

Lemma closed_ok_sound d w : closed_ok d w = true -> forall c x, step d w c = Some x -> x = w /\ step d 0 c = Some w.
Proof.
  intros Hok c x Hs. destruct (step_edge d w c x Hs) as [e [Hin [Hf [Hlo [Hhi Hto]]]]].
  unfold closed_ok in Hok. rewrite forallb_forall in Hok. specialize (Hok e Hin).
  rewrite Hf, N.eqb_refl in Hok. simpl in Hok. apply andb_prop in Hok as [Hok H0]. apply andb_prop in Hok as [Ht Heq].
  apply N.eqb_eq in Ht, Heq. assert (c = e_lo e) by lia. subst c. split; [congruence | apply opt_is_eq; exact H0].
Qed.

Lemma loop_ok_sound d w : loop_ok d w = true -> forall c, step d 0 c = Some w -> step d w c = Some w.
Proof.
  intros Hok c Hs. destruct (step_edge d 0 c w Hs) as [e [Hin [Hf [Hlo [Hhi Hto]]]]].
  unfold loop_ok in Hok. rewrite forallb_forall in Hok. specialize (Hok e Hin).
  rewrite Hf, Hto, !N.eqb_refl in Hok. simpl in Hok. apply andb_prop in Hok as [Heq H0].
  apply N.eqb_eq in Heq. assert (c = e_lo e) by lia. subst c. apply opt_is_eq; exact H0.
Qed.

Lemma tokens_dead_ok_sound d cls b : tokens_dead_ok d cls b = true ->
  forall q k m, cls q = CTok k m -> step d q b = None.
Proof.
  intros Hok q k m Hc. destruct (step d q b) as [x|] eqn:E; [|reflexivity]. exfalso.
  destruct (step_edge d q b x E) as [e [Hin [Hf _]]].
  unfold tokens_dead_ok in Hok. rewrite forallb_forall in Hok. specialize (Hok e Hin).
  rewrite Hf, Hc, E in Hok. discriminate Hok.
Qed.

(* a state without outgoing transitions: the scanner stops there whatever follows *)
Definition final_closed_ok (d : dfa) (f : N) : bool :=
  forallb (fun e => negb (e_from e =? f)) (d_edges d).

Lemma final_closed_ok_sound d f : final_closed_ok d f = true -> forall c, step d f c = None.
Proof.
  intros H c. destruct (step d f c) as [x|] eqn:E; [|reflexivity].
  destruct (step_edge d f c x E) as [e [Hin [Hf _]]].
  unfold final_closed_ok in H. rewrite forallb_forall in H. specialize (H e Hin).
  rewrite Hf, N.eqb_refl in H. discriminate.
Qed.

(* whatever follows a lexeme that ends in such a state, the scanner stops exactly after it *)
Lemma closed_munch d f v r : final_closed_ok d f = true -> runq (step d) 0 v = Some f -> munch (step d) v r f.
Proof.
  intros H Hr. split; [exact Hr|]. destruct r as [|c r]; [exact I|]. apply (final_closed_ok_sound d f H).
Qed.

(* a set S of states that can only be entered from the start state by the character b (and is never left towards the start
   state): every text that ends in S begins with b *)
Definition memq (q : N) (S : list N) : bool := existsb (N.eqb q) S.
Definition entered_by (d : dfa) (S : list N) (b : N) : bool :=
  forallb (fun e => (negb (memq (e_to e) S) || memq (e_from e) S || ((e_from e =? 0) && (e_lo e =? b) && (e_hi e =? b)))
                    && negb (e_to e =? 0)) (d_edges d).

Lemma entered_by_step d S b q c x : entered_by d S b = true -> step d q c = Some x ->
  x <> 0 /\ (memq x S = true -> memq q S = true \/ (q = 0 /\ c = b)).
Proof.
  intros H Hs. destruct (step_edge d q c x Hs) as [e [Hin [Hf [Hlo [Hhi Ht]]]]].
  unfold entered_by in H. rewrite forallb_forall in H. specialize (H e Hin).
  apply andb_prop in H as [H1 H2]. rewrite Ht in *. rewrite Hf in *. split.
  - intros ->. rewrite N.eqb_refl in H2. discriminate.
  - intros Hx. rewrite Hx in H1. simpl in H1. apply orb_prop in H1 as [H1|H1]; [left; exact H1|].
    right. apply andb_prop in H1 as [H1 H5]. apply andb_prop in H1 as [H3 H4].
    apply N.eqb_eq in H3, H4, H5. split; [exact H3 | lia].
Qed.

Lemma entered_by_sound d S b : entered_by d S b = true -> memq 0 S = false ->
  forall v q, runq (step d) 0 v = Some q -> memq q S = true -> hd 0 v = b.
Proof.
  intros H H0 v q Hr Hq. destruct v as [|c v'].
  - unfold runq in Hr. simpl in Hr. injection Hr as <-. congruence.
  - simpl. unfold runq in Hr. simpl in Hr. destruct (step d 0 c) as [q1|] eqn:E1.
    2:{ rewrite fold_oadv_none in Hr. discriminate. }
    destruct (N.eq_dec c b) as [->|Hc]; [reflexivity|]. exfalso.
    destruct (entered_by_step d S b 0 c q1 H E1) as [Hn1 Hi1].
    assert (Hq1 : memq q1 S = false).
    { destruct (memq q1 S) eqn:Em; [|reflexivity]. destruct (Hi1 eq_refl) as [Hc0|[_ Hcb]]; [congruence | contradiction]. }
    clear E1 Hi1. revert q1 Hn1 Hq1 Hr. induction v' as [|c2 v2 IH]; intros q1 Hn1 Hq1 Hr; simpl in Hr.
    + injection Hr as <-. congruence.
    + destruct (step d q1 c2) as [q2|] eqn:E2.
      2:{ rewrite fold_oadv_none in Hr. discriminate. }
      destruct (entered_by_step d S b q1 c2 q2 H E2) as [Hn2 Hi2].
      apply (IH q2 Hn2); [|exact Hr].
      destruct (memq q2 S) eqn:Em; [|reflexivity]. destruct (Hi2 eq_refl) as [Hc0|[Hc0 _]]; congruence.
Qed.

(* ---- positions: the position of a token (and of the error) is the position reached by advancing over exactly the text in
   front of it; so text inserted in front of a token moves its position by exactly that text (pos_adv is a fold) ---- *)
Section Positions.
  Variable adv : N -> N -> option N.
  Variable cls : N -> cls_t.

  Lemma pos_adv_app p a b : pos_adv p (a ++ b) = pos_adv (pos_adv p a) b.
  Proof. unfold pos_adv. apply fold_left_app. Qed.

  Definition placed (p : pos) (s : list N) (t : token) : Prop :=
    exists pre raw rest m, s = pre ++ raw ++ rest /\ t_pos t = pos_adv p pre /\ t_lexeme t = apply_mode m raw.

  Theorem lexes_positions p s ts e : lexes adv cls p s ts e ->
    Forall (placed p s) ts /\
    match e with
    | EndError p' u => exists pre rest, s = pre ++ u ++ rest /\ p' = pos_adv p pre
    | _ => True
    end.
  Proof.
    induction 1 as [p|p u r q k m ts e Hne Hm Hc Hu Hl [IH1 IH2]|p u r q ts e Hne Hm Hc Hu Hl [IH1 IH2]|p u r q Hne Hm Hc].
    - split; [constructor | exact I].
    - split.
      + constructor.
        * exists [], u, r, m. simpl. repeat split; reflexivity.
        * eapply Forall_impl; [|exact IH1]. intros t [pre [raw [rest [m' [E1 [E2 E3]]]]]].
          exists (u ++ pre), raw, rest, m'. rewrite E1, <- app_assoc, pos_adv_app. repeat split; assumption.
      + destruct e as [|p' u'|]; try exact I. destruct IH2 as [pre [rest [E1 E2]]].
        exists (u ++ pre), rest. rewrite E1, <- app_assoc, pos_adv_app. split; [reflexivity | exact E2].
    - split.
      + eapply Forall_impl; [|exact IH1]. intros t [pre [raw [rest [m' [E1 [E2 E3]]]]]].
        exists (u ++ pre), raw, rest, m'. rewrite E1, <- app_assoc, pos_adv_app. repeat split; assumption.
      + destruct e as [|p' u'|]; try exact I. destruct IH2 as [pre [rest [E1 E2]]].
        exists (u ++ pre), rest. rewrite E1, <- app_assoc, pos_adv_app. split; [reflexivity | exact E2].
    - split; [constructor|]. exists [], r. simpl. split; reflexivity.
  Qed.
End Positions.
