(* The tree of the direct route as a regular expression of Reg/Regex.v (so that the certified product check can compare
   a dumped automaton with it), and the set-equality checks used by the correspondence on the computed tables. *)
From Coq Require Import List Bool Arith NArith Lia.
From Verif Require Import Base.CharSet Reg.Dfa Reg.Regex Reg.EquivCheck Reg.Followpos.
Import ListNotations.

Fixpoint re_of (n : node) : re :=
  match n with
  | NChar c => Chr [(c, c)]
  | NEmpty => Eps
  | NCat l => re_cat l
  | NAlt l => re_alt l
  | NStar x => Star (re_of x)
  end
with re_cat (l : nodes) : re :=
  match l with NNil => Eps | NCons x t => Cat (re_of x) (re_cat t) end
with re_alt (l : nodes) : re :=
  match l with NNil => Nul | NCons x t => Alt (re_of x) (re_alt t) end.

Lemma chr_single c w : matches (Chr [(c, c)]) w <-> w = [c].
Proof.
  split.
  - intros H. apply chr_inv in H as [x [-> Hx]]. unfold cs_mem, in_iv in Hx. simpl in Hx. rewrite orb_false_r in Hx.
    apply andb_prop in Hx as [H1 H2]. apply N.leb_le in H1. apply N.leb_le in H2. assert (x = c) by lia. subst. reflexivity.
  - intros ->. constructor. unfold cs_mem, in_iv. simpl. rewrite N.leb_refl. reflexivity.
Qed.

Lemma star_matches (L : list N -> Prop) a :
  (forall w, L w <-> matches a w) -> forall w, star L w <-> matches (Star a) w.
Proof.
  intros HL w. split.
  - intros H. induction H as [|u v Hu Hv IH]; [constructor|]. constructor; [apply HL; exact Hu | exact IH].
  - intros H. remember (Star a) as s eqn:Es. induction H; try discriminate.
    + constructor.
    + inversion Es; subst. constructor; [apply HL; assumption | apply IHmatches2; reflexivity].
Qed.

Lemma nul_inv w : ~ matches Nul w.
Proof. intros H. inversion H. Qed.

Theorem lang_re :
  (forall n w, lang n w <-> matches (re_of n) w) /\
  (forall l w, (lang_cat l w <-> matches (re_cat l) w) /\ (lang_alt l w <-> matches (re_alt l) w)).
Proof.
  apply node_nodes_ind; simpl.
  - intros c w. symmetry. apply chr_single.
  - intros w. split; [intros ->; constructor | apply eps_inv].
  - intros l IH w. apply IH.
  - intros l IH w. apply IH.
  - intros x IH w. apply star_matches. exact IH.
  - intros w. split; split.
    + intros ->. constructor.
    + apply eps_inv.
    + intros [].
    + intros H. destruct (nul_inv w H).
  - intros x IHx t IHt w. split; split.
    + intros [u [v [-> [Hu Hv]]]]. constructor; [apply IHx; exact Hu | apply IHt; exact Hv].
    + intros H. apply cat_inv in H as [u [v [-> [Hu Hv]]]]. exists u, v. repeat split; [apply IHx; exact Hu | apply IHt; exact Hv].
    + intros [H|H]; [apply M_altl; apply IHx; exact H | apply M_altr; apply IHt; exact H].
    + intros H. apply alt_inv in H as [H|H]; [left; apply IHx; exact H | right; apply IHt; exact H].
Qed.

(* a dumped automaton that passes the certified check against the tree's expression accepts exactly what the position
   automaton of that tree accepts *)
Theorem checked_automaton_is_the_position_automaton d finals tree em fuel :
  dfa_re_check d finals (re_of tree) fuel = true -> ~ In em (chars tree) ->
  forall w, ~ In em w -> (EquivCheck.accepts d finals w = true <-> Followpos.accepts tree em w = true).
Proof.
  intros Hc Hem w Hw. rewrite (dfa_re_check_sound d finals (re_of tree) fuel Hc w).
  rewrite (position_automaton_correct tree em Hem w Hw). symmetry. apply (proj1 lang_re).
Qed.

(* ---- comparisons used by the correspondence (sets of positions as sorted lists from the implementation) ---- *)
Definition subset (a b : list nat) : bool := forallb (fun x => mem x b) a.
Definition seteq (a b : list nat) : bool := subset a b && subset b a.

(* the tables of the model for the tree (r) em, positions one-based as in the implementation *)
Definition one_based (l : list nat) : list nat := map S l.
Definition tables_agree (r : node) (em : N) (nul : bool) (fst_ lst : list nat) (fol : list (nat * list nat)) : bool :=
  let R := root r em in
  Bool.eqb (nullable R) nul &&
  seteq (one_based (first 0 R)) fst_ && seteq (one_based (last 0 R)) lst &&
  forallb (fun p => seteq (one_based (follow 0 R p))
                          (match find (fun e => Nat.eqb (fst e) (S p)) fol with Some e => snd e | None => [] end))
          (seq 0 (size R)).
