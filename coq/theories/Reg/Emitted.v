(* Validation of an emitted lexer against the automaton emerge computed: the transition function and the
   accepting-state table read back from the emitted Go source must be EXTENSIONALLY identical to the dumped
   automaton and terminal map — for every state and every code point, and for every state of the table. *)
From Coq Require Import String List Bool NArith.
From Verif Require Import Base.CharSet Reg.Dfa.
Import ListNotations.
Local Open Scope N_scope.

Definition etable := list (N * string).     (* accepting state -> terminal *)

Definition elookup (t : etable) (q : N) : option string :=
  match find (fun e => fst e =? q) t with Some e => Some (snd e) | None => None end.

Definition ostr_eqb (a b : option string) : bool :=
  match a, b with Some x, Some y => String.eqb x y | None, None => true | _, _ => false end.

Definition same_table_check (t1 t2 : etable) : bool :=
  forallb (fun q => ostr_eqb (elookup t1 q) (elookup t2 q)) (map fst t1 ++ map fst t2).

Lemma elookup_none t q : ~ In q (map fst t) -> elookup t q = None.
Proof.
  intros H. unfold elookup. destruct (find _ t) as [e|] eqn:E; [|reflexivity].
  exfalso. apply find_some in E as [Hin Hq]. apply N.eqb_eq in Hq. apply H. apply in_map_iff. exists e. auto.
Qed.

Theorem same_table_sound t1 t2 : same_table_check t1 t2 = true -> forall q, elookup t1 q = elookup t2 q.
Proof.
  unfold same_table_check. intros H q. rewrite forallb_forall in H.
  destruct (in_dec N.eq_dec q (map fst t1 ++ map fst t2)) as [Hin|Hnot].
  - specialize (H q Hin). destruct (elookup t1 q), (elookup t2 q); simpl in H; try discriminate; auto.
    apply String.eqb_eq in H. subst. reflexivity.
  - rewrite !elookup_none; [reflexivity | |]; intros X; apply Hnot; apply in_or_app; auto.
Qed.

(* one emitted package: (emitted transitions, emitted table) vs (dumped automaton, dumped terminal map) *)
Definition emitted_ok (c : dfa * etable * dfa * etable) : bool :=
  let '(de, te, dd, td) := c in
  (d_start de =? d_start dd) && same_function_check de dd && same_table_check te td.

Theorem emitted_ok_sound de te dd td :
  emitted_ok (de, te, dd, td) = true ->
  (forall q c, step de q c = step dd q c) /\ (forall q, elookup te q = elookup td q).
Proof.
  unfold emitted_ok. intros H. apply andb_prop in H as [H H3]. apply andb_prop in H as [_ H2].
  split; [apply same_function_sound; exact H2 | apply same_table_sound; exact H3].
Qed.
