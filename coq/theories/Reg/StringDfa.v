(* stringToDFA of internal/ebnf/parser/spec/spec.go: the chain automaton of a string definition (a backslash escapes the
   character that follows it; states 0, 1, 2, ... one per character; the last one accepting) accepts exactly the literal's
   characters - for every string. *)
From Coq Require Import List Bool NArith Lia.
From Verif Require Import Base.CharSet Reg.Dfa Reg.Regex Reg.EquivCheck Reg.Scanner.
Import ListNotations.
Local Open Scope N_scope.

Lemma find_none_all {A} (p : A -> bool) l : (forall x, In x l -> p x = false) -> find p l = None.
Proof.
  induction l as [|x l IH]; intros H; simpl; [reflexivity|]. rewrite (H x (or_introl eq_refl)). apply IH.
  intros y Hy. apply H. right. exact Hy.
Qed.

Fixpoint chain_edges (q : N) (cs : list N) : list edge :=
  match cs with
  | [] => []
  | c :: t => (q, c, c, q + 1) :: chain_edges (q + 1) t
  end.

Definition string_dfa (value : list N) : dfa * list N :=
  let cs := unescape value in
  ({| d_start := 0; d_edges := chain_edges 0 cs |}, [N.of_nat (length cs)]).

Lemma in_iv_single c x : in_iv (c, c) x = (x =? c).
Proof.
  unfold in_iv. simpl. destruct (x =? c) eqn:E.
  - apply N.eqb_eq in E. subst. rewrite N.leb_refl. reflexivity.
  - apply N.eqb_neq in E. destruct (c <=? x) eqn:E1; [|reflexivity]. destruct (x <=? c) eqn:E2; [|reflexivity].
    apply N.leb_le in E1. apply N.leb_le in E2. lia.
Qed.

(* edges of a chain starting at q0 only leave states >= q0 *)
Lemma chain_from_ge q0 cs e : In e (chain_edges q0 cs) -> q0 <= e_from e.
Proof.
  revert q0. induction cs as [|c t IH]; intros q0 H; [destruct H|]. destruct H as [<-|H].
  - unfold e_from. simpl. lia.
  - specialize (IH (q0 + 1) H). lia.
Qed.

Lemma find_chain_below q0 cs q x : q < q0 -> find (e_match q x) (chain_edges q0 cs) = None.
Proof.
  intros Hlt. apply find_none_all. intros e He. pose proof (chain_from_ge q0 cs e He) as Hge.
  unfold e_match. apply andb_false_iff. left. apply N.eqb_neq. lia.
Qed.

Section Chain.
  Variable all : list edge.      (* the whole edge list; the chain for the rest of the string is a suffix of it *)

  (* stepping in a machine whose edges leaving states >= q0 are exactly [chain_edges q0 cs] *)
  Definition step_of (q x : N) : option N :=
    match find (e_match q x) all with Some e => Some (e_to e) | None => None end.
End Chain.

Lemma find_app_none {A} (p : A -> bool) l1 l2 : find p l1 = None -> find p (l1 ++ l2) = find p l2.
Proof. induction l1 as [|x l1 IH]; simpl; [reflexivity|]. destruct (p x); [discriminate | exact IH]. Qed.

(* running the chain for cs placed after a prefix of edges that only leave states below q0 *)
Lemma run_chain pre cs : forall q0 w,
  (forall e, In e pre -> e_from e < q0) ->
  let d := {| d_start := 0; d_edges := pre ++ chain_edges q0 cs |} in
  (run_from d (Some q0) w = Some (q0 + N.of_nat (length cs)) <-> w = cs) /\
  (forall q, run_from d (Some q0) w = Some q -> q0 <= q).
Proof.
  revert pre. induction cs as [|c t IH]; intros pre q0 w Hpre d.
  - simpl. rewrite N.add_0_r. destruct w as [|x w].
    + simpl. split; [tauto|]. intros q H. inversion H. lia.
    + assert (Hs : step d q0 x = None).
      { unfold step, d. simpl. rewrite app_nil_r.
        destruct (find (e_match q0 x) pre) as [e|] eqn:E; [|reflexivity]. apply find_some in E as [He Hm].
        unfold e_match in Hm. apply andb_prop in Hm as [Hm _]. apply N.eqb_eq in Hm. specialize (Hpre e He). lia. }
      simpl. rewrite Hs, run_from_dead. split; [split; discriminate | intros q H; discriminate].
  - destruct w as [|x w].
    + simpl. split; [|intros q H; inversion H; lia]. split; [|discriminate]. intros H. inversion H. lia.
    + assert (Hs : step d q0 x = if x =? c then Some (q0 + 1) else None).
      { unfold step, d. simpl d_edges.
        assert (Hp : find (e_match q0 x) pre = None).
        { apply find_none_all. intros e He. unfold e_match. apply andb_false_iff. left. apply N.eqb_neq. specialize (Hpre e He). lia. }
        rewrite (find_app_none _ _ _ Hp). simpl. unfold e_match at 1. unfold e_from, e_lo, e_hi. simpl.
        rewrite N.eqb_refl, in_iv_single. simpl. destruct (x =? c); [reflexivity|].
        rewrite (find_chain_below (q0 + 1) t q0 x) by lia. reflexivity. }
      change (run_from d (Some q0) (x :: w)) with (run_from d (step d q0 x) w). rewrite Hs.
      destruct (x =? c) eqn:E.
      * apply N.eqb_eq in E. subst x.
        assert (Hpre' : forall e, In e (pre ++ [(q0, c, c, q0 + 1)]) -> e_from e < q0 + 1).
        { intros e He. apply in_app_or in He as [He|[<-|[]]]; [specialize (Hpre e He); lia | unfold e_from; simpl; lia]. }
        specialize (IH (pre ++ [(q0, c, c, q0 + 1)]) (q0 + 1) w Hpre'). simpl in IH.
        rewrite <- app_assoc in IH. simpl in IH. fold d in IH. destruct IH as [IH1 IH2]. split.
        -- replace (q0 + N.of_nat (length (c :: t))) with (q0 + 1 + N.of_nat (length t)) by (simpl length; lia).
           split.
           ++ intros H. apply IH1 in H. subst. reflexivity.
           ++ intros H. inversion H; subst. apply IH1. reflexivity.
        -- intros q H. specialize (IH2 q H). lia.
      * rewrite run_from_dead. split; [|intros q H; discriminate]. split; [discriminate|].
        intros H. inversion H. subst. rewrite N.eqb_refl in E. discriminate.
Qed.

(* THE THEOREM: the automaton of a string definition accepts exactly the literal's characters *)
Theorem string_dfa_accepts_the_literal value w :
  EquivCheck.accepts (fst (string_dfa value)) (snd (string_dfa value)) w = true <-> w = unescape value.
Proof.
  unfold string_dfa, EquivCheck.accepts. simpl fst. simpl snd.
  destruct (run_chain [] (unescape value) 0 w (fun e H => match H with end)) as [H1 H2]. simpl in H1, H2.
  unfold run. simpl d_start. rewrite <- H1. clear H1.
  destruct (run_from _ (Some 0) w) as [q|] eqn:E.
  - unfold nmem. simpl. rewrite orb_false_r. split.
    + intros H. apply N.eqb_eq in H. subst. reflexivity.
    + intros H. inversion H. apply N.eqb_refl.
  - split; discriminate.
Qed.
