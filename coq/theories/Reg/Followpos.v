(* The direct (followpos) construction of internal/regex/parser/ast, as an executable model over the same tree
   shape (n-ary concatenation and alternation, star, empty, character leaves numbered left to right), and its
   correctness for EVERY tree: the automaton whose states are sets of positions - start firstpos(root), on a
   character c the union of followpos(p) over the positions p of the state that carry c, accepting when the
   position of the end marker is in the set - accepts exactly the language of the tree.
   Method: for a position p of a tree n, [after n p] is the language that may follow p inside n; then
     L(n)        = [nullable n] eps  +  sum over p in firstpos(n)   of  char(p) . after n p          (lang_first)
     after n p   = [p in lastpos(n)] eps  +  sum over q in followpos(n,p) of  char(q) . after n q    (after_follow)
   both by structural induction, and the automaton is read off these two equations. *)
From Coq Require Import List Bool Arith NArith Lia.
Import ListNotations.

Inductive node :=
| NChar (c : N)
| NEmpty
| NCat (l : nodes)
| NAlt (l : nodes)
| NStar (x : node)
with nodes :=
| NNil
| NCons (x : node) (t : nodes).

Scheme node_mut := Induction for node Sort Prop
with nodes_mut := Induction for nodes Sort Prop.
Combined Scheme node_nodes_ind from node_mut, nodes_mut.

Fixpoint size (n : node) : nat :=
  match n with
  | NChar _ => 1 | NEmpty => 0 | NCat l => sizes l | NAlt l => sizes l | NStar x => size x
  end
with sizes (l : nodes) : nat :=
  match l with NNil => 0 | NCons x t => size x + sizes t end.

Fixpoint nullable (n : node) : bool :=
  match n with
  | NChar _ => false | NEmpty => true | NCat l => all_nullable l | NAlt l => some_nullable l | NStar _ => true
  end
with all_nullable (l : nodes) : bool :=
  match l with NNil => true | NCons x t => nullable x && all_nullable t end
with some_nullable (l : nodes) : bool :=
  match l with NNil => false | NCons x t => nullable x || some_nullable t end.

(* positions of a tree placed at offset o are o .. o + size - 1, left to right *)
Fixpoint first (o : nat) (n : node) : list nat :=
  match n with
  | NChar _ => [o] | NEmpty => [] | NCat l => first_cat o l | NAlt l => first_alt o l | NStar x => first o x
  end
with first_cat (o : nat) (l : nodes) : list nat :=
  match l with
  | NNil => []
  | NCons x t => first o x ++ (if nullable x then first_cat (o + size x) t else [])
  end
with first_alt (o : nat) (l : nodes) : list nat :=
  match l with NNil => [] | NCons x t => first o x ++ first_alt (o + size x) t end.

Fixpoint last (o : nat) (n : node) : list nat :=
  match n with
  | NChar _ => [o] | NEmpty => [] | NCat l => last_cat o l | NAlt l => last_alt o l | NStar x => last o x
  end
with last_cat (o : nat) (l : nodes) : list nat :=
  match l with
  | NNil => []
  | NCons x t => (if all_nullable t then last o x else []) ++ last_cat (o + size x) t
  end
with last_alt (o : nat) (l : nodes) : list nat :=
  match l with NNil => [] | NCons x t => last o x ++ last_alt (o + size x) t end.

Definition mem (p : nat) (l : list nat) : bool := existsb (Nat.eqb p) l.

Lemma mem_in p l : mem p l = true <-> In p l.
Proof.
  unfold mem. rewrite existsb_exists. split.
  - intros [x [Hx E]]. apply Nat.eqb_eq in E. subst. exact Hx.
  - intros H. exists p. split; [exact H | apply Nat.eqb_refl].
Qed.

Fixpoint follow (o : nat) (n : node) (p : nat) : list nat :=
  match n with
  | NChar _ => [] | NEmpty => []
  | NCat l => follow_cat o l p
  | NAlt l => follow_alt o l p
  | NStar x => follow o x p ++ (if mem p (last o x) then first o x else [])
  end
with follow_cat (o : nat) (l : nodes) (p : nat) : list nat :=
  match l with
  | NNil => []
  | NCons x t =>
    if p <? o + size x
    then follow o x p ++ (if mem p (last o x) then first_cat (o + size x) t else [])
    else follow_cat (o + size x) t p
  end
with follow_alt (o : nat) (l : nodes) (p : nat) : list nat :=
  match l with
  | NNil => []
  | NCons x t => if p <? o + size x then follow o x p else follow_alt (o + size x) t p
  end.

Fixpoint charat (o : nat) (n : node) (p : nat) : N :=
  match n with
  | NChar c => c | NEmpty => 0%N | NCat l => charat_l o l p | NAlt l => charat_l o l p | NStar x => charat o x p
  end
with charat_l (o : nat) (l : nodes) (p : nat) : N :=
  match l with
  | NNil => 0%N
  | NCons x t => if p <? o + size x then charat o x p else charat_l (o + size x) t p
  end.

(* ---- languages ---- *)
Inductive star (L : list N -> Prop) : list N -> Prop :=
| star_nil : star L []
| star_app u v : L u -> star L v -> star L (u ++ v).

Fixpoint lang (n : node) (w : list N) : Prop :=
  match n with
  | NChar c => w = [c]
  | NEmpty => w = []
  | NCat l => lang_cat l w
  | NAlt l => lang_alt l w
  | NStar x => star (lang x) w
  end
with lang_cat (l : nodes) (w : list N) : Prop :=
  match l with
  | NNil => w = []
  | NCons x t => exists u v, w = u ++ v /\ lang x u /\ lang_cat t v
  end
with lang_alt (l : nodes) (w : list N) : Prop :=
  match l with
  | NNil => False
  | NCons x t => lang x w \/ lang_alt t w
  end.

(* the language that may follow position p inside the tree *)
Fixpoint after (o : nat) (n : node) (p : nat) (v : list N) : Prop :=
  match n with
  | NChar _ => v = []
  | NEmpty => False
  | NCat l => after_cat o l p v
  | NAlt l => after_alt o l p v
  | NStar x => exists u u', v = u ++ u' /\ after o x p u /\ star (lang x) u'
  end
with after_cat (o : nat) (l : nodes) (p : nat) (v : list N) : Prop :=
  match l with
  | NNil => False
  | NCons x t =>
    if p <? o + size x
    then exists u u', v = u ++ u' /\ after o x p u /\ lang_cat t u'
    else after_cat (o + size x) t p v
  end
with after_alt (o : nat) (l : nodes) (p : nat) (v : list N) : Prop :=
  match l with
  | NNil => False
  | NCons x t => if p <? o + size x then after o x p v else after_alt (o + size x) t p v
  end.

(* ---- ranges ---- *)
Definition within (o sz : nat) (l : list nat) : Prop := forall p, In p l -> o <= p < o + sz.

Lemma within_app o sz a b : within o sz a -> within o sz b -> within o sz (a ++ b).
Proof. intros Ha Hb p H. apply in_app_or in H as [H|H]; auto. Qed.
Lemma within_nil o sz : within o sz [].
Proof. intros p []. Qed.
Lemma within_weaken o sz o' sz' l : within o' sz' l -> o <= o' -> o' + sz' <= o + sz -> within o sz l.
Proof. intros H H1 H2 p Hp. specialize (H p Hp). lia. Qed.

Lemma first_range :
  (forall n o, within o (size n) (first o n)) /\
  (forall l o, within o (sizes l) (first_cat o l) /\ within o (sizes l) (first_alt o l)).
Proof.
  apply node_nodes_ind; simpl.
  - intros c o p [<-|[]]. lia.
  - intros o. apply within_nil.
  - intros l IH o. apply IH.
  - intros l IH o. apply IH.
  - intros x IH o. apply IH.
  - intros o. split; apply within_nil.
  - intros x IHx t IHt o. split.
    + apply within_app; [apply (within_weaken _ _ o (size x)); [apply IHx | lia | lia]|].
      destruct (nullable x); [|apply within_nil]. apply (within_weaken _ _ (o + size x) (sizes t)); [apply IHt | lia | lia].
    + apply within_app; [apply (within_weaken _ _ o (size x)); [apply IHx | lia | lia]|].
      apply (within_weaken _ _ (o + size x) (sizes t)); [apply IHt | lia | lia].
Qed.

Lemma last_range :
  (forall n o, within o (size n) (last o n)) /\
  (forall l o, within o (sizes l) (last_cat o l) /\ within o (sizes l) (last_alt o l)).
Proof.
  apply node_nodes_ind; simpl.
  - intros c o p [<-|[]]. lia.
  - intros o. apply within_nil.
  - intros l IH o. apply IH.
  - intros l IH o. apply IH.
  - intros x IH o. apply IH.
  - intros o. split; apply within_nil.
  - intros x IHx t IHt o. split.
    + apply within_app; [|apply (within_weaken _ _ (o + size x) (sizes t)); [apply IHt | lia | lia]].
      destruct (all_nullable t); [|apply within_nil]. apply (within_weaken _ _ o (size x)); [apply IHx | lia | lia].
    + apply within_app; [apply (within_weaken _ _ o (size x)); [apply IHx | lia | lia]|].
      apply (within_weaken _ _ (o + size x) (sizes t)); [apply IHt | lia | lia].
Qed.

Lemma follow_range :
  (forall n o p, within o (size n) (follow o n p)) /\
  (forall l o p, within o (sizes l) (follow_cat o l p) /\ within o (sizes l) (follow_alt o l p)).
Proof.
  apply node_nodes_ind; simpl.
  - intros c o p. apply within_nil.
  - intros o p. apply within_nil.
  - intros l IH o p. apply IH.
  - intros l IH o p. apply IH.
  - intros x IH o p. apply within_app; [apply IH|]. destruct (mem p (last o x)); [apply (proj1 first_range) | apply within_nil].
  - intros o p. split; apply within_nil.
  - intros x IHx t IHt o p. split.
    + destruct (p <? o + size x).
      * apply within_app; [apply (within_weaken _ _ o (size x)); [apply IHx | lia | lia]|].
        destruct (mem p (last o x)); [|apply within_nil].
        apply (within_weaken _ _ (o + size x) (sizes t)); [apply (proj2 first_range) | lia | lia].
      * apply (within_weaken _ _ (o + size x) (sizes t)); [apply IHt | lia | lia].
    + destruct (p <? o + size x).
      * apply (within_weaken _ _ o (size x)); [apply IHx | lia | lia].
      * apply (within_weaken _ _ (o + size x) (sizes t)); [apply IHt | lia | lia].
Qed.

(* ---- small facts ---- *)
Lemma ltb_true_of_range o sz p : o <= p < o + sz -> (p <? o + sz) = true.
Proof. intros H. apply Nat.ltb_lt. lia. Qed.
Lemma ltb_false_of_ge a p : a <= p -> (p <? a) = false.
Proof. intros H. apply Nat.ltb_ge. exact H. Qed.

Lemma star_nonempty_head L w :
  star L w -> w = [] \/ exists u v, u <> [] /\ w = u ++ v /\ L u /\ star L v.
Proof.
  induction 1 as [|u v Hu Hv IH]; [left; reflexivity|].
  destruct u as [|a u].
  - simpl. exact IH.
  - right. exists (a :: u), v. repeat split; [discriminate | exact Hu | exact Hv].
Qed.

(* ---- L(n) = [nullable] eps + sum over firstpos ---- *)
Definition first_eq (nul : bool) (fs : list nat) (ch : nat -> N) (aft : nat -> list N -> Prop) (L : list N -> Prop) : Prop :=
  forall w, L w <-> (w = [] /\ nul = true) \/ (exists p v, In p fs /\ w = ch p :: v /\ aft p v).

Lemma lang_first :
  (forall n o, first_eq (nullable n) (first o n) (charat o n) (after o n) (lang n)) /\
  (forall l o, first_eq (all_nullable l) (first_cat o l) (charat_l o l) (after_cat o l) (lang_cat l) /\
               first_eq (some_nullable l) (first_alt o l) (charat_l o l) (after_alt o l) (lang_alt l)).
Proof.
  apply node_nodes_ind; unfold first_eq.
  - (* NChar *) intros c o w. simpl. split.
    + intros ->. right. exists o, []. repeat split. left. reflexivity.
    + intros [[_ H]|[p [v [_ [-> ->]]]]]; [discriminate | reflexivity].
  - (* NEmpty *) intros o w. simpl. split.
    + intros ->. left. split; reflexivity.
    + intros [[-> _]|[p [v [[] _]]]]. reflexivity.
  - (* NCat *) intros l IH o w. simpl. apply (proj1 (IH o)).
  - (* NAlt *) intros l IH o w. simpl. apply (proj2 (IH o)).
  - (* NStar *) intros x IH o w. simpl. split.
    + intros H. induction H as [|u v Hu Hv IHv]; [left; split; reflexivity|].
      apply (IH o) in Hu as [[-> _]|[p [u1 [Hp [-> Ha]]]]]; [exact IHv|].
      right. exists p, (u1 ++ v). repeat split; [exact Hp|]. exists u1, v. repeat split; assumption.
    + intros [[-> _]|[p [v [Hp [-> [u [u' [-> [Ha Hs]]]]]]]]]; [constructor|].
      change (charat o x p :: u ++ u') with ((charat o x p :: u) ++ u'). constructor; [|exact Hs].
      apply (IH o). right. exists p, u. repeat split; assumption.
  - (* NNil *) intros o. split; intros w; simpl; split.
    + intros ->. left. split; reflexivity.
    + intros [[-> _]|[p [v [[] _]]]]. reflexivity.
    + intros [].
    + intros [[_ H]|[p [v [[] _]]]]. discriminate.
  - (* NCons *) intros x IHx t IHt o. split; intros w; simpl.
    + (* concatenation *) split.
      * intros [u [v [-> [Hu Hv]]]]. apply (IHx o) in Hu as [[-> Hnx]|[p [u1 [Hp [-> Ha]]]]].
        -- simpl. rewrite Hnx. apply (proj1 (IHt (o + size x))) in Hv as [[-> Hnt]|[q [v1 [Hq [-> Ha]]]]].
           ++ left. split; [reflexivity | rewrite Hnt; reflexivity].
           ++ right. pose proof (proj1 (proj2 first_range t (o + size x)) q Hq) as Hr.
              exists q, v1. rewrite (ltb_false_of_ge (o + size x) q) by lia. repeat split; [|exact Ha].
              apply in_or_app. right. exact Hq.
        -- right. pose proof (proj1 first_range x o p Hp) as Hr.
           exists p, (u1 ++ v). rewrite (ltb_true_of_range o (size x) p Hr). repeat split.
           ++ apply in_or_app. left. exact Hp.
           ++ exists u1, v. repeat split; assumption.
      * intros [[-> Hn]|[p [v [Hp [-> Ha]]]]].
        -- apply andb_prop in Hn as [Hnx Hnt]. exists [], []. repeat split.
           ++ apply (IHx o). left. split; [reflexivity | exact Hnx].
           ++ apply (proj1 (IHt (o + size x))). left. split; [reflexivity | exact Hnt].
        -- apply in_app_or in Hp as [Hp|Hp].
           ++ pose proof (proj1 first_range x o p Hp) as Hr. rewrite (ltb_true_of_range o (size x) p Hr) in *.
              destruct Ha as [u [u' [-> [Ha Hl]]]]. exists (charat o x p :: u), u'. repeat split; [|exact Hl].
              apply (IHx o). right. exists p, u. repeat split; assumption.
           ++ destruct (nullable x) eqn:Hnx; [|destruct Hp].
              pose proof (proj1 (proj2 first_range t (o + size x)) p Hp) as Hr.
              rewrite (ltb_false_of_ge (o + size x) p) in * by lia.
              exists [], (charat_l (o + size x) t p :: v). repeat split.
              ** apply (IHx o). left. split; reflexivity.
              ** apply (proj1 (IHt (o + size x))). right. exists p, v. repeat split; assumption.
    + (* alternation *) split.
      * intros [Hx|Ht].
        -- apply (IHx o) in Hx as [[-> Hnx]|[p [v [Hp [-> Ha]]]]].
           ++ left. split; [reflexivity | rewrite Hnx; reflexivity].
           ++ right. pose proof (proj1 first_range x o p Hp) as Hr. exists p, v.
              rewrite (ltb_true_of_range o (size x) p Hr). repeat split; [|exact Ha]. apply in_or_app. left. exact Hp.
        -- apply (proj2 (IHt (o + size x))) in Ht as [[-> Hnt]|[p [v [Hp [-> Ha]]]]].
           ++ left. split; [reflexivity | rewrite Hnt; apply orb_true_r].
           ++ right. pose proof (proj2 (proj2 first_range t (o + size x)) p Hp) as Hr. exists p, v.
              rewrite (ltb_false_of_ge (o + size x) p) by lia. repeat split; [|exact Ha]. apply in_or_app. right. exact Hp.
      * intros [[-> Hn]|[p [v [Hp [-> Ha]]]]].
        -- apply orb_prop in Hn as [Hnx|Hnt].
           ++ left. apply (IHx o). left. split; [reflexivity | exact Hnx].
           ++ right. apply (proj2 (IHt (o + size x))). left. split; [reflexivity | exact Hnt].
        -- apply in_app_or in Hp as [Hp|Hp].
           ++ pose proof (proj1 first_range x o p Hp) as Hr. rewrite (ltb_true_of_range o (size x) p Hr) in *.
              left. apply (IHx o). right. exists p, v. repeat split; assumption.
           ++ pose proof (proj2 (proj2 first_range t (o + size x)) p Hp) as Hr.
              rewrite (ltb_false_of_ge (o + size x) p) in * by lia.
              right. apply (proj2 (IHt (o + size x))). right. exists p, v. repeat split; assumption.
Qed.

(* ---- after n p = [p in lastpos] eps + sum over followpos ---- *)
Definition follow_eq (o sz : nat) (ls : list nat) (fol : nat -> list nat) (ch : nat -> N) (aft : nat -> list N -> Prop) : Prop :=
  forall p v, o <= p < o + sz ->
    (aft p v <-> (v = [] /\ In p ls) \/ (exists q v', In q (fol p) /\ v = ch q :: v' /\ aft q v')).

Lemma after_follow :
  (forall n o, follow_eq o (size n) (last o n) (follow o n) (charat o n) (after o n)) /\
  (forall l o, follow_eq o (sizes l) (last_cat o l) (follow_cat o l) (charat_l o l) (after_cat o l) /\
               follow_eq o (sizes l) (last_alt o l) (follow_alt o l) (charat_l o l) (after_alt o l)).
Proof.
  apply node_nodes_ind; unfold follow_eq.
  - (* NChar *) intros c o p v Hr. simpl in *. assert (p = o) by lia. subst p. split.
    + intros ->. left. split; [reflexivity | left; reflexivity].
    + intros [[-> _]|[q [v' [[] _]]]]. reflexivity.
  - (* NEmpty *) intros o p v Hr. simpl in Hr. lia.
  - (* NCat *) intros l IH o p v Hr. simpl. apply (proj1 (IH o)). exact Hr.
  - (* NAlt *) intros l IH o p v Hr. simpl. apply (proj2 (IH o)). exact Hr.
  - (* NStar *) intros x IH o p v Hr. simpl in Hr. simpl. split.
    + intros [u [u' [-> [Ha Hs]]]]. apply (IH o p u Hr) in Ha as [[-> Hl]|[q [u1 [Hq [-> Ha]]]]].
      * simpl. apply star_nonempty_head in Hs as [->|[u2 [v2 [Hne [-> [Hu2 Hv2]]]]]].
        -- left. split; [reflexivity | exact Hl].
        -- apply (proj1 lang_first x o) in Hu2 as [[-> _]|[q [u3 [Hq [-> Ha]]]]]; [destruct (Hne eq_refl)|].
           right. exists q, (u3 ++ v2). repeat split.
           ++ apply in_or_app. right. rewrite (proj2 (mem_in p (last o x)) Hl). exact Hq.
           ++ exists u3, v2. repeat split; assumption.
      * right. exists q, (u1 ++ u'). repeat split.
        -- apply in_or_app. left. exact Hq.
        -- exists u1, u'. repeat split; assumption.
    + intros [[-> Hl]|[q [v' [Hq [-> [u1 [u2 [-> [Ha Hs]]]]]]]]].
      * exists [], []. repeat split; [|constructor]. apply (IH o p [] Hr). left. split; [reflexivity | exact Hl].
      * apply in_app_or in Hq as [Hq|Hq].
        -- exists (charat o x q :: u1), u2. repeat split; [|exact Hs].
           apply (IH o p _ Hr). right. exists q, u1. repeat split; assumption.
        -- destruct (mem p (last o x)) eqn:Hm; [|destruct Hq]. apply mem_in in Hm.
           exists [], ((charat o x q :: u1) ++ u2). repeat split.
           ++ apply (IH o p [] Hr). left. split; [reflexivity | exact Hm].
           ++ constructor; [|exact Hs]. apply (proj1 lang_first x o). right. exists q, u1. repeat split; assumption.
  - (* NNil *) intros o. split; intros p v Hr; simpl in Hr; lia.
  - (* NCons *) intros x IHx t IHt o. split; intros p v Hr; simpl in Hr; simpl.
    + (* concatenation *) destruct (p <? o + size x) eqn:Hlt.
      * apply Nat.ltb_lt in Hlt. assert (Hrx : o <= p < o + size x) by lia. split.
        -- intros [u [u' [-> [Ha Hl]]]]. apply (IHx o p u Hrx) in Ha as [[-> Hlast]|[q [u1 [Hq [-> Ha]]]]].
           ++ simpl. apply (proj1 (proj2 lang_first t (o + size x))) in Hl as [[-> Hnt]|[q [v1 [Hq [-> Ha]]]]].
              ** left. split; [reflexivity|]. apply in_or_app. left. rewrite Hnt. exact Hlast.
              ** right. pose proof (proj1 (proj2 first_range t (o + size x)) q Hq) as Hrq. exists q, v1.
                 rewrite (ltb_false_of_ge (o + size x) q) by lia. repeat split; [|exact Ha].
                 apply in_or_app. right. rewrite (proj2 (mem_in p (last o x)) Hlast). exact Hq.
           ++ right. pose proof (proj1 follow_range x o p q Hq) as Hrq. exists q, (u1 ++ u').
              rewrite (ltb_true_of_range o (size x) q Hrq). repeat split.
              ** apply in_or_app. left. exact Hq.
              ** exists u1, u'. repeat split; assumption.
        -- intros [[-> Hlast]|[q [v' [Hq [-> Ha]]]]].
           ++ apply in_app_or in Hlast as [Hlast|Hlast].
              ** destruct (all_nullable t) eqn:Hnt; [|destruct Hlast]. exists [], []. repeat split.
                 --- apply (IHx o p [] Hrx). left. split; [reflexivity | exact Hlast].
                 --- apply (proj1 (proj2 lang_first t (o + size x))). left. split; [reflexivity | exact Hnt].
              ** pose proof (proj1 (proj2 last_range t (o + size x)) p Hlast). lia.
           ++ apply in_app_or in Hq as [Hq|Hq].
              ** pose proof (proj1 follow_range x o p q Hq) as Hrq. rewrite (ltb_true_of_range o (size x) q Hrq) in *.
                 destruct Ha as [u1 [u2 [-> [Ha Hl]]]]. exists (charat o x q :: u1), u2. repeat split; [|exact Hl].
                 apply (IHx o p _ Hrx). right. exists q, u1. repeat split; assumption.
              ** destruct (mem p (last o x)) eqn:Hm; [|destruct Hq]. apply mem_in in Hm.
                 pose proof (proj1 (proj2 first_range t (o + size x)) q Hq) as Hrq.
                 rewrite (ltb_false_of_ge (o + size x) q) in * by lia.
                 exists [], (charat_l (o + size x) t q :: v'). repeat split.
                 --- apply (IHx o p [] Hrx). left. split; [reflexivity | exact Hm].
                 --- apply (proj1 (proj2 lang_first t (o + size x))). right. exists q, v'. repeat split; assumption.
      * apply Nat.ltb_ge in Hlt. assert (Hrt : o + size x <= p < o + size x + sizes t) by lia.
        rewrite (proj1 (IHt (o + size x)) p v Hrt). split.
        -- intros [[-> Hlast]|[q [v' [Hq [-> Ha]]]]].
           ++ left. split; [reflexivity|]. apply in_or_app. right. exact Hlast.
           ++ right. pose proof (proj1 (proj2 follow_range t (o + size x) p) q Hq) as Hrq. exists q, v'.
              rewrite (ltb_false_of_ge (o + size x) q) by lia. repeat split; assumption.
        -- intros [[-> Hlast]|[q [v' [Hq [-> Ha]]]]].
           ++ left. split; [reflexivity|]. apply in_app_or in Hlast as [Hlast|Hlast]; [|exact Hlast].
              destruct (all_nullable t); [|destruct Hlast]. pose proof (proj1 last_range x o p Hlast). lia.
           ++ right. pose proof (proj1 (proj2 follow_range t (o + size x) p) q Hq) as Hrq.
              rewrite (ltb_false_of_ge (o + size x) q) in * by lia. exists q, v'. repeat split; assumption.
    + (* alternation *) destruct (p <? o + size x) eqn:Hlt.
      * apply Nat.ltb_lt in Hlt. assert (Hrx : o <= p < o + size x) by lia.
        rewrite (IHx o p v Hrx). split.
        -- intros [[-> Hlast]|[q [v' [Hq [-> Ha]]]]].
           ++ left. split; [reflexivity|]. apply in_or_app. left. exact Hlast.
           ++ right. pose proof (proj1 follow_range x o p q Hq) as Hrq. exists q, v'.
              rewrite (ltb_true_of_range o (size x) q Hrq). repeat split; assumption.
        -- intros [[-> Hlast]|[q [v' [Hq [-> Ha]]]]].
           ++ left. split; [reflexivity|]. apply in_app_or in Hlast as [Hlast|Hlast]; [exact Hlast|].
              pose proof (proj2 (proj2 last_range t (o + size x)) p Hlast). lia.
           ++ right. pose proof (proj1 follow_range x o p q Hq) as Hrq.
              rewrite (ltb_true_of_range o (size x) q Hrq) in *. exists q, v'. repeat split; assumption.
      * apply Nat.ltb_ge in Hlt. assert (Hrt : o + size x <= p < o + size x + sizes t) by lia.
        rewrite (proj2 (IHt (o + size x)) p v Hrt). split.
        -- intros [[-> Hlast]|[q [v' [Hq [-> Ha]]]]].
           ++ left. split; [reflexivity|]. apply in_or_app. right. exact Hlast.
           ++ right. pose proof (proj2 (proj2 follow_range t (o + size x) p) q Hq) as Hrq. exists q, v'.
              rewrite (ltb_false_of_ge (o + size x) q) by lia. repeat split; assumption.
        -- intros [[-> Hlast]|[q [v' [Hq [-> Ha]]]]].
           ++ left. split; [reflexivity|]. apply in_app_or in Hlast as [Hlast|Hlast]; [|exact Hlast].
              pose proof (proj1 last_range x o p Hlast). lia.
           ++ right. pose proof (proj2 (proj2 follow_range t (o + size x) p) q Hq) as Hrq.
              rewrite (ltb_false_of_ge (o + size x) q) in * by lia. exists q, v'. repeat split; assumption.
Qed.

(* ---- the characters of a tree ---- *)
Fixpoint chars (n : node) : list N :=
  match n with
  | NChar c => [c] | NEmpty => [] | NCat l => chars_l l | NAlt l => chars_l l | NStar x => chars x
  end
with chars_l (l : nodes) : list N :=
  match l with NNil => [] | NCons x t => chars x ++ chars_l t end.

Lemma charat_in_chars :
  (forall n o p, o <= p < o + size n -> In (charat o n p) (chars n)) /\
  (forall l o p, o <= p < o + sizes l -> In (charat_l o l p) (chars_l l)).
Proof.
  apply node_nodes_ind; simpl.
  - intros c o p _. left. reflexivity.
  - intros o p H. lia.
  - intros l IH o p H. apply IH. exact H.
  - intros l IH o p H. apply IH. exact H.
  - intros x IH o p H. apply IH. exact H.
  - intros o p H. lia.
  - intros x IHx t IHt o p H. apply in_or_app. destruct (p <? o + size x) eqn:E.
    + left. apply IHx. apply Nat.ltb_lt in E. lia.
    + right. apply IHt. apply Nat.ltb_ge in E. lia.
Qed.

(* ---- the position automaton of (r) em, as ToDFA builds it ---- *)
Section Automaton.
  Variable r : node.
  Variable em : N.                         (* the end marker *)

  Definition root : node := NCat (NCons r (NCons (NChar em) NNil)).
  Definition endpos : nat := size r.
  Definition sym (p : nat) : N := charat 0 root p.

  (* U = union of followpos(p) for the p of S that carry c; no transition is made on the end marker itself *)
  Definition step (S : list nat) (c : N) : list nat :=
    if N.eqb c em then [] else flat_map (fun p => if N.eqb (sym p) c then follow 0 root p else []) S.
  (* accepting: the set contains a position of the end marker *)
  Definition final (S : list nat) : bool := existsb (fun p => N.eqb (sym p) em) S.
  Definition start : list nat := first 0 root.
  Definition accepts (w : list N) : bool := final (fold_left step w start).

  Hypothesis em_fresh : ~ In em (chars r).

  Lemma size_root : size root = size r + 1.
  Proof. simpl. lia. Qed.

  Lemma sym_endpos : sym endpos = em.
  Proof.
    unfold sym, endpos, root. simpl. rewrite (ltb_false_of_ge (size r) (size r)) by lia.
    rewrite (ltb_true_of_range (size r) 1 (size r)) by lia. reflexivity.
  Qed.

  Lemma sym_em_iff p : p < size root -> (sym p = em <-> p = endpos).
  Proof.
    intros Hp. split; [|intros ->; apply sym_endpos]. intros E. unfold endpos. rewrite size_root in Hp.
    destruct (Nat.eq_dec p (size r)) as [H|H]; [exact H|]. exfalso. apply em_fresh.
    unfold sym, root in E. simpl in E. assert (X : (p <? size r) = true) by (apply Nat.ltb_lt; lia). rewrite X in E.
    rewrite <- E. apply (proj1 charat_in_chars). lia.
  Qed.

  Lemma last_root : last 0 root = [endpos].
  Proof. unfold root, endpos. simpl. reflexivity. Qed.

  Lemma nullable_root : nullable root = false.
  Proof. unfold root. simpl. apply andb_false_r. Qed.

  Lemma lang_root u : lang root u <-> exists w, u = w ++ [em] /\ lang r w.
  Proof.
    unfold root. simpl. split.
    - intros [u1 [v1 [-> [H1 [u2 [v2 [-> [-> ->]]]]]]]]. exists u1. split; [reflexivity | exact H1].
    - intros [w [-> H]]. exists w, [em]. repeat split; [exact H|]. exists [em], []. repeat split.
  Qed.

  Definition LangS (S : list nat) (u : list N) : Prop :=
    exists p v, In p S /\ u = sym p :: v /\ after 0 root p v.

  Lemma lang_root_start u : lang root u <-> LangS start u.
  Proof.
    rewrite (proj1 lang_first root 0 u), nullable_root. unfold LangS, start, sym. split.
    - intros [[_ H]|H]; [discriminate | exact H].
    - intros H. right. exact H.
  Qed.

  Definition raw_step (S : list nat) (c : N) : list nat :=
    flat_map (fun p => if N.eqb (sym p) c then follow 0 root p else []) S.

  Lemma LangS_cons S c u :
    within 0 (size root) S ->
    (LangS S (c :: u) <-> (u = [] /\ exists p, In p S /\ sym p = c /\ p = endpos) \/ LangS (raw_step S c) u).
  Proof.
    intros HS. unfold LangS. split.
    - intros [p [v [Hp [E Ha]]]]. inversion E; subst. clear E.
      apply (proj1 after_follow root 0 p v (HS p Hp)) in Ha as [[-> Hl]|[q [v' [Hq [-> Ha]]]]].
      + left. split; [reflexivity|]. exists p. rewrite last_root in Hl. destruct Hl as [<-|[]]. repeat split. exact Hp.
      + right. exists q, v'. repeat split; [|exact Ha]. unfold raw_step. apply in_flat_map. exists p. split; [exact Hp|].
        rewrite N.eqb_refl. exact Hq.
    - intros [[-> [p [Hp [<- ->]]]]|[q [v' [Hq [-> Ha]]]]].
      + exists endpos, []. repeat split; [exact Hp|]. apply (proj1 after_follow root 0 endpos [] (HS _ Hp)).
        left. split; [reflexivity|]. rewrite last_root. left. reflexivity.
      + unfold raw_step in Hq. apply in_flat_map in Hq as [p [Hp Hq]].
        destruct (N.eqb (sym p) c) eqn:E; [|destruct Hq]. apply N.eqb_eq in E. subst c.
        exists p, (sym q :: v'). repeat split; [exact Hp|]. apply (proj1 after_follow root 0 p _ (HS p Hp)).
        right. exists q, v'. repeat split; assumption.
  Qed.

  Lemma raw_step_within S c : within 0 (size root) (raw_step S c).
  Proof.
    intros q Hq. unfold raw_step in Hq. apply in_flat_map in Hq as [p [_ Hq]].
    destruct (N.eqb (sym p) c); [|destruct Hq]. apply (proj1 follow_range root 0 p q Hq).
  Qed.

  Lemma final_iff S : within 0 (size root) S -> (final S = true <-> In endpos S).
  Proof.
    intros HS. unfold final. rewrite existsb_exists. split.
    - intros [p [Hp E]]. apply N.eqb_eq in E. apply sym_em_iff in E; [subst; exact Hp|]. specialize (HS p Hp). lia.
    - intros H. exists endpos. split; [exact H|]. rewrite sym_endpos. apply N.eqb_refl.
  Qed.

  Lemma run_correct w : forall S,
    within 0 (size root) S -> ~ In em w ->
    (LangS S (w ++ [em]) <-> final (fold_left step w S) = true).
  Proof.
    induction w as [|c w IH]; intros S HS Hw; simpl.
    - rewrite (LangS_cons S em [] HS), (final_iff S HS). split.
      + intros [[_ [p [Hp [_ ->]]]]|[q [v [_ [E _]]]]]; [exact Hp | discriminate].
      + intros H. left. split; [reflexivity|]. exists endpos. repeat split; [exact H | apply sym_endpos].
    - assert (Hc : N.eqb c em = false).
      { apply N.eqb_neq. intros ->. apply Hw. left. reflexivity. }
      assert (Es : step S c = raw_step S c) by (unfold step; rewrite Hc; reflexivity).
      rewrite Es, (LangS_cons S c (w ++ [em]) HS). rewrite <- (IH (raw_step S c) (raw_step_within S c)).
      + split; [|intros H; right; exact H]. intros [[E _]|H]; [destruct w; discriminate | exact H].
      + intros H. apply Hw. right. exact H.
  Qed.

  (* THE THEOREM: the position automaton accepts exactly the language of the tree *)
  Theorem position_automaton_correct w : ~ In em w -> (accepts w = true <-> lang r w).
  Proof.
    intros Hw. unfold accepts. rewrite <- (run_correct w start (proj1 first_range root 0) Hw), <- lang_root_start, lang_root.
    split.
    - intros [w' [E H]]. apply app_inj_tail in E as [-> _]. exact H.
    - intros H. exists w. split; [reflexivity | exact H].
  Qed.
End Automaton.
