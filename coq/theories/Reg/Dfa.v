(* Deterministic automata as data (interval-labelled edges), runs over
   lists of code points, and a certified labelled-bisimulation checker. *)
From Coq Require Import List Bool NArith Lia.
From Verif Require Import Base.Explore Base.CharSet.
Import ListNotations.
Local Open Scope N_scope.

(* An edge: from, lo, hi, to.  First matching edge wins; no edge = dead. *)
Definition edge := (N * N * N * N)%type.
Definition e_from (e : edge) : N := fst (fst (fst e)).
Definition e_lo (e : edge) : N := snd (fst (fst e)).
Definition e_hi (e : edge) : N := snd (fst e).
Definition e_to (e : edge) : N := snd e.

Record dfa := { d_start : N; d_edges : list edge }.

Definition e_match (q c : N) (e : edge) : bool :=
  (e_from e =? q) && in_iv (e_lo e, e_hi e) c.

Definition step (d : dfa) (q c : N) : option N :=
  match find (e_match q c) (d_edges d) with
  | Some e => Some (e_to e)
  | None => None
  end.

Definition ostep (d : dfa) (oq : option N) (c : N) : option N :=
  match oq with Some q => step d q c | None => None end.

Definition run_from (d : dfa) (oq : option N) (w : list N) : option N :=
  fold_left (ostep d) w oq.

Definition run (d : dfa) (w : list N) : option N := run_from d (Some (d_start d)) w.

Lemma run_from_dead d w : run_from d None w = None.
Proof. induction w as [|c w IH]; simpl; [reflexivity | exact IH]. Qed.

Lemma run_from_app d oq u v : run_from d oq (u ++ v) = run_from d (run_from d oq u) v.
Proof. unfold run_from. apply fold_left_app. Qed.

Lemma run_snoc d w c : run d (w ++ [c]) = ostep d (run d w) c.
Proof. unfold run. rewrite run_from_app. reflexivity. Qed.

(* Boundaries of a DFA: every lo and hi+1. *)
Definition d_bounds (d : dfa) : list N :=
  flat_map (fun e => [e_lo e; e_hi e + 1]) (d_edges d).

Lemma edge_covered d e : In e (d_edges d) -> iv_covered (d_bounds d) (e_lo e, e_hi e) = true.
Proof.
  intros Hin. unfold iv_covered; simpl. apply andb_true_intro.
  split; apply nmem_In; unfold d_bounds; apply in_flat_map; exists e; (split; [exact Hin|]); simpl; auto.
Qed.

Lemma find_ext {A} (f g : A -> bool) l : (forall x, In x l -> f x = g x) -> find f l = find g l.
Proof.
  induction l as [|x l IH]; intros H; simpl; [reflexivity|].
  rewrite (H x (or_introl eq_refl)). destruct (g x); [reflexivity|].
  apply IH. intros y Hy. apply H. right. exact Hy.
Qed.

Lemma step_rep d B q c : incl (d_bounds d) B -> step d q c = step d q (rep B c).
Proof.
  intros Hincl. unfold step.
  rewrite (find_ext (e_match q c) (e_match q (rep B c))); [reflexivity|].
  intros e He. unfold e_match. f_equal.
  apply in_iv_rep.
  pose proof (edge_covered d e He) as Hc. unfold iv_covered in *. simpl in *.
  apply andb_prop in Hc as [H1 H2].
  rewrite (nmem_incl _ _ _ Hincl H1), (nmem_incl _ _ _ Hincl H2). reflexivity.
Qed.

(* ---- labelled bisimulation between two automata ---- *)

Section Bisim.
  Variables L1 L2 : Type.
  Variable d1 d2 : dfa.
  Variable lab1 : N -> L1.
  Variable lab2 : N -> L2.
  Variable compat : L1 -> L2 -> bool.

  Definition pair := (option N * option N)%type.

  Definition on_eqb (a b : option N) : bool :=
    match a, b with
    | Some x, Some y => x =? y
    | None, None => true
    | _, _ => false
    end.

  Lemma on_eqb_spec a b : on_eqb a b = true <-> a = b.
  Proof.
    destruct a as [x|], b as [y|]; simpl; split; intros H; try discriminate; try reflexivity.
    - apply N.eqb_eq in H. subst. reflexivity.
    - inversion H. apply N.eqb_refl.
  Qed.

  Definition pair_eqb (p q : pair) : bool := on_eqb (fst p) (fst q) && on_eqb (snd p) (snd q).

  Lemma pair_eqb_spec p q : pair_eqb p q = true <-> p = q.
  Proof.
    destruct p as [a b], q as [c d]; unfold pair_eqb; simpl. rewrite andb_true_iff, !on_eqb_spec.
    split; [intros [-> ->]; reflexivity | intros H; inversion H; auto].
  Qed.

  Definition pair_ok (p : pair) : bool :=
    match p with
    | (Some q1, Some q2) => compat (lab1 q1) (lab2 q2)
    | (None, None) => true
    | _ => false
    end.

  Definition atoms : list N := nodup N.eq_dec (0 :: (d_bounds d1 ++ d_bounds d2)).

  Definition pair_succs (p : pair) : list pair :=
    match p with
    | (None, None) => []
    | _ => map (fun c => (ostep d1 (fst p) c, ostep d2 (snd p) c)) atoms
    end.

  Definition bisim_check (fuel : nat) : bool :=
    match explore pair_eqb pair_succs pair_ok fuel [(Some (d_start d1), Some (d_start d2))] [] with
    | Some _ => true
    | None => false
    end.

  Definition related (p : pair) : Prop :=
    match p with
    | (Some q1, Some q2) => compat (lab1 q1) (lab2 q2) = true
    | (None, None) => True
    | _ => False
    end.

  Lemma pair_ok_related p : pair_ok p = true -> related p.
  Proof. destruct p as [[q1|] [q2|]]; simpl; intros H; try discriminate; auto. Qed.

  Theorem bisim_check_sound fuel :
    bisim_check fuel = true ->
    forall w, related (run d1 w, run d2 w).
  Proof.
    unfold bisim_check.
    destruct (explore pair_eqb pair_succs pair_ok fuel _ []) as [V|] eqn:Hex; [|discriminate].
    intros _.
    destruct (explore_sound pair_eqb pair_eqb_spec pair_succs pair_ok fuel _ V Hex) as [Hinit Hclosed].
    assert (Hall : forall w, In (run d1 w, run d2 w) V).
    { intros w. induction w as [|c w IH] using rev_ind.
      - apply Hinit. left. reflexivity.
      - rewrite !run_snoc.
        destruct (Hclosed _ IH) as [_ Hs].
        destruct (run d1 w) as [q1|] eqn:R1; destruct (run d2 w) as [q2|] eqn:R2;
          try (simpl; exact IH).
        all: apply Hs; unfold pair_succs; simpl fst; simpl snd.
        all: set (B := d_bounds d1 ++ d_bounds d2).
        all: assert (Hi1 : incl (d_bounds d1) B) by (apply incl_appl, incl_refl).
        all: assert (Hi2 : incl (d_bounds d2) B) by (apply incl_appr, incl_refl).
        all: apply in_map_iff; exists (rep B c); split; [|apply nodup_In; apply rep_in].
        all: simpl; rewrite <- ?(step_rep d1 B _ c Hi1), <- ?(step_rep d2 B _ c Hi2); reflexivity. }
    intros w. apply pair_ok_related. apply Hclosed. apply Hall.
  Qed.
End Bisim.

Arguments bisim_check {L1 L2} d1 d2 lab1 lab2 compat fuel.
Arguments bisim_check_sound {L1 L2} d1 d2 lab1 lab2 compat fuel.
Arguments related {L1 L2} lab1 lab2 compat p.

(* ---- extensional identity of two transition tables (same next state for EVERY state and code point) ---- *)
Section SameFunction.
  Variable d1 d2 : dfa.

  Definition from_states (d : dfa) : list N := map e_from (d_edges d).
  Definition all_from : list N := nodup N.eq_dec (from_states d1 ++ from_states d2).
  Definition sf_atoms : list N := nodup N.eq_dec (0 :: (d_bounds d1 ++ d_bounds d2)).

  Definition ostate_eqb (a b : option N) : bool :=
    match a, b with Some x, Some y => x =? y | None, None => true | _, _ => false end.

  Definition same_function_check : bool :=
    forallb (fun q => forallb (fun c => ostate_eqb (step d1 q c) (step d2 q c)) sf_atoms) all_from.

  Lemma step_none_not_from d q c : ~ In q (from_states d) -> step d q c = None.
  Proof.
    intros H. unfold step. destruct (find (e_match q c) (d_edges d)) as [e|] eqn:E; [|reflexivity].
    exfalso. apply find_some in E as [Hin Hm]. unfold e_match in Hm. apply andb_prop in Hm as [Hq _].
    apply N.eqb_eq in Hq. apply H. unfold from_states. apply in_map_iff. exists e. auto.
  Qed.

  Theorem same_function_sound :
    same_function_check = true -> forall q c, step d1 q c = step d2 q c.
  Proof.
    unfold same_function_check. intros H q c. rewrite forallb_forall in H.
    destruct (in_dec N.eq_dec q all_from) as [Hin|Hnot].
    - specialize (H q Hin). rewrite forallb_forall in H.
      set (B := d_bounds d1 ++ d_bounds d2).
      rewrite (step_rep d1 B q c) by (apply incl_appl, incl_refl).
      rewrite (step_rep d2 B q c) by (apply incl_appr, incl_refl).
      assert (Ha : In (rep B c) sf_atoms) by (apply nodup_In; apply rep_in).
      specialize (H _ Ha). destruct (step d1 q (rep B c)), (step d2 q (rep B c)); simpl in H; try discriminate; auto.
      apply N.eqb_eq in H. subst. reflexivity.
    - assert (H1 : ~ In q (from_states d1)) by (intros X; apply Hnot; apply nodup_In; apply in_or_app; auto).
      assert (H2 : ~ In q (from_states d2)) by (intros X; apply Hnot; apply nodup_In; apply in_or_app; auto).
      rewrite (step_none_not_from d1 q c H1), (step_none_not_from d2 q c H2). reflexivity.
  Qed.
End SameFunction.
