(* UTF-8 decoding as done by the emitted reader (method Next of the input type in input.go.tmpl): the table-driven decoder of the Go
   standard library, written out.  The tables and masks are parameters (translated from the template on every run).

   [decode_encode]: for EVERY Unicode scalar value c (0..10FFFF without the surrogates) the decoder, given the UTF-8
   encoding of c (RFC 3629, written here as arithmetic) followed by anything, returns c and the number of bytes of the
   encoding.  The domain is finite (1,112,064 values): the kernel checks every one of them ([all_scalars_ok], a
   computation), and [range_ok_sound] lifts the computation to the quantified statement.
   [decode_all_encode_all]: hence a whole text of scalar values is read back exactly, whatever its length. *)
From Coq Require Import List Bool Arith NArith Lia.
Import ListNotations.
Local Open Scope N_scope.

Inductive dres := DEof | DInvalid | DOk (c : N) (size : nat).

Definition dres_eqb (a b : dres) : bool :=
  match a, b with
  | DEof, DEof => true
  | DInvalid, DInvalid => true
  | DOk c n, DOk d m => (c =? d) && Nat.eqb n m
  | _, _ => false
  end.

Lemma dres_eqb_eq a b : dres_eqb a b = true -> a = b.
Proof.
  destruct a, b; simpl; intros H; try discriminate; try reflexivity.
  apply andb_prop in H as [H1 H2]. apply N.eqb_eq in H1. apply Nat.eqb_eq in H2. subst. reflexivity.
Qed.

(* the encoding, as the standard defines it *)
Definition encode (c : N) : list N :=
  if c <? 128 then [c]
  else if c <? 2048 then [192 + c / 64; 128 + c mod 64]
  else if c <? 65536 then [224 + c / 4096; 128 + (c / 64) mod 64; 128 + c mod 64]
  else [240 + c / 262144; 128 + (c / 4096) mod 64; 128 + (c / 64) mod 64; 128 + c mod 64].

(* the same with shifts and masks (what the exhaustive check evaluates: much cheaper than division) *)
Definition encode_f (c : N) : list N :=
  if c <? 128 then [c]
  else if c <? 2048 then [192 + N.shiftr c 6; 128 + N.land c 63]
  else if c <? 65536 then [224 + N.shiftr c 12; 128 + N.land (N.shiftr c 6) 63; 128 + N.land c 63]
  else [240 + N.shiftr c 18; 128 + N.land (N.shiftr c 12) 63; 128 + N.land (N.shiftr c 6) 63; 128 + N.land c 63].

Lemma encode_f_eq c : encode_f c = encode c.
Proof.
  assert (L : forall a, N.land a 63 = a mod 64) by (intros a; apply (N.land_ones a 6)).
  assert (S6 : forall a, N.shiftr a 6 = a / 64) by (intros a; apply (N.shiftr_div_pow2 a 6)).
  assert (S12 : forall a, N.shiftr a 12 = a / 4096) by (intros a; apply (N.shiftr_div_pow2 a 12)).
  assert (S18 : forall a, N.shiftr a 18 = a / 262144) by (intros a; apply (N.shiftr_div_pow2 a 18)).
  unfold encode_f, encode. rewrite !L, S6, S12, S18. reflexivity.
Qed.

Definition scalar (c : N) : bool := (c <? 1114112) && negb ((55296 <=? c) && (c <=? 57343)).

Section Decoder.
  Variable first : list (list N).        (* the 256 entries of the table `first`, as 16 rows of 16 *)
  Variable accept : list (N * N).        (* second-byte ranges *)
  Variables c_xx c_as locb hicb maskx mask2 mask3 mask4 : N.

  Definition decode (bs : list N) : dres :=
    match bs with
    | [] => DEof
    | b0 :: r0 =>
      let x := nth (N.to_nat (b0 mod 16)) (nth (N.to_nat (b0 / 16)) first []) c_xx in
      if c_as <=? x then (if x =? c_xx then DInvalid else DOk b0 1)
      else
        let size := N.land x 7 in
        match r0 with
        | [] => DEof
        | b1 :: r1 =>
          let '(lo, hi) := nth (N.to_nat (N.shiftr x 4)) accept (0, 0) in
          if (b1 <? lo) || (hi <? b1) then DInvalid
          else if size =? 2 then DOk (N.lor (N.shiftl (N.land b0 mask2) 6) (N.land b1 maskx)) 2
          else
            match r1 with
            | [] => DEof
            | b2 :: r2 =>
              if (b2 <? locb) || (hicb <? b2) then DInvalid
              else if size =? 3
                   then DOk (N.lor (N.lor (N.shiftl (N.land b0 mask3) 12) (N.shiftl (N.land b1 maskx) 6)) (N.land b2 maskx)) 3
                   else
                     match r2 with
                     | [] => DEof
                     | b3 :: _ =>
                       if (b3 <? locb) || (hicb <? b3) then DInvalid
                       else DOk (N.lor (N.lor (N.lor (N.shiftl (N.land b0 mask4) 18) (N.shiftl (N.land b1 maskx) 12))
                                              (N.shiftl (N.land b2 maskx) 6)) (N.land b3 maskx)) 4
                     end
            end
        end
    end.

  (* a successful decoding does not look at what follows the bytes it used *)
  Lemma decode_app bs c n rest : decode bs = DOk c n -> decode (bs ++ rest) = DOk c n.
  Proof.
    unfold decode. destruct bs as [|b0 [|b1 [|b2 [|b3 r]]]]; simpl; try discriminate.
    - destruct (c_as <=? _); [|discriminate]. destruct (_ =? c_xx); [discriminate|]. auto.
    - destruct (c_as <=? _); [destruct (_ =? c_xx); [discriminate | auto]|].
      destruct (nth _ accept (0, 0)) as [lo hi]. destruct ((b1 <? lo) || (hi <? b1)); [discriminate|].
      destruct (_ =? 2); [auto | discriminate].
    - destruct (c_as <=? _); [destruct (_ =? c_xx); [discriminate | auto]|].
      destruct (nth _ accept (0, 0)) as [lo hi]. destruct ((b1 <? lo) || (hi <? b1)); [discriminate|].
      destruct (_ =? 2); [auto|]. destruct ((b2 <? locb) || (hicb <? b2)); [discriminate|].
      destruct (_ =? 3); [auto | discriminate].
    - auto.
  Qed.

  Definition ok (c : N) : bool :=
    if scalar c then dres_eqb (decode (encode_f c)) (DOk c (length (encode_f c))) else true.

  (* every value in [s, s + n) passes *)
  Fixpoint range_ok (n : nat) (s : N) : bool :=
    match n with
    | O => true
    | S n' => if ok s then range_ok n' (s + 1) else false
    end.

  Lemma range_ok_sound n : forall s, range_ok n s = true -> forall c, s <= c -> c < s + N.of_nat n -> ok c = true.
  Proof.
    induction n as [|n IH]; intros s H c H1 H2.
    - simpl in H2. lia.
    - simpl in H. destruct (ok s) eqn:Es; [|discriminate].
      destruct (N.eq_dec c s) as [->|Hne]; [exact Es|].
      apply (IH (s + 1) H c); lia.
  Qed.

  (* blocks of 4096 values, so that no large unary number is ever built *)
  Definition bsz : nat := 4096.
  Lemma bsz_N : N.of_nat bsz = 4096.
  Proof. vm_compute. reflexivity. Qed.

  Fixpoint blocks_ok (k : nat) (s : N) : bool :=
    match k with
    | O => true
    | S k' => if range_ok bsz s then blocks_ok k' (s + 4096) else false
    end.

  Lemma blocks_ok_sound k : forall s, blocks_ok k s = true ->
    forall c, s <= c -> c < s + 4096 * N.of_nat k -> ok c = true.
  Proof.
    induction k as [|k IH]; intros s H c H1 H2.
    - change (N.of_nat 0) with 0 in H2. lia.
    - cbn [blocks_ok] in H. destruct (range_ok bsz s) eqn:Er; [|discriminate].
      destruct (N.lt_ge_cases c (s + 4096)) as [Hlt|Hge].
      + apply (range_ok_sound bsz s Er c H1). rewrite bsz_N. exact Hlt.
      + apply (IH (s + 4096) H c Hge). rewrite Nat2N.inj_succ in H2. lia.
  Qed.

  Definition all_scalars_ok : bool := blocks_ok 272 0.       (* 272 * 4096 = 1114112 = 0x110000 *)

  Hypothesis Hall : all_scalars_ok = true.

  Theorem decode_encode c rest : scalar c = true ->
    decode (encode c ++ rest) = DOk c (length (encode c)).
  Proof.
    intros Hs. apply decode_app.
    assert (Hc : c < 1114112).
    { unfold scalar in Hs. apply andb_prop in Hs as [H _]. apply N.ltb_lt. exact H. }
    assert (H272 : N.of_nat 272 = 272) by (vm_compute; reflexivity).
    pose proof (blocks_ok_sound 272 0 Hall c (N.le_0_l c) ltac:(rewrite H272; lia)) as Hok.
    unfold ok in Hok. rewrite Hs, encode_f_eq in Hok. apply dres_eqb_eq. exact Hok.
  Qed.

  (* a whole text *)
  Fixpoint decode_all (fuel : nat) (bs : list N) : option (list N) :=
    match fuel with
    | O => None
    | S f =>
      match bs with
      | [] => Some []
      | _ => match decode bs with
             | DOk c n => match decode_all f (skipn n bs) with Some cs => Some (c :: cs) | None => None end
             | _ => None
             end
      end
    end.

  Lemma encode_nonempty c : encode c <> [].
  Proof. unfold encode. destruct (c <? 128); [discriminate|]. destruct (c <? 2048); [discriminate|]. destruct (c <? 65536); discriminate. Qed.

  Theorem decode_all_encode_all cs : forallb scalar cs = true ->
    forall fuel, (length cs < fuel)%nat -> decode_all fuel (flat_map encode cs) = Some cs.
  Proof.
    induction cs as [|c cs IH]; intros Hs fuel Hf.
    - destruct fuel; [inversion Hf | reflexivity].
    - simpl in Hs. apply andb_prop in Hs as [Hc Hs]. destruct fuel as [|f]; [inversion Hf|].
      simpl flat_map. simpl decode_all.
      destruct (encode c ++ flat_map encode cs) as [|b bs] eqn:Eb.
      { exfalso. apply app_eq_nil in Eb as [E _]. exact (encode_nonempty c E). }
      rewrite <- Eb. rewrite (decode_encode c _ Hc).
      rewrite skipn_app, skipn_all, Nat.sub_diag. simpl.
      rewrite (IH Hs f ltac:(simpl in Hf; lia)). reflexivity.
  Qed.
End Decoder.
