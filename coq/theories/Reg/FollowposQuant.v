(* quantifyNode of internal/regex/parser/ast/parser.go over the tree model of Reg/Followpos.v: what a quantified tree
   denotes, for every operand tree and every quantifier (cloneNode is the identity on immutable trees: every copy is a
   separate subtree and gets its own positions). *)
From Coq Require Import List Bool Arith NArith Lia.
From Verif Require Import Reg.Followpos.
Import ListNotations.

Inductive quant := QOpt | QStar | QPlus | QRange (low : nat) (up : option nat).

Fixpoint copies (k : nat) (x : node) (rest : nodes) : nodes :=
  match k with 0 => rest | S k' => NCons x (copies k' x rest) end.

Definition opt (x : node) : node := NAlt (NCons NEmpty (NCons x NNil)).

Definition quantify (x : node) (q : quant) : node :=
  match q with
  | QOpt => opt x
  | QStar => NStar x
  | QPlus => NCat (NCons x (NCons (NStar x) NNil))
  | QRange low None => NCat (copies low x (NCons (NStar x) NNil))
  | QRange low (Some up) => NCat (copies low x (copies (up - low) (opt x) NNil))
  end.

(* i-fold concatenation of a language *)
Fixpoint power (L : list N -> Prop) (i : nat) (w : list N) : Prop :=
  match i with
  | 0 => w = []
  | S j => exists u v, w = u ++ v /\ L u /\ power L j v
  end.

Lemma lang_opt x w : lang (opt x) w <-> w = [] \/ lang x w.
Proof. unfold opt. simpl. tauto. Qed.

Lemma star_power L w : star L w <-> exists i, power L i w.
Proof.
  split.
  - induction 1 as [|u v Hu Hv [i IH]]; [exists 0; reflexivity|]. exists (S i), u, v. repeat split; assumption.
  - intros [i H]. revert w H. induction i as [|i IH]; intros w H; simpl in H.
    + subst. constructor.
    + destruct H as [u [v [-> [Hu Hv]]]]. constructor; [exact Hu | apply IH; exact Hv].
Qed.

Lemma power_app L i j u v : power L i u -> power L j v -> power L (i + j) (u ++ v).
Proof.
  revert u. induction i as [|i IH]; intros u Hu Hv; simpl in *.
  - subst. exact Hv.
  - destruct Hu as [a [b [-> [Ha Hb]]]]. exists a, (b ++ v). rewrite app_assoc. repeat split; [exact Ha | apply IH; assumption].
Qed.

Lemma power_split L i j w : power L (i + j) w -> exists u v, w = u ++ v /\ power L i u /\ power L j v.
Proof.
  revert w. induction i as [|i IH]; intros w H; simpl in *.
  - exists [], w. repeat split. exact H.
  - destruct H as [a [b [-> [Ha Hb]]]]. destruct (IH b Hb) as [u [v [-> [Hu Hv]]]].
    exists (a ++ u), v. rewrite app_assoc. repeat split; [|exact Hv]. exists a, u. repeat split; assumption.
Qed.

Lemma lang_copies k x rest w :
  lang_cat (copies k x rest) w <-> exists u v, w = u ++ v /\ power (lang x) k u /\ lang_cat rest v.
Proof.
  revert w. induction k as [|k IH]; intros w; simpl.
  - split; [intros H; exists [], w; repeat split; exact H | intros [u [v [-> [-> H]]]]; exact H].
  - split.
    + intros [a [b [-> [Ha Hb]]]]. apply IH in Hb as [u [v [-> [Hu Hv]]]].
      exists (a ++ u), v. rewrite app_assoc. repeat split; [|exact Hv]. exists a, u. repeat split; assumption.
    + intros [u [v [-> [[a [b [-> [Ha Hb]]]] Hv]]]]. exists a, (b ++ v). rewrite app_assoc. repeat split; [exact Ha|].
      apply IH. exists b, v. repeat split; assumption.
Qed.

Lemma lang_optional_copies j x w :
  lang_cat (copies j (opt x) NNil) w <-> exists i, i <= j /\ power (lang x) i w.
Proof.
  revert w. induction j as [|j IH]; intros w; simpl.
  - split; [intros ->; exists 0; split; [lia | reflexivity]|]. intros [i [Hi H]]. assert (i = 0) by lia. subst. exact H.
  - split.
    + intros [a [b [-> [Ha Hb]]]]. apply lang_opt in Ha. apply IH in Hb as [i [Hi Hp]]. destruct Ha as [->|Ha].
      * exists i. split; [lia | exact Hp].
      * exists (S i). split; [lia|]. exists a, b. repeat split; assumption.
    + intros [i [Hi Hp]]. destruct (Nat.eq_dec i (S j)) as [->|Hne].
      * simpl in Hp. destruct Hp as [a [b [-> [Ha Hb]]]]. exists a, b. repeat split.
        -- apply lang_opt. right. exact Ha.
        -- apply IH. exists j. split; [lia | exact Hb].
      * exists [], w. repeat split; [apply lang_opt; left; reflexivity|]. apply IH. exists i. split; [lia | exact Hp].
Qed.

(* THE MEANING OF A QUANTIFIED TREE, every operand tree, every quantifier *)
Theorem quantify_opt x w : lang (quantify x QOpt) w <-> w = [] \/ lang x w.
Proof. apply lang_opt. Qed.

Theorem quantify_star x w : lang (quantify x QStar) w <-> exists i, power (lang x) i w.
Proof. simpl. apply star_power. Qed.

Theorem quantify_plus x w : lang (quantify x QPlus) w <-> exists i, 1 <= i /\ power (lang x) i w.
Proof.
  simpl. split.
  - intros [u [v [-> [Hu [s [e [-> [Hs ->]]]]]]]]. apply star_power in Hs as [i Hi]. exists (S i). split; [lia|].
    rewrite app_nil_r. exists u, s. repeat split; assumption.
  - intros [i [Hi Hp]]. destruct i as [|i]; [lia|]. simpl in Hp. destruct Hp as [u [v [-> [Hu Hv]]]].
    exists u, v. repeat split; [exact Hu|]. exists v, []. rewrite app_nil_r. repeat split. apply star_power. exists i. exact Hv.
Qed.

Theorem quantify_at_least x m w : lang (quantify x (QRange m None)) w <-> exists i, m <= i /\ power (lang x) i w.
Proof.
  simpl. rewrite lang_copies. split.
  - intros [u [v [-> [Hu [s [e [-> [Hs ->]]]]]]]]. apply star_power in Hs as [j Hj]. exists (m + j). split; [lia|].
    rewrite app_nil_r. apply power_app; assumption.
  - intros [i [Hi Hp]]. replace i with (m + (i - m)) in Hp by lia. apply power_split in Hp as [u [v [-> [Hu Hv]]]].
    exists u, v. repeat split; [exact Hu|]. exists v, []. rewrite app_nil_r. repeat split. apply star_power. exists (i - m). exact Hv.
Qed.

Theorem quantify_range x m k w : m <= k ->
  (lang (quantify x (QRange m (Some k))) w <-> exists i, m <= i <= k /\ power (lang x) i w).
Proof.
  intros Hmk. simpl. rewrite lang_copies. split.
  - intros [u [v [-> [Hu Hv]]]]. apply lang_optional_copies in Hv as [j [Hj Hp]]. exists (m + j). split; [lia|].
    apply power_app; assumption.
  - intros [i [Hi Hp]]. replace i with (m + (i - m)) in Hp by lia. apply power_split in Hp as [u [v [-> [Hu Hv]]]].
    exists u, v. repeat split; [exact Hu|]. apply lang_optional_copies. exists (i - m). split; [lia | exact Hv].
Qed.

(* ---- correspondence helpers: structural equality modulo one-operand concatenations ---- *)
Fixpoint node_eqb (a b : node) : bool :=
  match a, b with
  | NChar c, NChar d => N.eqb c d
  | NEmpty, NEmpty => true
  | NCat l, NCat m => nodes_eqb l m
  | NAlt l, NAlt m => nodes_eqb l m
  | NStar x, NStar y => node_eqb x y
  | _, _ => false
  end
with nodes_eqb (l m : nodes) : bool :=
  match l, m with
  | NNil, NNil => true
  | NCons x t, NCons y u => node_eqb x y && nodes_eqb t u
  | _, _ => false
  end.

(* the parser wraps a lone item in a concatenation of one operand *)
Fixpoint strip (n : node) : node :=
  match n with
  | NCat (NCons x NNil) => strip x
  | NCat l => NCat (strip_l l)
  | NAlt l => NAlt (strip_l l)
  | NStar x => NStar (strip x)
  | other => other
  end
with strip_l (l : nodes) : nodes :=
  match l with NNil => NNil | NCons x t => NCons (strip x) (strip_l t) end.

Definition quantified_as_modelled (x : node) (q : quant) (xq : node) : bool :=
  node_eqb (strip (quantify (strip x) q)) (strip xq).
