(* computeFollows as the code runs it: one pass over the tree that ADDS, at every concatenation and every star, the
   pairs (position, positions that may follow it) to a table - and the proof that the table so accumulated holds, for
   every position, exactly the positions [Followpos.follow] computes by descending to that position.
   Concatenation (n-ary, operands x1 .. xk): for i < j, every position of lastpos(xi) receives firstpos(xj), for j = i+1
   and onwards as long as the operands in between are nullable - that is, it receives firstpos of the rest of the list. *)
From Coq Require Import List Bool Arith NArith Lia.
From Verif Require Import Reg.Followpos.
Import ListNotations.

(* the entries one node contributes, then those of its operands *)
Fixpoint entries (o : nat) (n : node) : list (nat * list nat) :=
  match n with
  | NChar _ => [] | NEmpty => []
  | NCat l => entries_cat o l
  | NAlt l => entries_alt o l
  | NStar x => map (fun p => (p, first o x)) (last o x) ++ entries o x
  end
with entries_cat (o : nat) (l : nodes) : list (nat * list nat) :=
  match l with
  | NNil => []
  | NCons x t => map (fun p => (p, first_cat (o + size x) t)) (last o x) ++ entries o x ++ entries_cat (o + size x) t
  end
with entries_alt (o : nat) (l : nodes) : list (nat * list nat) :=
  match l with
  | NNil => []
  | NCons x t => entries o x ++ entries_alt (o + size x) t
  end.

(* follows[p]: everything the table holds for p *)
Definition table_at (tbl : list (nat * list nat)) (p : nat) : list nat :=
  flat_map (fun e => if Nat.eqb (fst e) p then snd e else []) tbl.

Lemma table_at_app a b p : table_at (a ++ b) p = table_at a p ++ table_at b p.
Proof. unfold table_at. apply flat_map_app. Qed.

Lemma table_at_map (l : list nat) (v : list nat) p q :
  In q (table_at (map (fun x => (x, v)) l) p) <-> In p l /\ In q v.
Proof.
  unfold table_at. rewrite in_flat_map. split.
  - intros [e [He Hq]]. apply in_map_iff in He as [x [<- Hx]]. simpl in Hq.
    destruct (Nat.eqb x p) eqn:E; [|destruct Hq]. apply Nat.eqb_eq in E. subst. split; assumption.
  - intros [Hp Hq]. exists (p, v). split; [apply in_map_iff; exists p; split; [reflexivity | exact Hp]|].
    simpl. rewrite Nat.eqb_refl. exact Hq.
Qed.

(* entries only speak about positions of the tree they come from *)
Lemma entries_range :
  (forall n o e, In e (entries o n) -> o <= fst e < o + size n) /\
  (forall l o e, (In e (entries_cat o l) -> o <= fst e < o + sizes l) /\ (In e (entries_alt o l) -> o <= fst e < o + sizes l)).
Proof.
  apply node_nodes_ind; simpl.
  - intros c o e [].
  - intros o e [].
  - intros l IH o e H. apply (proj1 (IH o e) H).
  - intros l IH o e H. apply (proj2 (IH o e) H).
  - intros x IH o e H. apply in_app_or in H as [H|H]; [|apply IH; exact H].
    apply in_map_iff in H as [p [<- Hp]]. simpl. apply (proj1 last_range x o p Hp).
  - intros o e. split; intros [].
  - intros x IHx t IHt o e. split; intros H.
    + apply in_app_or in H as [H|H].
      * apply in_map_iff in H as [p [<- Hp]]. simpl. pose proof (proj1 last_range x o p Hp). lia.
      * apply in_app_or in H as [H|H]; [pose proof (IHx o e H); lia | pose proof (proj1 (IHt (o + size x) e) H); lia].
    + apply in_app_or in H as [H|H]; [pose proof (IHx o e H); lia | pose proof (proj2 (IHt (o + size x) e) H); lia].
Qed.

Lemma table_at_out_of_range tbl p lo hi :
  (forall e, In e tbl -> lo <= fst e < hi) -> ~ (lo <= p < hi) -> table_at tbl p = [].
Proof.
  intros H Hp. unfold table_at. induction tbl as [|e tbl IH]; [reflexivity|]. simpl.
  destruct (Nat.eqb (fst e) p) eqn:E.
  - apply Nat.eqb_eq in E. exfalso. apply Hp. rewrite <- E. apply H. left. reflexivity.
  - simpl. apply IH. intros e' He'. apply H. right. exact He'.
Qed.

(* THE TABLE IS FOLLOWPOS: for every position of the tree, what the accumulated table holds for it is what [follow] computes *)
Theorem accumulated_table_is_follow :
  (forall n o p q, o <= p < o + size n -> (In q (table_at (entries o n) p) <-> In q (follow o n p))) /\
  (forall l o p q, o <= p < o + sizes l ->
     (In q (table_at (entries_cat o l) p) <-> In q (follow_cat o l p)) /\
     (In q (table_at (entries_alt o l) p) <-> In q (follow_alt o l p))).
Proof.
  apply node_nodes_ind; simpl.
  - intros c o p q _. tauto.
  - intros o p q H. lia.
  - intros l IH o p q H. apply (proj1 (IH o p q H)).
  - intros l IH o p q H. apply (proj2 (IH o p q H)).
  - intros x IH o p q H. rewrite table_at_app, !in_app_iff, table_at_map, (IH o p q H).
    destruct (mem p (last o x)) eqn:E.
    + apply mem_in in E. tauto.
    + assert (~ In p (last o x)) by (intros X; apply mem_in in X; rewrite X in E; discriminate). simpl. tauto.
  - intros o p q H. lia.
  - intros x IHx t IHt o p q H. split.
    + rewrite !table_at_app, !in_app_iff, table_at_map. destruct (p <? o + size x) eqn:E.
      * apply Nat.ltb_lt in E. assert (Hr : o <= p < o + size x) by lia.
        rewrite (IHx o p q Hr), in_app_iff.
        rewrite (table_at_out_of_range (entries_cat (o + size x) t) p (o + size x) (o + size x + sizes t));
          [|intros e He; apply (proj1 (proj2 entries_range t (o + size x) e) He) | lia].
        destruct (mem p (last o x)) eqn:Em.
        -- apply mem_in in Em. simpl. tauto.
        -- assert (~ In p (last o x)) by (intros X; apply mem_in in X; rewrite X in Em; discriminate). simpl. tauto.
      * apply Nat.ltb_ge in E. assert (Hr : o + size x <= p < o + size x + sizes t) by lia.
        rewrite (proj1 (IHt (o + size x) p q Hr)).
        rewrite (table_at_out_of_range (entries o x) p o (o + size x)); [|intros e He; apply (proj1 entries_range x o e He) | lia].
        assert (~ In p (last o x)) by (intros X; pose proof (proj1 last_range x o p X); lia). simpl. tauto.
    + rewrite table_at_app, in_app_iff. destruct (p <? o + size x) eqn:E.
      * apply Nat.ltb_lt in E. assert (Hr : o <= p < o + size x) by lia. rewrite (IHx o p q Hr).
        rewrite (table_at_out_of_range (entries_alt (o + size x) t) p (o + size x) (o + size x + sizes t));
          [|intros e He; apply (proj2 (proj2 entries_range t (o + size x) e) He) | lia]. simpl. tauto.
      * apply Nat.ltb_ge in E. assert (Hr : o + size x <= p < o + size x + sizes t) by lia.
        rewrite (proj2 (IHt (o + size x) p q Hr)).
        rewrite (table_at_out_of_range (entries o x) p o (o + size x)); [|intros e He; apply (proj1 entries_range x o e He) | lia]. simpl. tauto.
Qed.
