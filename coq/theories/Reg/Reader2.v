(* The emitted two-half reader AFTER the repairs (templates/input.go.tmpl: scanned / loaded bookkeeping, the end of
   input always marked by the sentinel, Retract clearing the end-of-input error), at byte level, for an arbitrary half
   size n >= 4 (a Retract takes back one character, at most 4 bytes) and an arbitrary NUL-free file.

   Refinement theorem: for EVERY sequence of next() and Retract(k) calls in which a Retract takes back only bytes read
   since the previous Retract (what the scanning loop does), every next() returns exactly the byte at the abstract
   cursor, and the end of input exactly when the cursor is at the end of the file — wherever the half boundaries
   fall, however often a boundary is crossed backwards and forwards. *)
From Coq Require Import List Bool Arith Lia NArith.
Import ListNotations.

Section Reader.
  Variable n : nat.
  Hypothesis n_ge_4 : 4 <= n.
  Variable file : list N.
  Hypothesis nul_free : Forall (fun b => b <> 0%N) file.

  Definition len := length file.
  Definition byte_at (p : nat) : N := nth p file 0%N.

  Lemma byte_at_nonzero p : p < len -> byte_at p <> 0%N.
  Proof.
    intros H. unfold byte_at. rewrite Forall_forall in nul_free. apply nul_free. apply nth_In. exact H.
  Qed.

  Record st := { buf : nat -> N; fwd : nat; scanned : nat; loaded : nat; delivered : nat; eof : bool }.

  (* src.Read(buf[base:base+n]) on a file, then the sentinel when the read was short *)
  Definition fill (b : nat -> N) (base from : nat) : nat -> N :=
    let k := Nat.min n (len - from) in
    fun i => if (base <=? i) && (i <? base + k) then byte_at (from + (i - base))
             else if (k <? n) && (i =? base + k) then 0%N
             else b i.

  Lemma fill_in b base from i :
    base <= i -> i < base + Nat.min n (len - from) -> fill b base from i = byte_at (from + (i - base)).
  Proof.
    intros H1 H2. unfold fill.
    replace (base <=? i) with true by (symmetry; apply Nat.leb_le; lia).
    replace (i <? base + Nat.min n (len - from)) with true by (symmetry; apply Nat.ltb_lt; lia). reflexivity.
  Qed.
  Lemma fill_sentinel b base from :
    Nat.min n (len - from) < n -> fill b base from (base + Nat.min n (len - from)) = 0%N.
  Proof.
    intros H. unfold fill.
    replace (base + Nat.min n (len - from) <? base + Nat.min n (len - from)) with false by (symmetry; apply Nat.ltb_ge; lia).
    rewrite andb_false_r.
    replace (Nat.min n (len - from) <? n) with true by (symmetry; apply Nat.ltb_lt; lia).
    rewrite Nat.eqb_refl. reflexivity.
  Qed.
  Lemma fill_out b base from i : i < base \/ base + n <= i -> fill b base from i = b i.
  Proof.
    intros H. unfold fill.
    destruct (Nat.leb_spec base i), (Nat.ltb_spec i (base + Nat.min n (len - from))); simpl; try lia.
    - destruct (Nat.ltb_spec (Nat.min n (len - from)) n), (Nat.eqb_spec i (base + Nat.min n (len - from))); simpl; try reflexivity; lia.
    - destruct (Nat.ltb_spec (Nat.min n (len - from)) n), (Nat.eqb_spec i (base + Nat.min n (len - from))); simpl; try reflexivity; lia.
  Qed.

  Definition load (base : nat) (s : st) : st :=
    {| buf := fill (buf s) base (delivered s); fwd := fwd s; scanned := scanned s; loaded := loaded s;
       delivered := delivered s + Nat.min n (len - delivered s); eof := eof s |}.

  Definition init : st :=
    let s0 := {| buf := fun _ => 0%N; fwd := 0; scanned := 0; loaded := 0; delivered := 0; eof := false |} in
    let s1 := load 0 s0 in
    {| buf := buf s1; fwd := 0; scanned := 0; loaded := 0; delivered := delivered s1; eof := N.eqb (buf s1 0) 0%N |}.

  Definition next (s : st) : option N * st :=
    if eof s then (None, s) else
    let b := buf s (fwd s) in
    let f := S (fwd s) in
    let sc := S (scanned s) in
    let s1 :=
      if f =? n then
        if loaded s <? sc
        then load n {| buf := buf s; fwd := f; scanned := sc; loaded := sc; delivered := delivered s; eof := false |}
        else {| buf := buf s; fwd := f; scanned := sc; loaded := loaded s; delivered := delivered s; eof := false |}
      else if f =? 2 * n then
        if loaded s <? sc
        then load 0 {| buf := buf s; fwd := 0; scanned := sc; loaded := sc; delivered := delivered s; eof := false |}
        else {| buf := buf s; fwd := 0; scanned := sc; loaded := loaded s; delivered := delivered s; eof := false |}
      else {| buf := buf s; fwd := f; scanned := sc; loaded := loaded s; delivered := delivered s; eof := false |} in
    (Some b, {| buf := buf s1; fwd := fwd s1; scanned := scanned s1; loaded := loaded s1; delivered := delivered s1;
                eof := N.eqb (buf s1 (fwd s1)) 0%N |}).

  Definition retract (k : nat) (s : st) : st :=
    {| buf := buf s; fwd := if fwd s <? k then fwd s + 2 * n - k else fwd s - k;
       scanned := scanned s - k; loaded := loaded s; delivered := delivered s; eof := false |}.

  (* ---- the abstract reader: a cursor into the file ---- *)
  Inductive op := Next | Retract (k : nat).

  (* concrete and abstract runs; m = bytes read since the last Retract *)
  Fixpoint run (ops : list op) (s : st) : list (option N) :=
    match ops with
    | [] => []
    | Next :: t => let r := next s in fst r :: run t (snd r)
    | Retract k :: t => run t (retract k s)
    end.

  Fixpoint spec (ops : list op) (c : nat) : list (option N) :=
    match ops with
    | [] => []
    | Next :: t => if c <? len then Some (byte_at c) :: spec t (S c) else None :: spec t c
    | Retract k :: t => spec t (c - k)
    end.

  Fixpoint disciplined (ops : list op) (m : nat) (c : nat) : Prop :=
    match ops with
    | [] => True
    | Next :: t => if c <? len then disciplined t (S m) (S c) else disciplined t m c
    | Retract k :: t => 1 <= k /\ k <= 4 /\ k <= m /\ disciplined t 0 (c - k)
    end.

  (* ---- the refinement invariant (linear in n: h is the buffer position of the block that starts at `loaded`) ---- *)
  Record Geo (s : st) (c m h : nat) : Prop := {
    g_h : h = 0 \/ h = n;
    g_sc : scanned s = c;
    g_clen : c <= len;
    g_m : m <= c;
    g_L0 : loaded s = 0 \/ n <= loaded s;
    g_L0h : loaded s = 0 -> h = 0;
    g_Llen : loaded s <= len;
    g_cL : c < loaded s + n;
    g_Lc : loaded s + Nat.min m 4 <= c + 4;
    g_f1 : loaded s <= c -> fwd s = h + (c - loaded s);
    g_f2 : c < loaded s -> fwd s + (loaded s - c) = (if h =? 0 then 2 * n else n);
    g_del : delivered s = Nat.min len (loaded s + n);
    g_w1 : forall p, loaded s <= p -> p < loaded s + n -> p < len -> buf s (h + (p - loaded s)) = byte_at p;
    g_w2 : forall p, n <= loaded s -> loaded s - n <= p -> p < loaded s -> buf s ((n - h) + (p - (loaded s - n))) = byte_at p;
    g_sent : len < loaded s + n -> buf s (h + (len - loaded s)) = 0%N
  }.

  Definition Inv (s : st) (c m : nat) : Prop := exists h, Geo s c m h /\ (eof s = true <-> c = len).

  (* the cell under the forward pointer holds the byte at the cursor, or the sentinel at the end of the file *)
  Lemma cell_at_cursor s c m h : Geo s c m h ->
    (c < len -> buf s (fwd s) = byte_at c) /\ (c = len -> buf s (fwd s) = 0%N).
  Proof.
    intros G. destruct G. split.
    - intros Hc. destruct (le_lt_dec (loaded s) c) as [Hle|Hlt].
      + rewrite (g_f3 Hle). apply g_w3; lia.
      + specialize (g_f4 Hlt). assert (HL : n <= loaded s) by lia.
        replace (fwd s) with ((n - h) + (c - (loaded s - n))).
        * apply g_w4; lia.
        * destruct g_h0 as [-> | ->].
          -- rewrite Nat.eqb_refl in g_f4. lia.
          -- replace (n =? 0) with false in g_f4 by (symmetry; apply Nat.eqb_neq; lia). lia.
    - intros ->. assert (Hle : loaded s <= len) by lia. rewrite (g_f3 Hle). apply g_sent0. lia.
  Qed.

  Lemma eof_cell s c m h : Geo s c m h -> (N.eqb (buf s (fwd s)) 0%N = true <-> c = len).
  Proof.
    intros G. destruct (cell_at_cursor s c m h G) as [H1 H2]. pose proof (g_clen _ _ _ _ G) as Hc. split.
    - intros H. apply N.eqb_eq in H. destruct (Nat.eq_dec c len) as [E|E]; [exact E|]. exfalso.
      rewrite H1 in H by lia. apply (byte_at_nonzero c); [lia | exact H].
    - intros E. apply N.eqb_eq. apply H2. exact E.
  Qed.

  Lemma init_inv : Inv init 0 0.
  Proof.
    exists 0. assert (G : Geo init 0 0 0).
    { unfold init, load. constructor; cbn [buf fwd scanned loaded delivered eof]; try lia.
      - intros p _ Hp Hl. rewrite fill_in by lia. f_equal. lia.
      - intros Hl. replace (0 + (len - 0)) with (0 + Nat.min n (len - 0)) by lia. apply fill_sentinel. lia. }
    split; [exact G|]. unfold init at 1. cbn [eof]. apply (eof_cell init 0 0 0 G).
  Qed.

  (* Retract(k): the last k bytes (one character) are given back *)
  Lemma retract_inv s c m k : Inv s c m -> 1 <= k -> k <= 4 -> k <= m -> Inv (retract k s) (c - k) 0.
  Proof.
    intros [h [G He]] Hk1 Hk4 Hkm. destruct G. exists h. split.
    - unfold retract. constructor; cbn [buf fwd scanned loaded delivered eof]; try assumption; try lia.
      + intros Hle. rewrite g_f3 by lia.
        replace (h + (c - loaded s) <? k) with false by (symmetry; apply Nat.ltb_ge; lia). lia.
      + intros Hlt. destruct (le_lt_dec (loaded s) c) as [Hle|Hlt'].
        * rewrite g_f3 by lia. destruct g_h0 as [-> | ->].
          -- rewrite Nat.eqb_refl. replace (0 + (c - loaded s) <? k) with true by (symmetry; apply Nat.ltb_lt; lia). lia.
          -- replace (n =? 0) with false by (symmetry; apply Nat.eqb_neq; lia).
             replace (n + (c - loaded s) <? k) with false by (symmetry; apply Nat.ltb_ge; lia). lia.
        * specialize (g_f4 Hlt').
          assert (Hf : k <= fwd s).
          { destruct g_h0 as [-> | ->]; [rewrite Nat.eqb_refl in g_f4; lia|].
            replace (n =? 0) with false in g_f4 by (symmetry; apply Nat.eqb_neq; lia). lia. }
          replace (fwd s <? k) with false by (symmetry; apply Nat.ltb_ge; lia). lia.
    - unfold retract. cbn [eof]. split; [discriminate | lia].
  Qed.

  (* next() when the cursor is inside the file *)
  Lemma next_inv s c m : Inv s c m -> c < len ->
    fst (next s) = Some (byte_at c) /\ Inv (snd (next s)) (S c) (S m).
  Proof.
    intros [h [G He]] Hc.
    assert (Heof : eof s = false) by (destruct (eof s); [exfalso; assert (c = len) by (apply He; reflexivity); lia | reflexivity]).
    destruct (cell_at_cursor s c m h G) as [Hcell _]. specialize (Hcell Hc).
    unfold next. rewrite Heof. cbn [fst snd]. split; [rewrite Hcell; reflexivity|].
    destruct G.
    set (L := loaded s) in *. set (F := fwd s) in *.
    (* which case of the boundary test applies *)
    assert (Hcases :
      (L <= c /\ c + 1 = L + n /\ ((h = 0 /\ S F = n) \/ (h = n /\ S F = 2 * n)))
      \/ (S F <> n /\ S F <> 2 * n /\ (c + 1 < L + n) /\ (c + 1 <> L))
      \/ (c + 1 = L /\ ((h = n /\ S F = n) \/ (h = 0 /\ S F = 2 * n)))).
    { destruct (le_lt_dec L c) as [Hle|Hlt].
      - specialize (g_f3 Hle). destruct g_h0 as [Hh|Hh]; subst h.
        + destruct (Nat.eq_dec (c + 1) (L + n)); [left; repeat split; try lia; left; lia | right; left; lia].
        + destruct (Nat.eq_dec (c + 1) (L + n)); [left; repeat split; try lia; right; lia | right; left; lia].
      - specialize (g_f4 Hlt). destruct g_h0 as [Hh|Hh]; subst h.
        + rewrite Nat.eqb_refl in g_f4. destruct (Nat.eq_dec (c + 1) L); [right; right; split; [lia | right; lia] | right; left; lia].
        + replace (n =? 0) with false in g_f4 by (symmetry; apply Nat.eqb_neq; lia).
          destruct (Nat.eq_dec (c + 1) L); [right; right; split; [lia | left; lia] | right; left; lia]. }
    destruct Hcases as [[Hle [Hb Hside]] | [[Hn1 [Hn2 [Hlt Hne]]] | [Hb Hside]]].
    - (* a boundary reached for the first time: the other half is loaded *)
      assert (Hdel : delivered s = L + n) by (rewrite g_del0; fold L; lia).
      destruct Hside as [[Hh HF] | [Hh HF]]; subst h.
      + (* first half done, second half loaded *)
        replace (S F =? n) with true by (symmetry; apply Nat.eqb_eq; lia).
        replace (L <? S (scanned s)) with true by (symmetry; apply Nat.ltb_lt; lia).
        exists n. assert (G' : Geo (load n {| buf := buf s; fwd := S F; scanned := S (scanned s); loaded := S (scanned s); delivered := delivered s; eof := false |}) (S c) (S m) n).
        { unfold load. constructor; cbn [buf fwd scanned loaded delivered eof]; try lia.
          - intros p H1 H2 H3. rewrite Hdel. rewrite fill_in by lia. f_equal. lia.
          - intros p H0 H1 H2. rewrite fill_out by lia. replace (n - n + (p - (S (scanned s) - n))) with (0 + (p - L)) by lia.
            apply g_w3; lia.
          - intros H. rewrite Hdel. replace (n + (len - S (scanned s))) with (n + Nat.min n (len - (L + n))) by lia.
            apply fill_sentinel. lia. }
        split; [|cbn [eof]; apply (eof_cell _ _ _ _ G')].
        destruct G'. constructor; cbn [buf fwd scanned loaded delivered eof] in *; assumption.
      + replace (S F =? n) with false by (symmetry; apply Nat.eqb_neq; lia).
        replace (S F =? 2 * n) with true by (symmetry; apply Nat.eqb_eq; lia).
        replace (L <? S (scanned s)) with true by (symmetry; apply Nat.ltb_lt; lia).
        exists 0. assert (G' : Geo (load 0 {| buf := buf s; fwd := 0; scanned := S (scanned s); loaded := S (scanned s); delivered := delivered s; eof := false |}) (S c) (S m) 0).
        { unfold load. constructor; cbn [buf fwd scanned loaded delivered eof]; try lia.
          - intros p H1 H2 H3. rewrite Hdel. rewrite fill_in by lia. f_equal. lia.
          - intros p H0 H1 H2. rewrite fill_out by lia. replace (n - 0 + (p - (S (scanned s) - n))) with (n + (p - L)) by lia.
            apply g_w3; lia.
          - intros H. rewrite Hdel. replace (0 + (len - S (scanned s))) with (0 + Nat.min n (len - (L + n))) by lia.
            apply fill_sentinel. lia. }
        split; [|cbn [eof]; apply (eof_cell _ _ _ _ G')].
        destruct G'. constructor; cbn [buf fwd scanned loaded delivered eof] in *; assumption.
    - (* no boundary *)
      replace (S F =? n) with false by (symmetry; apply Nat.eqb_neq; lia).
      replace (S F =? 2 * n) with false by (symmetry; apply Nat.eqb_neq; lia).
      exists h. assert (G' : Geo {| buf := buf s; fwd := S F; scanned := S (scanned s); loaded := L; delivered := delivered s; eof := false |} (S c) (S m) h).
      { constructor; cbn [buf fwd scanned loaded delivered eof]; try assumption; try lia. }
      split; [|cbn [eof]; apply (eof_cell _ _ _ _ G')].
      destruct G'. constructor; cbn [buf fwd scanned loaded delivered eof] in *; assumption.
    - (* a boundary crossed again after a Retract: nothing is loaded *)
      assert (Hf4 : F + (L - c) = (if h =? 0 then 2 * n else n)) by (apply g_f4; lia).
      destruct Hside as [[Hh HF] | [Hh HF]]; subst h.
      + replace (S F =? n) with true by (symmetry; apply Nat.eqb_eq; lia).
        replace (L <? S (scanned s)) with false by (symmetry; apply Nat.ltb_ge; lia).
        exists n. assert (G' : Geo {| buf := buf s; fwd := S F; scanned := S (scanned s); loaded := L; delivered := delivered s; eof := false |} (S c) (S m) n).
        { constructor; cbn [buf fwd scanned loaded delivered eof]; try assumption; try lia. }
        split; [|cbn [eof]; apply (eof_cell _ _ _ _ G')].
        destruct G'. constructor; cbn [buf fwd scanned loaded delivered eof] in *; assumption.
      + replace (S F =? n) with false by (symmetry; apply Nat.eqb_neq; lia).
        replace (S F =? 2 * n) with true by (symmetry; apply Nat.eqb_eq; lia).
        replace (L <? S (scanned s)) with false by (symmetry; apply Nat.ltb_ge; lia).
        exists 0. assert (G' : Geo {| buf := buf s; fwd := 0; scanned := S (scanned s); loaded := L; delivered := delivered s; eof := false |} (S c) (S m) 0).
        { constructor; cbn [buf fwd scanned loaded delivered eof]; try assumption; try lia. }
        split; [|cbn [eof]; apply (eof_cell _ _ _ _ G')].
        destruct G'. constructor; cbn [buf fwd scanned loaded delivered eof] in *; assumption.
  Qed.

  Lemma next_at_end s m : Inv s len m -> next s = (None, s).
  Proof.
    intros [h [G He]]. unfold next. replace (eof s) with true; [reflexivity|]. symmetry. apply He. reflexivity.
  Qed.

  Theorem reader_refines_cursor ops : forall s c m,
    Inv s c m -> disciplined ops m c -> run ops s = spec ops c.
  Proof.
    induction ops as [|o t IH]; intros s c m HI HD; [reflexivity|].
    destruct o as [|k]; simpl in *.
    - destruct (Nat.ltb_spec c len) as [Hlt|Hge].
      + destruct (next_inv s c m HI Hlt) as [Hout HI']. rewrite Hout. f_equal. apply (IH _ _ _ HI' HD).
      + assert (Hc : c = len) by (destruct HI as [h [G _]]; pose proof (g_clen s c m h G); lia). subst c.
        rewrite (next_at_end s m HI). simpl. f_equal. apply (IH _ _ _ HI HD).
    - destruct HD as [H1 [H4 [Hm HD]]]. apply (IH _ _ 0); [apply (retract_inv s c m k); assumption | exact HD].
  Qed.

  Corollary emitted_reader_with_retract ops :
    disciplined ops 0 0 -> run ops init = spec ops 0.
  Proof. apply reader_refines_cursor. apply init_inv. Qed.
End Reader.

(* non-vacuity: half size 4, a 10-byte file; read across the first boundary, take two bytes back, read on to the end *)
Example reader_example :
  run 4 [1; 2; 3; 4; 5; 6; 7; 8; 9; 10]%N
      [Next; Next; Next; Next; Next; Retract 2; Next; Next; Next; Next; Next; Retract 1; Next; Next; Next; Next; Next]
      (init 4 [1; 2; 3; 4; 5; 6; 7; 8; 9; 10]%N)
  = [Some 1; Some 2; Some 3; Some 4; Some 5; Some 4; Some 5; Some 6; Some 7; Some 8; Some 8; Some 9; Some 10; None; None]%N.
Proof. vm_compute. reflexivity. Qed.
Print Assumptions emitted_reader_with_retract.
