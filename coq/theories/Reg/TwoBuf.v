(* The two-half input buffer of moorara/algo/lexer/input (copied verbatim into emerge's
   templates/input.go.tmpl), as an executable state machine over bytes, for an arbitrary half size n:
   loadFirst / loadSecond / next / Retract / lexeme extraction, with the sticky error and the 0x00
   end-of-input sentinel.  Single-byte (ASCII) characters only: Next = next.

   Proved for EVERY half size n >= 1 and EVERY NUL-free file: reading sequentially returns exactly the
   bytes of the file, then end of input — the result does not depend on where the bytes fall relative to
   the half boundaries nor on the file's length ([read_all_correct]).
   Refuted by kernel-evaluated witnesses (the code as it stands, known findings D14 / D13):
   a Retract of the last byte of a half makes the next read reload that half (a whole half of input is
   skipped); after a Retract at the end of the input the retracted byte is never returned. *)
From Coq Require Import List Bool Arith Lia NArith.
Import ListNotations.

Definition byte := N.

Inductive rerr := EOF | NoErr.

Record rd := {
  buff : list byte;        (* 2n cells *)
  forward : nat;
  lexeme_begin : nat;
  err : rerr;
  src : list byte          (* what the source has not delivered yet *)
}.

Section Reader.
  Variable n : nat.                         (* half size *)
  Hypothesis n_pos : 1 <= n.

  Fixpoint put (l : list byte) (i : nat) (xs : list byte) : list byte :=
    match xs with
    | [] => l
    | x :: t => put (firstn i l ++ [x] ++ skipn (S i) l) (S i) t
    end.

  (* Read(p) of a source that fills p as far as it can (files, emerge's terminated reader):
     returns the chunk, or the end of input when nothing is left *)
  Definition load (base : nat) (r : rd) : rd :=
    match src r with
    | [] => {| buff := buff r; forward := forward r; lexeme_begin := lexeme_begin r; err := EOF; src := [] |}
    | _ =>
      let chunk := firstn n (src r) in
      let k := length chunk in
      let b1 := put (buff r) base chunk in
      let b2 := if k <? n then put b1 (base + k) [0%N] else b1 in
      {| buff := b2; forward := forward r; lexeme_begin := lexeme_begin r; err := err r; src := skipn n (src r) |}
    end.

  Definition new (file : list byte) : rd :=
    load 0 {| buff := repeat 0%N (2 * n); forward := 0; lexeme_begin := 0; err := NoErr; src := file |}.

  Definition with_fwd (r : rd) (f : nat) : rd :=
    {| buff := buff r; forward := f; lexeme_begin := lexeme_begin r; err := err r; src := src r |}.
  Definition with_err (r : rd) (e : rerr) : rd :=
    {| buff := buff r; forward := forward r; lexeme_begin := lexeme_begin r; err := e; src := src r |}.

  (* next(): None = the sticky error is returned *)
  Definition next (r : rd) : option byte * rd :=
    match err r with
    | EOF => (None, r)
    | NoErr =>
      let b := nth (forward r) (buff r) 0%N in
      let f := S (forward r) in
      let r1 := with_fwd r f in
      let r2 :=
        if f =? n then load n r1
        else if f =? 2 * n then
          let r' := load 0 r1 in
          match err r' with NoErr => with_fwd r' 0 | EOF => r' end
        else if N.eqb (nth f (buff r1) 0%N) 0%N then with_err r1 EOF
        else r1 in
      (Some b, r2)
    end.

  (* Retract of a one-byte character *)
  Definition retract (r : rd) : rd :=
    with_fwd r (if forward r =? 0 then 2 * n - 1 else forward r - 1).

  (* read everything sequentially *)
  Fixpoint read_all (fuel : nat) (r : rd) : list byte :=
    match fuel with
    | O => []
    | S f => match next r with
             | (Some b, r') => b :: read_all f r'
             | (None, _) => []
             end
    end.
End Reader.

(* ---- refutations on the code as it stands (half size 2) ---- *)
(* D14: file "abcdefgh", read a, b (b is the last byte of the first half; the second half gets loaded),
   retract b, read again: b comes back, but the next byte is e — cd was skipped *)
Example retract_at_half_boundary_skips_a_half :
  let r0 := new 2 [97; 98; 99; 100; 101; 102; 103; 104]%N in
  let '(_, r1) := next 2 r0 in
  let '(_, r2) := next 2 r1 in
  let r3 := retract 2 r2 in
  let '(b3, r4) := next 2 r3 in
  let '(b4, _) := next 2 r4 in
  (b3, b4) = (Some 98%N, Some 101%N).
Proof. vm_compute. reflexivity. Qed.

(* D13 (reader half): file "ab", read a, b, retract b, read: the end of input is reported instead of b *)
Example retract_at_end_of_input_loses_the_byte :
  let r0 := new 2 [97; 98]%N in
  let '(_, r1) := next 2 r0 in
  let '(_, r2) := next 2 r1 in
  let r3 := retract 2 r2 in
  fst (next 2 r3) = None.
Proof. vm_compute. reflexivity. Qed.

(* ---- sequential reading is exact, for every half size and every NUL-free file ---- *)
Section Sequential.
  Variable n : nat.
  Hypothesis n_pos : 1 <= n.

  Lemma nth_firstn_lt (l : list byte) : forall i j d, j < i -> nth j (firstn i l) d = nth j l d.
  Proof.
    induction l as [|x l IH]; intros i j d H.
    - rewrite firstn_nil. reflexivity.
    - destruct i as [|i]; [lia|]. destruct j as [|j]; simpl; [reflexivity|]. apply IH. lia.
  Qed.

  Lemma nth_skipn_add (l : list byte) : forall m k d, nth k (skipn m l) d = nth (m + k) l d.
  Proof.
    induction l as [|x l IH]; intros m k d.
    - rewrite skipn_nil. destruct k, m; reflexivity.
    - destruct m as [|m]; simpl; [reflexivity|]. apply IH.
  Qed.

  Lemma put1_length (l : list byte) i (x : byte) : i < length l -> length (firstn i l ++ [x] ++ skipn (S i) l) = length l.
  Proof.
    intros H. rewrite !app_length, firstn_length, skipn_length. simpl. lia.
  Qed.

  Lemma put1_nth_same (l : list byte) i (x : byte) d : i < length l -> nth i (firstn i l ++ [x] ++ skipn (S i) l) d = x.
  Proof.
    intros H. rewrite app_nth2; rewrite firstn_length; [|lia].
    replace (i - Nat.min i (length l)) with 0 by lia. reflexivity.
  Qed.

  Lemma put1_nth_other (l : list byte) i (x : byte) j d : i < length l -> j <> i -> nth j (firstn i l ++ [x] ++ skipn (S i) l) d = nth j l d.
  Proof.
    intros H Hj. destruct (Nat.lt_ge_cases j i) as [Hlt|Hge].
    - rewrite app_nth1 by (rewrite firstn_length; lia). apply nth_firstn_lt. exact Hlt.
    - rewrite app_nth2 by (rewrite firstn_length; lia). rewrite firstn_length.
      replace (Nat.min i (length l)) with i by lia.
      destruct (j - i) as [|k] eqn:E; [lia|].
      change ([x] ++ skipn (S i) l) with (x :: skipn (S i) l). cbn [nth].
      rewrite nth_skipn_add. f_equal. lia.
  Qed.

  Lemma put_length xs : forall l i, i + length xs <= length l -> length (put l i xs) = length l.
  Proof.
    induction xs as [|x xs IH]; intros l i H; cbn [put length] in *; [reflexivity|].
    rewrite IH; rewrite put1_length; lia.
  Qed.

  Lemma put_nth_in xs : forall l i j d, i + length xs <= length l -> j < length xs ->
    nth (i + j) (put l i xs) d = nth j xs d.
  Proof.
    induction xs as [|x xs IH]; intros l i j d H Hj; cbn [put length] in *; [lia|].
    destruct j as [|j].
    - rewrite Nat.add_0_r.
      assert (Hout : forall ys l' k, k + length ys <= length l' -> i < k -> nth i (put l' k ys) d = nth i l' d).
      { induction ys as [|y ys IHy]; intros l' k Hk Hik; cbn [put length] in *; [reflexivity|].
        rewrite IHy; [|rewrite put1_length; lia|lia]. apply put1_nth_other; lia. }
      rewrite Hout; [|rewrite put1_length; lia|lia]. apply put1_nth_same. lia.
    - replace (i + S j) with (S i + j) by lia. apply IH; [rewrite put1_length; lia | lia].
  Qed.

  Lemma put_nth_out xs : forall l i j d, i + length xs <= length l -> (j < i \/ i + length xs <= j) ->
    nth j (put l i xs) d = nth j l d.
  Proof.
    induction xs as [|x xs IH]; intros l i j d H Hj; cbn [put length] in *; [reflexivity|].
    rewrite IH; [|rewrite put1_length; lia|lia]. apply put1_nth_other; lia.
  Qed.

  Definition hend (f : nat) : nat := if f <? n then n else 2 * n.

  (* the state of the reader with [rest] still to be returned *)
  Definition Live (r : rd) (rest : list byte) : Prop :=
    forward r < 2 * n /\ err r = NoErr /\
    exists v, v <> [] /\ rest = v ++ src r /\
              forward r + length v <= hend (forward r) /\
              (forall j, j < length v -> nth (forward r + j) (buff r) 0%N = nth j v 0%N) /\
              (forward r + length v < hend (forward r) -> nth (forward r + length v) (buff r) 0%N = 0%N /\ src r = []).

  Definition Inv (r : rd) (rest : list byte) : Prop :=
    length (buff r) = 2 * n /\ (rest = [] -> err r = EOF) /\ (rest <> [] -> Live r rest).

  Definition nul_free (l : list byte) : Prop := Forall (fun b => b <> 0%N) l.

  (* what a load establishes: the half starting at [base] holds the next chunk *)
  Lemma load_spec base r :
    length (buff r) = 2 * n -> (base = 0 \/ base = n) -> src r <> [] ->
    let r' := load n base r in
    length (buff r') = 2 * n /\ forward r' = forward r /\ err r' = err r /\
    src r = firstn n (src r) ++ src r' /\
    (forall j, j < length (firstn n (src r)) -> nth (base + j) (buff r') 0%N = nth j (firstn n (src r)) 0%N) /\
    (length (firstn n (src r)) < n -> nth (base + length (firstn n (src r))) (buff r') 0%N = 0%N /\ src r' = []).
  Proof.
    intros Hlen Hbase Hsrc. unfold load. destruct (src r) as [|s0 srest] eqn:Es; [contradiction|].
    set (chunk := firstn n (s0 :: srest)). cbv zeta.
    assert (Hk : length chunk <= n) by (unfold chunk; rewrite firstn_length; lia).
    assert (Hfit : base + length chunk <= length (buff r)) by (destruct Hbase; subst; lia).
    assert (Hl1 : length (put (buff r) base chunk) = 2 * n) by (rewrite put_length; lia).
    destruct (length chunk <? n) eqn:Elt; cbn [buff forward err src].
    - apply Nat.ltb_lt in Elt.
      assert (Hfit2 : base + length chunk + length [0%N] <= length (put (buff r) base chunk))
        by (cbn [length]; destruct Hbase; subst; lia).
      split; [rewrite put_length; [exact Hl1 | exact Hfit2]|].
      split; [reflexivity|]. split; [reflexivity|].
      split; [symmetry; apply firstn_skipn|].
      split.
      + intros j Hj. rewrite put_nth_out; [|exact Hfit2|left; lia]. apply put_nth_in; lia.
      + intros _. split.
        * replace (base + length chunk) with (base + length chunk + 0) at 1 by lia.
          rewrite put_nth_in; [reflexivity | exact Hfit2 | cbn [length]; lia].
        * apply skipn_all2. unfold chunk in Elt. rewrite firstn_length in Elt. lia.
    - apply Nat.ltb_ge in Elt.
      split; [exact Hl1|]. split; [reflexivity|]. split; [reflexivity|].
      split; [symmetry; apply firstn_skipn|].
      split.
      + intros j Hj. apply put_nth_in; lia.
      + intros H. lia.
  Qed.

  Lemma firstn_nonempty (l : list byte) : l <> [] -> firstn n l <> [].
  Proof. destruct l; [contradiction|]. destruct n; [lia|]. discriminate. Qed.

  (* what a load leaves when [src r] is still to be read, with forward placed at [base] *)
  Lemma load_inv base r :
    length (buff r) = 2 * n -> (base = 0 \/ base = n) -> err r = NoErr ->
    (src r = [] -> err (load n base r) = EOF /\ length (buff (load n base r)) = 2 * n) /\
    (src r <> [] -> err (load n base r) = NoErr /\ length (buff (load n base r)) = 2 * n /\
                    Live (with_fwd (load n base r) base) (src r)).
  Proof.
    intros Hlen Hbase Herr. split.
    - intros Es. unfold load. rewrite Es. cbn [err buff]. auto.
    - intros Hne.
      destruct (load_spec base r Hlen Hbase Hne) as [H1 [H2 [H3 [H4 [H5 H6]]]]].
      split; [rewrite H3; exact Herr|]. split; [exact H1|].
      unfold Live. cbn [with_fwd buff forward err src].
      assert (Hb : base < 2 * n) by (destruct Hbase; subst; lia).
      split; [exact Hb|]. split; [rewrite H3; exact Herr|].
      exists (firstn n (src r)). split; [apply firstn_nonempty; exact Hne|].
      split; [exact H4|].
      assert (Hh : hend base = base + n).
      { unfold hend. destruct Hbase as [-> | ->].
        - assert (E : (0 <? n) = true) by (apply Nat.ltb_lt; lia). rewrite E. lia.
        - rewrite Nat.ltb_irrefl. lia. }
      rewrite Hh. split; [rewrite firstn_length; lia|]. split; [exact H5|].
      intros Hlt. apply H6. lia.
  Qed.

  Lemma load_forward base r : forward (load n base r) = forward r.
  Proof. unfold load. destruct (src r); reflexivity. Qed.

  Lemma with_fwd_same r : with_fwd r (forward r) = r.
  Proof. destruct r; reflexivity. Qed.

  Lemma new_inv file : Inv (new n file) file.
  Proof.
    unfold new. set (r0 := {| buff := repeat 0%N (2 * n); forward := 0; lexeme_begin := 0; err := NoErr; src := file |}).
    assert (Hlen : length (buff r0) = 2 * n) by (cbn [buff r0]; apply repeat_length).
    destruct (load_inv 0 r0 Hlen (or_introl eq_refl) eq_refl) as [He Hl]. cbn [src r0] in He, Hl.
    unfold Inv. split.
    - destruct file as [|b f]; [apply He; reflexivity | apply Hl; discriminate].
    - split.
      + intros ->. apply He. reflexivity.
      + intros Hne. destruct (Hl Hne) as [_ [_ HL]].
        assert (E : with_fwd (load n 0 r0) 0 = load n 0 r0).
        { rewrite <- (with_fwd_same (load n 0 r0)) at 2. rewrite load_forward. reflexivity. }
        rewrite E in HL. exact HL.
  Qed.

  Lemma hend_bounds f : f < 2 * n -> f < hend f /\ hend f <= 2 * n /\ (hend f = n \/ hend f = 2 * n).
  Proof.
    intros H. unfold hend. destruct (f <? n) eqn:E.
    - apply Nat.ltb_lt in E. lia.
    - apply Nat.ltb_ge in E. lia.
  Qed.

  (* one read: returns the next byte of the file and re-establishes the invariant *)
  Lemma next_step r b rest :
    nul_free (b :: rest) -> Inv r (b :: rest) ->
    fst (next n r) = Some b /\ Inv (snd (next n r)) rest.
  Proof.
    intros Hnf [Hlen [_ HL]]. destruct (HL ltac:(discriminate)) as [Hf [Herr [v [Hv [Hrest [Hfit [Hcells Hmark]]]]]]].
    destruct v as [|b0 v']; [contradiction|]. simpl in Hrest. injection Hrest as Eb Er. subst b0.
    assert (Hb : nth (forward r) (buff r) 0%N = b).
    { specialize (Hcells 0 ltac:(simpl; lia)). rewrite Nat.add_0_r in Hcells. exact Hcells. }
    destruct (hend_bounds (forward r) Hf) as [Hlt [Hle Hcase]].
    unfold next. rewrite Herr. cbn [fst snd]. split; [rewrite Hb; reflexivity|].
    set (r1 := with_fwd r (S (forward r))).
    assert (Hlen1 : length (buff r1) = 2 * n) by exact Hlen.
    assert (Herr1 : err r1 = NoErr) by exact Herr.
    cbn [length] in Hfit.
    destruct (S (forward r) =? n) eqn:E1.
    - (* end of the first half: the second half is loaded *)
      apply Nat.eqb_eq in E1.
      assert (Hh : hend (forward r) = n) by (unfold hend; assert (X : (forward r <? n) = true) by (apply Nat.ltb_lt; lia); rewrite X; reflexivity).
      assert (Hv' : v' = []) by (destruct v'; [reflexivity | cbn [length] in Hfit; lia]). subst v'. cbn [app] in *.
      destruct (load_inv n r1 Hlen1 (or_intror eq_refl) Herr1) as [He Hl']. cbn [src r1 with_fwd] in He, Hl'.
      unfold Inv. destruct rest as [|c rest'].
      + destruct (He (eq_sym Er)) as [H1 H2]. split; [exact H2|]. split; [intros _; exact H1 | intros X; exfalso; congruence].
      + assert (Hne : src r <> []) by (rewrite <- Er; discriminate).
        destruct (Hl' Hne) as [H1 [H2 H3]]. split; [exact H2|]. split; [intros X; exfalso; congruence|]. intros _.
        assert (E : with_fwd (load n n r1) n = load n n r1).
        { rewrite <- (with_fwd_same (load n n r1)) at 2. rewrite load_forward. unfold r1. cbn [forward with_fwd]. rewrite E1. reflexivity. }
        rewrite E in H3. first [exact H3 | rewrite Er; exact H3 | rewrite <- Er; exact H3].
    - apply Nat.eqb_neq in E1. destruct (S (forward r) =? 2 * n) eqn:E2.
      + (* end of the second half: the first half is loaded and forward wraps *)
        apply Nat.eqb_eq in E2.
        assert (Hh : hend (forward r) = 2 * n).
        { unfold hend. assert (X : (forward r <? n) = false) by (apply Nat.ltb_ge; lia). rewrite X. reflexivity. }
        assert (Hv' : v' = []) by (destruct v'; [reflexivity | cbn [length] in Hfit; lia]). subst v'. cbn [app] in *.
        destruct (load_inv 0 r1 Hlen1 (or_introl eq_refl) Herr1) as [He Hl']. cbn [src r1 with_fwd] in He, Hl'.
        unfold Inv. destruct rest as [|c rest'].
        * destruct (He (eq_sym Er)) as [H1 H2]. rewrite H1. split; [exact H2|]. split; [intros _; exact H1 | intros X; exfalso; congruence].
        * assert (Hne : src r <> []) by (rewrite <- Er; discriminate).
          destruct (Hl' Hne) as [H1 [H2 H3]]. rewrite H1. cbn [buff with_fwd]. split; [exact H2|].
          split; [intros X; exfalso; congruence|]. intros _. first [exact H3 | rewrite Er; exact H3 | rewrite <- Er; exact H3].
      + (* inside a half *)
        apply Nat.eqb_neq in E2.
        assert (Hsame : hend (S (forward r)) = hend (forward r)).
        { unfold hend. destruct (forward r <? n) eqn:X.
          - apply Nat.ltb_lt in X. assert (Y : (S (forward r) <? n) = true) by (apply Nat.ltb_lt; lia). rewrite Y. reflexivity.
          - apply Nat.ltb_ge in X. assert (Y : (S (forward r) <? n) = false) by (apply Nat.ltb_ge; lia). rewrite Y. reflexivity. }
        assert (Hin : S (forward r) < hend (forward r)) by (destruct Hcase as [C|C]; rewrite C in *; lia).
        cbn [buff r1 with_fwd].
        destruct v' as [|c v''].
        * (* the half holds nothing more: the sentinel follows *)
          simpl in Er. cbn [length] in Hmark.
          destruct (Hmark ltac:(lia)) as [Hz Hs]. replace (forward r + 1) with (S (forward r)) in Hz by lia.
          rewrite Hz. cbn [N.eqb]. unfold Inv. cbn [with_err buff err r1 with_fwd].
          split; [exact Hlen|]. rewrite Er, Hs. split; [reflexivity | intros X; exfalso; congruence].
        * (* more bytes of the file follow in this half *)
          assert (Hc : nth (S (forward r)) (buff r) 0%N = c).
          { specialize (Hcells 1 ltac:(simpl; lia)). replace (forward r + 1) with (S (forward r)) in Hcells by lia. exact Hcells. }
          assert (Hcn : c <> 0%N).
          { assert (Hl : nul_free rest) by (inversion Hnf; assumption). rewrite Er in Hl. simpl in Hl. inversion Hl; assumption. }
          rewrite Hc. destruct (N.eqb_spec c 0%N) as [X|_]; [contradiction|].
          unfold Inv. split; [exact Hlen|]. rewrite Er. split; [intros X; simpl in X; discriminate X|]. intros _.
          unfold Live. cbn [forward buff err src r1 with_fwd].
          split; [lia|]. split; [exact Herr|].
          exists (c :: v''). split; [discriminate|]. split; [reflexivity|].
          rewrite Hsame. cbn [length] in *. split; [lia|]. split.
          -- intros j Hj. specialize (Hcells (S j) ltac:(simpl; lia)).
             replace (S (forward r) + j) with (forward r + S j) by lia. exact Hcells.
          -- intros Hl2. replace (S (forward r) + S (length v'')) with (forward r + S (S (length v''))) by lia.
             apply Hmark. lia.
  Qed.

  Lemma next_at_end r : Inv r [] -> fst (next n r) = None.
  Proof. intros [_ [He _]]. unfold next. rewrite (He eq_refl). reflexivity. Qed.

  (* THE THEOREM: sequential reading returns exactly the file, whatever the half size and the length *)
  Theorem read_all_correct file :
    nul_free file -> read_all n (S (length file)) (new n file) = file.
  Proof.
    intros Hnf. pose proof (new_inv file) as Hi.
    generalize dependent (new n file). induction file as [|b rest IH]; intros r Hi.
    - simpl. pose proof (next_at_end r Hi) as E. destruct (next n r) as [[x|] r']; [discriminate | reflexivity].
    - cbn [length read_all].
      destruct (next_step r b rest Hnf Hi) as [E1 E2].
      destruct (next n r) as [o r']. cbn [fst snd] in E1, E2. subst o.
      f_equal. apply IH; [inversion Hnf; assumption | exact E2].
  Qed.
End Sequential.

(* ---- scripts of operations (for the correspondence with the real reader) ---- *)
Inductive rop := ONext | ORetract.

(* pending = characters read since the lexeme began (Retract is a no-op when nothing is pending) *)
Fixpoint run_ops (n : nat) (r : rd) (pending : nat) (ops : list rop) : list (option byte) :=
  match ops with
  | [] => []
  | ONext :: t =>
    match next n r with
    | (Some b, r') => Some b :: run_ops n r' (S pending) t
    | (None, r') => None :: run_ops n r' pending t
    end
  | ORetract :: t =>
    match pending with
    | O => run_ops n r pending t
    | S p => run_ops n (retract n r) p t
    end
  end.
