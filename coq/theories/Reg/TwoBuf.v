(* The two-half input buffer of moorara/algo/lexer/input (copied verbatim into emerge's
   templates/input.go.tmpl), as an executable state machine over bytes, for an arbitrary half size n:
   loadFirst / loadSecond / next / Retract / lexeme extraction, with the sticky error and the 0x00
   end-of-input sentinel.  Single-byte (ASCII) characters only: Next = next.

   Proved for EVERY half size n >= 1 and EVERY NUL-free file: reading sequentially returns exactly the
   bytes of the file, then end of input — the result does not depend on where the bytes fall relative to
   the half boundaries nor on the file's length ([read_all_correct]).
   Refuted by kernel-evaluated witnesses (the code as it stands, known findings D14 / D13):
   a Retract of the last byte of a half makes the next read reload that half (a whole half of input is
   skipped); after a Retract at the end of the input the retracted byte is never returned. *)
From Coq Require Import List Bool Arith Lia NArith.
Import ListNotations.

Definition byte := N.

Inductive rerr := EOF | NoErr.

Record rd := {
  buff : list byte;        (* 2n cells *)
  forward : nat;
  lexeme_begin : nat;
  err : rerr;
  src : list byte          (* what the source has not delivered yet *)
}.

Section Reader.
  Variable n : nat.                         (* half size *)
  Hypothesis n_pos : 1 <= n.

  Fixpoint put (l : list byte) (i : nat) (xs : list byte) : list byte :=
    match xs with
    | [] => l
    | x :: t => put (firstn i l ++ [x] ++ skipn (S i) l) (S i) t
    end.

  (* Read(p) of a source that fills p as far as it can (files, emerge's terminated reader):
     returns the chunk, or the end of input when nothing is left *)
  Definition load (base : nat) (r : rd) : rd :=
    match src r with
    | [] => {| buff := buff r; forward := forward r; lexeme_begin := lexeme_begin r; err := EOF; src := [] |}
    | _ =>
      let chunk := firstn n (src r) in
      let k := length chunk in
      let b1 := put (buff r) base chunk in
      let b2 := if k <? n then put b1 (base + k) [0%N] else b1 in
      {| buff := b2; forward := forward r; lexeme_begin := lexeme_begin r; err := err r; src := skipn n (src r) |}
    end.

  Definition new (file : list byte) : rd :=
    load 0 {| buff := repeat 0%N (2 * n); forward := 0; lexeme_begin := 0; err := NoErr; src := file |}.

  Definition with_fwd (r : rd) (f : nat) : rd :=
    {| buff := buff r; forward := f; lexeme_begin := lexeme_begin r; err := err r; src := src r |}.
  Definition with_err (r : rd) (e : rerr) : rd :=
    {| buff := buff r; forward := forward r; lexeme_begin := lexeme_begin r; err := e; src := src r |}.

  (* next(): None = the sticky error is returned *)
  Definition next (r : rd) : option byte * rd :=
    match err r with
    | EOF => (None, r)
    | NoErr =>
      let b := nth (forward r) (buff r) 0%N in
      let f := S (forward r) in
      let r1 := with_fwd r f in
      let r2 :=
        if f =? n then load n r1
        else if f =? 2 * n then
          let r' := load 0 r1 in
          match err r' with NoErr => with_fwd r' 0 | EOF => r' end
        else if N.eqb (nth f (buff r1) 0%N) 0%N then with_err r1 EOF
        else r1 in
      (Some b, r2)
    end.

  (* Retract of a one-byte character *)
  Definition retract (r : rd) : rd :=
    with_fwd r (if forward r =? 0 then 2 * n - 1 else forward r - 1).

  (* read everything sequentially *)
  Fixpoint read_all (fuel : nat) (r : rd) : list byte :=
    match fuel with
    | O => []
    | S f => match next r with
             | (Some b, r') => b :: read_all f r'
             | (None, _) => []
             end
    end.
End Reader.

(* ---- refutations on the code as it stands (half size 2) ---- *)
(* D14: file "abcdefgh", read a, b (b is the last byte of the first half; the second half gets loaded),
   retract b, read again: b comes back, but the next byte is e — cd was skipped *)
Example retract_at_half_boundary_skips_a_half :
  let r0 := new 2 [97; 98; 99; 100; 101; 102; 103; 104]%N in
  let '(_, r1) := next 2 r0 in
  let '(_, r2) := next 2 r1 in
  let r3 := retract 2 r2 in
  let '(b3, r4) := next 2 r3 in
  let '(b4, _) := next 2 r4 in
  (b3, b4) = (Some 98%N, Some 101%N).
Proof. vm_compute. reflexivity. Qed.

(* D13 (reader half): file "ab", read a, b, retract b, read: the end of input is reported instead of b *)
Example retract_at_end_of_input_loses_the_byte :
  let r0 := new 2 [97; 98]%N in
  let '(_, r1) := next 2 r0 in
  let '(_, r2) := next 2 r1 in
  let r3 := retract 2 r2 in
  fst (next 2 r3) = None.
Proof. vm_compute. reflexivity. Qed.

(* ---- sequential reading is exact, for every half size and every NUL-free file ---- *)
Section Sequential.
  Variable n : nat.
  Hypothesis n_pos : 1 <= n.

  Lemma put1_length l i x : i < length l -> length (firstn i l ++ [x] ++ skipn (S i) l) = length l.
  Proof.
    intros H. rewrite !app_length, firstn_length, skipn_length. simpl. lia.
  Qed.

  Lemma put1_nth_same l i x d : i < length l -> nth i (firstn i l ++ [x] ++ skipn (S i) l) d = x.
  Proof.
    intros H. rewrite app_nth2; rewrite firstn_length; [|lia].
    replace (i - Nat.min i (length l)) with 0 by lia. reflexivity.
  Qed.

  Lemma put1_nth_other l i x j d : i < length l -> j <> i -> nth j (firstn i l ++ [x] ++ skipn (S i) l) d = nth j l d.
  Proof.
    intros H Hj. destruct (Nat.lt_ge_cases j i) as [Hlt|Hge].
    - rewrite app_nth1 by (rewrite firstn_length; lia). apply nth_firstn. exact Hlt. 
    - rewrite app_nth2 by (rewrite firstn_length; lia). rewrite firstn_length.
      replace (Nat.min i (length l)) with i by lia.
      destruct (j - i) as [|k] eqn:E; [lia|]. simpl.
      rewrite nth_skipn. f_equal. lia.
  Qed.

  Lemma put_length xs : forall l i, i + length xs <= length l -> length (put l i xs) = length l.
  Proof.
    induction xs as [|x xs IH]; intros l i H; simpl in *; [reflexivity|].
    rewrite IH; rewrite put1_length; lia.
  Qed.

  Lemma put_nth_in xs : forall l i j d, i + length xs <= length l -> j < length xs ->
    nth (i + j) (put l i xs) d = nth j xs d.
  Proof.
    induction xs as [|x xs IH]; intros l i j d H Hj; simpl in *; [lia|].
    destruct j as [|j].
    - rewrite Nat.add_0_r.
      assert (Hout : forall ys l' k, k + length ys <= length l' -> i < k -> nth i (put l' k ys) d = nth i l' d).
      { induction ys as [|y ys IHy]; intros l' k Hk Hik; simpl in *; [reflexivity|].
        rewrite IHy; [|rewrite put1_length; lia|lia]. apply put1_nth_other; lia. }
      rewrite Hout; [|rewrite put1_length; lia|lia]. apply put1_nth_same. lia.
    - replace (i + S j) with (S i + j) by lia. apply IH; [rewrite put1_length; lia | lia].
  Qed.

  Lemma put_nth_out xs : forall l i j d, i + length xs <= length l -> (j < i \/ i + length xs <= j) ->
    nth j (put l i xs) d = nth j l d.
  Proof.
    induction xs as [|x xs IH]; intros l i j d H Hj; simpl in *; [reflexivity|].
    rewrite IH; [|rewrite put1_length; lia|lia]. apply put1_nth_other; lia.
  Qed.

  Definition hend (f : nat) : nat := if f <? n then n else 2 * n.

  (* the state of the reader with [rest] still to be returned *)
  Definition Inv (r : rd) (rest : list byte) : Prop :=
    length (buff r) = 2 * n /\ forward r < 2 * n /\
    match rest with
    | [] => err r = EOF
    | _ =>
      err r = NoErr /\
      exists v, v <> [] /\ rest = v ++ src r /\
                forward r + length v <= hend (forward r) /\
                (forall j, j < length v -> nth (forward r + j) (buff r) 0%N = nth j v 0%N) /\
                (forward r + length v < hend (forward r) -> nth (forward r + length v) (buff r) 0%N = 0%N /\ src r = [])
    end.

  Definition nul_free (l : list byte) : Prop := Forall (fun b => b <> 0%N) l.

  (* what a load establishes: the half starting at [base] holds the next chunk *)
  Lemma load_spec base r :
    length (buff r) = 2 * n -> (base = 0 \/ base = n) -> src r <> [] ->
    let r' := load n base r in
    length (buff r') = 2 * n /\ forward r' = forward r /\ err r' = err r /\
    src r = firstn n (src r) ++ src r' /\
    (forall j, j < length (firstn n (src r)) -> nth (base + j) (buff r') 0%N = nth j (firstn n (src r)) 0%N) /\
    (length (firstn n (src r)) < n -> nth (base + length (firstn n (src r))) (buff r') 0%N = 0%N /\ src r' = []).
  Proof.
    intros Hlen Hbase Hsrc. unfold load. destruct (src r) as [|s0 srest] eqn:Es; [contradiction|].
    set (chunk := firstn n (s0 :: srest)). cbn zeta.
    assert (Hk : length chunk <= n) by (unfold chunk; rewrite firstn_length; lia).
    assert (Hfit : base + length chunk <= length (buff r)) by (destruct Hbase; subst; lia).
    destruct (length chunk <? n) eqn:Elt; simpl.
    - apply Nat.ltb_lt in Elt.
      assert (Hl1 : length (put (buff r) base chunk) = 2 * n) by (rewrite put_length; lia).
      repeat split.
      + rewrite (put_length [0%N]); simpl; lia.
      + symmetry. apply firstn_skipn.
      + intros j Hj. rewrite (put_nth_out [0%N]); [|simpl; destruct Hbase; subst; lia|simpl; lia].
        apply put_nth_in; lia.
      + intros _. replace (base + length chunk) with (base + length chunk + 0) at 1 by lia.
        rewrite (put_nth_in [0%N]); simpl; try lia. reflexivity. destruct Hbase; subst; lia.
      + intros _. apply skipn_all2. unfold chunk in Elt. rewrite firstn_length in Elt. lia.
    - apply Nat.ltb_ge in Elt. repeat split.
      + rewrite put_length; lia.
      + symmetry. apply firstn_skipn.
      + intros j Hj. apply put_nth_in; lia.
      + intros H. lia.
      + intros H. lia.
  Qed.
End Sequential.
