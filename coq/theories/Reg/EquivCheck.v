(* Certified product check: a DFA (given as data) against a vector of regular
   expressions.  [prod_check d rs okp fuel = true] implies that for EVERY string w,
   [okp (run d w) (map (fun r => matchb r w) rs) = true], i.e. whatever relation [okp]
   expresses between the automaton state reached and the vector of "does definition i
   match w" holds for all strings.  Instances: language equality DFA = regex (C02, C10),
   scanner ownership / conflicts (C03). *)
From Coq Require Import List Bool NArith Lia.
From Verif Require Import Base.Explore Base.CharSet Reg.Dfa Reg.Regex.
Import ListNotations.
Local Open Scope N_scope.

Section ListEqb.
  Variable A : Type.
  Variable eqb : A -> A -> bool.
  Hypothesis eqb_spec : forall x y, eqb x y = true <-> x = y.
  Fixpoint list_eqb (a b : list A) : bool :=
    match a, b with
    | [], [] => true
    | x :: a', y :: b' => eqb x y && list_eqb a' b'
    | _, _ => false
    end.
  Lemma list_eqb_spec a : forall b, list_eqb a b = true <-> a = b.
  Proof.
    induction a as [|x a IH]; destruct b as [|y b]; simpl; split; intros H; try discriminate; try reflexivity.
    - apply andb_prop in H as [H1 H2]. apply eqb_spec in H1. apply IH in H2. subst. reflexivity.
    - inversion H; subst. apply andb_true_intro. split; [apply eqb_spec | apply IH]; reflexivity.
  Qed.
End ListEqb.
Arguments list_eqb {A} eqb a b.

Definition rset_eqb : rset -> rset -> bool := list_eqb re_eqb.
Lemma rset_eqb_spec a b : rset_eqb a b = true <-> a = b.
Proof. apply list_eqb_spec. intros x y. apply re_eqb_spec. Qed.

Definition vstate := list rset.
Definition vstate_eqb : vstate -> vstate -> bool := list_eqb rset_eqb.
Lemma vstate_eqb_spec a b : vstate_eqb a b = true <-> a = b.
Proof. apply list_eqb_spec. intros x y. apply rset_eqb_spec. Qed.

Lemma rs_run_snoc S w c : rs_run S (w ++ [c]) = rs_step (rs_run S w) c.
Proof. unfold rs_run. rewrite fold_left_app. reflexivity. Qed.

Lemma rs_run_bounds w : forall S, incl (rs_bounds (rs_run S w)) (rs_bounds S).
Proof.
  induction w as [|c w IH]; intros S; simpl; [apply incl_refl|].
  eapply incl_tran; [apply IH | apply rs_step_bounds].
Qed.

Section Prod.
  Variable d : dfa.
  Variable rs : list re.
  Variable okp : option N -> list bool -> bool.

  Definition pstate := (option N * vstate)%type.

  Definition pstate_eqb (p q : pstate) : bool := on_eqb (fst p) (fst q) && vstate_eqb (snd p) (snd q).
  Lemma pstate_eqb_spec p q : pstate_eqb p q = true <-> p = q.
  Proof.
    destruct p as [a u], q as [b v]; unfold pstate_eqb; simpl.
    rewrite andb_true_iff, on_eqb_spec, vstate_eqb_spec.
    split; [intros [-> ->]; reflexivity | intros H; inversion H; auto].
  Qed.

  Definition pB : list N := d_bounds d ++ flat_map re_bounds rs.
  Definition patoms : list N := nodup N.eq_dec (0 :: pB).

  Definition pinit : pstate := (Some (d_start d), map (fun r => [r]) rs).
  Definition pnext (p : pstate) (c : N) : pstate :=
    (ostep d (fst p) c, map (fun S => rs_step S c) (snd p)).
  Definition psuccs (p : pstate) : list pstate := map (pnext p) patoms.
  Definition pok (p : pstate) : bool := okp (fst p) (map rs_nullable (snd p)).

  Definition prod_check (fuel : nat) : bool :=
    match explore pstate_eqb psuccs pok fuel [pinit] [] with
    | Some _ => true
    | None => false
    end.

  Definition pafter (w : list N) : pstate := (run d w, map (fun r => rs_run [r] w) rs).

  Lemma pafter_snoc w c : pafter (w ++ [c]) = pnext (pafter w) (rep pB c).
  Proof.
    unfold pafter, pnext. simpl. f_equal.
    - rewrite run_snoc. destruct (run d w) as [q|]; simpl; [|reflexivity].
      apply step_rep. unfold pB. apply incl_appl, incl_refl.
    - rewrite map_map. apply map_ext_in. intros r Hr. rewrite rs_run_snoc.
      apply rs_step_rep. eapply incl_tran; [apply rs_run_bounds|].
      unfold rs_bounds, pB. simpl. rewrite app_nil_r. intros x Hx. apply in_or_app. right.
      apply in_flat_map. exists r. auto.
  Qed.

  Theorem prod_check_sound fuel :
    prod_check fuel = true ->
    forall w, okp (run d w) (map (fun r => matchb r w) rs) = true.
  Proof.
    unfold prod_check.
    destruct (explore pstate_eqb psuccs pok fuel [pinit] []) as [V|] eqn:Hex; [|discriminate].
    intros _.
    destruct (explore_sound pstate_eqb pstate_eqb_spec psuccs pok fuel _ V Hex) as [Hinit Hclosed].
    assert (Hall : forall w, In (pafter w) V).
    { intros w. induction w as [|c w IH] using rev_ind.
      - apply Hinit. left. reflexivity.
      - rewrite pafter_snoc. destruct (Hclosed _ IH) as [_ Hs]. apply Hs.
        unfold psuccs. apply in_map. unfold patoms. apply nodup_In. apply rep_in. }
    intros w. destruct (Hclosed _ (Hall w)) as [Hok _].
    unfold pok, pafter in Hok. simpl in Hok. rewrite map_map in Hok. exact Hok.
  Qed.
End Prod.

(* ---- instance 1: language equality of a DFA with final states and one regex ---- *)
Definition accepts (d : dfa) (finals : list N) (w : list N) : bool :=
  match run d w with
  | Some q => nmem q finals
  | None => false
  end.

Definition okp_lang (finals : list N) (oq : option N) (v : list bool) : bool :=
  match v with
  | [b] => Bool.eqb (match oq with Some q => nmem q finals | None => false end) b
  | _ => false
  end.

Definition dfa_re_check (d : dfa) (finals : list N) (r : re) (fuel : nat) : bool :=
  prod_check d [r] (okp_lang finals) fuel.

Theorem dfa_re_check_sound d finals r fuel :
  dfa_re_check d finals r fuel = true ->
  forall w, accepts d finals w = true <-> matches r w.
Proof.
  intros H w. pose proof (prod_check_sound d [r] (okp_lang finals) fuel H w) as Hw.
  simpl in Hw. unfold accepts. rewrite <- matchb_spec.
  apply Bool.eqb_prop in Hw. rewrite Hw. tauto.
Qed.

(* ---- search only (not trusted, not used by any theorem): a breadth-first variant that carries
   access strings and returns the string leading to the first node that fails [okp] ---- *)
Section Witness.
  Variable d : dfa.
  Variable rs : list re.
  Variable okp : option N -> list bool -> bool.

  Fixpoint find_bad (fuel : nat) (todo : list (pstate * list N)) (visited : list pstate) : option (list N) :=
    match fuel with
    | O => None
    | S f =>
      match todo with
      | [] => None
      | (x, path) :: t =>
        if memb pstate_eqb x visited then find_bad f t visited
        else if pok okp x
             then find_bad f (t ++ map (fun c => (pnext d x c, c :: path)) (patoms d rs)) (x :: visited)
             else Some (rev path)
      end
    end.

  Definition witness (fuel : nat) : option (list N) := find_bad fuel [(pinit d rs, [])] [].
End Witness.
