(* The documented pattern grammar as a concrete-syntax-tree type, the PEG parser
   emerge builds for it (model of internal/regex/parser/parser.go, ordered choice
   and greedy repetition exactly as written there), its printer, and the theorem
   that whatever the parser returns, the consumed text is the print of the tree:
   acceptance can only rest on text that is a sentence of the grammar. *)
From Coq Require Import String List Bool NArith Lia.
From Verif Require Import Base.CharSet Reg.Peg.
Import ListNotations.
Local Open Scope N_scope.

(* ---- concrete syntax ---- *)
Inductive schar :=
| SUni (ds : list N)        (* "\x" hex{4,8}; ds are the digit characters *)
| SAsc (d1 d2 : N)          (* "\x" hex hex *)
| SEsc (c : N)              (* "\" escaped_char *)
| SRaw (c : N).             (* unescaped_char / char *)

Inductive rep :=
| ROp (c : N)                                        (* ? * + *)
| RRange (lo : list N) (ub : option (option (list N))).   (* {n} {n,} {n,m}; digits as characters *)

Definition quant := (rep * bool)%type.                (* lazy modifier *)

Inductive gitem :=
| GUni (p : N) (cat : list N)     (* \p{..} or \P{..}; p is the letter *)
| GAsc (name : list N)            (* [:name:] whole text *)
| GCls (c : N)                    (* \s \S \d \D \w \W; c is the letter *)
| GRange (a b : schar)
| GChr (c : schar).

Inductive mitem :=
| MAny
| MChr (c : schar)
| MCls (c : N)
| MAsc (name : list N)
| MUni (p : N) (cat : list N)
| MGrp (neg : bool) (items : list gitem).

Inductive sitem :=
| SAnchor
| SGroup (e : expr) (q : option quant)
| SMatch (m : mitem) (q : option quant)
with expr :=
| Expr (items : list sitem) (alt : option expr).

Definition regex := (bool * expr)%type.   (* leading "^" *)

(* ---- printer ---- *)
Definition pr_schar (c : schar) : list N :=
  match c with
  | SUni ds => [92; 120] ++ ds
  | SAsc d1 d2 => [92; 120; d1; d2]
  | SEsc c => [92; c]
  | SRaw c => [c]
  end.

Definition pr_rep (r : rep) : list N :=
  match r with
  | ROp c => [c]
  | RRange lo ub =>
    [123] ++ lo ++ (match ub with
                    | None => []
                    | Some None => [44]
                    | Some (Some m) => [44] ++ m
                    end) ++ [125]
  end.

Definition pr_quant (q : quant) : list N := pr_rep (fst q) ++ (if snd q then [63] else []).
Definition pr_oquant (q : option quant) : list N := match q with Some q => pr_quant q | None => [] end.

Definition pr_gitem (g : gitem) : list N :=
  match g with
  | GUni p cat => [92; p; 123] ++ cat ++ [125]
  | GAsc name => name
  | GCls c => [92; c]
  | GRange a b => pr_schar a ++ [45] ++ pr_schar b
  | GChr c => pr_schar c
  end.

Definition pr_mitem (m : mitem) : list N :=
  match m with
  | MAny => [46]
  | MChr c => pr_schar c
  | MCls c => [92; c]
  | MAsc name => name
  | MUni p cat => [92; p; 123] ++ cat ++ [125]
  | MGrp neg items => [91] ++ (if neg then [94] else []) ++ flat_map pr_gitem items ++ [93]
  end.

Fixpoint pr_sitem (i : sitem) : list N :=
  match i with
  | SAnchor => [36]
  | SGroup e q => [40] ++ pr_expr e ++ [41] ++ pr_oquant q
  | SMatch m q => pr_mitem m ++ pr_oquant q
  end
with pr_expr (e : expr) : list N :=
  match e with
  | Expr items alt =>
    flat_map pr_sitem items ++ (match alt with Some e' => [124] ++ pr_expr e' | None => [] end)
  end.

Definition pr_regex (r : regex) : list N := (if fst r then [94] else []) ++ pr_expr (snd r).

(* ---- parser (model of parser.New / Parser.Parse) ---- *)
Section Parser.
  Variable escaped : list N.             (* escapedChars, translated *)
  Variable ascii_names : list (list N).  (* "[:blank:]" ... in source order, translated *)
  Variable uni_cats : list (list N).     (* "Letter" "Math" ... in source order, translated *)
  Variable cls_letters : list N.         (* s S d D w W in source order, translated *)

  Definition isin (c : N) (l : list N) : bool := existsb (N.eqb c) l.

  Definition hexd : P N := p_alt (p_range 48 57) (p_range 65 70).
  Definition digit : P N := p_range 48 57.

  Definition olist (o : option N) : list N := match o with Some d => [d] | None => [] end.

  Definition p_uni : P schar :=
    p_map (fun x : unit * (N * (N * (N * (N * (option N * (option N * (option N * option N))))))) =>
             let '(_, (a, (b, (c, (d, (o1, (o2, (o3, o4)))))))) := x in
             SUni ([a; b; c; d] ++ olist o1 ++ olist o2 ++ olist o3 ++ olist o4))
          (p_seq (p_str [92; 120]) (p_seq hexd (p_seq hexd (p_seq hexd (p_seq hexd
             (p_seq (p_opt hexd) (p_seq (p_opt hexd) (p_seq (p_opt hexd) (p_opt hexd))))))))).

  Definition p_asc : P schar :=
    p_map (fun x : unit * (N * N) => let '(_, (a, b)) := x in SAsc a b)
          (p_seq (p_str [92; 120]) (p_seq hexd hexd)).

  Definition p_esc : P schar :=
    p_map (fun x : N * N => SEsc (snd x)) (p_seq (p_chr 92) (p_in escaped)).

  Definition p_char : P N := p_range 32 126.
  Definition p_unesc : P N := p_filter (fun c => negb (isin c escaped)) p_char.

  Definition single_char : P schar := p_alt p_uni (p_alt p_asc (p_alt p_esc (p_map SRaw p_unesc))).
  Definition char_in_range : P schar := p_alt p_uni (p_alt p_asc (p_map SRaw p_char)).

  Definition p_cls : P N := p_map (fun x : N * N => snd x) (p_seq (p_chr 92) (p_in cls_letters)).
  Definition p_ascii_class : P (list N) := p_strs ascii_names.
  Definition p_uni_class : P (N * list N) :=
    p_map (fun x : N * (N * (N * (list N * N))) => let '(_, (p, (_, (cat, _)))) := x in (p, cat))
          (p_seq (p_chr 92) (p_seq (p_in [112; 80]) (p_seq (p_chr 123) (p_seq (p_strs uni_cats) (p_chr 125))))).

  Definition p_num : P (list N) := p_many1 digit.
  Definition p_upper : P (option (list N)) :=
    p_map (fun x : N * option (list N) => snd x) (p_seq (p_chr 44) (p_opt p_num)).
  Definition p_range_q : P rep :=
    p_map (fun x : N * (list N * (option (option (list N)) * N)) => let '(_, (lo, (ub, _))) := x in RRange lo ub)
          (p_seq (p_chr 123) (p_seq p_num (p_seq (p_opt p_upper) (p_chr 125)))).
  Definition p_repetition : P rep := p_alt (p_map ROp (p_in [63; 42; 43])) p_range_q.
  Definition p_quant : P quant :=
    p_map (fun x : rep * option N => (fst x, match snd x with Some _ => true | None => false end))
          (p_seq p_repetition (p_opt (p_chr 63))).

  Definition p_crange : P gitem :=
    p_map (fun x : schar * (N * schar) => let '(a, (_, b)) := x in GRange a b)
          (p_seq char_in_range (p_seq (p_chr 45) char_in_range)).

  Definition p_gitem : P gitem :=
    p_alt (p_map (fun x : N * list N => GUni (fst x) (snd x)) p_uni_class)
   (p_alt (p_map GAsc p_ascii_class)
   (p_alt (p_map GCls p_cls)
   (p_alt p_crange
          (p_map GChr single_char)))).

  Definition p_group_chars : P mitem :=
    p_map (fun x : N * (option N * (list gitem * N)) =>
             let '(_, (neg, (items, _))) := x in MGrp (match neg with Some _ => true | None => false end) items)
          (p_seq (p_chr 91) (p_seq (p_opt (p_chr 94)) (p_seq (p_many1 p_gitem) (p_chr 93)))).

  Definition p_mitem : P mitem :=
    p_alt (p_map (fun _ => MAny) (p_chr 46))
   (p_alt (p_map MChr single_char)
   (p_alt (p_map MCls p_cls)
   (p_alt (p_map MAsc p_ascii_class)
   (p_alt (p_map (fun x : N * list N => MUni (fst x) (snd x)) p_uni_class)
          p_group_chars)))).

  Definition p_match : P sitem :=
    p_map (fun x : mitem * option quant => SMatch (fst x) (snd x)) (p_seq p_mitem (p_opt p_quant)).

  Definition p_anchor : P sitem := p_map (fun _ => SAnchor) (p_chr 36).

  (* [fun s' => p_expr f s'] rather than [p_expr f]: under call-by-value evaluation the recursive
     parser must not be built eagerly (it is referred to twice per level) *)
  Fixpoint p_expr (fuel : nat) (s : list N) {struct fuel} : option (expr * list N) :=
    match fuel with
    | O => None
    | S f =>
      let rec : P expr := fun s' => p_expr f s' in
      let p_group : P sitem :=
        p_map (fun x : N * (expr * (N * option quant)) => let '(_, (e, (_, q))) := x in SGroup e q)
              (p_seq (p_chr 40) (p_seq rec (p_seq (p_chr 41) (p_opt p_quant)))) in
      let p_sitem : P sitem := p_alt p_anchor (p_alt p_group p_match) in
      p_map (fun x : list sitem * option (N * expr) =>
               Expr (fst x) (match snd x with Some y => Some (snd y) | None => None end))
            (p_seq (p_many1 p_sitem) (p_opt (p_seq (p_chr 124) rec))) s
    end.

  Definition p_regex (fuel : nat) : P regex :=
    p_map (fun x : option N * expr => (match fst x with Some _ => true | None => false end, snd x))
          (p_seq (p_opt (p_chr 94)) (p_expr fuel)).

  (* Parser.Parse on a string: nesting is bounded by the length *)
  Definition parse (s : list N) : option (regex * list N) := p_regex (S (length s)) s.

  (* ---- soundness: the consumed text is the print of the tree ---- *)
  Ltac smap := intros; repeat match goal with x : (_ * _)%type |- _ => destruct x end;
               repeat match goal with x : option _ |- _ => destruct x end;
               simpl; rewrite ?app_nil_r, <- ?app_assoc; try reflexivity.

  Lemma sound_chr c : sound (p_chr c) (fun _ => [c]).
  Proof.
    intros s a r H. pose proof (p_chr_val _ _ _ _ H). subst a.
    apply (sound_sat (N.eqb c) s c r H).
  Qed.

  Lemma sound_hexd : sound hexd (fun c => [c]).
  Proof. apply sound_alt; apply sound_sat. Qed.

  Lemma sound_uni : sound p_uni pr_schar.
  Proof.
    unfold p_uni. eapply sound_map.
    - apply sound_seq; [apply sound_str|].
      repeat (apply sound_seq; [apply sound_hexd|]).
      repeat (apply sound_seq; [apply sound_opt, sound_hexd|]). apply sound_opt, sound_hexd.
    - smap.
  Qed.

  Lemma sound_asc : sound p_asc pr_schar.
  Proof.
    unfold p_asc. eapply sound_map.
    - apply sound_seq; [apply sound_str|]. apply sound_seq; apply sound_hexd.
    - smap.
  Qed.

  Lemma sound_esc : sound p_esc pr_schar.
  Proof.
    unfold p_esc. eapply sound_map.
    - apply sound_seq; [apply sound_chr | apply sound_sat].
    - smap.
  Qed.

  Lemma sound_single_char : sound single_char pr_schar.
  Proof.
    unfold single_char. repeat apply sound_alt; try apply sound_uni; try apply sound_asc; try apply sound_esc.
    eapply sound_map; [apply sound_filter, sound_sat | smap].
  Qed.

  Lemma sound_char_in_range : sound char_in_range pr_schar.
  Proof.
    unfold char_in_range. repeat apply sound_alt; try apply sound_uni; try apply sound_asc.
    eapply sound_map; [apply sound_sat | smap].
  Qed.

  Lemma sound_cls : sound p_cls (fun c => [92; c]).
  Proof.
    unfold p_cls. eapply sound_map; [apply sound_seq; [apply sound_chr | apply sound_sat] | smap].
  Qed.

  Lemma sound_uni_class : sound p_uni_class (fun x => [92; fst x; 123] ++ snd x ++ [125]).
  Proof.
    unfold p_uni_class. eapply sound_map.
    - apply sound_seq; [apply sound_chr|]. apply sound_seq; [apply sound_sat|].
      apply sound_seq; [apply sound_chr|]. apply sound_seq; [apply sound_strs | apply sound_chr].
    - smap.
  Qed.

  Lemma sound_num : sound p_num (fun l => l).
  Proof.
    intros s l r H. pose proof (sound_many1 digit (fun c => [c]) (sound_sat _) s l r H) as E.
    rewrite E. f_equal. clear. induction l as [|x l IH]; simpl; [reflexivity | f_equal; exact IH].
  Qed.

  Lemma sound_quant : sound p_quant pr_quant.
  Proof.
    unfold p_quant. eapply sound_map.
    - apply sound_seq; [|apply sound_opt, sound_chr].
      unfold p_repetition. apply (sound_alt _ _ pr_rep).
      + eapply sound_map; [apply sound_sat | smap].
      + unfold p_range_q. eapply sound_map.
        * apply sound_seq; [apply sound_chr|]. apply sound_seq; [apply sound_num|].
          apply sound_seq; [|apply sound_chr]. apply sound_opt.
          unfold p_upper. eapply (sound_map _ _ _ (fun o => [44] ++ opt_print (fun l => l) o)).
          -- apply sound_seq; [apply sound_chr | apply sound_opt, sound_num].
          -- smap.
        * smap.
    - intros [r [c|]]; simpl; reflexivity.
  Qed.

  Lemma sound_oquant : sound (p_opt p_quant) pr_oquant.
  Proof.
    intros s o r H. pose proof (sound_opt p_quant pr_quant sound_quant s o r H) as E.
    destruct o; exact E.
  Qed.

  Lemma sound_gitem : sound p_gitem pr_gitem.
  Proof.
    unfold p_gitem. repeat apply sound_alt.
    - eapply sound_map; [apply sound_uni_class | smap].
    - eapply sound_map; [apply sound_strs | smap].
    - eapply sound_map; [apply sound_cls | smap].
    - unfold p_crange. eapply sound_map.
      + apply sound_seq; [apply sound_char_in_range|]. apply sound_seq; [apply sound_chr | apply sound_char_in_range].
      + smap.
    - eapply sound_map; [apply sound_single_char | smap].
  Qed.

  Lemma sound_mitem : sound p_mitem pr_mitem.
  Proof.
    unfold p_mitem. repeat apply sound_alt.
    - eapply sound_map; [apply sound_chr | smap].
    - eapply sound_map; [apply sound_single_char | smap].
    - eapply sound_map; [apply sound_cls | smap].
    - eapply sound_map; [apply sound_strs | smap].
    - eapply sound_map; [apply sound_uni_class | smap].
    - unfold p_group_chars. eapply sound_map.
      + apply sound_seq; [apply sound_chr|]. apply sound_seq; [apply sound_opt, sound_chr|].
        apply sound_seq; [apply sound_many1, sound_gitem | apply sound_chr].
      + smap.
  Qed.

  Lemma sound_match : sound p_match pr_sitem.
  Proof.
    unfold p_match. eapply sound_map.
    - apply sound_seq; [apply sound_mitem | apply sound_oquant].
    - smap.
  Qed.

  Lemma sound_expr fuel : sound (p_expr fuel) pr_expr.
  Proof.
    induction fuel as [|f IH]; [intros s a r H; discriminate|].
    intros s0 a0 r0. cbn [p_expr]. revert s0 a0 r0.
    change (sound (p_map (fun x : list sitem * option (N * expr) =>
               Expr (fst x) (match snd x with Some y => Some (snd y) | None => None end))
            (p_seq (p_many1 (p_alt p_anchor (p_alt
               (p_map (fun x : N * (expr * (N * option quant)) => let '(_, (e, (_, q))) := x in SGroup e q)
                  (p_seq (p_chr 40) (p_seq (fun s' => p_expr f s') (p_seq (p_chr 41) (p_opt p_quant))))) p_match)))
               (p_opt (p_seq (p_chr 124) (fun s' => p_expr f s'))))) pr_expr).
    eapply (sound_map _ _ (fun x => flat_map pr_sitem (fst x) ++
                                    opt_print (fun y : N * expr => [124] ++ pr_expr (snd y)) (snd x))).
    - apply (sound_seq _ _ (flat_map pr_sitem) (opt_print (fun y : N * expr => [124] ++ pr_expr (snd y)))).
      + apply (sound_many1 _ pr_sitem). repeat apply sound_alt.
        * unfold p_anchor. eapply sound_map; [apply sound_chr | smap].
        * eapply (sound_map _ _ (fun x : N * (expr * (N * option quant)) =>
                    [40] ++ pr_expr (fst (snd x)) ++ [41] ++ pr_oquant (snd (snd (snd x))))).
          -- apply (sound_seq _ _ (fun _ => [40]) (fun y : expr * (N * option quant) =>
                      pr_expr (fst y) ++ [41] ++ pr_oquant (snd (snd y)))); [apply sound_chr|].
             apply (sound_seq _ _ pr_expr (fun z : N * option quant => [41] ++ pr_oquant (snd z))); [apply IH|].
             apply (sound_seq _ _ (fun _ => [41]) pr_oquant); [apply sound_chr | apply sound_oquant].
          -- smap.
        * apply sound_match.
      + apply sound_opt.
        apply (sound_seq _ _ (fun _ => [124]) pr_expr); [apply sound_chr | apply IH].
    - intros [items [[c e]|]]; simpl; rewrite ?app_nil_r; reflexivity.
  Qed.

  Theorem sound_regex fuel : sound (p_regex fuel) pr_regex.
  Proof.
    unfold p_regex. eapply sound_map.
    - apply sound_seq; [apply sound_opt, sound_chr | apply sound_expr].
    - intros [[c|] e]; reflexivity.
  Qed.

  Theorem parse_sound s t rest : parse s = Some (t, rest) -> s = pr_regex t ++ rest.
  Proof. apply sound_regex. Qed.
End Parser.
