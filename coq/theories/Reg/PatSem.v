(* Meaning of patterns.  [pat] is the abstract syntax; [doc_sem] is the documented
   meaning written independently (a repetition {n,m} is "k copies for some n <= k <= m",
   a negated class is the universe minus the class); [desugar] mirrors emerge's own
   expansion (quantifyNFA: n copies followed by m-n optional copies or a star; concat of
   nothing is the empty string).  Theorem [desugar_correct]: they agree for all patterns
   and all strings.  [ast_of] maps the concrete syntax tree of Reg/Pattern to [pat]
   using the (translated) class table, as the mappers do. *)
From Coq Require Import String List Bool Arith NArith Lia.
From Verif Require Import Base.CharSet Reg.Regex Reg.Pattern.
Import ListNotations.
Local Open Scope N_scope.

(* ---- charset difference ---- *)
Definition iv_sub (x : interval) (y : interval) : charset :=
  let '(lo, hi) := x in let '(a, b) := y in
  (if (lo <? a) then [(lo, N.min hi (a - 1))] else []) ++
  (if (b <? hi) then [(N.max lo (b + 1), hi)] else []).

Lemma iv_sub_spec x y c : cs_mem (iv_sub x y) c = in_iv x c && negb (in_iv y c).
Proof.
  destruct x as [lo hi], y as [a b]. unfold iv_sub, cs_mem, in_iv. simpl.
  destruct (lo <? a) eqn:E1; destruct (b <? hi) eqn:E2; simpl; unfold in_iv; simpl;
    rewrite ?orb_false_r;
    repeat match goal with
           | |- context[?x <=? ?y] => let H := fresh in destruct (N.leb_spec x y) as [H|H]
           end; simpl; try reflexivity;
    apply N.ltb_lt in E1 || apply N.ltb_ge in E1; apply N.ltb_lt in E2 || apply N.ltb_ge in E2; lia.
Qed.

Definition cs_sub1 (s : charset) (y : interval) : charset := flat_map (fun x => iv_sub x y) s.

Lemma existsb_flat_map {A B} (f : B -> bool) (g : A -> list B) l :
  existsb f (flat_map g l) = existsb (fun a => existsb f (g a)) l.
Proof. induction l as [|a l IH]; simpl; [reflexivity|]. rewrite existsb_app, IH. reflexivity. Qed.

Lemma cs_sub1_spec s y c : cs_mem (cs_sub1 s y) c = cs_mem s c && negb (in_iv y c).
Proof.
  unfold cs_sub1, cs_mem. rewrite existsb_flat_map.
  induction s as [|x s IH]; simpl; [reflexivity|].
  rewrite IH. fold (cs_mem (iv_sub x y) c). rewrite iv_sub_spec.
  destruct (in_iv x c), (in_iv y c), (existsb (fun iv => in_iv iv c) s); reflexivity.
Qed.

Definition cs_diff (s t : charset) : charset := fold_left cs_sub1 t s.

Lemma cs_diff_spec t : forall s c, cs_mem (cs_diff s t) c = cs_mem s c && negb (cs_mem t c).
Proof.
  induction t as [|y t IH]; intros s c; simpl.
  - rewrite andb_true_r. reflexivity.
  - unfold cs_diff in *. simpl. rewrite IH, cs_sub1_spec.
    destruct (cs_mem s c), (in_iv y c), (cs_mem t c); reflexivity.
Qed.

Lemma cs_mem_app s t c : cs_mem (s ++ t) c = cs_mem s c || cs_mem t c.
Proof. unfold cs_mem. apply existsb_app. Qed.

(* ---- abstract syntax and documented meaning ---- *)
Inductive pat :=
| PEps
| PSet (cs : charset)
| PCat (a b : pat)
| PAlt (a b : pat)
| PRep (a : pat) (lo : nat) (hi : option nat).

Fixpoint pow (L : list N -> Prop) (k : nat) (s : list N) : Prop :=
  match k with
  | O => s = []
  | S k' => exists u v, s = u ++ v /\ L u /\ pow L k' v
  end.

Fixpoint doc_sem (p : pat) (s : list N) : Prop :=
  match p with
  | PEps => s = []
  | PSet cs => exists c, s = [c] /\ cs_mem cs c = true
  | PCat a b => exists u v, s = u ++ v /\ doc_sem a u /\ doc_sem b v
  | PAlt a b => doc_sem a s \/ doc_sem b s
  | PRep a lo hi =>
    exists k, (lo <= k)%nat /\ (match hi with Some h => (k <= h)%nat | None => True end) /\ pow (doc_sem a) k s
  end.

Fixpoint wf_pat (p : pat) : Prop :=
  match p with
  | PEps | PSet _ => True
  | PCat a b | PAlt a b => wf_pat a /\ wf_pat b
  | PRep a lo hi => wf_pat a /\ match hi with Some h => (lo <= h)%nat | None => True end
  end.

(* ---- emerge's expansion ---- *)
Fixpoint cat_list (l : list re) : re :=
  match l with
  | [] => Eps                     (* concat() of nothing = empty() *)
  | [x] => x
  | x :: t => Cat x (cat_list t)
  end.

Fixpoint desugar (p : pat) : re :=
  match p with
  | PEps => Eps
  | PSet cs => Chr cs
  | PCat a b => Cat (desugar a) (desugar b)
  | PAlt a b => Alt (desugar a) (desugar b)
  | PRep a lo hi =>
    let r := desugar a in
    cat_list (repeat r lo ++
              match hi with
              | None => [Star r]
              | Some h => repeat (Alt Eps r) (h - lo)
              end)
  end.

Lemma cat_list_cons x l s :
  matches (cat_list (x :: l)) s <-> exists u v, s = u ++ v /\ matches x u /\ matches (cat_list l) v.
Proof.
  destruct l as [|y l]; simpl.
  - split.
    + intros H. exists s, []. rewrite app_nil_r. repeat split; [exact H | constructor].
    + intros [u [v [-> [Hu Hv]]]]. apply eps_inv in Hv. subst. rewrite app_nil_r. exact Hu.
  - split.
    + intros H. apply cat_inv in H. exact H.
    + intros [u [v [-> [Hu Hv]]]]. constructor; assumption.
Qed.

Lemma cat_list_app l1 : forall l2 s,
  matches (cat_list (l1 ++ l2)) s <-> exists u v, s = u ++ v /\ matches (cat_list l1) u /\ matches (cat_list l2) v.
Proof.
  induction l1 as [|x l1 IH]; intros l2 s.
  - simpl. split.
    + intros H. exists [], s. repeat split; [constructor | exact H].
    + intros [u [v [-> [Hu Hv]]]]. apply eps_inv in Hu. subst. exact Hv.
  - change ((x :: l1) ++ l2) with (x :: (l1 ++ l2)). rewrite cat_list_cons. split.
    + intros [u [v [-> [Hu Hv]]]]. apply IH in Hv as [u' [v' [-> [Hu' Hv']]]].
      exists (u ++ u'), v'. rewrite app_assoc. repeat split; [|exact Hv'].
      apply cat_list_cons. exists u, u'. auto.
    + intros [u [v [-> [Hu Hv]]]]. apply cat_list_cons in Hu as [u1 [u2 [-> [H1 H2]]]].
      exists u1, (u2 ++ v). rewrite app_assoc. repeat split; [exact H1|].
      apply IH. exists u2, v. auto.
Qed.

Lemma cat_repeat r L n :
  (forall s, matches r s <-> L s) ->
  forall s, matches (cat_list (repeat r n)) s <-> pow L n s.
Proof.
  intros Hr. induction n as [|n IH]; intros s; simpl repeat.
  - simpl. split; [apply eps_inv | intros ->; constructor].
  - rewrite cat_list_cons. simpl. split.
    + intros [u [v [-> [Hu Hv]]]]. exists u, v. repeat split; [apply Hr; exact Hu | apply IH; exact Hv].
    + intros [u [v [-> [Hu Hv]]]]. exists u, v. repeat split; [apply Hr; exact Hu | apply IH; exact Hv].
Qed.

Lemma cat_repeat_opt r L m :
  (forall s, matches r s <-> L s) ->
  forall s, matches (cat_list (repeat (Alt Eps r) m)) s <-> exists j, (j <= m)%nat /\ pow L j s.
Proof.
  intros Hr. induction m as [|m IH]; intros s; simpl repeat.
  - simpl. split.
    + intros H. apply eps_inv in H. subst. exists 0%nat. split; [lia | reflexivity].
    + intros [j [Hj Hp]]. assert (j = 0)%nat by lia. subst. simpl in Hp. subst. constructor.
  - rewrite cat_list_cons. split.
    + intros [u [v [-> [Hu Hv]]]]. apply IH in Hv as [j [Hj Hp]]. apply alt_inv in Hu as [Hu|Hu].
      * apply eps_inv in Hu. subst. exists j. split; [lia | exact Hp].
      * exists (S j). split; [lia|]. simpl. exists u, v. repeat split; [apply Hr; exact Hu | exact Hp].
    + intros [j [Hj Hp]]. destruct (Nat.eq_dec j (S m)) as [->|Hne].
      * simpl in Hp. destruct Hp as [u [v [-> [Hu Hv]]]]. exists u, v. repeat split.
        -- apply M_altr. apply Hr. exact Hu.
        -- apply IH. exists m. split; [lia | exact Hv].
      * exists [], s. repeat split; [apply M_altl; constructor|]. apply IH. exists j. split; [lia | exact Hp].
Qed.

Lemma star_pow r L :
  (forall s, matches r s <-> L s) ->
  forall s, matches (Star r) s <-> exists j, pow L j s.
Proof.
  intros Hr s. split.
  - intros H. remember (Star r) as q eqn:Hq. induction H; try discriminate.
    + exists 0%nat. reflexivity.
    + inversion Hq; subst a. destruct (IHmatches2 eq_refl) as [j Hj].
      exists (S j). simpl. exists u, v. repeat split; [apply Hr; assumption | exact Hj].
  - intros [j Hj]. revert s Hj. induction j as [|j IH]; intros s Hj; simpl in Hj.
    + subst. constructor.
    + destruct Hj as [u [v [-> [Hu Hv]]]]. apply M_star1; [apply Hr; exact Hu | apply IH; exact Hv].
Qed.

Lemma pow_app L a b s : (exists u v, s = u ++ v /\ pow L a u /\ pow L b v) <-> pow L (a + b) s.
Proof.
  revert s. induction a as [|a IH]; intros s; simpl.
  - split.
    + intros [u [v [-> [-> Hv]]]]. exact Hv.
    + intros H. exists [], s. auto.
  - split.
    + intros [u [v [-> [[u1 [u2 [-> [H1 H2]]]] Hv]]]]. exists u1, (u2 ++ v). rewrite app_assoc.
      repeat split; [exact H1|]. apply IH. exists u2, v. auto.
    + intros [u1 [w [-> [H1 Hw]]]]. apply IH in Hw as [u2 [v [-> [H2 Hv]]]].
      exists (u1 ++ u2), v. rewrite app_assoc. repeat split; [|exact Hv]. exists u1, u2. auto.
Qed.

Theorem desugar_correct p : wf_pat p -> forall s, matches (desugar p) s <-> doc_sem p s.
Proof.
  induction p as [|cs|a IHa b IHb|a IHa b IHb|a IHa lo hi]; intros Hwf s; simpl in *.
  - split; [apply eps_inv | intros ->; constructor].
  - split; [apply chr_inv | intros [c [-> Hc]]; constructor; exact Hc].
  - destruct Hwf as [Ha Hb]. split.
    + intros H. apply cat_inv in H as [u [v [-> [Hu Hv]]]]. exists u, v.
      repeat split; [apply IHa | apply IHb]; assumption.
    + intros [u [v [-> [Hu Hv]]]]. constructor; [apply IHa | apply IHb]; assumption.
  - destruct Hwf as [Ha Hb]. split.
    + intros H. apply alt_inv in H as [H|H]; [left; apply IHa | right; apply IHb]; assumption.
    + intros [H|H]; [apply M_altl, IHa | apply M_altr, IHb]; assumption.
  - destruct Hwf as [Ha Hhi]. specialize (IHa Ha).
    rewrite cat_list_app. split.
    + intros [u [v [-> [Hu Hv]]]]. apply (cat_repeat _ _ lo IHa) in Hu.
      destruct hi as [h|].
      * apply (cat_repeat_opt _ _ (h - lo) IHa) in Hv as [j [Hj Hp]].
        exists (lo + j)%nat. split; [lia|]. split; [lia|]. apply pow_app. exists u, v. auto.
      * simpl in Hv. apply (star_pow _ _ IHa) in Hv as [j Hp].
        exists (lo + j)%nat. split; [lia|]. split; [exact I|]. apply pow_app. exists u, v. auto.
    + intros [k [Hlo [Hhi' Hp]]]. replace k with (lo + (k - lo))%nat in Hp by lia.
      apply pow_app in Hp as [u [v [-> [Hu Hv]]]]. exists u, v. repeat split.
      * apply (cat_repeat _ _ lo IHa). exact Hu.
      * destruct hi as [h|].
        -- apply (cat_repeat_opt _ _ (h - lo) IHa). exists (k - lo)%nat. split; [lia | exact Hv].
        -- simpl. apply (star_pow _ _ IHa). exists (k - lo)%nat. exact Hv.
Qed.

(* ---- the expansion as the code really performs it (known finding D3) ----
   Code point 0 is the automata library's epsilon: a set that contains NUL becomes
   "epsilon or one character of the set without NUL".  [desugar_impl] reproduces this so that the
   correspondence with the real automata stays exact; it coincides with [desugar] on patterns
   none of whose sets contains NUL ([nul_free]). *)
Fixpoint desugar_impl (p : pat) : re :=
  match p with
  | PEps => Eps
  | PSet cs => if cs_mem cs 0 then Alt Eps (Chr (cs_diff cs [(0, 0)])) else Chr cs
  | PCat a b => Cat (desugar_impl a) (desugar_impl b)
  | PAlt a b => Alt (desugar_impl a) (desugar_impl b)
  | PRep a lo hi =>
    let r := desugar_impl a in
    cat_list (repeat r lo ++
              match hi with
              | None => [Star r]
              | Some h => repeat (Alt Eps r) (h - lo)
              end)
  end.

Fixpoint nul_free (p : pat) : bool :=
  match p with
  | PEps => true
  | PSet cs => negb (cs_mem cs 0)
  | PCat a b | PAlt a b => nul_free a && nul_free b
  | PRep a _ _ => nul_free a
  end.

Lemma desugar_impl_nul_free p : nul_free p = true -> desugar_impl p = desugar p.
Proof.
  induction p as [|cs|a IHa b IHb|a IHa b IHb|a IHa lo hi]; simpl; intros H; try reflexivity.
  - destruct (cs_mem cs 0); [discriminate | reflexivity].
  - apply andb_prop in H as [H1 H2]. rewrite IHa, IHb; auto.
  - apply andb_prop in H as [H1 H2]. rewrite IHa, IHb; auto.
  - rewrite IHa; auto.
Qed.

(* ---- from concrete syntax to abstract syntax (model of the mappers) ---- *)
Section AstOf.
  Variable classes : list (string * charset).     (* RuneClasses, translated *)

  Definition class_of (name : string) : charset :=
    match find (fun kv => String.eqb (fst kv) name) classes with
    | Some kv => snd kv
    | None => []
    end.

  Definition universe : charset := class_of "ASCII".

  Fixpoint str_of (l : list N) : string :=
    match l with
    | [] => EmptyString
    | c :: t => String (Ascii.ascii_of_N c) (str_of t)
    end.

  Definition hexval1 (c : N) : N := if c <=? 57 then c - 48 else c - 55.
  Definition hexval (ds : list N) : N := fold_left (fun acc d => acc * 16 + hexval1 d) ds 0.
  Definition decval (ds : list N) : N := fold_left (fun acc d => acc * 10 + (d - 48)) ds 0.

  Definition schar_val (c : schar) : N :=
    match c with
    | SUni ds => hexval ds
    | SAsc d1 d2 => hexval [d1; d2]
    | SEsc c => match c with
                | 116 => 9 | 110 => 10 | 118 => 11 | 102 => 12 | 114 => 13   (* toEscapedChar *)
                | _ => c
                end
    | SRaw c => c
    end.

  (* \s \S \d \D \w \W : lower-case letter = the class, upper-case = its complement in the universe *)
  Definition cls_set (c : N) : charset :=
    let lower := if c <? 97 then c + 32 else c in
    let base := class_of (String (Ascii.ascii_of_N 92) (String (Ascii.ascii_of_N lower) EmptyString)) in
    if c <? 97 then cs_diff universe base else base.

  Definition uni_set (p : N) (cat : list N) : charset :=
    let base := class_of (str_of cat) in
    if p =? 80 then cs_diff universe base else base.

  Definition gitem_set (g : gitem) : charset :=
    match g with
    | GUni p cat => uni_set p cat
    | GAsc name => class_of (str_of name)
    | GCls c => cls_set c
    | GRange a b => [(schar_val a, schar_val b)]
    | GChr c => [(schar_val c, schar_val c)]
    end.

  Definition mitem_set (m : mitem) : charset :=
    match m with
    | MAny => universe
    | MChr c => [(schar_val c, schar_val c)]
    | MCls c => cls_set c
    | MAsc name => class_of (str_of name)
    | MUni p cat => uni_set p cat
    | MGrp neg items =>
      let marked := flat_map gitem_set items in
      if neg then cs_diff universe marked else marked
    end.

  Definition quant_bounds (q : quant) : nat * option nat :=
    match fst q with
    | ROp 63 => (0%nat, Some 1%nat)
    | ROp 42 => (0%nat, None)
    | ROp _ => (1%nat, None)
    | RRange lo None => (N.to_nat (decval lo), Some (N.to_nat (decval lo)))
    | RRange lo (Some None) => (N.to_nat (decval lo), None)
    | RRange lo (Some (Some m)) => (N.to_nat (decval lo), Some (N.to_nat (decval m)))
    end.

  Definition apply_quant (p : pat) (q : option quant) : pat :=
    match q with
    | None => p
    | Some q => let '(lo, hi) := quant_bounds q in PRep p lo hi
    end.

  Fixpoint pcat_list (l : list pat) : pat :=
    match l with
    | [] => PEps
    | [x] => x
    | x :: t => PCat x (pcat_list t)
    end.

  Fixpoint ast_sitem (i : sitem) : option pat :=
    match i with
    | SAnchor => None                          (* anchors are parsed and ignored *)
    | SGroup e q => Some (apply_quant (ast_expr e) q)
    | SMatch m q => Some (apply_quant (PSet (mitem_set m)) q)
    end
  with ast_expr (e : expr) : pat :=
    match e with
    | Expr items alt =>
      let ps := flat_map (fun i => match ast_sitem i with Some p => [p] | None => [] end) items in
      let here := pcat_list ps in
      match alt with
      | Some e' => PAlt here (ast_expr e')
      | None => here
      end
    end.

  Definition ast_regex (r : regex) : pat := ast_expr (snd r).

  (* ---- semantic validity (the errors the mappers accumulate) ---- *)
  Definition quant_ok (q : option quant) : bool :=
    match q with
    | Some (RRange lo (Some (Some m)), _) => decval lo <=? decval m
    | _ => true
    end.

  Definition gitem_ok (g : gitem) : bool :=
    match g with
    | GRange a b => schar_val a <=? schar_val b
    | _ => true
    end.

  Definition mitem_ok (m : mitem) : bool :=
    match m with
    | MGrp _ items => forallb gitem_ok items
    | _ => true
    end.

  Fixpoint sitem_ok (i : sitem) : bool :=
    match i with
    | SAnchor => true
    | SGroup e q => expr_ok e && quant_ok q
    | SMatch m q => mitem_ok m && quant_ok q
    end
  with expr_ok (e : expr) : bool :=
    match e with
    | Expr items alt => forallb sitem_ok items && match alt with Some e' => expr_ok e' | None => true end
    end.
End AstOf.
