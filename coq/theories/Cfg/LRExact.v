(* Soundness (Cfg/LRSafe.v), completeness (Cfg/LRComplete.v) and canonicity (Cfg/LRCanon.v) put together:
   a table that passes the three kernel-evaluated checks accepts EXACTLY the token sequences that have a
   canonical parse tree, builds that tree, and no sequence has two canonical trees. *)
From Coq Require Import List Bool Arith NArith Lia.
From Verif Require Import Cfg.LR Cfg.LRSafe Cfg.LRComplete Cfg.LRCanon.
Import ListNotations.
Local Open Scope N_scope.

Section Exact.
  Variable G : grammar.
  Variable tb : table.
  Variables eof err_state start : N.
  Variable past : N -> list symbol.
  Variable rules : list crule.
  Variable nulT : list (N * N).
  Variable firstT : list (N * N * N).
  Variable V : list (N * N * N * list N).
  Variable Wany : list (N * N).
  Variable W : list (N * N * list N).
  Variable E : list (N * N * N * N).

  Hypothesis Hsafe : safe_check G tb eof err_state start past = true.
  Hypothesis Hcomplete : complete_check G tb eof start rules nulT firstT V = true.
  Hypothesis Hcanon : canon_check G tb rules Wany W E = true.

  (* t is a parse tree of the token sequence that respects the disambiguation written as [rules] *)
  Definition canonical_sentence (toks : list N) (t : tree) : Prop :=
    wf_tree G t /\ root G t = NT start /\ (exists k, classify rules t = Some k) /\
    leaves t = combine toks (seq 0 (length toks)).

  Theorem exact_complete toks t : canonical_sentence toks t ->
    forall fuel, (length (post t) < fuel)%nat ->
      run G tb eof err_state toks EndOfInput fuel init = (post t, OAccept).
  Proof.
    intros [Hwf [Hroot [[k Hk] Hl]]].
    exact (lr_complete G tb eof err_state start rules nulT firstT V toks Hcomplete t k Hwf Hroot Hk Hl).
  Qed.

  Theorem exact_builds_canonical toks fin fuel tr : ~ In eof toks ->
    run G tb eof err_state toks fin fuel init = (tr, OAccept) ->
    exists t, canonical_sentence toks t /\ tr = post t /\ build G toks tr = [t].
  Proof.
    intros Hn Hr.
    destruct (lr_sound_init G tb eof err_state start past Hsafe toks fin Hn fuel tr Hr) as [t [Hb [Hwf [Hroot Hl]]]].
    destruct (lr_builds_canonical G tb eof err_state start past rules Wany W E toks fin Hsafe Hcanon Hn fuel tr Hr)
      as [t' [k [Hb' Hk]]].
    rewrite Hb in Hb'. injection Hb' as <-.
    exists t. split; [repeat split; eauto|]. split; [|exact Hb].
    pose proof (run_prods_exist G toks tb eof err_state fin fuel init) as Hp.
    rewrite Hr in Hp. simpl in Hp.
    rewrite (build_is_postorder G toks tr Hp) at 1. rewrite Hb. simpl. apply app_nil_r.
  Qed.

  Theorem exact_language toks : ~ In eof toks ->
    ((exists fuel tr, run G tb eof err_state toks EndOfInput fuel init = (tr, OAccept))
     <-> exists t, canonical_sentence toks t).
  Proof.
    intros Hn. split.
    - intros [fuel [tr Hr]]. destruct (exact_builds_canonical toks EndOfInput fuel tr Hn Hr) as [t [Ht _]]. eauto.
    - intros [t Ht]. exists (S (length (post t))), (post t). apply exact_complete; [exact Ht | lia].
  Qed.

  Theorem exact_unique toks t1 t2 : canonical_sentence toks t1 -> canonical_sentence toks t2 -> t1 = t2.
  Proof.
    intros [W1 [R1 [[k1 C1] L1]]] [W2 [R2 [[k2 C2] L2]]].
    exact (canonical_unique G tb eof err_state start rules nulT firstT V toks Hcomplete t1 k1 t2 k2 W1 R1 C1 L1 W2 R2 C2 L2).
  Qed.
End Exact.

(* everything the three checks need, computed from the grammar, the table and the rules *)
Section Certify.
  Variable G : grammar.
  Variable tb : table.
  Variables eof err_state start : N.
  Variable past : N -> list symbol.
  Variable rules : list crule.
  Variable n : nat.                         (* bound on the saturation rounds *)

  Definition cert_nul := iter (nul_round G rules) n [].
  Definition cert_first := iter (first_round G rules cert_nul) n [].
  Definition cert_V := saturate G tb eof start rules cert_nul cert_first n.
  Definition cert_C := c_saturate G tb rules n.

  Definition exact_check : bool :=
    safe_check G tb eof err_state start past
    && complete_check G tb eof start rules cert_nul cert_first cert_V
    && canon_check G tb rules (fst (fst cert_C)) (snd (fst cert_C)) (snd cert_C).

  Theorem exact_check_sound : exact_check = true ->
    forall toks, ~ In eof toks ->
      ((exists fuel tr, run G tb eof err_state toks EndOfInput fuel init = (tr, OAccept))
       <-> exists t, canonical_sentence G start rules toks t) /\
      (forall fin fuel tr, run G tb eof err_state toks fin fuel init = (tr, OAccept) ->
         exists t, canonical_sentence G start rules toks t /\ tr = post t /\ build G toks tr = [t]) /\
      (forall t1 t2, canonical_sentence G start rules toks t1 -> canonical_sentence G start rules toks t2 -> t1 = t2).
  Proof.
    unfold exact_check. intros H toks Hn.
    apply andb_prop in H as [H12 H3]. apply andb_prop in H12 as [H1 H2].
    split; [|split].
    - eapply exact_language; eassumption.
    - intros fin fuel tr Hr. eapply exact_builds_canonical; eassumption.
    - intros t1 t2. eapply exact_unique; eassumption.
  Qed.
End Certify.

(* the classification that forbids nothing: every parse tree is canonical *)
Definition trivial_rules (G : grammar) : list crule :=
  map (fun ip => mkCR (N.of_nat (fst ip)) (map (fun _ => 0) (p_body (snd ip))) 0)
      (combine (seq 0 (length G)) G).

Lemma list_eqb_refl l : list_eqb l l = true.
Proof. induction l as [|x l IH]; simpl; [reflexivity|]. rewrite N.eqb_refl. exact IH. Qed.

Lemma in_combine_seq {X} (l : list X) i x : nth_error l i = Some x -> In (i, x) (combine (seq 0 (length l)) l).
Proof.
  assert (H : forall (l : list X) b i x, nth_error l i = Some x -> In ((b + i)%nat, x) (combine (seq b (length l)) l)).
  { clear. induction l as [|y l IH]; intros b i x Hn; destruct i as [|i]; simpl in *; try discriminate.
    - injection Hn as ->. left. rewrite Nat.add_0_r. reflexivity.
    - right. replace (b + S i)%nat with (S b + i)%nat by lia. apply IH. exact Hn. }
  intros Hn. apply (H l 0%nat i x Hn).
Qed.

Lemma classify_list_cons rules c cs :
  classify_list rules (c :: cs) =
  match classify rules c, classify_list rules cs with Some k, Some ks => Some (k :: ks) | _, _ => None end.
Proof. reflexivity. Qed.

(* without directives nothing is forbidden: every parse tree of the grammar is canonical *)
Theorem trivial_classify G : forall t, wf_tree G t -> classify (trivial_rules G) t = Some 0.
Proof.
  apply (tree_ind' (fun t => wf_tree G t -> classify (trivial_rules G) t = Some 0)).
  - reflexivity.
  - intros p cs HP [[pr [Hn Hm]] Hall]. rewrite classify_node.
    assert (Hl : classify_list (trivial_rules G) cs = Some (map (fun _ => 0) cs)).
    { clear Hm. induction HP as [|c cs Hc HP IH]; [reflexivity|]. destruct Hall as [Hwc Hall].
      rewrite classify_list_cons, (Hc Hwc), (IH Hall). reflexivity. }
    rewrite Hl. unfold rule_for.
    destruct (find _ (trivial_rules G)) as [r|] eqn:Ef.
    + apply find_some in Ef as [Hin _]. unfold trivial_rules in Hin. apply in_map_iff in Hin as [ip [<- _]]. reflexivity.
    + exfalso. pose proof (find_none _ _ Ef (mkCR p (map (fun _ => 0) (p_body pr)) 0)) as Hf.
      assert (Hin : In (mkCR p (map (fun _ => 0) (p_body pr)) 0) (trivial_rules G)).
      { unfold trivial_rules. apply in_map_iff. exists (N.to_nat p, pr). split.
        - simpl. rewrite N2Nat.id. reflexivity.
        - apply in_combine_seq. exact Hn. }
      specialize (Hf Hin). simpl in Hf. rewrite N.eqb_refl in Hf. simpl in Hf.
      assert (E : map (fun _ : symbol => 0) (p_body pr) = map (fun _ : tree => 0) cs).
      { rewrite <- Hm. rewrite map_map. reflexivity. }
      rewrite E, list_eqb_refl in Hf. discriminate.
Qed.

Corollary trivial_canonical G start toks t :
  canonical_sentence G start (trivial_rules G) toks t <->
  (wf_tree G t /\ root G t = NT start /\ leaves t = combine toks (seq 0 (length toks))).
Proof.
  unfold canonical_sentence. split.
  - intros [H1 [H2 [_ H3]]]. auto.
  - intros [H1 [H2 H3]]. repeat split; auto. exists 0. apply trivial_classify. exact H1.
Qed.
