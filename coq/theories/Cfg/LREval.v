(* ParseAndEvaluate as a replay of the callbacks over a value stack, and the plumbing
   theorem: the value stack is, at every moment, the image of ParseAndBuildAST's node stack
   under the bottom-up evaluation of trees — each evaluation call receives exactly the values
   of the production's body symbols, left to right, and the head takes the position of the
   first body symbol (none for an empty body). *)
From Coq Require Import List Bool Arith NArith Lia.
From Verif Require Import Cfg.LR Cfg.LRSafe.
Import ListNotations.
Local Open Scope N_scope.

Section Eval.
  Variable G : grammar.
  Variable toks : list N.
  Variables V Pos : Type.
  Variable tokval : nat -> V.            (* the lexeme of token i, as a value *)
  Variable tokpos : nat -> Pos.          (* the position of token i *)
  Variable eval : N -> list V -> V.      (* the evaluation callback (when it does not fail) *)

  Definition value := (V * option Pos)%type.

  Definition eval_step (vs : list value) (e : event) : list value :=
    match e with
    | EvTok i => (tokval i, Some (tokpos i)) :: vs
    | EvProd p =>
      match nth_error G (N.to_nat p) with
      | Some pr =>
        let k := length (p_body pr) in
        let rhs := rev (firstn k vs) in
        (eval p (map fst rhs), match rhs with v :: _ => snd v | [] => None end) :: skipn k vs
      | None => vs
      end
    end.

  Fixpoint eval_tree (t : tree) : value :=
    match t with
    | Leaf _ i => (tokval i, Some (tokpos i))
    | Node p cs =>
      (eval p (map (fun c => fst (eval_tree c)) cs),
       match cs with c :: _ => snd (eval_tree c) | [] => None end)
    end.

  Lemma eval_step_build ts e :
    eval_step (map eval_tree ts) e = map eval_tree (build_step G toks ts e).
  Proof.
    destruct e as [i|p]; simpl; [reflexivity|].
    destruct (nth_error G (N.to_nat p)) as [pr|]; [|reflexivity].
    simpl. rewrite firstn_map, skipn_map, <- map_rev, map_map. f_equal. f_equal.
    destruct (rev (firstn (length (p_body pr)) ts)); reflexivity.
  Qed.

  Theorem evaluate_plumbing tr : forall ts,
    fold_left eval_step tr (map eval_tree ts) = map eval_tree (fold_left (build_step G toks) tr ts).
  Proof.
    induction tr as [|e tr IH]; intros ts; simpl; [reflexivity|].
    rewrite eval_step_build. apply IH.
  Qed.

  Corollary evaluate_is_tree_fold tr :
    fold_left eval_step tr [] = map eval_tree (build G toks tr).
  Proof. apply (evaluate_plumbing tr []). Qed.
End Eval.
