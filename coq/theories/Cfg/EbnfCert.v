(* Certificates for the embedded EBNF tables (regenerated gen/TableGo.v) against the documented
   disambiguation (Cfg/EbnfDoc.v), computed and checked by the kernel on every build:
     - completeness: nullable classes, first sets, the set V of (state, non-terminal, class, look-ahead)
     - canonicity:   the reachable (state, class[, look-ahead]) entries and their adjacency. *)
From Coq Require Import List NArith Bool.
From Verif Require Import Cfg.LR Cfg.LRSafe Cfg.LRComplete Cfg.LRCanon Cfg.EbnfDoc.
From VerifGen Require Import TableGo.
Import ListNotations.
Local Open Scope N_scope.

Definition ebnf_nul := Eval vm_compute in iter (nul_round ebnf_grammar ebnf_rules) 12 [].
Definition ebnf_first := Eval vm_compute in iter (first_round ebnf_grammar ebnf_rules ebnf_nul) 16 [].
Definition ebnf_V := Eval vm_compute in
  saturate ebnf_grammar ebnf_table ebnf_eof ebnf_start ebnf_rules ebnf_nul ebnf_first 60.

Lemma ebnf_complete_check :
  complete_check ebnf_grammar ebnf_table ebnf_eof ebnf_start ebnf_rules ebnf_nul ebnf_first ebnf_V = true.
Proof. vm_compute. reflexivity. Qed.

Definition ebnf_CS := Eval vm_compute in c_saturate ebnf_grammar ebnf_table ebnf_rules 80.
Definition ebnf_Wany := Eval vm_compute in fst (fst ebnf_CS).
Definition ebnf_W := Eval vm_compute in snd (fst ebnf_CS).
Definition ebnf_E := Eval vm_compute in snd ebnf_CS.

Lemma ebnf_canon_check : canon_check ebnf_grammar ebnf_table ebnf_rules ebnf_Wany ebnf_W ebnf_E = true.
Proof. vm_compute. reflexivity. Qed.

(* the certificates are not trivial *)
Example certificates_are_nontrivial :
  Nat.ltb 50 (length ebnf_V) = true /\ Nat.ltb 20 (length ebnf_Wany) = true /\ Nat.ltb 100 (length ebnf_E) = true /\
  ebnf_nul = [(4, 2); (2, 0)].
Proof. vm_compute. repeat split; reflexivity. Qed.

(* ---- viable prefixes (Cfg/LRViable.v): a witness tree per (non-terminal, class), a plan per reachable entry ---- *)
From Verif Require Import Cfg.LRViable.
Definition ebnf_wits := Eval vm_compute in all_wits ebnf_grammar ebnf_rules 16.
Definition ebnf_plans := Eval vm_compute in
  all_plans ebnf_grammar ebnf_table ebnf_start ebnf_past ebnf_rules ebnf_Wany ebnf_W ebnf_E ebnf_wits 40.

Lemma ebnf_viable_check :
  viable_check ebnf_grammar ebnf_table ebnf_start ebnf_past ebnf_rules ebnf_Wany ebnf_W ebnf_E ebnf_plans ebnf_wits = true.
Proof. vm_compute. reflexivity. Qed.

Lemma ebnf_no_shift_to_err : no_shift_to_err ebnf_table ebnf_err_state = true.
Proof. vm_compute. reflexivity. Qed.

Example viability_certificate_is_nontrivial :
  Nat.ltb 60 (length ebnf_plans) = true /\ Nat.ltb 15 (length ebnf_wits) = true /\
  existsb (fun e => match snd e with PReduce _ m _ => Nat.eqb m 1 | _ => false end) ebnf_plans = true /\
  existsb (fun e => match snd e with PReduce _ m _ => Nat.leb 2 m | _ => false end) ebnf_plans = true.
Proof. vm_compute. repeat split; reflexivity. Qed.
