(* The documented disambiguation of the EBNF grammar of specification files, written as a
   classification of parse trees (Cfg/LRComplete.v).  Production numbers are those of the
   documented grammar (docs, and internal/ebnf/parser/parsing_table.go):

     23 rhs -> rhs rhs          28 rhs -> rhs "|" rhs      29 rhs -> rhs "|"
     24..27 bracketed           30, 31 a name or a terminal

   Classes of an rhs tree:  1 = an operand (a bracket, a name, a terminal)
                            2 = a juxtaposition (23)
                            3 = an alternation with a right operand (28)
                            4 = an alternation with an empty right operand (29)

   "juxtaposition binds tighter than |": neither operand of 23 is an alternation.
   Juxtaposition groups to the left: the right operand of 23 is a single operand.
   "| groups to the right": the left operand of 28/29 is not a 28; it is not a 29 either
   unless that 29 is complete (x | | y reads (x |) | y: nothing else is possible, an operand
   cannot start with "|"), and the left operand of 29 is never a 28 (x | y | reads x | (y |)).

   "handles are consumed greedily": a directive without its optional semicolon cannot be
   followed by a token definition (the TOKEN would be read as one more handle).
   Classes:  semi_opt: 1 = ";" present, 2 = absent
             decl:     1 = token definition, 2 = directive without semicolon, 0 = other
             decls:    2 = the last declaration is a directive without semicolon, 0 = other *)
From Coq Require Import List NArith.
From Verif Require Import Cfg.LRComplete.
Import ListNotations.
Local Open Scope N_scope.

Definition rhs_any : list N := [1; 2; 3; 4].

Definition ebnf_rules : list crule :=
  (* grammar -> name decls *)
  [mkCR 0 [0; 0] 0; mkCR 0 [0; 2] 0;
   (* name -> "grammar" IDENT semi_opt *)
   mkCR 1 [0; 0; 1] 0; mkCR 1 [0; 0; 2] 0;
   (* decls -> decls decl | empty *)
   mkCR 2 [0; 0] 0; mkCR 2 [0; 1] 0; mkCR 2 [0; 2] 2; mkCR 2 [2; 0] 0; mkCR 2 [2; 2] 2;
   mkCR 3 [] 0;
   (* decl -> token semi_opt | directive semi_opt | rule ";" *)
   mkCR 4 [0; 1] 1; mkCR 4 [0; 2] 1;
   mkCR 5 [0; 1] 0; mkCR 5 [0; 2] 2;
   mkCR 6 [0; 0] 0;
   (* semi_opt *)
   mkCR 7 [0] 1; mkCR 8 [] 2;
   (* token *)
   mkCR 9 [0; 0; 0] 0; mkCR 10 [0; 0; 0] 0; mkCR 11 [0; 0; 0] 0;
   (* directive *)
   mkCR 12 [0; 0] 0; mkCR 13 [0; 0] 0; mkCR 14 [0; 0] 0;
   (* handles *)
   mkCR 15 [0; 0] 0; mkCR 16 [0; 0] 0; mkCR 17 [0] 0; mkCR 18 [0] 0;
   (* rule_handle -> "<" rule ">" *)
   mkCR 19 [0; 0; 0] 0]
  (* rule -> lhs "=" rhs | lhs "=" *)
  ++ map (fun k => mkCR 20 [0; 0; k] 0) rhs_any
  ++ [mkCR 21 [0; 0] 0; mkCR 22 [0] 0]
  (* rhs -> rhs rhs *)
  ++ [mkCR 23 [1; 1] 2; mkCR 23 [2; 1] 2]
  (* brackets *)
  ++ flat_map (fun p => map (fun k => mkCR p [0; k; 0] 1) rhs_any) [24; 25; 26; 27]
  (* rhs -> rhs "|" rhs *)
  ++ flat_map (fun l => map (fun r => mkCR 28 [l; 0; r] 3) rhs_any) [1; 2; 4]
  (* rhs -> rhs "|" *)
  ++ map (fun l => mkCR 29 [l; 0] 4) [1; 2; 4]
  ++ [mkCR 30 [0] 1; mkCR 31 [0] 1; mkCR 32 [0] 0; mkCR 33 [0] 0; mkCR 34 [0] 0].
