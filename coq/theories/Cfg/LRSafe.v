(* Parse trees, the tree builder of ParseAndBuildAST as a replay of the event trace,
   a static safety check for LR tables, and the soundness theorem: for a table that
   passes the check, every accepted input yields exactly one tree, rooted at the start
   symbol, applying one production of the grammar at every interior node, whose leaves
   read left to right are exactly the input tokens (with their indices). *)
From Coq Require Import List Bool Arith NArith Lia.
From Verif Require Import Cfg.LR.
Import ListNotations.
Local Open Scope N_scope.

Inductive tree := Leaf (a : N) (i : nat) | Node (p : N) (cs : list tree).

Section Trees.
  Variable G : grammar.

  Definition head_of (p : N) : N :=
    match nth_error G (N.to_nat p) with Some pr => p_head pr | None => 0 end.

  Definition root (t : tree) : symbol :=
    match t with Leaf a _ => T a | Node p _ => NT (head_of p) end.

  Fixpoint leaves (t : tree) : list (N * nat) :=
    match t with
    | Leaf a i => [(a, i)]
    | Node _ cs => flat_map leaves cs
    end.

  Fixpoint wf_tree (t : tree) : Prop :=
    match t with
    | Leaf _ _ => True
    | Node p cs =>
      (exists pr, nth_error G (N.to_nat p) = Some pr /\ map root cs = p_body pr) /\
      (fix all (l : list tree) : Prop := match l with [] => True | c :: l' => wf_tree c /\ all l' end) cs
    end.

  Definition all_wf (l : list tree) : Prop :=
    (fix all (l : list tree) : Prop := match l with [] => True | c :: l' => wf_tree c /\ all l' end) l.

  Lemma all_wf_app l1 l2 : all_wf (l1 ++ l2) <-> all_wf l1 /\ all_wf l2.
  Proof. induction l1 as [|c l1 IH]; simpl; [tauto|]. rewrite IH. tauto. Qed.

  Lemma all_wf_rev l : all_wf (rev l) <-> all_wf l.
  Proof.
    induction l as [|c l IH]; simpl; [tauto|]. rewrite all_wf_app. simpl. rewrite IH. tauto.
  Qed.

  (* ---- ParseAndBuildAST: replay of the callbacks over a node stack (top first) ---- *)
  Variable toks : list N.

  Definition build_step (ts : list tree) (e : event) : list tree :=
    match e with
    | EvTok i => Leaf (nth i toks 0) i :: ts
    | EvProd p =>
      match nth_error G (N.to_nat p) with
      | Some pr => let k := length (p_body pr) in Node p (rev (firstn k ts)) :: skipn k ts
      | None => ts
      end
    end.

  Definition build (tr : list event) : list tree := fold_left build_step tr [].
End Trees.

(* ---- static safety check ---- *)
Section Safe.
  Variable G : grammar.
  Variable tb : table.
  Variable eof : N.
  Variable err_state : N.
  Variable start : N.                     (* start non-terminal *)
  Variable past : N -> list symbol.       (* per state: known suffix of the symbol stack, most recent first *)

  Definition transitions : list (N * symbol * N) :=
    flat_map (fun e => match snd e with
                       | Shift s' => [(fst (fst e), T (snd (fst e)), s')]
                       | _ => []
                       end) (t_action tb)
    ++ map (fun e => (fst (fst e), NT (snd (fst e)), snd e)) (t_goto tb).

  Fixpoint sym_prefix (a b : list symbol) : bool :=
    match a, b with
    | [], _ => true
    | x :: a', y :: b' => symbol_eqb x y && sym_prefix a' b'
    | _ :: _, [] => false
    end.

  Lemma sym_prefix_spec a : forall b, sym_prefix a b = true -> exists c, b = a ++ c.
  Proof.
    induction a as [|x a IH]; intros b H; simpl in *.
    - exists b. reflexivity.
    - destruct b as [|y b]; [discriminate|]. apply andb_prop in H as [H1 H2].
      apply symbol_eqb_spec in H1. subst y. destruct (IH _ H2) as [c ->]. exists c. reflexivity.
  Qed.

  Definition accept_states : list N :=
    flat_map (fun e => match snd e with Accept => [fst (fst e)] | _ => [] end) (t_action tb).

  Definition safe_check : bool :=
    (* (a) nothing is known below the initial state *)
    (match past 0 with [] => true | _ => false end)
    (* (b) every transition extends the known suffix consistently *)
    && forallb (fun tr => let '(s, X, s') := tr in sym_prefix (past s') (X :: past s)) transitions
    (* (c) wherever a reduction is enabled the top of the stack spells the body *)
    && forallb (fun e => match snd e with
                         | Reduce p => match nth_error G (N.to_nat p) with
                                       | Some pr => sym_prefix (rev (p_body pr)) (past (fst (fst e)))
                                       | None => false
                                       end
                         | _ => true
                         end) (t_action tb)
    (* (d) the end marker is never shifted; accept only on the end marker *)
    && forallb (fun e => match snd e with
                         | Shift _ => negb (snd (fst e) =? eof)
                         | Accept => snd (fst e) =? eof
                         | Reduce _ => true
                         end) (t_action tb)
    (* (e) an accepting state is entered only from the initial state on the start symbol;
           nothing enters the initial state *)
    && forallb (fun tr => let '(s, X, s') := tr in
                          negb (s' =? 0) &&
                          (if existsb (N.eqb s') accept_states
                           then (s =? 0) && symbol_eqb X (NT start) else true)) transitions
    (* (f) the state pushed for a missing GOTO has no actions *)
    && forallb (fun e => negb (fst (fst e) =? err_state)) (t_action tb)
    (* (g) the initial state is not accepting; the error state is not the initial state *)
    && negb (existsb (N.eqb 0) accept_states)
    && negb (err_state =? 0).

  Definition trans (s : N) (X : symbol) (s' : N) : Prop :=
    match X with
    | T a => action tb s a = Some (Shift s')
    | NT A => goto tb s A = Some s'
    end.

  Lemma action_In s a x : action tb s a = Some x -> In (s, a, x) (t_action tb).
  Proof.
    unfold action. destruct (find _ (t_action tb)) as [[[s0 a0] x0]|] eqn:E; [|discriminate].
    intros H. inversion H; subst. apply find_some in E as [Hin Heq]. simpl in Heq.
    apply andb_prop in Heq as [H1 H2]. apply N.eqb_eq in H1. apply N.eqb_eq in H2. subst. exact Hin.
  Qed.

  Lemma goto_In s A n : goto tb s A = Some n -> In (s, A, n) (t_goto tb).
  Proof.
    unfold goto. destruct (find _ (t_goto tb)) as [[[s0 a0] x0]|] eqn:E; [|discriminate].
    intros H. inversion H; subst. apply find_some in E as [Hin Heq]. simpl in Heq.
    apply andb_prop in Heq as [H1 H2]. apply N.eqb_eq in H1. apply N.eqb_eq in H2. subst. exact Hin.
  Qed.

  Lemma trans_In s X s' : trans s X s' -> In (s, X, s') transitions.
  Proof.
    unfold trans, transitions. destruct X as [a|A]; intros H; apply in_or_app.
    - left. apply action_In in H. apply in_flat_map. exists (s, a, Shift s'). split; [exact H|]. simpl. auto.
    - right. apply goto_In in H. apply in_map_iff. exists (s, A, s'). auto.
  Qed.

  (* the stack is linked by table transitions; syms are the symbols, most recent first *)
  Inductive linked : list N -> list symbol -> Prop :=
  | L_bot : linked [0] []
  | L_push St syms s X s' : linked (s :: St) syms -> trans s X s' -> linked (s' :: s :: St) (X :: syms).

  Hypothesis Hsafe : safe_check = true.

  Lemma safe_parts :
    past 0 = [] /\
    (forall s X s', In (s, X, s') transitions -> sym_prefix (past s') (X :: past s) = true) /\
    (forall s a p, In (s, a, Reduce p) (t_action tb) ->
       exists pr, nth_error G (N.to_nat p) = Some pr /\ sym_prefix (rev (p_body pr)) (past s) = true) /\
    (forall s a s', In (s, a, Shift s') (t_action tb) -> a <> eof) /\
    (forall s a, In (s, a, Accept) (t_action tb) -> a = eof) /\
    (forall s X s', In (s, X, s') transitions -> s' <> 0) /\
    (forall s X s' a, In (s, X, s') transitions -> In (s', a, Accept) (t_action tb) -> s = 0 /\ X = NT start) /\
    (forall a x, ~ In (err_state, a, x) (t_action tb)) /\
    (forall a, ~ In (0, a, Accept) (t_action tb)) /\
    err_state <> 0.
  Proof.
    unfold safe_check in Hsafe.
    apply andb_prop in Hsafe as [Hs Hg].
    apply andb_prop in Hs as [Hs Hh].
    apply andb_prop in Hs as [Hs Hf].
    apply andb_prop in Hs as [Hs He].
    apply andb_prop in Hs as [Hs Hd].
    apply andb_prop in Hs as [Hs Hc].
    apply andb_prop in Hs as [Ha Hb].
    rewrite forallb_forall in Hb, Hc, Hd, He, Hf.
    split; [destruct (past 0); [reflexivity | discriminate]|].
    split; [intros s X s' Hin; apply (Hb (s, X, s') Hin)|].
    split.
    { intros s a p Hin. specialize (Hc _ Hin). simpl in Hc.
      destruct (nth_error G (N.to_nat p)) as [pr|]; [|discriminate]. exists pr. auto. }
    split.
    { intros s a s' Hin. specialize (Hd _ Hin). simpl in Hd.
      intros ->. rewrite N.eqb_refl in Hd. discriminate. }
    split.
    { intros s a Hin. specialize (Hd _ Hin). simpl in Hd. apply N.eqb_eq. exact Hd. }
    split.
    { intros s X s' Hin. specialize (He _ Hin). simpl in He.
      apply andb_prop in He as [Hn _]. intros ->. discriminate. }
    split.
    { intros s X s' a Hin Hacc. specialize (He _ Hin). simpl in He.
      apply andb_prop in He as [_ Hx].
      assert (Hex : existsb (N.eqb s') accept_states = true).
      { apply existsb_exists. exists s'. split; [|apply N.eqb_refl].
        unfold accept_states. apply in_flat_map. exists (s', a, Accept). split; [exact Hacc | simpl; auto]. }
      rewrite Hex in Hx. apply andb_prop in Hx as [H1 H2]. apply N.eqb_eq in H1. apply symbol_eqb_spec in H2. auto. }
    split.
    { intros a x Hin. specialize (Hf _ Hin). simpl in Hf. rewrite N.eqb_refl in Hf. discriminate. }
    split.
    { intros a Hin. apply negb_true_iff in Hh.
      assert (Hex : existsb (N.eqb 0) accept_states = true).
      { apply existsb_exists. exists 0. split; [|reflexivity].
        unfold accept_states. apply in_flat_map. exists (0, a, Accept). split; [exact Hin | simpl; auto]. }
      rewrite Hex in Hh. discriminate. }
    intros E. rewrite E in Hg. discriminate.
  Qed.
End Safe.

(* ---- soundness of accepted runs ---- *)
Section Sound.
  Variable G : grammar.
  Variable tb : table.
  Variables eof err_state start : N.
  Variable past : N -> list symbol.
  Hypothesis Hsafe : safe_check G tb eof err_state start past = true.
  Variable toks : list N.
  Variable fin : stream_end.
  Hypothesis Hneof : ~ In eof toks.

  Let P := safe_parts G tb eof err_state start past Hsafe.

  Lemma linked_nonempty St syms : linked tb St syms -> exists s St0, St = s :: St0 /\ length St0 = length syms.
  Proof.
    induction 1 as [|St syms s X s' Hl IH Ht].
    - exists 0, []. auto.
    - destruct IH as [s0 [St0 [E Hlen]]]. inversion E; subst. exists s', (s0 :: St0). simpl. auto.
  Qed.

  Lemma linked_prefix St syms : linked tb St syms -> exists c, syms = past (hd 0 St) ++ c.
  Proof.
    destruct P as [Pa [Pb _]].
    induction 1 as [|St syms s X s' Hl IH Ht]; simpl.
    - rewrite Pa. exists []. reflexivity.
    - destruct IH as [c Hc]. simpl in Hc.
      pose proof (Pb _ _ _ (trans_In tb s X s' Ht)) as Hp.
      apply sym_prefix_spec in Hp as [d Hd]. exists (d ++ c).
      rewrite Hc. change (X :: past s ++ c) with ((X :: past s) ++ c). rewrite Hd, app_assoc. reflexivity.
  Qed.

  Lemma linked_skipn k : forall St syms, linked tb St syms -> (k <= length syms)%nat ->
      linked tb (skipn k St) (skipn k syms).
  Proof.
    induction k as [|k IH]; intros St syms Hl Hk; [exact Hl|].
    inversion Hl as [|St0 syms0 s X s' Hl' Ht]; subst; simpl in *; [lia|].
    apply IH; [exact Hl' | lia].
  Qed.

  Lemma linked_accept s St0 syms a :
    linked tb (s :: St0) syms -> In (s, a, Accept) (t_action tb) -> St0 = [0] /\ syms = [NT start].
  Proof.
    destruct P as [_ [_ [_ [_ [_ [Pf' [Pg [_ [Ph _]]]]]]]]].
    intros Hl Hin. inversion Hl as [|St2 syms2 s1 X s2 Hl2 Ht]; subst.
    - exfalso. apply (Ph _ Hin).
    - destruct (Pg _ _ _ _ (trans_In tb _ _ _ Ht) Hin) as [-> ->].
      inversion Hl2 as [|St3 syms3 s3 X3 s4 Hl3 Ht3]; subst.
      + auto.
      + exfalso. apply (Pf' _ _ _ (trans_In tb _ _ _ Ht3)). reflexivity.
  Qed.

  Definition good (c : cfg) (ts : list tree) : Prop :=
    exists syms, linked tb (fst c) syms /\ map (root G) ts = syms /\ all_wf G ts /\
      flat_map leaves (rev ts) = combine (firstn (snd c) toks) (seq 0 (snd c)) /\ (snd c <= length toks)%nat.

  Definition dead (c : cfg) : Prop := hd 0 (fst c) = err_state.

  Lemma dead_step c : dead c ->
    match step G tb eof err_state toks fin c with
    | SDone OAccept => False
    | SDone _ => True
    | SEmit _ _ => False
    end.
  Proof.
    destruct P as [_ [_ [_ [_ [_ [_ [_ [Pf _]]]]]]]].
    destruct c as [St i]. unfold dead, step. simpl. intros Hd.
    destruct ((length toks <=? i)%nat && _); [exact I|].
    rewrite Hd. destruct (action tb err_state (lookahead eof toks i)) as [a|] eqn:E; [|exact I].
    exfalso. apply action_In in E. apply (Pf _ _ E).
  Qed.

  Lemma firstn_S_nth {A} (l : list A) i d : (i < length l)%nat -> firstn (S i) l = firstn i l ++ [nth i l d].
  Proof.
    revert i. induction l as [|x l IH]; intros i Hi; simpl in *; [lia|].
    destruct i as [|i]; simpl; [reflexivity|]. f_equal. apply IH. lia.
  Qed.

  Lemma combine_snoc {A B} (l1 : list A) (l2 : list B) a b :
    length l1 = length l2 -> combine (l1 ++ [a]) (l2 ++ [b]) = combine l1 l2 ++ [(a, b)].
  Proof.
    revert l2. induction l1 as [|x l1 IH]; intros [|y l2] H; simpl in *; try discriminate; [reflexivity|].
    f_equal. apply IH. lia.
  Qed.

  Lemma all_wf_firstn k ts : all_wf G ts -> all_wf G (firstn k ts) /\ all_wf G (skipn k ts).
  Proof. intros H. rewrite <- (firstn_skipn k ts) in H. apply all_wf_app in H. exact H. Qed.

  Lemma good_step c ts : good c ts ->
    match step G tb eof err_state toks fin c with
    | SEmit e c' => good c' (build_step G toks ts e) \/ dead c'
    | SDone OAccept => exists t, ts = [t] /\ root G t = NT start /\ snd c = length toks
    | SDone _ => True
    end.
  Proof.
    destruct P as [Pa [Pb [Pc [Pd [Pe [Pf' [Pg [Pf [Ph Pi]]]]]]]]].
    destruct c as [St i]. intros [syms [Hl [Hroots [Hwf [Hleaves Hi]]]]]. simpl in *.
    unfold step.
    destruct ((length toks <=? i)%nat && _); [exact I|].
    destruct (linked_nonempty _ _ Hl) as [s [St0 [-> Hlen]]]. simpl hd.
    destruct (action tb s (lookahead eof toks i)) as [[s'|p|]|] eqn:Ea; [| | |exact I].
    - (* shift *)
      left. pose proof (action_In _ _ _ _ Ea) as Hin. pose proof (Pd _ _ _ Hin) as Hne.
      assert (Hlt : (i < length toks)%nat).
      { destruct (Nat.lt_ge_cases i (length toks)) as [H|H]; [exact H|].
        exfalso. apply Hne. unfold lookahead. apply nth_overflow. exact H. }
      exists (T (lookahead eof toks i) :: syms). cbn [fst snd build_step]. repeat split.
      + apply L_push; [exact Hl | exact Ea].
      + cbn [map root]. f_equal; [|exact Hroots]. unfold lookahead. f_equal. apply nth_indep. exact Hlt.
      + exact Hwf.
      + cbn [rev]. rewrite flat_map_app. cbn [flat_map leaves]. rewrite app_nil_r, Hleaves.
        rewrite (firstn_S_nth toks i 0 Hlt), seq_S. cbn [Nat.add].
        rewrite combine_snoc; [reflexivity|]. rewrite firstn_length, seq_length. lia.
      + lia.
    - (* reduce *)
      pose proof (action_In _ _ _ _ Ea) as Hin.
      destruct (Pc _ _ _ Hin) as [pr [Hpr Hpre]]. rewrite Hpr.
      destruct (linked_prefix _ _ Hl) as [c1 Hc1]. simpl in Hc1.
      apply sym_prefix_spec in Hpre as [c2 Hc2].
      set (k := length (p_body pr)).
      assert (Hsyms : syms = rev (p_body pr) ++ c2 ++ c1) by (rewrite Hc1, Hc2, app_assoc; reflexivity).
      assert (Hk : (k <= length syms)%nat) by (rewrite Hsyms, app_length, rev_length; unfold k; lia).
      pose proof (linked_skipn k _ _ Hl Hk) as Hl'.
      assert (Hsk : skipn k syms = c2 ++ c1).
      { rewrite Hsyms. rewrite skipn_app, skipn_all2 by (rewrite rev_length; unfold k; lia).
        rewrite rev_length. unfold k. rewrite Nat.sub_diag. reflexivity. }
      assert (Hfk : firstn k syms = rev (p_body pr)).
      { rewrite Hsyms. rewrite firstn_app, firstn_all2 by (rewrite rev_length; unfold k; lia).
        rewrite rev_length. unfold k. rewrite Nat.sub_diag. simpl. apply app_nil_r. }
      destruct (linked_nonempty _ _ Hl') as [t [St1 [Et _]]]. rewrite Et. simpl hd.
      destruct (goto tb t (p_head pr)) as [next|] eqn:Eg.
      + left. exists (NT (p_head pr) :: skipn k syms). cbn [fst snd build_step]. rewrite Hpr. fold k.
        destruct (all_wf_firstn k ts Hwf) as [Hwf1 Hwf2].
        assert (Hr1 : map (root G) (firstn k ts) = rev (p_body pr)) by (rewrite <- firstn_map, Hroots; exact Hfk).
        repeat split.
        * apply L_push; [rewrite <- Et; exact Hl' | exact Eg].
        * cbn [map root]. f_equal; [unfold head_of; rewrite Hpr; reflexivity|]. rewrite <- skipn_map, Hroots. reflexivity.
        * exists pr. split; [exact Hpr|]. rewrite map_rev, Hr1. apply rev_involutive.
        * apply all_wf_rev. exact Hwf1.
        * exact Hwf2.
        * cbn [rev]. rewrite flat_map_app. cbn [flat_map leaves]. rewrite app_nil_r. rewrite <- Hleaves.
          rewrite <- (firstn_skipn k ts) at 3. rewrite rev_app_distr, flat_map_app. reflexivity.
        * exact Hi.
      + right. unfold dead. reflexivity.
    - (* accept *)
      pose proof (action_In _ _ _ _ Ea) as Hin. pose proof (Pe _ _ Hin) as Heof.
      assert (Hi' : i = length toks).
      { destruct (Nat.lt_ge_cases i (length toks)) as [H|H]; [|lia].
        exfalso. apply Hneof. rewrite <- Heof. unfold lookahead. apply nth_In. exact H. }
      destruct (linked_accept _ _ _ _ Hl Hin) as [-> Hs]. rewrite Hs in Hroots.
      destruct ts as [|t [|t2 ts2]]; simpl in Hroots; try discriminate.
      exists t. inversion Hroots. auto.
  Qed.

  Theorem lr_sound fuel : forall c ts tr,
    good c ts -> run G tb eof err_state toks fin fuel c = (tr, OAccept) ->
    exists t, fold_left (build_step G toks) tr ts = [t] /\ wf_tree G t /\ root G t = NT start /\
              leaves t = combine toks (seq 0 (length toks)).
  Proof.
    induction fuel as [|f IH]; intros c ts tr Hg Hrun; simpl in Hrun; [discriminate|].
    pose proof (good_step c ts Hg) as Hs.
    destruct (step G tb eof err_state toks fin c) as [e c'|o] eqn:Es.
    - destruct (run G tb eof err_state toks fin f c') as [tr' o'] eqn:Er. inversion Hrun; subst. simpl.
      destruct Hs as [Hg'|Hd].
      + apply (IH _ _ _ Hg' Er).
      + exfalso. destruct f as [|f']; simpl in Er; [discriminate|].
        pose proof (dead_step c' Hd) as Hd'.
        destruct (step G tb eof err_state toks fin c') as [e2 c2|o2]; [destruct Hd'|].
        inversion Er; subst. destruct Hd'.
    - inversion Hrun; subst. destruct Hs as [t [-> [Hroot Hi]]]. exists t. simpl.
      destruct Hg as [syms [_ [_ [Hwf [Hleaves _]]]]]. simpl in Hwf, Hleaves. rewrite app_nil_r in Hleaves.
      repeat split; [apply Hwf | exact Hroot|].
      rewrite Hleaves, Hi. rewrite firstn_all. reflexivity.
  Qed.

  Corollary lr_sound_init fuel tr :
    run G tb eof err_state toks fin fuel (init) = (tr, OAccept) ->
    exists t, build G toks tr = [t] /\ wf_tree G t /\ root G t = NT start /\
              leaves t = combine toks (seq 0 (length toks)).
  Proof.
    apply lr_sound. exists []. simpl. repeat split; [constructor | lia].
  Qed.
End Sound.

(* ---- the callback sequence is the post-order of the tree (children left to right): tokens in
   source order, productions in the order of a rightmost derivation in reverse ---- *)
Section PostOrder.
  Variable G : grammar.
  Variable toks : list N.

  Fixpoint post (t : tree) : list event :=
    match t with
    | Leaf _ i => [EvTok i]
    | Node p cs => flat_map post cs ++ [EvProd p]
    end.

  Definition prods_exist (tr : list event) : Prop :=
    Forall (fun e => match e with EvProd p => nth_error G (N.to_nat p) <> None | EvTok _ => True end) tr.

  Lemma build_is_postorder tr : prods_exist tr ->
    tr = flat_map post (rev (build G toks tr)).
  Proof.
    unfold build. induction tr as [|e tr IH] using rev_ind; intros Hp; [reflexivity|].
    apply Forall_app in Hp as [Hp He]. inversion He as [|e' l' He' _]; subst.
    rewrite fold_left_app. simpl. set (ts := fold_left (build_step G toks) tr []) in *.
    specialize (IH Hp). destruct e as [i|p]; simpl.
    - rewrite flat_map_app. simpl. rewrite <- IH. reflexivity.
    - destruct (nth_error G (N.to_nat p)) as [pr|]; [|contradiction].
      simpl. rewrite flat_map_app. simpl. rewrite app_nil_r.
      rewrite app_assoc. f_equal. rewrite IH at 1.
      rewrite <- (firstn_skipn (length (p_body pr)) ts) at 1.
      rewrite rev_app_distr, flat_map_app. reflexivity.
  Qed.

  Variable tb : table.
  Variables eof err_state : N.
  Variable fin : stream_end.

  Lemma run_prods_exist fuel : forall c, prods_exist (fst (run G tb eof err_state toks fin fuel c)).
  Proof.
    induction fuel as [|f IH]; intros c; simpl; [constructor|].
    destruct (step G tb eof err_state toks fin c) as [e c'|o] eqn:Es; [|constructor].
    specialize (IH c'). destruct (run G tb eof err_state toks fin f c') as [tr o]. simpl in *.
    constructor; [|exact IH].
    destruct e as [i|p]; [exact I|].
    destruct c as [St i]. unfold step in Es.
    destruct ((length toks <=? i)%nat && _); [discriminate|].
    destruct (action tb (hd 0 St) (lookahead eof toks i)) as [[s'|p'|]|]; try discriminate.
    destruct (nth_error G (N.to_nat p')) as [pr|] eqn:Ep; [|discriminate].
    inversion Es; subst. rewrite Ep. discriminate.
  Qed.
End PostOrder.

Theorem lr_callbacks_in_derivation_order
    G tb eof err_state start past toks fin fuel tr :
  safe_check G tb eof err_state start past = true ->
  ~ In eof toks ->
  run G tb eof err_state toks fin fuel init = (tr, OAccept) ->
  exists t, wf_tree G t /\ root G t = NT start /\
            leaves t = combine toks (seq 0 (length toks)) /\
            tr = post t.
Proof.
  intros Hsafe Hneof Hrun.
  destruct (lr_sound_init G tb eof err_state start past Hsafe toks fin Hneof fuel tr Hrun) as [t [Hb [Hwf [Hroot Hleaves]]]].
  exists t. repeat split; auto.
  pose proof (run_prods_exist G toks tb eof err_state fin fuel init) as Hp. rewrite Hrun in Hp. simpl in Hp.
  rewrite (build_is_postorder G toks tr Hp) at 1. rewrite Hb. simpl. apply app_nil_r.
Qed.
