(* Where a syntax error is reported: the error index only depends on the tokens up to and
   including the offending one; every earlier token has been shifted, in order. *)
From Coq Require Import List Bool Arith NArith Lia.
From Verif Require Import Cfg.LR.
Import ListNotations.
Local Open Scope N_scope.

Section Prefix.
  Variable G : grammar.
  Variable tb : table.
  Variables eof err_state : N.

  Lemma step_index toks fin c e c' :
    step G tb eof err_state toks fin c = SEmit e c' ->
    (e = EvTok (snd c) /\ snd c' = S (snd c)) \/ ((exists p, e = EvProd p) /\ snd c' = snd c).
  Proof.
    destruct c as [St i]. unfold step.
    destruct ((length toks <=? i)%nat && _); [discriminate|].
    destruct (action tb (hd 0 St) (lookahead eof toks i)) as [[s'|p|]|]; try discriminate.
    - intros H. inversion H; subst. left. auto.
    - destruct (nth_error G (N.to_nat p)); [|discriminate]. intros H. inversion H; subst. right. eauto.
  Qed.

  Lemma step_error_index toks fin c k :
    step G tb eof err_state toks fin c = SDone (OSyntaxError k) -> k = snd c.
  Proof.
    destruct c as [St i]. unfold step.
    destruct ((length toks <=? i)%nat && _); [discriminate|].
    destruct (action tb (hd 0 St) (lookahead eof toks i)) as [[s'|p|]|]; try discriminate.
    - destruct (nth_error G (N.to_nat p)); discriminate.
    - intros H. inversion H. reflexivity.
  Qed.

  Lemma run_error_index_ge toks fin fuel : forall c tr k,
    run G tb eof err_state toks fin fuel c = (tr, OSyntaxError k) -> (snd c <= k)%nat.
  Proof.
    induction fuel as [|f IH]; intros c tr k H; simpl in H; [discriminate|].
    destruct (step G tb eof err_state toks fin c) as [e c'|o] eqn:Es.
    - destruct (run G tb eof err_state toks fin f c') as [tr' o'] eqn:Er. inversion H; subst.
      apply IH in Er. destruct (step_index _ _ _ _ _ Es) as [[_ Hi]|[_ Hi]]; lia.
    - inversion H; subst. apply step_error_index in Es. lia.
  Qed.

  (* the step only looks at the look-ahead token at the current index *)
  Lemma step_agree toks toks' fin fin' c :
    (snd c < length toks)%nat -> (snd c < length toks')%nat ->
    nth (snd c) toks eof = nth (snd c) toks' eof ->
    step G tb eof err_state toks fin c = step G tb eof err_state toks' fin' c.
  Proof.
    destruct c as [St i]. simpl. intros H1 H2 Hn. unfold step, lookahead.
    assert (E1 : (length toks <=? i)%nat = false) by (apply Nat.leb_gt; exact H1).
    assert (E2 : (length toks' <=? i)%nat = false) by (apply Nat.leb_gt; exact H2).
    rewrite E1, E2, Hn. reflexivity.
  Qed.

  Theorem run_prefix_indep toks toks' fin fin' i fuel : forall c tr,
    (forall k, (k <= i)%nat -> nth k toks eof = nth k toks' eof) ->
    (i < length toks)%nat -> (i < length toks')%nat ->
    (snd c <= i)%nat ->
    run G tb eof err_state toks fin fuel c = (tr, OSyntaxError i) ->
    run G tb eof err_state toks' fin' fuel c = (tr, OSyntaxError i).
  Proof.
    induction fuel as [|f IH]; intros c tr Hag H1 H2 Hc H; simpl in *; [discriminate|].
    rewrite <- (step_agree toks toks' fin fin' c); [|lia|lia|apply Hag; exact Hc].
    destruct (step G tb eof err_state toks fin c) as [e c'|o] eqn:Es; [|exact H].
    destruct (run G tb eof err_state toks fin f c') as [tr' o'] eqn:Er. inversion H; subst.
    pose proof (run_error_index_ge _ _ _ _ _ _ Er) as Hge.
    rewrite (IH c' tr' Hag H1 H2 Hge Er). reflexivity.
  Qed.

  Lemma nth_firstn_app {A} (l r : list A) d k n : (k < n)%nat -> (n <= length l)%nat ->
    nth k (firstn n l ++ r) d = nth k l d.
  Proof.
    intros Hk Hn. rewrite app_nth1 by (rewrite firstn_length; lia).
    revert k n Hk Hn. induction l as [|x l IH]; intros k n Hk Hn; simpl in *; [lia|].
    destruct n as [|n]; [lia|]. simpl. destruct k as [|k]; [reflexivity|]. apply IH; lia.
  Qed.

  (* nothing after the offending token influences where the error is reported, nor the callbacks before it *)
  Theorem error_independent_of_suffix toks fin fuel tr i rest' fin' :
    run G tb eof err_state toks fin fuel init = (tr, OSyntaxError i) ->
    (i < length toks)%nat ->
    run G tb eof err_state (firstn (S i) toks ++ rest') fin' fuel init = (tr, OSyntaxError i).
  Proof.
    intros H Hi. apply (run_prefix_indep toks _ fin fin' i fuel init tr); auto.
    - intros k Hk. symmetry. apply nth_firstn_app; lia.
    - rewrite app_length, firstn_length. lia.
    - simpl. lia.
  Qed.

  (* every token before the reported one has been shifted (its callback fired), in source order *)
  Definition tok_events (tr : list event) : list nat :=
    flat_map (fun e => match e with EvTok i => [i] | EvProd _ => [] end) tr.

  Theorem tokens_before_error_shifted toks fin fuel : forall c tr o,
    run G tb eof err_state toks fin fuel c = (tr, o) ->
    match o with
    | OSyntaxError k => tok_events tr = seq (snd c) (k - snd c)
    | _ => True
    end.
  Proof.
    induction fuel as [|f IH]; intros c tr o H; simpl in H.
    - inversion H; subst. exact I.
    - destruct (step G tb eof err_state toks fin c) as [e c'|o1] eqn:Es.
      + destruct (run G tb eof err_state toks fin f c') as [tr' o'] eqn:Er. inversion H; subst.
        specialize (IH _ _ _ Er). destruct o; auto.
        pose proof (run_error_index_ge _ _ _ _ _ _ Er) as Hge.
        destruct (step_index _ _ _ _ _ Es) as [[-> Hi]|[[p ->] Hi]]; simpl; rewrite IH, Hi.
        * replace (i - snd c)%nat with (S (i - S (snd c)))%nat by lia. reflexivity.
        * reflexivity.
      + inversion H; subst. destruct o; auto. apply step_error_index in Es. subst.
        rewrite Nat.sub_diag. reflexivity.
  Qed.
End Prefix.
