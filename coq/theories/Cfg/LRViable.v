(* Viable prefixes: whatever the table-driven parser has shifted so far is a prefix of some token sequence it
   accepts.  Together with Cfg/LRPrefix.v (the error index depends on nothing after the offending token; every
   token before it was shifted) this is "the error is reported at the FIRST token after which no acceptable
   input can continue".

   The argument builds a tree instead of running the parser: the stack of trees of a reachable configuration is
   completed, bottom-up, to a canonical tree of the whole grammar (finite certificate: for every reachable
   (state, class) entry a PLAN - which production closes it, with which witness trees for the symbols still
   missing - and a rank that decreases whenever the stack does not get shorter).  Cfg/LRComplete.v then says
   that the leaves of that tree are accepted.  [viable_check] validates the certificate; [shifted_prefix_is_viable]
   is the theorem, for inputs of any length. *)
From Coq Require Import List Bool Arith NArith Lia.
From Verif Require Import Cfg.LR Cfg.LRSafe Cfg.LRComplete Cfg.LRCanon Cfg.LRExact Cfg.LRPrefix.
Import ListNotations.
Local Open Scope N_scope.

(* ---- the terminal string of a tree; renumbering its leaves ---- *)
Fixpoint yield (t : tree) : list N :=
  match t with Leaf a _ => [a] | Node _ cs => flat_map yield cs end.

Fixpoint renum (i : nat) (t : tree) : tree :=
  match t with
  | Leaf a _ => Leaf a i
  | Node p cs =>
    Node p ((fix go (i : nat) (l : list tree) : list tree :=
               match l with [] => [] | c :: l' => renum i c :: go (i + length (yield c))%nat l' end) i cs)
  end.

Definition renum_list : nat -> list tree -> list tree :=
  fix go (i : nat) (l : list tree) : list tree :=
    match l with [] => [] | c :: l' => renum i c :: go (i + length (yield c))%nat l' end.

Lemma combine_app_seq (w1 w2 : list N) i :
  combine (w1 ++ w2) (seq i (length (w1 ++ w2))) =
  combine w1 (seq i (length w1)) ++ combine w2 (seq (i + length w1) (length w2)).
Proof.
  revert i. induction w1 as [|a w1 IH]; intros i; simpl.
  - rewrite Nat.add_0_r. reflexivity.
  - f_equal. rewrite IH. replace (S i + length w1)%nat with (i + S (length w1))%nat by lia. reflexivity.
Qed.

Section Renum.
  Variable G : grammar.
  Variable rules : list crule.

  Definition Pren (t : tree) : Prop := forall i,
    yield (renum i t) = yield t /\ root G (renum i t) = root G t /\
    (wf_tree G t -> wf_tree G (renum i t)) /\
    classify rules (renum i t) = classify rules t /\
    leaves (renum i t) = combine (yield t) (seq i (length (yield t))).

  Lemma renum_forest cs : Forall Pren cs -> forall i,
    flat_map yield (renum_list i cs) = flat_map yield cs /\
    map (root G) (renum_list i cs) = map (root G) cs /\
    (all_wf G cs -> all_wf G (renum_list i cs)) /\
    classify_list rules (renum_list i cs) = classify_list rules cs /\
    flat_map leaves (renum_list i cs) = combine (flat_map yield cs) (seq i (length (flat_map yield cs))).
  Proof.
    intros HP. induction HP as [|c cs Hc HP IH]; intros i.
    - simpl. repeat split; auto.
    - destruct (Hc i) as [Y [R [W [C L]]]]. destruct (IH (i + length (yield c))%nat) as [Y' [R' [W' [C' L']]]].
      change (renum_list i (c :: cs)) with (renum i c :: renum_list (i + length (yield c)) cs).
      split; [|split; [|split; [|split]]].
      + simpl. rewrite Y, Y'. reflexivity.
      + simpl. rewrite R, R'. reflexivity.
      + intros [Hw Hall]. split; [apply W; exact Hw | apply W'; exact Hall].
      + change (classify_list rules (renum i c :: renum_list (i + length (yield c)) cs))
          with (match classify rules (renum i c), classify_list rules (renum_list (i + length (yield c)) cs) with
                | Some k, Some ks => Some (k :: ks) | _, _ => None end).
        rewrite C, C'. reflexivity.
      + change (flat_map leaves (renum i c :: renum_list (i + length (yield c)) cs))
          with (leaves (renum i c) ++ flat_map leaves (renum_list (i + length (yield c)) cs)).
        rewrite L, L'. change (flat_map yield (c :: cs)) with (yield c ++ flat_map yield cs).
        rewrite combine_app_seq. reflexivity.
  Qed.

  Lemma renum_ok : forall t, Pren t.
  Proof.
    apply tree_ind'.
    - intros a j i. simpl. repeat split; auto.
    - intros p cs HP i. destruct (renum_forest cs HP i) as [Y [R [W [C L]]]].
      change (renum i (Node p cs)) with (Node p (renum_list i cs)).
      split; [|split; [|split; [|split]]].
      + exact Y.
      + reflexivity.
      + intros [[pr [Hn Hm]] Hall]. split; [exists pr; split; [exact Hn | rewrite R; exact Hm] | apply W; exact Hall].
      + rewrite !classify_node, C. reflexivity.
      + exact L.
  Qed.
End Renum.

(* ---- a boolean version of wf_tree ---- *)
Fixpoint syms_eqb (a b : list symbol) : bool :=
  match a, b with
  | [], [] => true
  | x :: a', y :: b' => symbol_eqb x y && syms_eqb a' b'
  | _, _ => false
  end.

Lemma syms_eqb_eq a : forall b, syms_eqb a b = true -> a = b.
Proof.
  induction a as [|x a IH]; intros [|y b] H; simpl in H; try discriminate; [reflexivity|].
  apply andb_prop in H as [H1 H2]. apply symbol_eqb_spec in H1. subst. f_equal. apply IH. exact H2.
Qed.

Section WfB.
  Variable G : grammar.

  Fixpoint wf_treeb (t : tree) : bool :=
    match t with
    | Leaf _ _ => true
    | Node p cs =>
      match nth_error G (N.to_nat p) with
      | Some pr => syms_eqb (map (root G) cs) (p_body pr)
      | None => false
      end
      && (fix all (l : list tree) : bool := match l with [] => true | c :: l' => wf_treeb c && all l' end) cs
    end.

  Lemma wf_treeb_sound : forall t, wf_treeb t = true -> wf_tree G t.
  Proof.
    apply (tree_ind' (fun t => wf_treeb t = true -> wf_tree G t)).
    - intros. exact I.
    - intros p cs HP H. simpl in H. apply andb_prop in H as [H1 H2]. split.
      + destruct (nth_error G (N.to_nat p)) as [pr|]; [|discriminate]. exists pr. split; [reflexivity|].
        apply syms_eqb_eq. exact H1.
      + clear H1. induction HP as [|c cs Hc HP IH]; [exact I|]. apply andb_prop in H2 as [Hc' Hall].
        split; [apply Hc; exact Hc' | apply IH; exact Hall].
  Qed.
End WfB.

Lemma yield_leaves : forall t, yield t = map fst (leaves t).
Proof.
  apply tree_ind'.
  - reflexivity.
  - intros p cs HP. simpl. induction HP as [|c cs Hc HP IH]; [reflexivity|].
    simpl. rewrite map_app, Hc, IH. reflexivity.
Qed.

Lemma flat_yield_leaves ts : flat_map yield ts = map fst (flat_map leaves ts).
Proof. induction ts as [|t ts IH]; [reflexivity|]. simpl. rewrite map_app, yield_leaves, IH. reflexivity. Qed.

Lemma map_fst_combine_seq (l : list N) i : map fst (combine l (seq i (length l))) = l.
Proof. revert i. induction l as [|a l IH]; intros i; simpl; [reflexivity|]. f_equal. apply IH. Qed.

(* ---- plans ---- *)
Inductive plan := PFinal | PStart (k : N) | PReduce (p : N) (m : nat) (kb : list N).

Section Viable.
  Variable G : grammar.
  Variable tb : table.
  Variables eof err_state start : N.
  Variable past : N -> list symbol.
  Variable rules : list crule.
  Variable Wany : list (N * N).
  Variable W : list (N * N * list N).
  Variable E : list (N * N * N * N).
  Variable plans : list (N * N * nat * plan).     (* entry (state, class), rank, plan *)
  Variable wits : list (N * N * tree).            (* non-terminal, class, a tree of that class *)

  Definition plan_of (s c : N) : option (nat * plan) :=
    match find (fun e => let '(s', c', _, _) := e in (s' =? s) && (c' =? c)) plans with
    | Some (_, _, r, pl) => Some (r, pl)
    | None => None
    end.

  Definition wit_of (X : symbol) (k : N) : option tree :=
    match X with
    | T a => if k =? 0 then Some (Leaf a 0) else None
    | NT A => match find (fun e => let '(A', k', _) := e in (A' =? A) && (k' =? k)) wits with
              | Some (_, _, t) => Some t
              | None => None
              end
    end.

  Fixpoint wits_for (b : list (symbol * N)) : option (list tree) :=
    match b with
    | [] => Some []
    | (X, k) :: b' => match wit_of X k, wits_for b' with
                      | Some t, Some ts => Some (t :: ts)
                      | _, _ => None
                      end
    end.

  Definition wits_ok : bool :=
    forallb (fun e => let '(A, k, t) := e in
                      wf_treeb G t && symbol_eqb (root G t) (NT A)
                      && match classify rules t with Some k' => k' =? k | None => false end) wits.

  Definition accepting (s : N) : bool :=
    existsb (fun e => (fst (fst e) =? s) && match snd e with Accept => true | _ => false end) (t_action tb).

  Definition plan_ok (e : N * N * nat * plan) : bool :=
    let '(s, c, rank, pl) := e in
    match pl with
    | PFinal => accepting s
    | PStart k => (s =? 0) && match wit_of (NT start) k with Some _ => true | None => false end
    | PReduce p m kb =>
      match nth_error G (N.to_nat p) with
      | Some pr =>
        let body := p_body pr in
        (1 <=? m)%nat && (m <=? length body)%nat
        && sym_prefix (rev (firstn m body)) (past s)
        && match wits_for (combine (skipn m body) kb) with Some _ => true | None => false end
        && (length kb =? length body - m)%nat
        && forallb (fun x =>
             match rule_for rules p (fst x ++ kb) with
             | Some r => match goto tb (fst (snd x)) (p_head pr) with
                         | Some s' => inE E (snd x) (s', cr_cls r)
                                      && match plan_of s' (cr_cls r) with
                                         | Some (rank', _) => (2 <=? m)%nat || (rank' <? rank)%nat
                                         | None => false
                                         end
                         | None => false
                         end
             | None => false
             end) (back E m (s, c))
      | None => false
      end
    end.

  Definition has_plan (s c : N) : bool := match plan_of s c with Some _ => true | None => false end.

  Definition viable_check : bool :=
    forallb plan_ok plans && wits_ok
    && forallb (fun e => has_plan (fst e) (snd e)) Wany
    && forallb (fun e => let '(s, c, _) := e in has_plan s c) W.

  (* no shift enters the state that stands for a missing GOTO *)
  Definition no_shift_to_err (err_state : N) : bool :=
    forallb (fun e => match snd e with Shift s' => negb (s' =? err_state) | _ => true end) (t_action tb).
End Viable.

(* ---- computing witnesses and plans ---- *)
Section Search.
  Variable G : grammar.
  Variable tb : table.
  Variables eof start : N.
  Variable past : N -> list symbol.
  Variable rules : list crule.
  Variable Wany : list (N * N).
  Variable W : list (N * N * list N).
  Variable E : list (N * N * N * N).

  Definition has_wit (wits : list (N * N * tree)) (A k : N) : bool :=
    existsb (fun e => let '(A', k', _) := e in (A' =? A) && (k' =? k)) wits.

  Definition wit_round (wits : list (N * N * tree)) : list (N * N * tree) :=
    fold_left (fun acc r =>
      match nth_error G (N.to_nat (cr_prod r)) with
      | Some pr =>
        if has_wit acc (p_head pr) (cr_cls r) then acc
        else match wits_for acc (annot pr r) with
             | Some ts => (p_head pr, cr_cls r, Node (cr_prod r) ts) :: acc
             | None => acc
             end
      | None => acc
      end) rules wits.

  Definition all_wits (n : nat) : list (N * N * tree) := iter wit_round n [].

  Variable wits : list (N * N * tree).

  Definition classes_of (X : symbol) : list N :=
    match X with
    | T _ => [0]
    | NT A => flat_map (fun e => let '(A', k, _) := e in if A' =? A then [k] else []) wits
    end.

  Fixpoint choices (b : list symbol) : list (list N) :=
    match b with
    | [] => [[]]
    | X :: b' => flat_map (fun k => map (cons k) (choices b')) (classes_of X)
    end.

  Definition candidates (s : N) : list plan :=
    (if accepting tb s then [PFinal] else [])
    ++ (if s =? 0 then map PStart (classes_of (NT start)) else [])
    ++ flat_map (fun ip =>
         let '(i, pr) := ip in
         flat_map (fun m =>
           if sym_prefix (rev (firstn m (p_body pr))) (past s)
           then map (PReduce (N.of_nat i) m) (choices (skipn m (p_body pr)))
           else []) (seq 1 (length (p_body pr)))) (combine (seq 0 (length G)) G).

  Definition entries : list (N * N) := Wany ++ map (fun e => let '(s, c, _) := e in (s, c)) W.

  Definition dummy_rank : nat := 1000.

  Definition plan_round (k : nat) (assigned : list (N * N * nat * plan)) : list (N * N * nat * plan) :=
    let pretend := assigned ++ map (fun e => (fst e, snd e, dummy_rank, PFinal)) entries in
    fold_left (fun acc e =>
      if has_plan acc (fst e) (snd e) then acc
      else match find (fun pl => plan_ok G tb start past rules E pretend wits (fst e, snd e, k, pl)) (candidates (fst e)) with
           | Some pl => acc ++ [(fst e, snd e, k, pl)]
           | None => acc
           end) entries assigned.

  Fixpoint plan_rounds (n k : nat) (assigned : list (N * N * nat * plan)) : list (N * N * nat * plan) :=
    match n with
    | O => assigned
    | S n' => let a' := plan_round k assigned in
              if Nat.eqb (length a') (length assigned) then assigned else plan_rounds n' (S k) a'
    end.

  Definition all_plans (n : nat) : list (N * N * nat * plan) := plan_rounds n 1%nat [].
End Search.

(* ---- soundness ---- *)
Section Sound.
  Variable G : grammar.
  Variable tb : table.
  Variables eof err_state start : N.
  Variable past : N -> list symbol.
  Variable rules : list crule.
  Variable Wany : list (N * N).
  Variable W : list (N * N * list N).
  Variable E : list (N * N * N * N).
  Variable plans : list (N * N * nat * plan).
  Variable wits : list (N * N * tree).

  Hypothesis Hsafe : safe_check G tb eof err_state start past = true.
  Hypothesis Hcanon : canon_check G tb rules Wany W E = true.
  Hypothesis Hviable : viable_check G tb start past rules Wany W E plans wits = true.

  Notation classify := (classify rules).
  Notation plan_of := (plan_of plans).
  Notation wit_of := (wit_of wits).
  Notation wits_for := (wits_for wits).

  Definition typed (t : tree) (Xk : symbol * N) : Prop :=
    wf_tree G t /\ root G t = fst Xk /\ classify t = Some (snd Xk).

  Lemma viable_parts :
    (forall e, In e plans -> plan_ok G tb start past rules E plans wits e = true) /\
    wits_ok G rules wits = true /\
    (forall s c, inWany Wany s c = true -> has_plan plans s c = true) /\
    (forall s c a, inW W s c a = true -> has_plan plans s c = true).
  Proof.
    unfold viable_check in Hviable. apply andb_prop in Hviable as [H123 H4].
    apply andb_prop in H123 as [H12 H3]. apply andb_prop in H12 as [H1 H2].
    rewrite forallb_forall in H1, H3, H4. repeat split; auto.
    - intros s c H. unfold inWany in H. apply existsb_exists in H as [[s' c'] [Hin Hb]]. simpl in Hb.
      apply andb_prop in Hb as [E1 E2]. apply N.eqb_eq in E1, E2. subst. apply (H3 _ Hin).
    - intros s c a H. unfold inW in H. apply existsb_exists in H as [[[s' c'] las] [Hin Hb]].
      apply andb_prop in Hb as [Hb _]. apply andb_prop in Hb as [E1 E2]. apply N.eqb_eq in E1, E2. subst.
      apply (H4 _ Hin).
  Qed.

  Lemma plan_of_ok s c r pl : plan_of s c = Some (r, pl) ->
    plan_ok G tb start past rules E plans wits (s, c, r, pl) = true.
  Proof.
    unfold LRViable.plan_of. destruct (find _ plans) as [[[[s' c'] r'] pl']|] eqn:Ef; [|discriminate].
    intros H. injection H as <- <-. apply find_some in Ef as [Hin Hb].
    apply andb_prop in Hb as [E1 E2]. apply N.eqb_eq in E1, E2. subst.
    destruct viable_parts as [H _]. apply (H _ Hin).
  Qed.

  Lemma wit_of_ok X k t : wit_of X k = Some t -> typed t (X, k).
  Proof.
    destruct viable_parts as [_ [Hw _]]. unfold LRViable.wit_of. destruct X as [a|A].
    - destruct (k =? 0) eqn:Ek; [|discriminate]. intros H. injection H as <-. apply N.eqb_eq in Ek. subst.
      repeat split.
    - destruct (find _ wits) as [[[A' k'] t']|] eqn:Ef; [|discriminate]. intros H. injection H as <-.
      apply find_some in Ef as [Hin Hb]. apply andb_prop in Hb as [E1 E2]. apply N.eqb_eq in E1, E2. subst.
      unfold wits_ok in Hw. rewrite forallb_forall in Hw. specialize (Hw _ Hin). simpl in Hw.
      apply andb_prop in Hw as [Hw H3]. apply andb_prop in Hw as [H1 H2].
      split; [apply wf_treeb_sound; exact H1|]. split; [apply symbol_eqb_spec; exact H2|].
      simpl. destruct (classify t') as [k'|]; [|discriminate]. apply N.eqb_eq in H3. subst. reflexivity.
  Qed.

  Lemma wits_for_ok b : forall ts, wits_for b = Some ts -> Forall2 typed ts b.
  Proof.
    induction b as [|[X k] b IH]; intros ts H; simpl in H.
    - injection H as <-. constructor.
    - destruct (wit_of X k) as [t|] eqn:Et; [|discriminate].
      destruct (wits_for b) as [ts'|]; [|discriminate]. injection H as <-.
      constructor; [apply wit_of_ok; exact Et | apply IH; reflexivity].
  Qed.

  Lemma typed_parts ts b : Forall2 typed ts b ->
    all_wf G ts /\ map (root G) ts = map fst b /\ Forall2 (fun t k => classify t = Some k) ts (map snd b).
  Proof.
    induction 1 as [|t Xk ts b [H1 [H2 H3]] HF [I1 [I2 I3]]]; simpl.
    - repeat split; constructor.
    - repeat split; [exact H1 | exact I1 | rewrite H2, I2; reflexivity | constructor; assumption].
  Qed.

  (* a stack of trees with their states and classes, as in a reachable configuration, but not necessarily reachable *)
  Definition vstack (St : list N) (ts : list tree) (ents : list (N * N)) : Prop :=
    exists syms cls,
      linked tb St syms /\ map (root G) ts = syms /\ all_wf G ts /\
      Forall2 (fun t k => classify t = Some k) ts cls /\
      map fst ents = St /\ map snd ents = cls ++ [0] /\ chain E ents /\
      has_plan plans (fst (hd (0, 0) ents)) (snd (hd (0, 0) ents)) = true.

  Definition completes (ts : list tree) (t : tree) (w : list N) : Prop :=
    wf_tree G t /\ root G t = NT start /\ (exists k, classify t = Some k) /\
    yield t = flat_map yield (rev ts) ++ w.

  Lemma all_wf_app' l1 l2 : all_wf G l1 -> all_wf G l2 -> all_wf G (l1 ++ l2).
  Proof. intros H1 H2. apply all_wf_app. split; assumption. Qed.

  Lemma combine_fst {X Y} (l1 : list X) : forall (l2 : list Y), length l1 = length l2 -> map fst (combine l1 l2) = l1.
  Proof. induction l1 as [|x l1 IH]; intros [|y l2] H; simpl in *; try discriminate; [reflexivity|]. f_equal. apply IH. lia. Qed.
  Lemma combine_snd {X Y} (l1 : list X) : forall (l2 : list Y), length l1 = length l2 -> map snd (combine l1 l2) = l2.
  Proof. induction l1 as [|x l1 IH]; intros [|y l2] H; simpl in *; try discriminate; [reflexivity|]. f_equal. apply IH. lia. Qed.

  Lemma complete_stack : forall n r St ts ents rp,
    length ts = n -> plan_of (fst (hd (0, 0) ents)) (snd (hd (0, 0) ents)) = Some rp -> fst rp = r ->
    vstack St ts ents -> exists t w, completes ts t w.
  Proof.
    induction n as [n IHn] using lt_wf_ind. induction r as [r IHr] using lt_wf_ind.
    intros St ts ents [r0 pl] Hlen Hplan Hr [syms [cls [Hl [Hroots [Hwf [HF [Hfst [Hsnd [Hch _]]]]]]]]].
    simpl in Hr. subst r0.
    pose proof (plan_of_ok _ _ _ _ Hplan) as Hok.
    destruct (linked_nonempty _ _ _ Hl) as [s [St0 [ESt HlenSt]]].
    assert (Hlts : length ts = length syms) by (rewrite <- Hroots; symmetry; apply map_length).
    assert (Hlc : length ts = length cls) by (apply (Forall2_len _ _ _ HF)).
    assert (Hle : length ents = S (length ts)).
    { rewrite <- (map_length fst ents), Hfst, ESt. simpl. lia. }
    assert (Htop : hd (0, 0) ents = (s, hd 0 (cls ++ [0]))).
    { destruct ents as [|[s1 c1] rest]; [simpl in Hle; lia|]. simpl in *. rewrite ESt in Hfst. injection Hfst as -> _.
      destruct (cls ++ [0]); [discriminate|]. injection Hsnd as -> _. reflexivity. }
    rewrite Htop in Hplan, Hok. simpl fst in Hok, Hplan. simpl snd in Hok, Hplan.
    unfold plan_ok in Hok. cbv beta iota in Hok. destruct pl as [|k|p m kb].
    - (* the stack is complete *)
      unfold accepting in Hok. apply existsb_exists in Hok as [[[s' a] x] [Hin Hb]]. simpl in Hb.
      apply andb_prop in Hb as [E1 E2]. apply N.eqb_eq in E1. subst s'. destruct x; try discriminate.
      rewrite ESt in Hl. destruct (linked_accept G tb eof err_state start past Hsafe s St0 syms a Hl Hin) as [-> Hs].
      rewrite Hs in Hroots. destruct ts as [|t [|t2 ts2]]; simpl in Hroots; try discriminate.
      injection Hroots as Hroot. exists t, []. unfold completes. simpl. rewrite !app_nil_r.
      inversion HF; subst. repeat split; eauto. apply Hwf.
    - (* nothing has been read: any sentence will do *)
      apply andb_prop in Hok as [Hs0 Hw]. apply N.eqb_eq in Hs0. subst s.
      destruct (LRViable.wit_of wits (NT start) k) as [t|] eqn:Et; [|discriminate].
      destruct (wit_of_ok _ _ _ Et) as [T1 [T2 T3]]. simpl in T2, T3.
      assert (ts = []).
      { rewrite ESt in Hl. inversion Hl as [|St2 syms2 s1 X s2 Hl2 Ht]; subst.
        - destruct ts; [reflexivity | discriminate].
        - exfalso. destruct (safe_parts G tb eof err_state start past Hsafe) as [_ [_ [_ [_ [_ [Pf' _]]]]]].
          apply (Pf' _ _ _ (trans_In tb _ _ _ Ht)). reflexivity. }
      subst ts. exists t, (yield t). unfold completes. simpl. repeat split; eauto.
    - (* close the production p: the top m trees and witnesses for the rest of its body *)
      destruct (nth_error G (N.to_nat p)) as [pr|] eqn:Hn; [|discriminate].
      apply andb_prop in Hok as [Hok Hpaths]. apply andb_prop in Hok as [Hok Hkb].
      apply andb_prop in Hok as [Hok Hwits]. apply andb_prop in Hok as [Hok Hpast].
      apply andb_prop in Hok as [Hm1 Hm2]. apply Nat.leb_le in Hm1, Hm2. apply Nat.eqb_eq in Hkb.
      set (body := p_body pr) in *.
      destruct (LRViable.wits_for wits (combine (skipn m body) kb)) as [wts|] eqn:Ew; [|discriminate].
      pose proof (wits_for_ok _ _ Ew) as Hty. destruct (typed_parts _ _ Hty) as [Wwf [Wroots Wcls]].
      assert (Hlsk : length (skipn m body) = length kb) by (rewrite skipn_length; lia).
      rewrite (combine_fst _ _ Hlsk) in Wroots. rewrite (combine_snd _ _ Hlsk) in Wcls.
      (* the top m symbols of the stack are the first m symbols of the body *)
      destruct (linked_prefix G tb eof err_state start past Hsafe _ _ Hl) as [c1 Hc1]. rewrite ESt in Hc1. simpl in Hc1.
      apply sym_prefix_spec in Hpast as [c2 Hc2].
      assert (Hlf : length (firstn m body) = m) by (apply firstn_length_le; exact Hm2).
      assert (Hsyms : syms = rev (firstn m body) ++ c2 ++ c1) by (rewrite Hc1, Hc2, app_assoc; reflexivity).
      assert (Hmts : (m <= length ts)%nat) by (rewrite Hlts, Hsyms, app_length, rev_length, Hlf; lia).
      assert (Hfk : firstn m syms = rev (firstn m body)).
      { rewrite Hsyms, firstn_app, rev_length, Hlf, Nat.sub_diag. simpl. rewrite app_nil_r.
        apply firstn_all2. rewrite rev_length, Hlf. lia. }
      (* the classes of the top m entries and the entry below them *)
      rewrite forallb_forall in Hpaths.
      assert (Hb := back_spec E m ents Hch ltac:(lia)). rewrite Htop in Hb.
      specialize (Hpaths _ Hb). cbn [fst snd] in Hpaths.
      assert (Hks : rev (map snd (firstn m ents)) = rev (firstn m cls)).
      { rewrite <- firstn_map, Hsnd, firstn_app. replace (m - length cls)%nat with O by lia.
        simpl. rewrite app_nil_r. reflexivity. }
      rewrite Hks in Hpaths.
      destruct (rule_for rules p (rev (firstn m cls) ++ kb)) as [rl|] eqn:Er; [|discriminate].
      assert (Hlo : fst (hd (0, 0) (skipn m ents)) = hd 0 (skipn m St)).
      { rewrite <- Hfst, skipn_map. destruct (skipn m ents); reflexivity. }
      rewrite Hlo in Hpaths.
      destruct (goto tb (hd 0 (skipn m St)) (p_head pr)) as [s'|] eqn:Eg; [|discriminate].
      apply andb_prop in Hpaths as [He Hnext].
      destruct (LRViable.plan_of plans s' (cr_cls rl)) as [[rank' pl']|] eqn:Ep'; [|discriminate].
      (* the new tree and the new stack *)
      set (Nd := Node p (rev (firstn m ts) ++ wts)).
      assert (Hr1 : map (root G) (rev (firstn m ts)) = firstn m body).
      { rewrite map_rev, <- firstn_map, Hroots, Hfk. apply rev_involutive. }
      assert (HwfN : wf_tree G Nd).
      { split.
        - exists pr. split; [exact Hn|]. rewrite map_app, Hr1, Wroots. apply firstn_skipn.
        - apply all_wf_app'; [|exact Wwf]. apply all_wf_rev. apply (all_wf_firstn G m ts Hwf). }
      assert (HclN : classify Nd = Some (cr_cls rl)).
      { unfold Nd. rewrite classify_node.
        rewrite (classify_list_of rules _ (rev (firstn m cls) ++ kb)); [rewrite Er; reflexivity|].
        apply Forall2_app; [|exact Wcls]. apply Forall2_rev'. apply Forall2_firstn. exact HF. }
      assert (Hk : (m <= length syms)%nat) by lia.
      pose proof (linked_skipn G tb eof err_state start past Hsafe m _ _ Hl Hk) as Hl'.
      destruct (linked_nonempty _ _ _ Hl') as [t0 [St1 [Et0 _]]].
      assert (Hv' : vstack (s' :: skipn m St) (Nd :: skipn m ts) ((s', cr_cls rl) :: skipn m ents)).
      { exists (NT (p_head pr) :: skipn m syms), (cr_cls rl :: skipn m cls).
        split; [|split; [|split; [split|split; [|split; [|split; [|split]]]]]].
        - rewrite Et0. apply L_push; [rewrite <- Et0; exact Hl'|]. simpl. rewrite Et0 in Eg. simpl in Eg. exact Eg.
        - simpl. unfold head_of. rewrite Hn. f_equal. rewrite <- skipn_map, Hroots. reflexivity.
        - exact HwfN.
        - apply (all_wf_firstn G m ts Hwf).
        - constructor; [exact HclN | apply Forall2_skipn; exact HF].
        - simpl. rewrite <- skipn_map, Hfst. reflexivity.
        - simpl. rewrite <- skipn_map, Hsnd, skipn_app. replace (m - length cls)%nat with O by lia. reflexivity.
        - pose proof (chain_skipn E m ents Hch) as Hch'.
          destruct (skipn m ents) as [|e2 rest] eqn:Es; simpl; [auto|]. split; [|exact Hch']. simpl in He. exact He.
        - simpl. unfold has_plan. rewrite Ep'. reflexivity. }
      assert (Hyield : flat_map yield (rev (Nd :: skipn m ts)) = flat_map yield (rev ts) ++ flat_map yield wts).
      { simpl rev. rewrite flat_map_app. simpl. rewrite app_nil_r, flat_map_app.
        rewrite <- (firstn_skipn m ts) at 3. rewrite rev_app_distr, flat_map_app, <- app_assoc. reflexivity. }
      assert (Hlen' : length (Nd :: skipn m ts) = S (length ts - m)) by (simpl; rewrite skipn_length; reflexivity).
      assert (Hplan' : LRViable.plan_of plans (fst (hd (0, 0) ((s', cr_cls rl) :: skipn m ents)))
                                       (snd (hd (0, 0) ((s', cr_cls rl) :: skipn m ents))) = Some (rank', pl'))
        by (simpl; exact Ep').
      assert (Hrec : exists t w, completes (Nd :: skipn m ts) t w).
      { destruct (Nat.le_gt_cases 2 m) as [H2|H2].
        - apply (IHn (S (length ts - m)) ltac:(lia) rank' (s' :: skipn m St) (Nd :: skipn m ts) ((s', cr_cls rl) :: skipn m ents) (rank', pl') Hlen' Hplan' eq_refl Hv').
        - assert (m = 1%nat) by lia. subst m.
          apply orb_prop in Hnext as [Hx|Hx]; [discriminate|]. apply Nat.ltb_lt in Hx.
          apply (IHr rank' Hx (s' :: skipn 1 St) (Nd :: skipn 1 ts) ((s', cr_cls rl) :: skipn 1 ents) (rank', pl'));
            [rewrite Hlen'; lia | exact Hplan' | reflexivity | exact Hv']. }
      destruct Hrec as [t [w [C1 [C2 [C3 C4]]]]]. exists t, (flat_map yield wts ++ w).
      unfold completes. repeat split; auto. rewrite C4, Hyield, app_assoc. reflexivity.
  Qed.
End Sound.

(* ---- from reachable configurations to sentences ---- *)
Section Top.
  Variable G : grammar.
  Variable tb : table.
  Variables eof err_state start : N.
  Variable past : N -> list symbol.
  Variable rules : list crule.
  Variable nulT : list (N * N).
  Variable firstT : list (N * N * N).
  Variable V : list (N * N * N * list N).
  Variable Wany : list (N * N).
  Variable W : list (N * N * list N).
  Variable E : list (N * N * N * N).
  Variable plans : list (N * N * nat * plan).
  Variable wits : list (N * N * tree).
  Variable toks : list N.
  Variable fin : stream_end.

  Hypothesis Hsafe : safe_check G tb eof err_state start past = true.
  Hypothesis Hcomplete : complete_check G tb eof start rules nulT firstT V = true.
  Hypothesis Hcanon : canon_check G tb rules Wany W E = true.
  Hypothesis Hviable : viable_check G tb start past rules Wany W E plans wits = true.
  Hypothesis Hnoerr : no_shift_to_err tb err_state = true.
  Hypothesis Hneof : ~ In eof toks.

  Notation step := (step G tb eof err_state toks fin).
  Notation run := (run G tb eof err_state toks fin).
  Notation good := (good G tb toks).
  Notation canon_inv := (canon_inv eof rules Wany W E toks).
  Notation sentence := (canonical_sentence G start rules).

  Lemma config_is_viable c ts : good c ts -> canon_inv c ts ->
    exists w t, sentence (firstn (snd c) toks ++ w) t.
  Proof.
    destruct c as [St i]. intros [syms [Hl [Hroots [Hwf [Hleaves Hi]]]]] [cls [ents [HF [Hfst [Hsnd [Hch Htop]]]]]].
    simpl in *.
    assert (Hhp : has_plan plans (fst (hd (0, 0) ents)) (snd (hd (0, 0) ents)) = true).
    { destruct (viable_parts G tb start past rules Wany W E plans wits Hviable) as [_ [_ [P3 P4]]].
      rewrite <- hd_map_fst, <- hd_map_snd, Hfst, Hsnd.
      unfold inTop in Htop. apply orb_prop in Htop as [Ht|Ht]; [apply P3; exact Ht | eapply P4; exact Ht]. }
    assert (Hv : vstack G tb rules E plans St ts ents).
    { exists syms, cls. repeat split; auto. }
    unfold has_plan in Hhp. destruct (plan_of plans (fst (hd (0, 0) ents)) (snd (hd (0, 0) ents))) as [rp|] eqn:Ep; [|discriminate].
    destruct (complete_stack G tb eof err_state start past rules Wany W E plans wits Hsafe Hviable
                (length ts) (fst rp) St ts ents rp eq_refl Ep eq_refl Hv) as [t [w [C1 [C2 [[k C3] C4]]]]].
    assert (Hpre : flat_map yield (rev ts) = firstn i toks).
    { rewrite flat_yield_leaves, Hleaves.
      assert (Hlf : length (firstn i toks) = i) by (apply firstn_length_le; exact Hi).
      rewrite <- Hlf at 2. apply map_fst_combine_seq. }
    rewrite Hpre in C4.
    destruct (renum_ok G rules t 0%nat) as [Y [R [Wf [C L]]]].
    exists w, (renum 0 t). unfold canonical_sentence. repeat split.
    - apply Wf. exact C1.
    - rewrite R. exact C2.
    - exists k. rewrite C. exact C3.
    - rewrite L, C4. reflexivity.
  Qed.

  Definition Inv (c : cfg) : Prop :=
    (exists ts, good c ts /\ canon_inv c ts) \/
    (dead err_state c /\ exists c0 ts0, good c0 ts0 /\ canon_inv c0 ts0 /\ snd c0 = snd c).

  Lemma inv_init : Inv init.
  Proof.
    left. exists []. split.
    - exists []. simpl. repeat split; [constructor | lia].
    - exists [], [(0, 0)]. simpl. split; [constructor|]. repeat split.
      unfold canon_check in Hcanon. apply andb_prop in Hcanon as [H12 _]. apply andb_prop in H12 as [H1 _].
      unfold inTop. rewrite H1. reflexivity.
  Qed.

  Lemma inv_step c e c' : Inv c -> step c = SEmit e c' -> Inv c'.
  Proof.
    intros [[ts [Hg Hc]]|[Hd _]] Hs.
    - pose proof (good_step G tb eof err_state start past Hsafe toks fin Hneof c ts Hg) as G1.
      pose proof (canon_step G tb eof err_state start past rules Wany W E toks fin Hsafe Hcanon c ts Hg Hc) as C1.
      rewrite Hs in G1, C1.
      assert (Hdead : dead err_state c' -> Inv c').
      { intros Hd. right. split; [exact Hd|]. exists c, ts. split; [exact Hg|]. split; [exact Hc|].
        destruct c as [St i]. unfold LR.step in Hs.
        destruct ((length toks <=? i)%nat && _); [discriminate|].
        destruct (action tb (hd 0 St) (lookahead eof toks i)) as [[s'|p|]|] eqn:Ea; try discriminate.
        - exfalso. injection Hs as _ <-. unfold dead in Hd. simpl in Hd.
          unfold no_shift_to_err in Hnoerr. rewrite forallb_forall in Hnoerr.
          specialize (Hnoerr _ (action_In _ _ _ _ Ea)). simpl in Hnoerr. rewrite Hd, N.eqb_refl in Hnoerr. discriminate.
        - destruct (nth_error G (N.to_nat p)); [|discriminate]. injection Hs as _ <-. reflexivity. }
      destruct G1 as [G1|Hd]; [|apply Hdead; exact Hd]. destruct C1 as [C1|Hd]; [|apply Hdead; exact Hd].
      left. exists (build_step G toks ts e). split; assumption.
    - exfalso. pose proof (dead_step G tb eof err_state start past Hsafe toks fin c Hd) as H. rewrite Hs in H. exact H.
  Qed.

  Lemma run_inv fuel : forall c tr o, Inv c -> run fuel c = (tr, o) -> o <> OFuel ->
    exists c', Inv c' /\ step c' = SDone o.
  Proof.
    induction fuel as [|f IH]; intros c tr o Hi Hr Ho; simpl in Hr; [injection Hr as _ <-; contradiction|].
    destruct (step c) as [e c1|o1] eqn:Es.
    - destruct (run f c1) as [tr1 o1] eqn:Er. injection Hr as _ <-.
      apply (IH c1 tr1 o1 (inv_step _ _ _ Hi Es) Er Ho).
    - injection Hr as _ <-. exists c. split; [exact Hi | exact Es].
  Qed.

  Lemma inv_viable c : Inv c -> exists w t, sentence (firstn (snd c) toks ++ w) t.
  Proof.
    intros [[ts [Hg Hc]]|[_ [c0 [ts0 [Hg [Hc <-]]]]]]; eapply config_is_viable; eassumption.
  Qed.

  Lemma inv_index c : Inv c -> (snd c <= length toks)%nat.
  Proof.
    intros [[ts [[syms [_ [_ [_ [_ H]]]]] _]]|[_ [c0 [ts0 [[syms [_ [_ [_ [_ H]]]]] [_ <-]]]]]]; exact H.
  Qed.

  (* the tokens shifted before a syntax error form a prefix of an acceptable input *)
  Theorem shifted_prefix_is_viable fuel tr k :
    run fuel init = (tr, OSyntaxError k) ->
    exists w t, sentence (firstn k toks ++ w) t.
  Proof.
    intros Hr. destruct (run_inv fuel init tr _ inv_init Hr ltac:(discriminate)) as [c' [Hi Hs]].
    rewrite (step_error_index G tb eof err_state toks fin c' k Hs). apply inv_viable. exact Hi.
  Qed.

  (* ... and so do all the tokens read before a lexical error *)
  Theorem tokens_before_lexical_error_are_viable fuel tr :
    run fuel init = (tr, OLexError) ->
    exists w t, sentence (toks ++ w) t.
  Proof.
    intros Hr. destruct (run_inv fuel init tr _ inv_init Hr ltac:(discriminate)) as [c' [Hi Hs]].
    destruct (inv_viable c' Hi) as [w [t Ht]]. exists w, t.
    assert (Hk : snd c' = length toks).
    { pose proof (inv_index c' Hi) as Hle. destruct c' as [St i]. unfold LR.step in Hs. simpl in *.
      destruct ((length toks <=? i)%nat) eqn:El.
      - apply Nat.leb_le in El. lia.
      - simpl in Hs. destruct (action tb (hd 0 St) (lookahead eof toks i)) as [[s'|p|]|]; try discriminate.
        destruct (nth_error G (N.to_nat p)); discriminate. }
    rewrite Hk, firstn_all in Ht. exact Ht.
  Qed.

  (* with completeness: the continuation is accepted by the parser itself *)
  Corollary error_prefix_can_be_completed fuel tr k :
    run fuel init = (tr, OSyntaxError k) ->
    exists w fuel' tr', LR.run G tb eof err_state (firstn k toks ++ w) EndOfInput fuel' init = (tr', OAccept).
  Proof.
    intros Hr. destruct (shifted_prefix_is_viable fuel tr k Hr) as [w [t Ht]].
    exists w, (S (length (post t))), (post t).
    apply (exact_complete G tb eof err_state start rules nulT firstT V Hcomplete _ t Ht). lia.
  Qed.
End Top.

(* ---- the outcome does not depend on the fuel once there is enough of it ---- *)
Section Fuel.
  Variable G : grammar.
  Variable tb : table.
  Variables eof err_state : N.

  Lemma run_fuel_det toks fin f1 : forall f2 c tr1 o1 tr2 o2,
    run G tb eof err_state toks fin f1 c = (tr1, o1) -> run G tb eof err_state toks fin f2 c = (tr2, o2) ->
    o1 <> OFuel -> o2 <> OFuel -> tr1 = tr2 /\ o1 = o2.
  Proof.
    induction f1 as [|f1 IH]; intros f2 c tr1 o1 tr2 o2 H1 H2 N1 N2; simpl in H1.
    - injection H1 as _ <-. contradiction.
    - destruct f2 as [|f2]; simpl in H2; [injection H2 as _ <-; contradiction|].
      destruct (step G tb eof err_state toks fin c) as [e c'|o].
      + destruct (run G tb eof err_state toks fin f1 c') as [t1 p1] eqn:E1.
        destruct (run G tb eof err_state toks fin f2 c') as [t2 p2] eqn:E2.
        injection H1 as <- <-. injection H2 as <- <-.
        destruct (IH f2 c' t1 p1 t2 p2 E1 E2 N1 N2) as [-> ->]. auto.
      + injection H1 as <- <-. injection H2 as <- <-. auto.
  Qed.

  (* after the offending token nothing can make the input acceptable *)
  Theorem no_continuation_after_the_error toks fin fuel tr i :
    run G tb eof err_state toks fin fuel init = (tr, OSyntaxError i) -> (i < length toks)%nat ->
    forall rest' fin' fuel' tr', run G tb eof err_state (firstn (S i) toks ++ rest') fin' fuel' init <> (tr', OAccept).
  Proof.
    intros H Hi rest' fin' fuel' tr' Ha.
    pose proof (error_independent_of_suffix G tb eof err_state toks fin fuel tr i rest' fin' H Hi) as He.
    destruct (run_fuel_det _ _ _ _ _ _ _ _ _ He Ha ltac:(discriminate) ltac:(discriminate)) as [_ Ho]. discriminate.
  Qed.
End Fuel.
