(* Completeness of a table-driven LR parser for a DISAMBIGUATED grammar.

   The disambiguation is written as a finite bottom-up classification of parse trees
   ([crule]: production, classes of the children, class of the node).  A tree that can be
   classified is "canonical": it contains none of the shapes the precedence list forbids
   (for instance a juxtaposition whose right operand is itself a juxtaposition).  The tables
   may come from an AMBIGUOUS grammar whose conflicts were resolved; nothing is assumed
   about how they were built.

   [complete_check] is a boolean, evaluated by the kernel on concrete tables.  It validates
   three finite certificates (nullable classes, first sets, and the set V of "state s must be
   able to parse a tree of non-terminal A and class k when the token after it is a") against
   the table.  Theorem [lr_complete]: when the check passes, EVERY canonical tree of the
   grammar rooted at the start symbol - of any size - is parsed: the driver of Cfg/LR.v accepts
   its leaves and emits exactly the post-order of that very tree.

   The certificates are computed inside Coq as well ([saturate]), so nothing but the grammar,
   the table and the classification rules enters. *)
From Coq Require Import List Bool Arith NArith Lia.
From Verif Require Import Cfg.LR Cfg.LRSafe.
Import ListNotations.
Local Open Scope N_scope.

Record crule := mkCR { cr_prod : N; cr_kids : list N; cr_cls : N }.

Fixpoint list_eqb (a b : list N) : bool :=
  match a, b with
  | [], [] => true
  | x :: a', y :: b' => (x =? y) && list_eqb a' b'
  | _, _ => false
  end.

Lemma list_eqb_eq a : forall b, list_eqb a b = true -> a = b.
Proof.
  induction a as [|x a IH]; intros [|y b] H; simpl in H; try discriminate; [reflexivity|].
  apply andb_prop in H as [H1 H2]. apply N.eqb_eq in H1. subst. f_equal. apply IH. exact H2.
Qed.

Lemma tree_ind' (P : tree -> Prop) :
  (forall a i, P (Leaf a i)) -> (forall p cs, Forall P cs -> P (Node p cs)) -> forall t, P t.
Proof.
  intros HL HN. fix IH 1. intros [a i|p cs]; [apply HL|]. apply HN.
  induction cs as [|c cs IHcs]; constructor; [apply IH | exact IHcs].
Qed.

(* ---- canonical trees ---- *)
Section Canon.
  Variable rules : list crule.

  Definition rule_for (p : N) (ks : list N) : option crule :=
    find (fun r => (cr_prod r =? p) && list_eqb (cr_kids r) ks) rules.

  Fixpoint classify (t : tree) : option N :=
    match t with
    | Leaf _ _ => Some 0
    | Node p cs =>
      match (fix go (l : list tree) : option (list N) :=
               match l with
               | [] => Some []
               | c :: l' => match classify c, go l' with
                            | Some k, Some ks => Some (k :: ks)
                            | _, _ => None
                            end
               end) cs with
      | Some ks => match rule_for p ks with Some r => Some (cr_cls r) | None => None end
      | None => None
      end
    end.

  Definition classify_list : list tree -> option (list N) :=
    fix go (l : list tree) : option (list N) :=
      match l with
      | [] => Some []
      | c :: l' => match classify c, go l' with
                   | Some k, Some ks => Some (k :: ks)
                   | _, _ => None
                   end
      end.

  Lemma classify_node p cs :
    classify (Node p cs) =
    match classify_list cs with
    | Some ks => match rule_for p ks with Some r => Some (cr_cls r) | None => None end
    | None => None
    end.
  Proof. reflexivity. Qed.

  Lemma classify_list_F2 cs : forall ks, classify_list cs = Some ks ->
    Forall2 (fun c k => classify c = Some k) cs ks.
  Proof.
    induction cs as [|c cs IH]; intros ks H; simpl in H.
    - inversion H. constructor.
    - destruct (classify c) as [k|] eqn:Ec; [|discriminate].
      destruct (classify_list cs) as [ks'|] eqn:El; [|discriminate].
      inversion H; subst. constructor; [exact Ec | apply IH; reflexivity].
  Qed.

  Lemma classify_node_inv p cs k : classify (Node p cs) = Some k ->
    exists r, In r rules /\ cr_prod r = p /\ cr_cls r = k /\
              Forall2 (fun c k => classify c = Some k) cs (cr_kids r).
  Proof.
    rewrite classify_node. destruct (classify_list cs) as [ks|] eqn:El; [|discriminate].
    unfold rule_for. destruct (find _ rules) as [r|] eqn:Ef; [|discriminate].
    intros H. inversion H; subst. apply find_some in Ef as [Hin Hb].
    apply andb_prop in Hb as [H1 H2]. apply N.eqb_eq in H1. apply list_eqb_eq in H2.
    exists r. repeat split; auto. rewrite H2. apply classify_list_F2. exact El.
  Qed.
End Canon.

(* ---- nullable classes, first sets (as finite tables) ---- *)
Section Tables.
  Variable nulT : list (N * N).                  (* (A, k): some tree of A with class k has no leaves *)
  Variable firstT : list (N * N * N).            (* (A, k, b): some tree of A with class k starts with b *)

  Definition nul (A k : N) : bool := existsb (fun e => (fst e =? A) && (snd e =? k)) nulT.
  Definition first (A k : N) : list N :=
    map snd (filter (fun e => (fst (fst e) =? A) && (snd (fst e) =? k)) firstT).
  Definition mem (a : N) (l : list N) : bool := existsb (N.eqb a) l.

  Lemma mem_In a l : mem a l = true <-> In a l.
  Proof.
    unfold mem. rewrite existsb_exists. split.
    - intros [x [Hx He]]. apply N.eqb_eq in He. subst. exact Hx.
    - intros H. exists a. split; [exact H | apply N.eqb_refl].
  Qed.

  Fixpoint first_seq0 (b : list (symbol * N)) : list N :=
    match b with
    | [] => []
    | (T c, _) :: _ => [c]
    | (NT B, k) :: b' => first B k ++ (if nul B k then first_seq0 b' else [])
    end.

  Fixpoint nul_seq (b : list (symbol * N)) : bool :=
    match b with
    | [] => true
    | (T _, _) :: _ => false
    | (NT B, k) :: b' => nul B k && nul_seq b'
    end.

  Definition first_seq (b : list (symbol * N)) (a : N) : list N :=
    first_seq0 b ++ (if nul_seq b then [a] else []).
End Tables.

Definition annot (pr : prod) (r : crule) : list (symbol * N) := combine (p_body pr) (cr_kids r).

(* ---- the check ---- *)
Section Check.
  Variable G : grammar.
  Variable tb : table.
  Variables eof start : N.
  Variable rules : list crule.
  Variable nulT : list (N * N).
  Variable firstT : list (N * N * N).
  Variable V : list (N * N * N * list N).        (* (s, A, k, look-aheads) *)

  Definition inV (s A k a : N) : bool :=
    existsb (fun e => let '(s', A', k', las) := e in
                      (s' =? s) && (A' =? A) && (k' =? k) && mem a las) V.

  Fixpoint walk (s0 s : N) (b : list (symbol * N)) (a p A : N) : bool :=
    match b with
    | [] => (match action tb s a with Some (Reduce p') => p' =? p | _ => false end)
            && (match goto tb s0 A with Some _ => true | None => false end)
    | (T c, _) :: b' =>
      match action tb s c with Some (Shift s') => walk s0 s' b' a p A | _ => false end
    | (NT B, k) :: b' =>
      forallb (fun la => inV s B k la) (first_seq nulT firstT b' a)
      && match goto tb s B with Some s' => walk s0 s' b' a p A | None => false end
    end.

  Definition rules_of (A k : N) : list crule :=
    filter (fun r => (head_of G (cr_prod r) =? A) && (cr_cls r =? k)) rules.

  Definition closed_check : bool :=
    forallb (fun e => let '(s, A, k, las) := e in
       forallb (fun r => match nth_error G (N.to_nat (cr_prod r)) with
                         | Some pr => forallb (fun a => walk s s (annot pr r) a (cr_prod r) A) las
                         | None => false
                         end) (rules_of A k)) V.

  Definition first_check : bool :=
    forallb (fun r => match nth_error G (N.to_nat (cr_prod r)) with
                      | Some pr =>
                        let b := annot pr r in
                        implb (nul_seq nulT b) (nul nulT (p_head pr) (cr_cls r))
                        && forallb (fun c => mem c (first firstT (p_head pr) (cr_cls r))) (first_seq0 nulT firstT b)
                      | None => false
                      end) rules.

  Definition init_check : bool :=
    forallb (fun r => if head_of G (cr_prod r) =? start then inV 0 start (cr_cls r) eof else true) rules
    && match goto tb 0 start with
       | Some s1 => match action tb s1 eof with Some Accept => true | _ => false end
       | None => false
       end.

  Definition complete_check : bool := first_check && closed_check && init_check.
End Check.

(* ---- computing the certificates ---- *)
Section Saturate.
  Variable G : grammar.
  Variable tb : table.
  Variables eof start : N.
  Variable rules : list crule.

  Fixpoint iter {X} (f : X -> X) (n : nat) (x : X) : X :=
    match n with O => x | S n' => iter f n' (f x) end.

  Definition nul_round (nulT : list (N * N)) : list (N * N) :=
    fold_left (fun acc r =>
      match nth_error G (N.to_nat (cr_prod r)) with
      | Some pr => if nul_seq acc (annot pr r) && negb (nul acc (p_head pr) (cr_cls r))
                   then (p_head pr, cr_cls r) :: acc else acc
      | None => acc
      end) rules nulT.

  Definition add_first (A k : N) (acc : list (N * N * N)) (c : N) : list (N * N * N) :=
    if mem c (first acc A k) then acc else (A, k, c) :: acc.

  Definition first_round (nulT : list (N * N)) (firstT : list (N * N * N)) : list (N * N * N) :=
    fold_left (fun acc r =>
      match nth_error G (N.to_nat (cr_prod r)) with
      | Some pr => fold_left (add_first (p_head pr) (cr_cls r)) (first_seq0 nulT acc (annot pr r)) acc
      | None => acc
      end) rules firstT.

  Definition addV (V : list (N * N * N * list N)) (e : N * N * N * N) : list (N * N * N * list N) :=
    let '(s, A, k, a) := e in
    if existsb (fun g => let '(s', A', k', _) := g in (s' =? s) && (A' =? A) && (k' =? k)) V
    then map (fun g => let '(s', A', k', las) := g in
                       if (s' =? s) && (A' =? A) && (k' =? k) && negb (mem a las)
                       then (s', A', k', a :: las) else g) V
    else (s, A, k, [a]) :: V.

  Section WithTables.
    Variable nulT : list (N * N).
    Variable firstT : list (N * N * N).

    Fixpoint needs (s : N) (b : list (symbol * N)) (a : N) : list (N * N * N * N) :=
      match b with
      | [] => []
      | (T c, _) :: b' => match action tb s c with Some (Shift s') => needs s' b' a | _ => [] end
      | (NT B, k) :: b' =>
        map (fun la => (s, B, k, la)) (first_seq nulT firstT b' a)
        ++ match goto tb s B with Some s' => needs s' b' a | None => [] end
      end.

    Definition needs_of (e : N * N * N * N) : list (N * N * N * N) :=
      let '(s, A, k, a) := e in
      flat_map (fun r => match nth_error G (N.to_nat (cr_prod r)) with
                         | Some pr => needs s (annot pr r) a
                         | None => []
                         end) (rules_of G rules A k).

    (* one round: the entries the frontier asks for that are not there yet *)
    Definition v_round (st : list (N * N * N * list N) * list (N * N * N * N))
      : list (N * N * N * list N) * list (N * N * N * N) :=
      let '(V, frontier) := st in
      fold_left (fun acc e =>
                   let '(V', fresh) := acc in
                   let '(s, A, k, a) := e in
                   if inV V' s A k a then acc else (addV V' e, e :: fresh))
                (flat_map needs_of frontier) (V, []).

    Definition start_entries : list (N * N * N * N) :=
      flat_map (fun r => if head_of G (cr_prod r) =? start then [(0, start, cr_cls r, eof)] else []) rules.

    Definition saturate (n : nat) : list (N * N * N * list N) :=
      let V0 := fold_left addV start_entries [] in
      fst (iter v_round n (V0, start_entries)).
  End WithTables.
End Saturate.

(* ---- soundness of the check ---- *)
Section Complete.
  Variable G : grammar.
  Variable tb : table.
  Variables eof err_state start : N.
  Variable rules : list crule.
  Variable nulT : list (N * N).
  Variable firstT : list (N * N * N).
  Variable V : list (N * N * N * list N).
  Variable toks : list N.

  Hypothesis Hcheck : complete_check G tb eof start rules nulT firstT V = true.

  Notation classify := (classify rules).
  Notation nul := (nul nulT).
  Notation first := (first firstT).
  Notation first_seq0 := (first_seq0 nulT firstT).
  Notation nul_seq := (nul_seq nulT).
  Notation first_seq := (first_seq nulT firstT).
  Notation step := (step G tb eof err_state toks EndOfInput).
  Notation run := (run G tb eof err_state toks EndOfInput).
  Notation root := (root G).
  Notation wf_tree := (wf_tree G).
  Notation all_wf := (all_wf G).

  Definition la (j : nat) : N := lookahead eof toks j.

  Fixpoint nleaves (t : tree) : nat :=
    match t with
    | Leaf _ _ => 1
    | Node _ cs => (fix go (l : list tree) : nat := match l with [] => O | c :: l' => (nleaves c + go l')%nat end) cs
    end.

  Definition nleaves_list : list tree -> nat :=
    fix go (l : list tree) : nat := match l with [] => O | c :: l' => (nleaves c + go l')%nat end.

  Fixpoint aligned (i : nat) (t : tree) : Prop :=
    match t with
    | Leaf a j => j = i /\ nth_error toks i = Some a
    | Node _ cs =>
      (fix go (i : nat) (l : list tree) : Prop :=
         match l with [] => True | c :: l' => aligned i c /\ go (i + nleaves c)%nat l' end) i cs
    end.

  Definition aligned_list : nat -> list tree -> Prop :=
    fix go (i : nat) (l : list tree) : Prop :=
      match l with [] => True | c :: l' => aligned i c /\ go (i + nleaves c)%nat l' end.

  (* a child matches an annotated body symbol *)
  Definition tyd (c : tree) (Xk : symbol * N) : Prop := root c = fst Xk /\ classify c = Some (snd Xk).

  Lemma la_leaf i a : nth_error toks i = Some a -> la i = a.
  Proof. intros H. unfold la, lookahead. apply nth_error_nth. exact H. Qed.

  (* ---- pieces of the check ---- *)
  Lemma check_parts :
    first_check G rules nulT firstT = true /\
    closed_check G tb rules nulT firstT V = true /\
    init_check G tb eof start rules V = true.
  Proof.
    unfold complete_check in Hcheck. apply andb_prop in Hcheck as [H12 H3].
    apply andb_prop in H12 as [H1 H2]. auto.
  Qed.

  Lemma first_rule r pr : In r rules -> nth_error G (N.to_nat (cr_prod r)) = Some pr ->
    (nul_seq (annot pr r) = true -> nul (p_head pr) (cr_cls r) = true) /\
    (forall c, In c (first_seq0 (annot pr r)) -> In c (first (p_head pr) (cr_cls r))).
  Proof.
    intros Hin Hn. destruct check_parts as [H1 _]. unfold first_check in H1.
    rewrite forallb_forall in H1. specialize (H1 r Hin). rewrite Hn in H1.
    apply andb_prop in H1 as [Ha Hb]. split.
    - intros E. rewrite E in Ha. simpl in Ha. exact Ha.
    - intros c Hc. rewrite forallb_forall in Hb. apply mem_In. apply Hb. exact Hc.
  Qed.

  (* a node: its production, its rule, its children typed by the annotated body *)
  Lemma node_parts p cs k : wf_tree (Node p cs) -> classify (Node p cs) = Some k ->
    exists pr r, nth_error G (N.to_nat p) = Some pr /\ In r rules /\ cr_prod r = p /\ cr_cls r = k /\
                 Forall2 tyd cs (annot pr r) /\ all_wf cs /\ length cs = length (p_body pr).
  Proof.
    intros Hwf Hc. destruct Hwf as [[pr [Hn Hm]] Hall].
    destruct (classify_node_inv rules p cs k Hc) as [r [Hin [Hp [Hk HF]]]].
    exists pr, r. repeat split; auto.
    - unfold annot. rewrite <- Hm. clear - HF. induction HF as [|c k0 cs ks H HF IH]; simpl; constructor; auto.
      split; simpl; auto.
    - rewrite <- Hm. symmetry. apply map_length.
  Qed.

  (* ---- nullable / first are sound ---- *)
  Definition Pfirst (t : tree) : Prop := forall i k,
    wf_tree t -> classify t = Some k -> aligned i t ->
    (nleaves t = O -> exists A, root t = NT A /\ nul A k = true) /\
    ((0 < nleaves t)%nat -> match root t with T b => la i = b | NT A => In (la i) (first A k) end).

  Lemma forest_first cs : Forall Pfirst cs -> forall b i,
    Forall2 tyd cs b -> all_wf cs -> aligned_list i cs ->
    (nleaves_list cs = O -> nul_seq b = true) /\
    ((0 < nleaves_list cs)%nat -> In (la i) (first_seq0 b)).
  Proof.
    intros HP. induction HP as [|c cs Hc HP IH]; intros b i HF Hwf Hal.
    - destruct b as [|x b]; [|inversion HF]. simpl. split; [reflexivity | lia].
    - destruct b as [|[X k] b']; [inversion HF|].
      inversion HF as [|c' Xk cs' b'' [Hr Hk] HF']. simpl in Hr, Hk.
      destruct Hwf as [Hwc Hwf]. destruct Hal as [Hac Hal].
      destruct (Hc i k Hwc Hk Hac) as [Hz Hp].
      specialize (IH b' (i + nleaves c)%nat HF' Hwf Hal). destruct IH as [IHz IHp].
      change (nleaves_list (c :: cs)) with (nleaves c + nleaves_list cs)%nat.
      destruct (Nat.eq_dec (nleaves c) 0) as [E0|E0].
      + destruct (Hz E0) as [A [HA Hn]]. assert (HX : X = NT A) by (rewrite <- Hr; exact HA).
        rewrite HX. simpl. rewrite Hn. simpl.
        rewrite E0 in *. rewrite Nat.add_0_r in IHp. split.
        * intros Hq. apply IHz. lia.
        * intros Hq. apply in_or_app. right. apply IHp. lia.
      + split; [lia|]. intros _. assert (Hpos : (0 < nleaves c)%nat) by lia.
        specialize (Hp Hpos). rewrite Hr in Hp. destruct X as [t0|A]; simpl.
        * left. symmetry. exact Hp.
        * apply in_or_app. left. exact Hp.
  Qed.

  Lemma first_sound : forall t, Pfirst t.
  Proof.
    apply tree_ind'.
    - intros a j i k _ _ [Hj Hn]. simpl. split; [lia|]. intros _. apply la_leaf. exact Hn.
    - intros p cs HP i k Hwf Hc Hal.
      destruct (node_parts p cs k Hwf Hc) as [pr [r [Hn [Hin [Hp [Hk [HF [Hall _]]]]]]]].
      subst p. destruct (first_rule r pr Hin Hn) as [R1 R2].
      destruct (forest_first cs HP (annot pr r) i HF Hall Hal) as [Fz Fp].
      assert (Hroot : root (Node (cr_prod r) cs) = NT (p_head pr)).
      { simpl. unfold head_of. rewrite Hn. reflexivity. }
      rewrite Hroot. subst k. change (nleaves (Node (cr_prod r) cs)) with (nleaves_list cs). split.
      + intros E. exists (p_head pr). split; [reflexivity|]. apply R1. apply Fz. exact E.
      + intros E. apply R2. apply Fp. exact E.
  Qed.

  Lemma first_seq_la cs b i a : Forall2 tyd cs b -> all_wf cs -> aligned_list i cs ->
    la (i + nleaves_list cs) = a -> In (la i) (first_seq b a).
  Proof.
    intros HF Hwf Hal Ha. unfold first_seq.
    assert (HP : Forall Pfirst cs) by (apply Forall_forall; intros; apply first_sound).
    destruct (forest_first cs HP b i HF Hwf Hal) as [Fz Fp].
    destruct (Nat.eq_dec (nleaves_list cs) 0) as [E|E].
    - rewrite (Fz E). rewrite E, Nat.add_0_r in Ha. apply in_or_app. right. left. symmetry. exact Ha.
    - apply in_or_app. left. apply Fp. lia.
  Qed.

  (* ---- executions ---- *)
  Inductive exec : cfg -> list event -> cfg -> Prop :=
  | ex_nil c : exec c [] c
  | ex_step c e c1 evs c' : step c = SEmit e c1 -> exec c1 evs c' -> exec c (e :: evs) c'.

  Lemma exec_app c e1 c1 e2 c2 : exec c e1 c1 -> exec c1 e2 c2 -> exec c (e1 ++ e2) c2.
  Proof. intros H1 H2. induction H1; simpl; [exact H2|]. econstructor; eauto. Qed.

  Lemma run_exec c evs c' : exec c evs c' -> forall f,
    run (length evs + f) c = (evs ++ fst (run f c'), snd (run f c')).
  Proof.
    intros H. induction H as [c|c e c1 evs c' Hs H IH]; intros f; simpl.
    - destruct (run f c). reflexivity.
    - rewrite Hs. rewrite IH. reflexivity.
  Qed.

  Lemma step_shift St i s' : action tb (hd 0 St) (la i) = Some (Shift s') ->
    step (St, i) = SEmit (EvTok i) (s' :: St, S i).
  Proof. intros H. unfold LR.step. rewrite andb_false_r. fold (la i). rewrite H. reflexivity. Qed.

  Lemma step_reduce St i p pr : action tb (hd 0 St) (la i) = Some (Reduce p) ->
    nth_error G (N.to_nat p) = Some pr ->
    step (St, i) = SEmit (EvProd p)
      ((match goto tb (hd 0 (skipn (length (p_body pr)) St)) (p_head pr) with Some n => n | None => err_state end)
         :: skipn (length (p_body pr)) St, i).
  Proof. intros H Hn. unfold LR.step. rewrite andb_false_r. fold (la i). rewrite H, Hn. reflexivity. Qed.

  Lemma step_accept St i : action tb (hd 0 St) (la i) = Some Accept -> step (St, i) = SDone OAccept.
  Proof. intros H. unfold LR.step. rewrite andb_false_r. fold (la i). rewrite H. reflexivity. Qed.

  (* ---- the main lemma ---- *)
  Definition Pparse (t : tree) : Prop := forall i St k a A,
    wf_tree t -> classify t = Some k -> root t = NT A -> aligned i t ->
    la (i + nleaves t) = a -> inV V (hd 0 St) A k a = true ->
    exists s', goto tb (hd 0 St) A = Some s' /\ exec (St, i) (post t) (s' :: St, (i + nleaves t)%nat).

  Lemma parse_forest cs : Forall Pparse cs -> forall b i St s0 a p A,
    Forall2 tyd cs b -> all_wf cs -> aligned_list i cs -> la (i + nleaves_list cs) = a ->
    walk tb nulT firstT V s0 (hd 0 St) b a p A = true ->
    exists St', length St' = length cs /\
      exec (St, i) (flat_map post cs) (St' ++ St, (i + nleaves_list cs)%nat) /\
      action tb (hd 0 (St' ++ St)) a = Some (Reduce p) /\ goto tb s0 A <> None.
  Proof.
    intros HP. induction HP as [|c cs Hc HP IH]; intros b i St s0 a p A HF Hwf Hal Ha Hw.
    - destruct b as [|x b]; [|inversion HF]. simpl in Hw. apply andb_prop in Hw as [H1 H2].
      exists []. simpl. rewrite Nat.add_0_r. repeat split.
      + constructor.
      + destruct (action tb (hd 0 St) a) as [[s'|p'|]|]; try discriminate.
        apply N.eqb_eq in H1. rewrite H1. reflexivity.
      + destruct (goto tb s0 A); [discriminate | discriminate].
    - destruct b as [|[X k] b']; [inversion HF|].
      inversion HF as [|c' Xk cs' b'' [Hr Hk] HF']. simpl in Hr, Hk.
      destruct Hwf as [Hwc Hwf]. destruct Hal as [Hac Hal].
      change (nleaves_list (c :: cs)) with (nleaves c + nleaves_list cs)%nat in *.
      rewrite Nat.add_assoc in Ha.
      destruct X as [t0|B]; simpl in Hw.
      + (* a terminal: the child is a leaf, the table shifts *)
        destruct c as [a0 j|p0 cs0]; [|simpl in Hr; discriminate].
        simpl in Hr. inversion Hr; subst a0. destruct Hac as [Hj Hn]. subst j.
        destruct (action tb (hd 0 St) t0) as [[s'|p'|]|] eqn:Ea; try discriminate.
        change (nleaves (Leaf t0 i)) with 1%nat in *.
        destruct (IH b' (i + 1)%nat (s' :: St) s0 a p A HF' Hwf Hal Ha Hw) as [St' [Hl [Hex [Hact Hg]]]].
        exists (St' ++ [s']). rewrite <- app_assoc. cbn [app]. repeat split.
        * rewrite app_length. simpl. lia.
        * change (flat_map post (Leaf t0 i :: cs)) with (EvTok i :: flat_map post cs).
          econstructor.
          -- apply step_shift. rewrite (la_leaf _ _ Hn). exact Ea.
          -- replace (S i) with (i + 1)%nat by lia. rewrite Nat.add_assoc. exact Hex.
        * exact Hact.
        * exact Hg.
      + (* a non-terminal: the induction hypothesis of the child, then the GOTO *)
        apply andb_prop in Hw as [Hv Hw].
        assert (Hla : inV V (hd 0 St) B k (la (i + nleaves c)) = true).
        { rewrite forallb_forall in Hv. apply Hv.
          apply (first_seq_la cs b' (i + nleaves c)%nat a HF' Hwf Hal Ha). }
        destruct (Hc i St k (la (i + nleaves c)) B Hwc Hk Hr Hac eq_refl Hla) as [s' [Hgo Hex1]].
        rewrite Hgo in Hw.
        destruct (IH b' (i + nleaves c)%nat (s' :: St) s0 a p A HF' Hwf Hal Ha Hw) as [St' [Hl [Hex [Hact Hg]]]].
        exists (St' ++ [s']). rewrite <- app_assoc. cbn [app]. repeat split.
        * rewrite app_length. simpl. lia.
        * rewrite Nat.add_assoc. change (flat_map post (c :: cs)) with (post c ++ flat_map post cs).
          eapply exec_app; eauto.
        * exact Hact.
        * exact Hg.
  Qed.

  Lemma inV_entry s A k a : inV V s A k a = true -> exists las, In (s, A, k, las) V /\ In a las.
  Proof.
    unfold inV. rewrite existsb_exists. intros [[[[s' A'] k'] las] [Hin Hb]].
    apply andb_prop in Hb as [Hb Hm]. apply andb_prop in Hb as [Hb H3]. apply andb_prop in Hb as [H1 H2].
    apply N.eqb_eq in H1, H2, H3. subst. exists las. split; [exact Hin | apply mem_In; exact Hm].
  Qed.

  Lemma skipn_app_len {X} (l1 l2 : list X) n : length l1 = n -> skipn n (l1 ++ l2) = l2.
  Proof. intros <-. induction l1; simpl; auto. Qed.

  Lemma parse_tree : forall t, Pparse t.
  Proof.
    apply tree_ind'.
    - intros a j i St k a0 A _ _ Hr. simpl in Hr. discriminate.
    - intros p cs HP i St k a A Hwf Hc Hr Hal Ha HV.
      destruct (node_parts p cs k Hwf Hc) as [pr [r [Hn [Hin [Hp [Hk [HF [Hall Hlen]]]]]]]].
      assert (HA : p_head pr = A).
      { simpl in Hr. unfold head_of in Hr. rewrite Hn in Hr. inversion Hr. reflexivity. }
      destruct (inV_entry _ _ _ _ HV) as [las [HinV Hlas]].
      destruct check_parts as [_ [Hcl _]]. unfold closed_check in Hcl.
      rewrite forallb_forall in Hcl. specialize (Hcl _ HinV). simpl in Hcl.
      rewrite forallb_forall in Hcl.
      assert (Hro : In r (rules_of G rules A k)).
      { unfold rules_of. apply filter_In. split; [exact Hin|].
        unfold head_of. rewrite Hp, Hn, HA, Hk. rewrite !N.eqb_refl. reflexivity. }
      specialize (Hcl r Hro). rewrite Hp, Hn in Hcl. rewrite forallb_forall in Hcl.
      specialize (Hcl a Hlas).
      change (nleaves (Node p cs)) with (nleaves_list cs) in *.
      destruct (parse_forest cs HP (annot pr r) i St (hd 0 St) a p A HF Hall Hal Ha Hcl)
        as [St' [Hl [Hex [Hact Hg]]]].
      destruct (goto tb (hd 0 St) A) as [s'|] eqn:Eg; [|contradiction].
      exists s'. split; [reflexivity|].
      simpl. eapply exec_app; [exact Hex|].
      econstructor; [|constructor].
      rewrite (step_reduce _ _ p pr); [| rewrite Ha; exact Hact | exact Hn].
      rewrite skipn_app_len by (rewrite Hl; exact Hlen). rewrite HA, Eg. reflexivity.
  Qed.

  (* ---- leaves numbered from i are aligned with the token list ---- *)
  Lemma combine_seq_split (l1 l2 : list (N * nat)) : forall w i,
    l1 ++ l2 = combine w (seq i (length w)) ->
    l1 = combine (firstn (length l1) w) (seq i (length l1)) /\
    l2 = combine (skipn (length l1) w) (seq (i + length l1) (length w - length l1)) /\
    (length l1 <= length w)%nat.
  Proof.
    induction l1 as [|x l1 IH]; intros w i H; simpl in *.
    - rewrite Nat.add_0_r, Nat.sub_0_r. repeat split; [exact H | lia].
    - destruct w as [|a w]; simpl in H; [discriminate|]. inversion H; subst.
      destruct (IH w (S i) H2) as [E1 [E2 E3]]. simpl. repeat split.
      + f_equal. exact E1.
      + replace (i + S (length l1))%nat with (S i + length l1)%nat by lia. exact E2.
      + lia.
  Qed.

  Lemma nth_error_firstn_lt {X} (l : list X) : forall n k, (k < n)%nat -> nth_error (firstn n l) k = nth_error l k.
  Proof.
    induction l as [|x l IH]; intros n k H.
    - rewrite firstn_nil. reflexivity.
    - destruct n as [|n]; [lia|]. destruct k as [|k]; simpl; [reflexivity|]. apply IH. lia.
  Qed.

  Lemma nth_error_skipn' {X} (l : list X) : forall n k, nth_error (skipn n l) k = nth_error l (n + k).
  Proof.
    induction l as [|x l IH]; intros n k.
    - rewrite skipn_nil. destruct k, n; reflexivity.
    - destruct n as [|n]; simpl; [reflexivity | apply IH].
  Qed.

  Definition Palign (t : tree) : Prop := forall i w,
    leaves t = combine w (seq i (length w)) ->
    (forall k a, nth_error w k = Some a -> nth_error toks (i + k) = Some a) ->
    aligned i t /\ nleaves t = length w.

  Lemma leaves_aligned : forall t, Palign t.
  Proof.
    apply tree_ind'.
    - intros a j i w H Hw. simpl in H. destruct w as [|a' [|b w]]; simpl in H; try discriminate.
      inversion H; subst. simpl. repeat split. rewrite <- (Nat.add_0_r i). apply Hw. reflexivity.
    - intros p cs HP. unfold Palign. simpl leaves.
      change (forall i w, flat_map leaves cs = combine w (seq i (length w)) ->
                (forall k a, nth_error w k = Some a -> nth_error toks (i + k) = Some a) ->
                aligned_list i cs /\ nleaves_list cs = length w).
      induction HP as [|c cs Hc HP IH]; intros i w H Hw.
      + simpl in H. destruct w; simpl in H; [|discriminate]. simpl. auto.
      + simpl in H. destruct (combine_seq_split _ _ _ _ H) as [E1 [E2 E3]].
        assert (Hlen1 : length (firstn (length (leaves c)) w) = length (leaves c))
          by (apply firstn_length_le; exact E3).
        rewrite <- Hlen1 in E1 at 2.
        destruct (Hc i _ E1) as [A1 N1].
        { intros k a Hk. apply Hw. assert (k < length (leaves c))%nat.
          { rewrite <- Hlen1. apply nth_error_Some. rewrite Hk. discriminate. }
            rewrite nth_error_firstn_lt in Hk; [exact Hk | lia]. }
        rewrite Hlen1 in N1.
        assert (Hlen2 : length (skipn (length (leaves c)) w) = (length w - length (leaves c))%nat)
          by apply skipn_length.
        rewrite <- Hlen2 in E2.
        destruct (IH (i + length (leaves c))%nat _ E2) as [A2 N2].
        { intros k a Hk. rewrite nth_error_skipn' in Hk. rewrite <- Nat.add_assoc. apply Hw. exact Hk. }
        change (aligned_list i (c :: cs)) with (aligned i c /\ aligned_list (i + nleaves c)%nat cs).
        change (nleaves_list (c :: cs)) with (nleaves c + nleaves_list cs)%nat.
        rewrite N1. repeat split; [exact A1 | exact A2 |]. rewrite N2, Hlen2. lia.
  Qed.

  (* ---- replaying the post-order of an aligned tree rebuilds that tree ---- *)
  Definition Pbuild (t : tree) : Prop := forall i ts,
    wf_tree t -> aligned i t -> fold_left (build_step G toks) (post t) ts = t :: ts.

  Lemma build_forest cs : Forall Pbuild cs -> forall i ts, all_wf cs -> aligned_list i cs ->
    fold_left (build_step G toks) (flat_map post cs) ts = rev cs ++ ts.
  Proof.
    intros HP. induction HP as [|c cs Hc HP IH]; intros i ts Hwf Hal; [reflexivity|].
    destruct Hwf as [Hwc Hwf]. destruct Hal as [Hac Hal].
    change (flat_map post (c :: cs)) with (post c ++ flat_map post cs).
    rewrite fold_left_app, (Hc i ts Hwc Hac), (IH _ _ Hwf Hal). simpl. rewrite <- app_assoc. reflexivity.
  Qed.

  Lemma build_post : forall t, Pbuild t.
  Proof.
    apply tree_ind'.
    - intros a j i ts _ [Hj Hn]. subst j. simpl. f_equal. f_equal. apply nth_error_nth. exact Hn.
    - intros p cs HP i ts Hwf Hal.
      assert (Hwf' := Hwf). destruct Hwf' as [[pr [Hn Hm]] Hall].
      change (post (Node p cs)) with (flat_map post cs ++ [EvProd p]).
      rewrite fold_left_app, (build_forest cs HP i ts Hall Hal). simpl. rewrite Hn.
      assert (Hlen : length (rev cs) = length (p_body pr)).
      { rewrite rev_length, <- Hm. symmetry. apply map_length. }
      rewrite skipn_app_len by exact Hlen.
      rewrite firstn_app, <- Hlen, Nat.sub_diag, firstn_all. simpl. rewrite app_nil_r, rev_involutive. reflexivity.
  Qed.

  (* ---- the theorem ---- *)
  Theorem lr_complete t k :
    wf_tree t -> root t = NT start -> classify t = Some k ->
    leaves t = combine toks (seq 0 (length toks)) ->
    forall fuel, (length (post t) < fuel)%nat ->
      run fuel init = (post t, OAccept).
  Proof.
    intros Hwf Hroot Hc Hl fuel Hf.
    destruct (leaves_aligned t 0%nat toks Hl) as [Hal Hn]; [intros; assumption|].
    destruct check_parts as [_ [_ Hi]]. unfold init_check in Hi. apply andb_prop in Hi as [Hi1 Hi2].
    assert (HV : inV V 0 start k eof = true).
    { destruct t as [a j|p cs]; [simpl in Hroot; discriminate|].
      destruct (classify_node_inv rules p cs k Hc) as [r [Hin [Hp [Hk _]]]].
      rewrite forallb_forall in Hi1. specialize (Hi1 r Hin). rewrite Hp in Hi1.
      simpl in Hroot. injection Hroot as Hh. rewrite Hh, N.eqb_refl, Hk in Hi1. exact Hi1. }
    assert (Hla : la (0 + nleaves t) = eof).
    { simpl. rewrite Hn. unfold la, lookahead. apply nth_overflow. lia. }
    destruct (parse_tree t 0%nat [0] k eof start Hwf Hc Hroot Hal Hla HV) as [s1 [Hg Hex]].
    simpl in Hg. rewrite Hg in Hi2.
    destruct (action tb s1 eof) as [[x|x|]|] eqn:Ea; try discriminate.
    replace fuel with (length (post t) + S (fuel - length (post t) - 1))%nat by lia.
    rewrite (run_exec _ _ _ Hex).
    assert (Hs : step (s1 :: [0], (0 + nleaves t)%nat) = SDone OAccept).
    { apply step_accept. rewrite Hla. exact Ea. }
    cbn [LR.run]. rewrite Hs. cbn [fst snd]. rewrite app_nil_r. reflexivity.
  Qed.

  (* the classification leaves no ambiguity: a token sequence has at most one canonical tree *)
  Corollary canonical_unique t1 k1 t2 k2 :
    wf_tree t1 -> root t1 = NT start -> classify t1 = Some k1 -> leaves t1 = combine toks (seq 0 (length toks)) ->
    wf_tree t2 -> root t2 = NT start -> classify t2 = Some k2 -> leaves t2 = combine toks (seq 0 (length toks)) ->
    t1 = t2.
  Proof.
    intros W1 R1 C1 L1 W2 R2 C2 L2.
    set (fuel := S (length (post t1) + length (post t2))).
    pose proof (lr_complete t1 k1 W1 R1 C1 L1 fuel ltac:(unfold fuel; lia)) as H1.
    pose proof (lr_complete t2 k2 W2 R2 C2 L2 fuel ltac:(unfold fuel; lia)) as H2.
    rewrite H1 in H2. injection H2 as Hp.
    destruct (leaves_aligned t1 0%nat toks L1 ltac:(intros; assumption)) as [A1 _].
    destruct (leaves_aligned t2 0%nat toks L2 ltac:(intros; assumption)) as [A2 _].
    pose proof (build_post t1 0%nat [] W1 A1) as B1. pose proof (build_post t2 0%nat [] W2 A2) as B2.
    rewrite Hp in B1. rewrite B1 in B2. injection B2 as E. exact E.
  Qed.
End Complete.
