(* Decidable form of the hypotheses of [Ebnf.translate_preserves]: for a concrete rule list, a concrete
   naming and a concrete production set, [pure_ok] is a boolean; [pure_ok_sound] turns it into the
   language theorem.  The production set and the naming come from the model of emerge's symbol table
   (Emerge/SpecModel.v) or from the implementation itself. *)
From Coq Require Import String List Bool Arith Lia.
From Verif Require Import Cfg.Ebnf.
Import ListNotations.

Definition sym_eqb (x y : sym) : bool :=
  match x, y with
  | ST a, ST b => String.eqb a b
  | SN a, SN b => String.eqb a b
  | _, _ => false
  end.
Lemma sym_eqb_spec x y : sym_eqb x y = true <-> x = y.
Proof.
  destruct x, y; simpl; split; intros H; try discriminate.
  - apply String.eqb_eq in H. subst. reflexivity.
  - inversion H. apply String.eqb_refl.
  - apply String.eqb_eq in H. subst. reflexivity.
  - inversion H. apply String.eqb_refl.
Qed.

Fixpoint sstr_eqb (a b : sstr) : bool :=
  match a, b with
  | [], [] => true
  | x :: a', y :: b' => sym_eqb x y && sstr_eqb a' b'
  | _, _ => false
  end.
Lemma sstr_eqb_spec a : forall b, sstr_eqb a b = true <-> a = b.
Proof.
  induction a as [|x a IH]; destruct b as [|y b]; simpl; split; intros H; try discriminate; try reflexivity.
  - apply andb_prop in H as [H1 H2]. apply sym_eqb_spec in H1. apply IH in H2. subst. reflexivity.
  - inversion H; subst. apply andb_true_intro. split; [apply sym_eqb_spec | apply IH]; reflexivity.
Qed.

Definition smem (a : sstr) (s : strings) : bool := existsb (sstr_eqb a) s.
Lemma smem_spec a s : smem a s = true <-> In a s.
Proof.
  unfold smem. rewrite existsb_exists. split.
  - intros [b [Hb E]]. apply sstr_eqb_spec in E. subst. exact Hb.
  - intros H. exists a. split; [exact H | apply sstr_eqb_spec; reflexivity].
Qed.

Definition seteqb (s t : strings) : bool :=
  forallb (fun a => smem a t) s && forallb (fun a => smem a s) t.
Lemma seteqb_spec s t : seteqb s t = true -> seteq s t.
Proof.
  unfold seteqb, seteq. intros H. apply andb_prop in H as [H1 H2]. rewrite forallb_forall in H1, H2.
  split; intros a Ha; apply smem_spec; auto.
Qed.

Definition kind_eqb (a b : kind) : bool :=
  match a, b with KGroup, KGroup | KOpt, KOpt | KStar, KStar | KPlus, KPlus => true | _, _ => false end.
Lemma kind_eqb_spec a b : kind_eqb a b = true -> a = b.
Proof. destruct a, b; simpl; intros H; try discriminate; reflexivity. Qed.

Definition prod_eqb (p q : string * sstr) : bool := String.eqb (fst p) (fst q) && sstr_eqb (snd p) (snd q).
Lemma prod_eqb_spec p q : prod_eqb p q = true <-> p = q.
Proof.
  destruct p as [a b], q as [c d]. unfold prod_eqb. simpl. rewrite andb_true_iff, String.eqb_eq, sstr_eqb_spec.
  split; [intros [-> ->]; reflexivity | intros H; inversion H; auto].
Qed.
Definition pmem (p : string * sstr) (l : list (string * sstr)) : bool := existsb (prod_eqb p) l.
Lemma pmem_spec p l : pmem p l = true <-> In p l.
Proof.
  unfold pmem. rewrite existsb_exists. split.
  - intros [q [Hq E]]. apply prod_eqb_spec in E. subst. exact Hq.
  - intros H. exists p. split; [exact H | apply prod_eqb_spec; reflexivity].
Qed.

(* ---- the finite sets the hypotheses quantify over ---- *)
Fixpoint brackets_of (r : erhs) : list (kind * erhs) :=
  match r with
  | ETerm _ _ | ENT _ => []
  | ECat x y | EAlt x y => brackets_of x ++ brackets_of y
  | EAltE x => brackets_of x
  | EGroup x => (KGroup, x) :: brackets_of x
  | EOpt x => (KOpt, x) :: brackets_of x
  | EStar x => (KStar, x) :: brackets_of x
  | EPlus x => (KPlus, x) :: brackets_of x
  end.

Fixpoint nts_of (r : erhs) : list string :=
  match r with
  | ETerm _ _ => []
  | ENT A => [A]
  | ECat x y | EAlt x y => nts_of x ++ nts_of y
  | EAltE x | EGroup x | EOpt x | EStar x | EPlus x => nts_of x
  end.

Definition bodies (rules : list rule) : list erhs :=
  flat_map (fun r => match snd r with Some b => [b] | None => [] end) rules.
Definition brackets (rules : list rule) : list (kind * erhs) := flat_map brackets_of (bodies rules).
Definition mentioned_list (rules : list rule) : list string := map fst rules ++ flat_map nts_of (bodies rules).

Lemma in_bodies rules r : In r (bodies rules) <-> exists A, In (A, Some r) rules.
Proof.
  unfold bodies. rewrite in_flat_map. split.
  - intros [[A [b|]] [Hin H]]; simpl in H; [|destruct H]. destruct H as [<-|[]]. eauto.
  - intros [A Hin]. exists (A, Some r). split; [exact Hin | left; reflexivity].
Qed.

Lemma occurs_brackets k x r : occurs (wrap k x) r -> In (k, x) (brackets_of r).
Proof.
  intros H. remember (wrap k x) as t eqn:Ht. induction H; subst; simpl;
    try (apply in_or_app; auto; fail); try (right; auto; fail); auto.
  destruct k; simpl; left; reflexivity.
Qed.

Lemma brackets_occurs r : forall k x, In (k, x) (brackets_of r) -> occurs (wrap k x) r.
Proof.
  induction r; intros k x H; simpl in H; try destruct H.
  - apply in_app_or in H as [H|H]; [apply oc_catl | apply oc_catr]; auto.
  - apply in_app_or in H as [H|H]; [apply oc_altl | apply oc_altr]; auto.
  - apply oc_alte. auto.
  - inversion H; subst. constructor.
  - apply oc_group. auto.
  - inversion H; subst. constructor.
  - apply oc_opt. auto.
  - inversion H; subst. constructor.
  - apply oc_star. auto.
  - inversion H; subst. constructor.
  - apply oc_plus. auto.
Qed.

Lemma brackets_spec rules k x : sub rules (wrap k x) <-> In (k, x) (brackets rules).
Proof.
  unfold sub, brackets. rewrite in_flat_map. split.
  - intros [A [r [Hin Ho]]]. exists r. split; [apply in_bodies; eauto | apply occurs_brackets; exact Ho].
  - intros [r [Hr Hin]]. apply in_bodies in Hr as [A Hr]. exists A, r. split; [exact Hr | apply brackets_occurs; exact Hin].
Qed.

Lemma occurs_nts A r : occurs (ENT A) r -> In A (nts_of r).
Proof.
  intros H. remember (ENT A) as t eqn:Ht. induction H; subst; simpl; try (apply in_or_app; auto; fail); auto.
Qed.

Lemma mentioned_in rules A : mentioned rules A -> In A (mentioned_list rules).
Proof.
  unfold mentioned, mentioned_list. intros [[b Hin]|[x [[A0 [r [Hin Ho]]] ->]]]; apply in_or_app.
  - left. apply in_map_iff. exists (A, b). auto.
  - right. apply in_flat_map. exists r. split; [apply in_bodies; eauto | apply occurs_nts; exact Ho].
Qed.

Section Check.
  Variable rules : list rule.
  Variable nu : strings -> kind -> string.
  Variable P : list (string * sstr).

  Definition user_prods : list (string * sstr) :=
    flat_map (fun r => match snd r with
                       | Some b => map (fun a => (fst r, a)) (sigma nu b)
                       | None => [(fst r, [])]
                       end) rules.

  Definition P_pure : list (string * sstr) :=
    user_prods ++ flat_map (fun kx => req_here nu (fst kx) (snd kx)) (brackets rules).

  Definition name_of (kx : kind * erhs) : string := nu (sigma nu (snd kx)) (fst kx).

  Definition pure_ok : bool :=
    (* synthesised names are not names the user mentions *)
    forallb (fun kx => negb (existsb (String.eqb (name_of kx)) (mentioned_list rules))) (brackets rules)
    (* equal synthesised names only for the same kind and the same set of alternatives *)
    && forallb (fun kx => forallb (fun kx' =>
                 if String.eqb (name_of kx) (name_of kx')
                 then kind_eqb (fst kx) (fst kx') && seteqb (sigma nu (snd kx)) (sigma nu (snd kx'))
                 else true) (brackets rules)) (brackets rules)
    (* the production set is exactly: one production per alternative of every rule, plus the expansions *)
    && forallb (fun p => pmem p P_pure) P && forallb (fun p => pmem p P) P_pure.

  Lemma P_pure_spec A b :
    In (A, b) P_pure <->
      (exists r, In (A, Some r) rules /\ In b (sigma nu r)) \/
      (In (A, None) rules /\ b = []) \/
      (exists k x, sub rules (wrap k x) /\ In (A, b) (req_here nu k x)).
  Proof.
    unfold P_pure, user_prods. rewrite in_app_iff, !in_flat_map. split.
    - intros [[[A0 [r|]] [Hin H]]|[[k x] [Hin H]]]; simpl in H.
      + apply in_map_iff in H as [a [E Ha]]. inversion E; subst. left. eauto.
      + destruct H as [E|[]]. inversion E; subst. right. left. auto.
      + right. right. exists k, x. split; [apply brackets_spec; exact Hin | exact H].
    - intros [[r [Hin Hb]]|[[Hin ->]|[k [x [Hs Hin]]]]].
      + left. exists (A, Some r). split; [exact Hin|]. simpl. apply in_map. exact Hb.
      + left. exists (A, None). split; [exact Hin | left; reflexivity].
      + right. exists (k, x). split; [apply brackets_spec; exact Hs | exact Hin].
  Qed.

  Theorem pure_ok_sound :
    pure_ok = true ->
    forall A w, In A (map fst rules) ->
      (derives P (SN A) w <-> em rules (ENT A) w).
  Proof.
    unfold pure_ok. intros H.
    apply andb_prop in H as [H H4]. apply andb_prop in H as [H H3]. apply andb_prop in H as [H1 H2].
    rewrite forallb_forall in H1, H2, H3, H4.
    intros A w HA. apply (translate_preserves rules nu P).
    - (* P_spec *)
      intros A0 b. rewrite <- P_pure_spec. split; intros Hin.
      + apply pmem_spec. apply H3. exact Hin.
      + apply pmem_spec. apply H4. exact Hin.
    - (* names_fresh *)
      intros k x Hs Hm. apply brackets_spec in Hs. specialize (H1 _ Hs). apply negb_true_iff in H1.
      apply mentioned_in in Hm.
      assert (E : existsb (String.eqb (name_of (k, x))) (mentioned_list rules) = true).
      { apply existsb_exists. exists (nu (sigma nu x) k). split; [exact Hm | apply String.eqb_refl]. }
      rewrite E in H1. discriminate.
    - (* names_inj *)
      intros k x k' x' Hs Hs' E. apply brackets_spec in Hs. apply brackets_spec in Hs'.
      specialize (H2 _ Hs). rewrite forallb_forall in H2. specialize (H2 _ Hs').
      unfold name_of in H2. simpl in H2. rewrite E, String.eqb_refl in H2.
      apply andb_prop in H2 as [Hk Hse]. split; [apply kind_eqb_spec; exact Hk | apply seteqb_spec; exact Hse].
    - left. apply in_map_iff in HA as [[A0 b] [E Hin]]. simpl in E. subst. eauto.
  Qed.
End Check.
