(* An executable DEFINITION of "the LALR(1) parsing table of a grammar with precedence levels":
   LR(0) automaton, LALR(1) look-aheads as the least fixed point of closure + propagation along the
   automaton (merged LR(1) item sets), ACTION/GOTO, and conflict resolution by the documented rule
   (handle of a shift = the terminal; handle of a reduction = the first terminal of the body, else the
   production; earlier level wins; same level: left => reduce, right => shift, none / two reductions /
   a handle without level => unresolved).  Nothing here is proved: it is the reference the embedded and
   the generated tables are compared with, entry for entry, by [table_iso] under vm_compute. *)
From Coq Require Import List Bool Arith NArith Lia.
From Verif Require Import Cfg.LR.
Import ListNotations.
Local Open Scope N_scope.

(* ---- small set utilities over N (sorted, duplicate-free lists) ---- *)
Fixpoint ins (x : N) (l : list N) : list N :=
  match l with
  | [] => [x]
  | y :: t => if x <? y then x :: l else if x =? y then l else y :: ins x t
  end.
Definition union (a b : list N) : list N := fold_left (fun acc x => ins x acc) a b.
Definition memN (x : N) (l : list N) : bool := existsb (N.eqb x) l.
Definition subset (a b : list N) : bool := forallb (fun x => memN x b) a.

Section Lalr.
  Variable G : grammar.
  Variable start : N.           (* start non-terminal *)
  Variable eof : N.             (* end-marker terminal *)
  Variable nnt : N.             (* number of non-terminals *)

  Definition aug : N := N.of_nat (length G).                (* index of S' -> start *)
  Definition prod_of (p : N) : prod :=
    if p =? aug then mkProd nnt [NT start]
    else nth (N.to_nat p) G (mkProd nnt []).
  Definition all_prods : list N := map N.of_nat (seq 0 (S (length G))).

  (* ---- nullable and FIRST ---- *)
  Definition nullable_step (nl : list N) : list N :=
    fold_left (fun acc p =>
      let pr := prod_of p in
      if forallb (fun X => match X with T _ => false | NT A => memN A acc end) (p_body pr)
      then ins (p_head pr) acc else acc) all_prods nl.
  Fixpoint iter {A} (n : nat) (f : A -> A) (x : A) : A :=
    match n with O => x | S k => iter k f (f x) end.
  Definition nullables : list N := iter (S (N.to_nat nnt)) nullable_step [].

  Definition first_tab := list (N * list N).
  Definition first_get (ft : first_tab) (A : N) : list N :=
    match find (fun e => fst e =? A) ft with Some e => snd e | None => [] end.
  Fixpoint first_put (ft : first_tab) (A : N) (l : list N) : first_tab :=
    match ft with
    | [] => [(A, l)]
    | (B, m) :: t => if B =? A then (B, union m l) :: t else (B, m) :: first_put t A l
    end.
  Fixpoint first_seq (nl : list N) (ft : first_tab) (beta : list symbol) (la : list N) : list N :=
    match beta with
    | [] => la
    | T a :: _ => [a]
    | NT A :: r => if memN A nl then union (first_get ft A) (first_seq nl ft r la) else first_get ft A
    end.
  Definition first_step (nl : list N) (ft : first_tab) : first_tab :=
    fold_left (fun acc p => let pr := prod_of p in first_put acc (p_head pr) (first_seq nl acc (p_body pr) [])) all_prods ft.
  Definition firsts_of (nl : list N) : first_tab := iter (S (S (N.to_nat nnt))) (first_step nl) [].

  (* everything below is parameterised by tables computed ONCE (nullable set, FIRST sets, productions
     per non-terminal, production bodies): under call-by-value evaluation a defined constant applied to
     the section parameters would be recomputed at every use *)
  Variable nl : list N.
  Variable firsts : first_tab.
  Variable prods_tab : list (N * list N).

  Definition prods_of (B : N) : list N := filter (fun q => p_head (prod_of q) =? B) all_prods.
  Definition mk_prods_tab : list (N * list N) := map (fun B => (B, prods_of B)) (map N.of_nat (seq 0 (S (N.to_nat nnt)))).

  (* ---- items ---- *)
  Definition item := (N * nat)%type.                 (* production, dot *)
  Definition item_eqb (a b : item) : bool := (fst a =? fst b) && Nat.eqb (snd a) (snd b).
  Definition litem := (item * list N)%type.          (* with look-ahead set *)

  Definition next_sym (it : item) : option symbol := nth_error (p_body (prod_of (fst it))) (snd it).
  Definition rest_after (it : item) : list symbol := skipn (S (snd it)) (p_body (prod_of (fst it))).

  (* add look-aheads to an item of a set; returns the new set and whether it changed *)
  Fixpoint add_item (s : list litem) (it : item) (la : list N) : list litem * bool :=
    match s with
    | [] => ([(it, la)], true)
    | (jt, lb) :: t =>
      if item_eqb it jt then
        if subset la lb then (s, false) else ((jt, union lb la) :: t, true)
      else let '(t', ch) := add_item t it la in ((jt, lb) :: t', ch)
    end.

  (* closure, computed at the level of non-terminals: which look-aheads are requested for the items
     [B -> . gamma] of each non-terminal B *)
  Definition prods_for (B : N) : list N :=
    match find (fun e => fst e =? B) prods_tab with Some e => snd e | None => [] end.

  Definition req_tab := list (N * list N).
  Fixpoint req_add (rt : req_tab) (B : N) (la : list N) : req_tab * bool :=
    match rt with
    | [] => ([(B, la)], true)
    | (C, lb) :: t =>
      if C =? B then (if subset la lb then (rt, false) else ((C, union lb la) :: t, true))
      else let '(t', ch) := req_add t B la in ((C, lb) :: t', ch)
    end.

  Definition req_pass (rt : req_tab) : req_tab * bool :=
    fold_left (fun acc e =>
      let '(B, la) := e in
      fold_left (fun acc2 q =>
        match p_body (prod_of q) with
        | NT C :: rest =>
          let '(r2, ch2) := req_add (fst acc2) C (first_seq nl firsts rest la) in (r2, ch2 || snd acc2)
        | _ => acc2
        end) (prods_for B) acc) rt (rt, false).

  Fixpoint req_fix (fuel : nat) (rt : req_tab) : req_tab :=
    match fuel with
    | O => rt
    | S f => let '(rt', ch) := req_pass rt in if ch then req_fix f rt' else rt'
    end.

  Definition cfuel : nat := 200.

  Definition closure (fuel : nat) (kernel : list litem) : list litem :=
    let rt0 := fold_left (fun acc li =>
                 match next_sym (fst li) with
                 | Some (NT B) => fst (req_add acc B (first_seq nl firsts (rest_after (fst li)) (snd li)))
                 | _ => acc
                 end) kernel [] in
    let rt := req_fix fuel rt0 in
    (* kernel items that are themselves initial items [q, 0] (only the augmented one) are kept as they are *)
    kernel ++ flat_map (fun e => let '(B, la) := e in
                                 flat_map (fun q => if existsb (fun li => item_eqb (fst li) (q, O)) kernel then [] else [((q, O), la)])
                                          (prods_for B)) rt.

  (* kernel of GOTO(s, X) from a closed set *)
  Definition goto_kernel (cl : list litem) (X : symbol) : list litem :=
    flat_map (fun li => match next_sym (fst li) with
                        | Some Y => if symbol_eqb X Y then [((fst (fst li), S (snd (fst li))), snd li)] else []
                        | None => []
                        end) cl.

  Definition next_syms (cl : list litem) : list symbol :=
    fold_left (fun acc li => match next_sym (fst li) with
                             | Some Y => if existsb (symbol_eqb Y) acc then acc else acc ++ [Y]
                             | None => acc
                             end) cl [].

  (* ---- the automaton: states are kernels (with look-aheads); cores identify states ---- *)
  Definition core_eqb (a b : list litem) : bool :=
    Nat.eqb (length a) (length b) &&
    forallb (fun li => existsb (fun lj => item_eqb (fst li) (fst lj)) b) a.

  Definition automaton := (list (list litem) * list (N * symbol * N))%type.   (* kernels by state number, transitions *)

  Fixpoint find_state (ks : list (list litem)) (k : list litem) (i : N) : option N :=
    match ks with
    | [] => None
    | k' :: t => if core_eqb k k' then Some i else find_state t k (i + 1)
    end.

  (* merge the look-aheads of kernel k into state i; report change *)
  Definition merge_into (ks : list (list litem)) (i : N) (k : list litem) : list (list litem) * bool :=
    let old := nth (N.to_nat i) ks [] in
    let '(new, ch) := fold_left (fun acc li => let '(s, c) := add_item (fst acc) (fst li) (snd li) in (s, c || snd acc)) k (old, false) in
    (firstn (N.to_nat i) ks ++ [new] ++ skipn (S (N.to_nat i)) ks, ch).

  (* process one state: (re)compute its closure and push kernels / look-aheads to its successors;
     returns the automaton and the list of states that became dirty *)
  Definition process (au : automaton) (i : N) : automaton * list N :=
    let '(ks, trs) := au in
    let cl := closure cfuel (nth (N.to_nat i) ks []) in
    fold_left (fun acc X =>
      let '((ks2, trs2), dirty) := acc in
      let k := goto_kernel cl X in
      match find_state ks2 k 0 with
      | Some j =>
        let '(ks3, c) := merge_into ks2 j k in
        let trs3 := if existsb (fun t => (fst (fst t) =? i) && symbol_eqb (snd (fst t)) X) trs2 then trs2 else trs2 ++ [(i, X, j)] in
        ((ks3, trs3), if c then ins j dirty else dirty)
      | None =>
        let j := N.of_nat (length ks2) in
        ((ks2 ++ [k], trs2 ++ [(i, X, j)]), ins j dirty)
      end) (next_syms cl) ((ks, trs), []).

  Fixpoint build_automaton (fuel : nat) (au : automaton) (dirty : list N) : automaton :=
    match fuel with
    | O => au
    | S f =>
      match dirty with
      | [] => au
      | i :: rest =>
        let '(au', d) := process au i in
        build_automaton f au' (union rest d)
      end
    end.

  Definition lalr_automaton : automaton :=
    build_automaton 4000 ([[((aug, O), [eof])]], []) [0].

  (* ---- candidate actions per (state, terminal) ---- *)
  Definition cand_table := list (N * N * list act).

  Fixpoint cand_add (ct : cand_table) (s a : N) (x : act) : cand_table :=
    match ct with
    | [] => [(s, a, [x])]
    | (s', a', l) :: t =>
      if (s' =? s) && (a' =? a) then
        (s', a', if existsb (fun y => match x, y with
                                        | Shift m, Shift n => m =? n
                                        | Reduce p, Reduce q => p =? q
                                        | Accept, Accept => true
                                        | _, _ => false end) l then l else l ++ [x]) :: t
      else (s', a', l) :: cand_add t s a x
    end.

  Definition raw_actions (au : automaton) : cand_table :=
    let '(ks, trs) := au in
    fold_left (fun ct i =>
      let cl := closure cfuel (nth (N.to_nat i) ks []) in
      (* shifts *)
      let ct1 := fold_left (fun c t => match snd (fst t) with
                                        | T a => if fst (fst t) =? i then cand_add c i a (Shift (snd t)) else c
                                        | NT _ => c end) trs ct in
      (* reductions / accept *)
      fold_left (fun c li =>
        match next_sym (fst li) with
        | None =>
          if fst (fst li) =? aug then cand_add c i eof Accept
          else fold_left (fun c2 a => cand_add c2 i a (Reduce (fst (fst li)))) (snd li) c
        | Some _ => c
        end) cl ct1)
      (map N.of_nat (seq 0 (length ks))) [].

  (* ---- precedence: levels are (assoc: 0 left, 1 right, 2 none; terminal handles; production handles) ---- *)
  Variable prec : list (N * list N * list N).

  Inductive handle := HT (a : N) | HP (p : N).
  Definition handle_of (a : N) (x : act) : option handle :=
    match x with
    | Shift _ => Some (HT a)
    | Reduce p =>
      match find (fun X => match X with T _ => true | NT _ => false end) (p_body (prod_of p)) with
      | Some (T b) => Some (HT b)
      | _ => Some (HP p)
      end
    | Accept => None
    end.

  Fixpoint level_of (h : handle) (lv : list (N * list N * list N)) (i : nat) : option (nat * N) :=
    match lv with
    | [] => None
    | (assoc, ts, ps) :: t =>
      if match h with HT a => memN a ts | HP p => memN p ps end then Some (i, assoc) else level_of h t (S i)
    end.

  Definition act_eqb (x y : act) : bool :=
    match x, y with
    | Shift m, Shift n => m =? n
    | Reduce p, Reduce q => p =? q
    | Accept, Accept => true
    | _, _ => false
    end.

  (* Some true: x beats y; Some false: y stays; None: unresolved *)
  Definition beats (a : N) (x y : act) : option bool :=
    if act_eqb x y then Some false else
    match handle_of a x, handle_of a y with
    | Some hx, Some hy =>
      match level_of hx prec O, level_of hy prec O with
      | Some (ox, ax), Some (oy, _) =>
        if (ox <? oy)%nat then Some true
        else if (oy <? ox)%nat then Some false
        else match ax, x, y with
             | 0, Reduce _, Shift _ => Some true
             | 0, Shift _, Reduce _ => Some false
             | 1, Shift _, Reduce _ => Some true
             | 1, Reduce _, Shift _ => Some false
             | _, _, _ => None
             end
      | _, _ => None
      end
    | _, _ => None
    end.

  Definition resolve (a : N) (l : list act) : option act :=
    match l with
    | [] => None
    | x :: t =>
      fold_left (fun acc y => match acc with
                              | None => None
                              | Some m => match beats a y m with
                                          | Some true => Some y
                                          | Some false => Some m
                                          | None => None
                                          end
                              end) t (Some x)
    end.

  (* the table, and the list of unresolved entries *)
  Definition lalr_table : table * list (N * N * list act) :=
    let au := lalr_automaton in
    let raw := raw_actions au in
    let acts := flat_map (fun e => let '(s, a, l) := e in
                                   match l with
                                   | [x] => [(s, a, x)]
                                   | _ => match resolve a l with Some x => [(s, a, x)] | None => [] end
                                   end) raw in
    let confl := filter (fun e => let '(s, a, l) := e in
                                  match l with [_] => false | _ => match resolve a l with Some _ => false | None => true end end) raw in
    let gotos := flat_map (fun t => match snd (fst t) with NT A => [(fst (fst t), A, snd t)] | T _ => [] end) (snd au) in
    ({| t_action := acts; t_goto := gotos |}, confl).
End Lalr.

(* the LALR(1) table of G with precedence levels prec, and its unresolved entries *)
Definition lalr (G : grammar) (start eof nnt : N) (prec : list (N * list N * list N)) :
    table * list (N * N * list act) :=
  let nl := nullables G start nnt in
  let ft := firsts_of G start nnt nl in
  let pt := mk_prods_tab G start nnt in
  lalr_table G start eof nnt nl ft pt prec.

(* ---- entry-for-entry comparison of two tables modulo a renumbering of states ---- *)
Section Iso.
  Variable t1 t2 : table.
  Variable nterm nnt : N.        (* terminals 0..nterm (nterm = end marker), non-terminals 0..nnt-1 *)

  Definition mapping := list (N * N).
  Definition map_get (m : mapping) (x : N) : option N :=
    match find (fun e => fst e =? x) m with Some e => Some (snd e) | None => None end.
  Definition map_inv (m : mapping) (y : N) : option N :=
    match find (fun e => snd e =? y) m with Some e => Some (fst e) | None => None end.

  (* try to relate s1 ~ s2; None on inconsistency; otherwise the mapping and the new pairs to visit *)
  Definition relate (m : mapping) (todo : list (N * N)) (s1 s2 : N) : option (mapping * list (N * N)) :=
    match map_get m s1, map_inv m s2 with
    | Some s2', _ => if s2' =? s2 then Some (m, todo) else None
    | None, Some _ => None
    | None, None => Some ((s1, s2) :: m, (s1, s2) :: todo)
    end.

  Definition row_check (m : mapping) (todo : list (N * N)) (s1 s2 : N) : option (mapping * list (N * N)) :=
    let terms := map N.of_nat (seq 0 (S (N.to_nat nterm))) in
    let nts := map N.of_nat (seq 0 (N.to_nat nnt)) in
    let r1 := fold_left (fun acc a =>
      match acc with
      | None => None
      | Some (m', td) =>
        match action t1 s1 a, action t2 s2 a with
        | None, None => Some (m', td)
        | Some (Shift x), Some (Shift y) => relate m' td x y
        | Some (Reduce p), Some (Reduce q) => if p =? q then Some (m', td) else None
        | Some Accept, Some Accept => Some (m', td)
        | _, _ => None
        end
      end) terms (Some (m, todo)) in
    fold_left (fun acc A =>
      match acc with
      | None => None
      | Some (m', td) =>
        match goto t1 s1 A, goto t2 s2 A with
        | None, None => Some (m', td)
        | Some x, Some y => relate m' td x y
        | _, _ => None
        end
      end) nts r1.

  Fixpoint iso_loop (fuel : nat) (m : mapping) (todo : list (N * N)) : option mapping :=
    match fuel with
    | O => None
    | S f =>
      match todo with
      | [] => Some m
      | (s1, s2) :: t =>
        match row_check m t s1 s2 with
        | Some (m', t') => iso_loop f m' t'
        | None => None
        end
      end
    end.

  (* every entry of either table sits in a related (reachable) state: no extra entries *)
  Definition table_iso : bool :=
    match iso_loop 4000 [(0, 0)] [(0, 0)] with
    | None => false
    | Some m =>
      forallb (fun e => match map_get m (fst (fst e)) with Some _ => true | None => false end) (t_action t1)
      && forallb (fun e => match map_get m (fst (fst e)) with Some _ => true | None => false end) (t_goto t1)
      && forallb (fun e => match map_inv m (fst (fst e)) with Some _ => true | None => false end) (t_action t2)
      && forallb (fun e => match map_inv m (fst (fst e)) with Some _ => true | None => false end) (t_goto t2)
    end.
End Iso.
