(* Grammars, parse trees, LR tables as data, and the shift/reduce driver of
   internal/ebnf/parser/parser.go (Parse, ParseAndBuildAST, ParseAndEvaluate) as a
   step function with an event trace (token callbacks and production callbacks). *)
From Coq Require Import List Bool Arith NArith Lia.
Import ListNotations.
Local Open Scope N_scope.

Inductive symbol := T (a : N) | NT (A : N).

Definition symbol_eqb (x y : symbol) : bool :=
  match x, y with
  | T a, T b => a =? b
  | NT a, NT b => a =? b
  | _, _ => false
  end.

Lemma symbol_eqb_spec x y : symbol_eqb x y = true <-> x = y.
Proof.
  destruct x, y; simpl; split; intros H; try discriminate.
  - apply N.eqb_eq in H. subst. reflexivity.
  - inversion H. apply N.eqb_refl.
  - apply N.eqb_eq in H. subst. reflexivity.
  - inversion H. apply N.eqb_refl.
Qed.

Record prod := mkProd { p_head : N; p_body : list symbol }.
Definition grammar := list prod.

Inductive act := Shift (s : N) | Reduce (p : N) | Accept.

Record table := {
  t_action : list (N * N * act);     (* state, terminal, action *)
  t_goto : list (N * N * N)          (* state, non-terminal, next state *)
}.

Definition action (tb : table) (s a : N) : option act :=
  match find (fun e => (fst (fst e) =? s) && (snd (fst e) =? a)) (t_action tb) with
  | Some e => Some (snd e)
  | None => None
  end.

Definition goto (tb : table) (s A : N) : option N :=
  match find (fun e => (fst (fst e) =? s) && (snd (fst e) =? A)) (t_goto tb) with
  | Some e => Some (snd e)
  | None => None
  end.

(* ---- input: the significant tokens (terminal indices) and how the token stream ends ---- *)
Inductive stream_end := EndOfInput | LexError.

(* ---- events: exactly the callbacks of Parse ---- *)
Inductive event := EvTok (i : nat) | EvProd (p : N).

Inductive outcome :=
| OAccept
| OSyntaxError (i : nat)     (* ACTION lookup failed with look-ahead token number i (i = #tokens: the end marker) *)
| OLexError                  (* the lexer failed while reading token number #tokens *)
| OPanic                     (* the Go code would index out of range *)
| OAbort (e : event)         (* the callback for this event returned an error *)
| OFuel.

Section Driver.
  Variable G : grammar.
  Variable tb : table.
  Variable eof : N.          (* terminal index of the end marker *)
  Variable err_state : N.    (* what a missing GOTO pushes (Go: -1); no ACTION entry exists for it *)
  Variable toks : list N.
  Variable fin : stream_end.

  Definition cfg := (list N * nat)%type.      (* state stack (top first), index of the look-ahead token *)

  Inductive stepres :=
  | SEmit (e : event) (c : cfg)
  | SDone (o : outcome).

  Definition lookahead (i : nat) : N := nth i toks eof.

  Definition step (c : cfg) : stepres :=
    let '(St, i) := c in
    if (length toks <=? i)%nat && (match fin with LexError => true | EndOfInput => false end)
    then SDone OLexError
    else
      let s := hd 0 St in
      match action tb s (lookahead i) with
      | None => SDone (OSyntaxError i)
      | Some (Shift s') => SEmit (EvTok i) (s' :: St, S i)
      | Some (Reduce p) =>
        match nth_error G (N.to_nat p) with
        | None => SDone OPanic
        | Some pr =>
          let S' := skipn (length (p_body pr)) St in
          let t := hd 0 S' in
          let next := match goto tb t (p_head pr) with Some n => n | None => err_state end in
          SEmit (EvProd p) (next :: S', i)
        end
      | Some Accept => SDone OAccept
      end.

  (* Parse without callbacks failing: the full trace *)
  Fixpoint run (fuel : nat) (c : cfg) : list event * outcome :=
    match fuel with
    | O => ([], OFuel)
    | S f =>
      match step c with
      | SDone o => ([], o)
      | SEmit e c' => let '(tr, o) := run f c' in (e :: tr, o)
      end
    end.

  (* Parse with callbacks: [cb e = true] means the callback returned nil *)
  Fixpoint run_cb (cb : event -> bool) (fuel : nat) (c : cfg) : list event * outcome :=
    match fuel with
    | O => ([], OFuel)
    | S f =>
      match step c with
      | SDone o => ([], o)
      | SEmit e c' =>
        if cb e then let '(tr, o) := run_cb cb f c' in (e :: tr, o)
        else ([e], OAbort e)
      end
    end.

  Definition init : cfg := ([0], O).

  (* cut a failure-free trace at the first event whose callback fails *)
  Fixpoint cut (cb : event -> bool) (tr : list event) (o : outcome) : list event * outcome :=
    match tr with
    | [] => ([], o)
    | e :: tr' => if cb e then let '(t, o') := cut cb tr' o in (e :: t, o') else ([e], OAbort e)
    end.

  Theorem abort_at_first_error cb fuel : forall c,
    run_cb cb fuel c = cut cb (fst (run fuel c)) (snd (run fuel c)).
  Proof.
    induction fuel as [|f IH]; intros c; simpl; [reflexivity|].
    destruct (step c) as [e c'|o]; [|reflexivity].
    rewrite IH. destruct (run f c') as [tr o]. simpl. reflexivity.
  Qed.
End Driver.
