(* The converse of Cfg/LRComplete.v: every tree the table-driven parser BUILDS is canonical
   (classifiable by the rules that write the documented disambiguation down).

   The argument is an abstract interpretation of the driver over (state, class of the tree
   stored with that state) pairs, with the current look-ahead token for entries pushed by a
   GOTO (the look-ahead that triggered the reduction is still the look-ahead afterwards):

     Wany : entries pushed by a shift (class 0; any token may follow)
     W    : entries pushed by a GOTO, with the look-aheads under which that happens
     E    : which entry can lie directly below which

   [canon_check] validates that the three finite sets are closed under the driver's steps and
   that every reduction that can happen finds a classification rule for the classes of the
   trees it pops.  Theorem [lr_builds_canonical]: when the check passes (and the table passes
   [safe_check]), the tree built for ANY accepted input is classifiable. *)
From Coq Require Import List Bool Arith NArith Lia.
From Verif Require Import Cfg.LR Cfg.LRSafe Cfg.LRComplete.
Import ListNotations.
Local Open Scope N_scope.

Section Sets.
  Variable Wany : list (N * N).
  Variable W : list (N * N * list N).
  Variable E : list (N * N * N * N).             (* (s, c) lies directly below (s', c') *)

  Definition inWany (s c : N) : bool := existsb (fun e => (fst e =? s) && (snd e =? c)) Wany.
  Definition inW (s c a : N) : bool :=
    existsb (fun e => let '(s', c', las) := e in (s' =? s) && (c' =? c) && mem a las) W.
  Definition inTop (s c a : N) : bool := inWany s c || inW s c a.
  Definition inE (lo hi : N * N) : bool :=
    existsb (fun e => let '(s, c, s', c') := e in
                      (s =? fst lo) && (c =? snd lo) && (s' =? fst hi) && (c' =? snd hi)) E.
  Definition preds (hi : N * N) : list (N * N) :=
    flat_map (fun e => let '(s, c, s', c') := e in
                       if (s' =? fst hi) && (c' =? snd hi) then [(s, c)] else []) E.

  (* the classes (bottom to top) of m entries ending at e, and the entry below them *)
  Fixpoint back (m : nat) (e : N * N) : list (list N * (N * N)) :=
    match m with
    | O => [([], e)]
    | S m' => flat_map (fun e' => map (fun x => (fst x ++ [snd e], snd x)) (back m' e')) (preds e)
    end.

  Lemma inE_preds lo hi : inE lo hi = true -> In lo (preds hi).
  Proof.
    unfold inE, preds. rewrite existsb_exists. intros [[[[s c] s'] c'] [Hin Hb]].
    apply andb_prop in Hb as [Hb H4]. apply andb_prop in Hb as [Hb H3]. apply andb_prop in Hb as [H1 H2].
    apply N.eqb_eq in H1, H2, H3, H4. apply in_flat_map. exists (s, c, s', c'). split; [exact Hin|].
    rewrite H3, H4, !N.eqb_refl. simpl. left. destruct lo. simpl in *. subst. reflexivity.
  Qed.
End Sets.

Section Check.
  Variable G : grammar.
  Variable tb : table.
  Variable rules : list crule.
  Variable Wany : list (N * N).
  Variable W : list (N * N * list N).
  Variable E : list (N * N * N * N).

  Definition entry_ok (s c la : N) : bool :=
    match action tb s la with
    | Some (Shift s') => inE E (s, c) (s', 0) && inWany Wany s' 0
    | Some (Reduce p) =>
      match nth_error G (N.to_nat p) with
      | Some pr =>
        forallb (fun x =>
                   match rule_for rules p (fst x) with
                   | Some r => match goto tb (fst (snd x)) (p_head pr) with
                               | Some s' => inE E (snd x) (s', cr_cls r) && inTop Wany W s' (cr_cls r) la
                               | None => true
                               end
                   | None => false
                   end) (back E (length (p_body pr)) (s, c))
      | None => true
      end
    | _ => true
    end.

  Definition canon_check : bool :=
    inWany Wany 0 0
    && forallb (fun e => forallb (fun ent => if fst (fst ent) =? fst e then entry_ok (fst e) (snd e) (snd (fst ent)) else true)
                                 (t_action tb)) Wany
    && forallb (fun e => let '(s, c, las) := e in forallb (entry_ok s c) las) W.
End Check.

(* ---- computing the three sets ---- *)
Section Saturate.
  Variable G : grammar.
  Variable tb : table.
  Variable rules : list crule.

  Definition cstate := (list (N * N) * list (N * N * list N) * list (N * N * N * N))%type.

  Definition add_wany (e : N * N) (st : cstate) : cstate :=
    let '(Wany, W, E) := st in if inWany Wany (fst e) (snd e) then st else (e :: Wany, W, E).

  Definition add_w (s c a : N) (st : cstate) : cstate :=
    let '(Wany, W, E) := st in
    if inW W s c a then st
    else if existsb (fun g => let '(s', c', _) := g in (s' =? s) && (c' =? c)) W
         then (Wany, map (fun g => let '(s', c', las) := g in
                                   if (s' =? s) && (c' =? c) then (s', c', a :: las) else g) W, E)
         else (Wany, (s, c, [a]) :: W, E).

  Definition add_e (lo hi : N * N) (st : cstate) : cstate :=
    let '(Wany, W, E) := st in
    if inE E lo hi then st else (Wany, W, (fst lo, snd lo, fst hi, snd hi) :: E).

  Definition process (st : cstate) (s c la : N) : cstate :=
    match action tb s la with
    | Some (Shift s') => add_e (s, c) (s', 0) (add_wany (s', 0) st)
    | Some (Reduce p) =>
      match nth_error G (N.to_nat p) with
      | Some pr =>
        fold_left (fun st x =>
                     match rule_for rules p (fst x) with
                     | Some r => match goto tb (fst (snd x)) (p_head pr) with
                                 | Some s' => add_e (snd x) (s', cr_cls r) (add_w s' (cr_cls r) la st)
                                 | None => st
                                 end
                     | None => st
                     end) (back (snd st) (length (p_body pr)) (s, c)) st
      | None => st
      end
    | _ => st
    end.

  Definition c_round (st : cstate) : cstate :=
    let '(Wany, W, _) := st in
    let st1 := fold_left (fun st e =>
                 fold_left (fun st ent => if fst (fst ent) =? fst e then process st (fst e) (snd e) (snd (fst ent)) else st)
                           (t_action tb) st) Wany st in
    fold_left (fun st e => let '(s, c, las) := e in fold_left (fun st la => process st s c la) las st) W st1.

  Definition c_size (st : cstate) : nat :=
    let '(Wany, W, E) := st in
    (length Wany + fold_left (fun n e => n + length (snd e))%nat W O + length E)%nat.

  (* rounds until nothing is added (at most n) *)
  Fixpoint c_fix (n : nat) (st : cstate) : cstate :=
    match n with
    | O => st
    | S n' => let st' := c_round st in if Nat.eqb (c_size st') (c_size st) then st else c_fix n' st'
    end.

  Definition c_saturate (n : nat) : cstate := c_fix n ([(0, 0)], [], []).
End Saturate.

(* ---- soundness ---- *)
Section Sound.
  Variable G : grammar.
  Variable tb : table.
  Variables eof err_state start : N.
  Variable past : N -> list symbol.
  Variable rules : list crule.
  Variable Wany : list (N * N).
  Variable W : list (N * N * list N).
  Variable E : list (N * N * N * N).
  Variable toks : list N.
  Variable fin : stream_end.

  Hypothesis Hsafe : safe_check G tb eof err_state start past = true.
  Hypothesis Hcanon : canon_check G tb rules Wany W E = true.
  Hypothesis Hneof : ~ In eof toks.

  Notation classify := (classify rules).
  Notation step := (step G tb eof err_state toks fin).
  Notation run := (run G tb eof err_state toks fin).
  Notation la := (lookahead eof toks).

  (* entries: top first; the bottom entry belongs to the initial state and has class 0 *)
  Fixpoint chain (ents : list (N * N)) : Prop :=
    match ents with
    | [] => True
    | e1 :: rest => match rest with e2 :: _ => inE E e2 e1 = true | [] => True end /\ chain rest
    end.

  Definition canon_inv (c : cfg) (ts : list tree) : Prop :=
    exists cls ents,
      Forall2 (fun t k => classify t = Some k) ts cls /\
      map fst ents = fst c /\ map snd ents = cls ++ [0] /\
      chain ents /\
      inTop Wany W (hd 0 (fst c)) (hd 0 (cls ++ [0])) (la (snd c)) = true.

  Lemma chain_skipn m : forall ents, chain ents -> chain (skipn m ents).
  Proof.
    induction m as [|m IH]; intros ents H; [exact H|]. destruct ents as [|e ents]; [exact I|].
    simpl. apply IH. destruct H as [_ H]. exact H.
  Qed.

  Lemma back_spec m : forall ents, chain ents -> (m < length ents)%nat ->
    In (rev (map snd (firstn m ents)), hd (0, 0) (skipn m ents)) (back E m (hd (0, 0) ents)).
  Proof.
    induction m as [|m IH]; intros ents Hc Hl.
    - simpl. left. reflexivity.
    - destruct ents as [|e1 [|e2 rest]]; simpl in Hl; try lia.
      destruct Hc as [He Hc]. cbn [back hd]. apply in_flat_map. exists e2. split.
      + apply inE_preds. exact He.
      + apply in_map_iff. specialize (IH (e2 :: rest) Hc). cbn [hd] in IH.
        exists (rev (map snd (firstn m (e2 :: rest))), hd (0, 0) (skipn m (e2 :: rest))). split.
        * reflexivity.
        * apply IH. simpl. lia.
  Qed.

  Lemma inTop_ok s c a x : inTop Wany W s c a = true -> action tb s a = Some x ->
    entry_ok G tb rules Wany W E s c a = true.
  Proof.
    intros Ht Ha. unfold canon_check in Hcanon. apply andb_prop in Hcanon as [H12 H3].
    apply andb_prop in H12 as [_ H2]. unfold inTop in Ht. apply orb_prop in Ht as [Ht|Ht].
    - unfold inWany in Ht. apply existsb_exists in Ht as [[s' c'] [Hin Hb]]. simpl in Hb.
      apply andb_prop in Hb as [E1 E2]. apply N.eqb_eq in E1, E2. subst.
      rewrite forallb_forall in H2. specialize (H2 _ Hin). rewrite forallb_forall in H2.
      apply action_In in Ha. specialize (H2 _ Ha). simpl in H2. rewrite N.eqb_refl in H2. exact H2.
    - unfold inW in Ht. apply existsb_exists in Ht as [[[s' c'] las] [Hin Hb]].
      apply andb_prop in Hb as [Hb Hm]. apply andb_prop in Hb as [E1 E2]. apply N.eqb_eq in E1, E2. subst.
      rewrite forallb_forall in H3. specialize (H3 _ Hin). simpl in H3. rewrite forallb_forall in H3.
      apply H3. apply mem_In. exact Hm.
  Qed.

  Lemma classify_list_of ts : forall cls, Forall2 (fun t k => classify t = Some k) ts cls ->
    classify_list rules ts = Some cls.
  Proof.
    induction ts as [|t ts IH]; intros cls H; inversion H; subst; simpl; [reflexivity|].
    match goal with Hc : classify t = Some _ |- _ => rewrite Hc end.
    rewrite (IH _ ltac:(eassumption)). reflexivity.
  Qed.

  Lemma Forall2_firstn {X Y} (R : X -> Y -> Prop) m : forall l1 l2, Forall2 R l1 l2 ->
    Forall2 R (firstn m l1) (firstn m l2).
  Proof.
    induction m as [|m IH]; intros l1 l2 H; simpl; [constructor|].
    inversion H; subst; constructor; auto.
  Qed.

  Lemma Forall2_skipn {X Y} (R : X -> Y -> Prop) m : forall l1 l2, Forall2 R l1 l2 ->
    Forall2 R (skipn m l1) (skipn m l2).
  Proof.
    induction m as [|m IH]; intros l1 l2 H; simpl; [exact H|].
    inversion H; subst; [constructor | auto].
  Qed.

  Lemma Forall2_rev' {X Y} (R : X -> Y -> Prop) l1 : forall l2, Forall2 R l1 l2 -> Forall2 R (rev l1) (rev l2).
  Proof.
    induction l1 as [|x l1 IH]; intros l2 H; inversion H; subst; simpl; [constructor|].
    apply Forall2_app; [apply IH; assumption | constructor; [assumption | constructor]].
  Qed.

  Lemma Forall2_len {X Y} (R : X -> Y -> Prop) l1 l2 : Forall2 R l1 l2 -> length l1 = length l2.
  Proof. induction 1; simpl; auto. Qed.

  Lemma hd_map_fst (l : list (N * N)) : hd 0 (map fst l) = fst (hd (0, 0) l).
  Proof. destruct l; reflexivity. Qed.
  Lemma hd_map_snd (l : list (N * N)) : hd 0 (map snd l) = snd (hd (0, 0) l).
  Proof. destruct l; reflexivity. Qed.

  (* what [good] knows about the depth of the stack *)
  Lemma good_depth St i ts a p pr :
    good G tb toks (St, i) ts -> action tb (hd 0 St) a = Some (Reduce p) ->
    nth_error G (N.to_nat p) = Some pr ->
    (length (p_body pr) <= length ts)%nat /\ length St = S (length ts).
  Proof.
    intros [syms [Hl [Hroots _]]] Ha Hn. simpl in Hl.
    destruct (linked_nonempty _ _ _ Hl) as [s [St0 [-> Hlen]]].
    destruct (linked_prefix _ _ _ _ _ _ Hsafe _ _ Hl) as [c1 Hc1]. simpl in Hc1, Ha.
    destruct (safe_parts G tb eof err_state start past Hsafe) as [_ [_ [Pc _]]].
    destruct (Pc _ _ _ (action_In _ _ _ _ Ha)) as [pr' [Hn' Hpre]]. rewrite Hn in Hn'. inversion Hn'; subst pr'.
    apply sym_prefix_spec in Hpre as [c2 Hc2].
    assert (length ts = length syms) by (rewrite <- Hroots; symmetry; apply map_length).
    split.
    - rewrite H, Hc1, Hc2, !app_length, rev_length. lia.
    - simpl. lia.
  Qed.

  Lemma good_nonempty St i ts : good G tb toks (St, i) ts -> exists s St0, St = s :: St0.
  Proof.
    intros [syms [Hl _]]. simpl in Hl.
    destruct (linked_nonempty _ _ _ Hl) as [s [St0 [-> _]]]. eauto.
  Qed.

  Lemma canon_step c ts : good G tb toks c ts -> canon_inv c ts ->
    match step c with
    | SEmit e c' => canon_inv c' (build_step G toks ts e) \/ dead err_state c'
    | SDone _ => True
    end.
  Proof.
    destruct c as [St i]. intros Hg [cls [ents [HF [Hfst [Hsnd [Hch Htop]]]]]]. simpl in Hfst, Hsnd, Htop.
    unfold LR.step. destruct ((length toks <=? i)%nat && _); [exact I|].
    destruct (action tb (hd 0 St) (la i)) as [[s'|p|]|] eqn:Ea; [| |exact I|exact I].
    - (* shift *)
      left. pose proof (inTop_ok _ _ _ _ Htop Ea) as Hok. unfold entry_ok in Hok. rewrite Ea in Hok.
      apply andb_prop in Hok as [He Hw].
      exists (0 :: cls), ((s', 0) :: ents). cbn [fst snd build_step]. split; [|split; [|split; [|split]]].
      + constructor; [reflexivity | exact HF].
      + simpl. rewrite Hfst. reflexivity.
      + simpl. rewrite Hsnd. reflexivity.
      + destruct ents as [|e2 rest].
        * simpl. auto.
        * split; [|exact Hch]. rewrite <- Hfst, <- Hsnd in He. simpl in He. destruct e2 as [s2 c2]. simpl in He. exact He.
      + simpl. unfold inTop. rewrite Hw. reflexivity.
    - (* reduce *)
      destruct (nth_error G (N.to_nat p)) as [pr|] eqn:Hn.
      2:{ pose proof (safe_parts G tb eof err_state start past Hsafe) as [_ [_ [Pc _]]].
          destruct (Pc _ _ _ (action_In _ _ _ _ Ea)) as [pr' [Hn' _]]. rewrite Hn in Hn'. discriminate. }
      set (m := length (p_body pr)).
      destruct (good_depth _ _ _ _ _ _ Hg Ea Hn) as [Hm HlenSt]. fold m in Hm.
      pose proof (Forall2_len _ _ _ HF) as Hlc.
      assert (Hle : length ents = S (length ts)) by (rewrite <- HlenSt, <- Hfst; symmetry; apply map_length).
      pose proof (inTop_ok _ _ _ _ Htop Ea) as Hok. unfold entry_ok in Hok. rewrite Ea, Hn in Hok. fold m in Hok.
      rewrite forallb_forall in Hok.
      assert (Hhd : (hd 0 St, hd 0 (cls ++ [0])) = hd (0, 0) ents).
      { rewrite <- Hfst, <- Hsnd, hd_map_fst, hd_map_snd. destruct (hd (0, 0) ents). reflexivity. }
      rewrite Hhd in Hok.
      specialize (Hok _ (back_spec m ents Hch ltac:(lia))). cbn [fst snd] in Hok.
      assert (Hks : rev (map snd (firstn m ents)) = rev (firstn m cls)).
      { rewrite <- firstn_map, Hsnd, firstn_app. replace (m - length cls)%nat with O by lia.
        simpl. rewrite app_nil_r. reflexivity. }
      rewrite Hks in Hok.
      destruct (rule_for rules p (rev (firstn m cls))) as [r|] eqn:Er; [|discriminate].
      assert (Hlo : fst (hd (0, 0) (skipn m ents)) = hd 0 (skipn m St)).
      { rewrite <- Hfst, skipn_map, hd_map_fst. reflexivity. }
      rewrite Hlo in Hok.
      destruct (goto tb (hd 0 (skipn m St)) (p_head pr)) as [s'|] eqn:Eg; [|right; reflexivity].
      left. apply andb_prop in Hok as [He Hw].
      exists (cr_cls r :: skipn m cls), ((s', cr_cls r) :: skipn m ents). cbn [fst snd build_step]. rewrite Hn. fold m.
      split; [|split; [|split; [|split]]].
      + constructor.
        * rewrite classify_node.
          rewrite (classify_list_of _ (rev (firstn m cls))); [rewrite Er; reflexivity|].
          apply Forall2_rev'. apply Forall2_firstn. exact HF.
        * apply Forall2_skipn. exact HF.
      + simpl. rewrite <- skipn_map, Hfst. reflexivity.
      + simpl. rewrite <- skipn_map, Hsnd, skipn_app. replace (m - length cls)%nat with O by lia. reflexivity.
      + pose proof (chain_skipn m ents Hch) as Hch'.
        destruct (skipn m ents) as [|e2 rest] eqn:Es.
        * simpl. auto.
        * split; [|exact Hch']. simpl in He. exact He.
      + simpl. exact Hw.
  Qed.

  Theorem lr_canon fuel : forall c ts tr,
    good G tb toks c ts -> canon_inv c ts -> run fuel c = (tr, OAccept) ->
    exists t k, fold_left (build_step G toks) tr ts = [t] /\ classify t = Some k.
  Proof.
    induction fuel as [|f IH]; intros c ts tr Hg Hc Hrun; simpl in Hrun; [discriminate|].
    pose proof (good_step G tb eof err_state start past Hsafe toks fin Hneof c ts Hg) as Hs.
    pose proof (canon_step c ts Hg Hc) as Hcs.
    destruct (step c) as [e c'|o] eqn:Es.
    - destruct (run f c') as [tr' o'] eqn:Er. inversion Hrun; subst. simpl.
      assert (Hdead : dead err_state c' -> False).
      { intros Hd. destruct f as [|f']; simpl in Er; [discriminate|].
        pose proof (dead_step G tb eof err_state start past Hsafe toks fin c' Hd) as Hd'.
        destruct (LR.step G tb eof err_state toks fin c') as [e2 c2|o2]; [destruct Hd'|].
        inversion Er; subst. destruct Hd'. }
      destruct Hs as [Hg'|Hd]; [|destruct (Hdead Hd)].
      destruct Hcs as [Hc'|Hd]; [|destruct (Hdead Hd)].
      apply (IH _ _ _ Hg' Hc' Er).
    - inversion Hrun; subst. destruct Hs as [t [-> _]].
      destruct Hc as [cls [ents [HF _]]]. inversion HF as [|t' k ts' cls' Hk HF']; subst.
      exists t, k. split; [reflexivity | exact Hk].
  Qed.

  Corollary lr_builds_canonical fuel tr :
    run fuel init = (tr, OAccept) ->
    exists t k, build G toks tr = [t] /\ classify t = Some k.
  Proof.
    apply lr_canon.
    - exists []. simpl. repeat split; [constructor | lia].
    - exists [], [(0, 0)]. simpl. split; [constructor|]. repeat split.
      unfold canon_check in Hcanon. apply andb_prop in Hcanon as [H12 _]. apply andb_prop in H12 as [H1 _].
      unfold inTop. rewrite H1. reflexivity.
  Qed.
End Sound.
