(* EBNF right-hand sides, their denotation, plain context-free derivations, and the
   translation of extended operators into ordinary productions relative to a naming of the
   synthesised non-terminals.  Theorem [translate_preserves]: when the synthesised names are
   pairwise distinct (per set of alternatives and operator kind) and distinct from every
   non-terminal the user mentions, every user rule generates exactly the terminal strings its
   EBNF text denotes. *)
From Coq Require Import String List Bool Arith Lia.
Import ListNotations.

Inductive sym := ST (a : string) | SN (A : string).
Definition sstr := list sym.
Definition strings := list sstr.
Definition word := list string.

Inductive erhs :=
| ETerm (a : string) (lit : bool)      (* lit: written as a string literal (irrelevant for the language) *)
| ENT (A : string)
| ECat (x y : erhs)
| EAlt (x y : erhs)
| EAltE (x : erhs)            (* x "|"  : trailing empty alternative *)
| EGroup (x : erhs)
| EOpt (x : erhs)
| EStar (x : erhs)
| EPlus (x : erhs).

Inductive kind := KGroup | KOpt | KStar | KPlus.
Definition wrap (k : kind) (x : erhs) : erhs :=
  match k with KGroup => EGroup x | KOpt => EOpt x | KStar => EStar x | KPlus => EPlus x end.

Definition rule := (string * option erhs)%type.      (* lhs "=" [rhs] *)

Definition cross (s1 s2 : strings) : strings :=
  flat_map (fun a => map (fun b => a ++ b) s2) s1.

Lemma in_cross s1 s2 g : In g (cross s1 s2) <-> exists a b, In a s1 /\ In b s2 /\ g = a ++ b.
Proof.
  unfold cross. rewrite in_flat_map. split.
  - intros [a [Ha Hg]]. apply in_map_iff in Hg as [b [<- Hb]]. eauto.
  - intros [a [b [Ha [Hb ->]]]]. exists a. split; [exact Ha|]. apply in_map. exact Hb.
Qed.

Definition seteq (s t : strings) : Prop := (forall a, In a s -> In a t) /\ (forall a, In a t -> In a s).

Section Translate.
  Variable rules : list rule.
  Variable nu : strings -> kind -> string.           (* the synthesised name for (alternatives, kind) *)

  Fixpoint sigma (r : erhs) : strings :=
    match r with
    | ETerm a _ => [[ST a]]
    | ENT A => [[SN A]]
    | ECat x y => cross (sigma x) (sigma y)
    | EAlt x y => sigma x ++ sigma y
    | EAltE x => sigma x ++ [[]]
    | EGroup x => [[SN (nu (sigma x) KGroup)]]
    | EOpt x => [[SN (nu (sigma x) KOpt)]]
    | EStar x => [[SN (nu (sigma x) KStar)]]
    | EPlus x => [[SN (nu (sigma x) KPlus)]]
    end.

  (* the productions one bracket occurrence contributes *)
  Definition req_here (k : kind) (x : erhs) : list (string * sstr) :=
    let X := nu (sigma x) k in
    match k with
    | KGroup => map (fun a => (X, a)) (sigma x)
    | KOpt => map (fun a => (X, a)) (sigma x) ++ [(X, [])]
    | KStar => map (fun a => (X, SN X :: a)) (sigma x) ++ [(X, [])]
    | KPlus => flat_map (fun a => [(X, SN X :: a); (X, a)]) (sigma x)
    end.

  (* sub-expression relation: x occurs in r *)
  Inductive occurs : erhs -> erhs -> Prop :=
  | oc_refl r : occurs r r
  | oc_catl x y r : occurs r x -> occurs r (ECat x y)
  | oc_catr x y r : occurs r y -> occurs r (ECat x y)
  | oc_altl x y r : occurs r x -> occurs r (EAlt x y)
  | oc_altr x y r : occurs r y -> occurs r (EAlt x y)
  | oc_alte x r : occurs r x -> occurs r (EAltE x)
  | oc_group x r : occurs r x -> occurs r (EGroup x)
  | oc_opt x r : occurs r x -> occurs r (EOpt x)
  | oc_star x r : occurs r x -> occurs r (EStar x)
  | oc_plus x r : occurs r x -> occurs r (EPlus x).

  Definition sub (x : erhs) : Prop := exists A r, In (A, Some r) rules /\ occurs x r.

  Lemma occurs_trans a b c : occurs a b -> occurs b c -> occurs a c.
  Proof. intros Hab Hbc. induction Hbc; try (constructor; auto); exact Hab. Qed.

  Lemma sub_down x r : sub r -> occurs x r -> sub x.
  Proof. intros [A [r0 [Hin Ho]]] Hx. exists A, r0. split; [exact Hin | eapply occurs_trans; eauto]. Qed.

  (* non-terminals the user mentions: heads of rules and every ENT in a body *)
  Definition mentioned (A : string) : Prop :=
    (exists b, In (A, b) rules) \/ (exists x, sub x /\ x = ENT A).

  (* ---- the production set ---- *)
  Variable P : list (string * sstr).

  Hypothesis P_spec : forall A b,
    In (A, b) P <->
      (exists r, In (A, Some r) rules /\ In b (sigma r)) \/
      (In (A, None) rules /\ b = []) \/
      (exists k x, sub (wrap k x) /\ In (A, b) (req_here k x)).

  (* ---- names are well chosen ---- *)
  Hypothesis names_fresh : forall k x, sub (wrap k x) -> ~ mentioned (nu (sigma x) k).
  Hypothesis names_inj : forall k x k' x', sub (wrap k x) -> sub (wrap k' x') ->
      nu (sigma x) k = nu (sigma x') k' -> k = k' /\ seteq (sigma x) (sigma x').

  (* ---- denotation of EBNF ---- *)
  Inductive em : erhs -> word -> Prop :=
  | em_term a l : em (ETerm a l) [a]
  | em_nt A r w : In (A, Some r) rules -> em r w -> em (ENT A) w
  | em_nt_empty A : In (A, None) rules -> em (ENT A) []
  | em_cat x y u v : em x u -> em y v -> em (ECat x y) (u ++ v)
  | em_altl x y w : em x w -> em (EAlt x y) w
  | em_altr x y w : em y w -> em (EAlt x y) w
  | em_alte x w : em x w -> em (EAltE x) w
  | em_alte_eps x : em (EAltE x) []
  | em_group x w : em x w -> em (EGroup x) w
  | em_opt x w : em x w -> em (EOpt x) w
  | em_opt_eps x : em (EOpt x) []
  | em_star_nil x : em (EStar x) []
  | em_star_snoc x u v : em (EStar x) u -> em x v -> em (EStar x) (u ++ v)
  | em_plus_one x w : em x w -> em (EPlus x) w
  | em_plus_snoc x u v : em (EPlus x) u -> em x v -> em (EPlus x) (u ++ v).

  (* ---- derivations of the plain grammar, indexed by height ---- *)
  Inductive dv : nat -> sym -> word -> Prop :=
  | dv_t n a : dv n (ST a) [a]
  | dv_n n A b w : In (A, b) P -> dvs n b w -> dv (S n) (SN A) w
  with dvs : nat -> sstr -> word -> Prop :=
  | dvs_nil n : dvs n [] []
  | dvs_cons n X b u v : dv n X u -> dvs n b v -> dvs n (X :: b) (u ++ v).

  Scheme dv_mut := Induction for dv Sort Prop
  with dvs_mut := Induction for dvs Sort Prop.

  Definition derives (X : sym) (w : word) : Prop := exists n, dv n X w.

  Lemma dv_mono : forall n X w, dv n X w -> forall m, n <= m -> dv m X w.
  Proof.
    apply (dv_mut (fun n X w _ => forall m, n <= m -> dv m X w)
                  (fun n b w _ => forall m, n <= m -> dvs m b w)).
    - intros; constructor.
    - intros n A b w Hin Hd IH m Hm. destruct m as [|m]; [lia|]. apply dv_n with b; [exact Hin|]. apply IH. lia.
    - intros; constructor.
    - intros n X b u v Hd IH1 Hds IH2 m Hm. constructor; auto.
  Qed.

  Lemma dvs_mono : forall n b w, dvs n b w -> forall m, n <= m -> dvs m b w.
  Proof.
    apply (dvs_mut (fun n X w _ => forall m, n <= m -> dv m X w)
                   (fun n b w _ => forall m, n <= m -> dvs m b w)).
    - intros; constructor.
    - intros n A b w Hin Hd IH m Hm. destruct m as [|m]; [lia|]. apply dv_n with b; [exact Hin|]. apply IH. lia.
    - intros; constructor.
    - intros n X b u v Hd IH1 Hds IH2 m Hm. constructor; auto.
  Qed.

  Lemma dvs_app n a b u v : dvs n a u -> dvs n b v -> dvs n (a ++ b) (u ++ v).
  Proof.
    intros Ha. revert b v. induction Ha as [n|n X a u1 u2 HX Ha IH]; intros b v Hb; simpl; [exact Hb|].
    rewrite <- app_assoc. constructor; [exact HX | apply IH; exact Hb].
  Qed.

  Lemma dvs_app_inv n a : forall b w, dvs n (a ++ b) w -> exists u v, w = u ++ v /\ dvs n a u /\ dvs n b v.
  Proof.
    induction a as [|X a IH]; intros b w H; simpl in H.
    - exists [], w. repeat split; [constructor | exact H].
    - inversion H as [|n' X' b' u v HX Hr]; subst.
      destruct (IH _ _ Hr) as [u1 [v1 [-> [Ha Hb]]]].
      exists (u ++ u1), v1. rewrite app_assoc. repeat split; [constructor; assumption | exact Hb].
  Qed.

  Lemma dvs_single n X w : dvs n [X] w <-> dv n X w.
  Proof.
    split.
    - intros H. inversion H as [|n' X' b' u v HX Hr]; subst. inversion Hr; subst. rewrite app_nil_r. exact HX.
    - intros H. rewrite <- (app_nil_r w). constructor; [exact H | constructor].
  Qed.

  (* ---- completeness: what the EBNF text denotes is derivable ---- *)
  Lemma req_in_P k x A b : sub (wrap k x) -> In (A, b) (req_here k x) -> In (A, b) P.
  Proof. intros Hs Hin. apply P_spec. right. right. exists k, x. auto. Qed.

  Lemma complete : forall r w, em r w -> sub r -> exists a n, In a (sigma r) /\ dvs n a w.
  Proof.
    induction 1 as [a l|A r w Hin Hem IH|A Hin|x y u v Hx IHx Hy IHy|x y w Hx IHx|x y w Hy IHy|x w Hx IHx|x
                   |x w Hx IHx|x w Hx IHx|x|x|x u v Hs IHs Hx IHx|x w Hx IHx|x u v Hs IHs Hx IHx]; intros Hsub; simpl.
    - exists [ST a], 0. split; [left; reflexivity|]. apply dvs_single. constructor.
    - assert (Hsr : sub r) by (exists A, r; split; [exact Hin | constructor]).
      destruct (IH Hsr) as [a [n [Ha Hd]]].
      exists [SN A], (S n). split; [left; reflexivity|]. apply dvs_single.
      apply dv_n with a; [|exact Hd]. apply P_spec. left. exists r. auto.
    - exists [SN A], 1. split; [left; reflexivity|]. apply dvs_single.
      apply dv_n with []; [|constructor]. apply P_spec. right. left. auto.
    - destruct (IHx (sub_down _ _ Hsub (oc_catl _ _ _ (oc_refl _)))) as [a [n [Ha Hda]]].
      destruct (IHy (sub_down _ _ Hsub (oc_catr _ _ _ (oc_refl _)))) as [b [m [Hb Hdb]]].
      exists (a ++ b), (max n m). split; [apply in_cross; eauto|].
      apply dvs_app; [eapply dvs_mono; eauto; lia | eapply dvs_mono; eauto; lia].
    - destruct (IHx (sub_down _ _ Hsub (oc_altl _ _ _ (oc_refl _)))) as [a [n [Ha Hda]]].
      exists a, n. split; [apply in_or_app; left; exact Ha | exact Hda].
    - destruct (IHy (sub_down _ _ Hsub (oc_altr _ _ _ (oc_refl _)))) as [a [n [Ha Hda]]].
      exists a, n. split; [apply in_or_app; right; exact Ha | exact Hda].
    - destruct (IHx (sub_down _ _ Hsub (oc_alte _ _ (oc_refl _)))) as [a [n [Ha Hda]]].
      exists a, n. split; [apply in_or_app; left; exact Ha | exact Hda].
    - exists [], 0. split; [apply in_or_app; right; left; reflexivity | constructor].
    - (* group *)
      destruct (IHx (sub_down _ _ Hsub (oc_group _ _ (oc_refl _)))) as [a [n [Ha Hda]]].
      exists [SN (nu (sigma x) KGroup)], (S n). split; [left; reflexivity|]. apply dvs_single.
      apply dv_n with a; [|exact Hda]. apply (req_in_P KGroup x); [exact Hsub|]. simpl. apply in_map. exact Ha.
    - (* opt, some *)
      destruct (IHx (sub_down _ _ Hsub (oc_opt _ _ (oc_refl _)))) as [a [n [Ha Hda]]].
      exists [SN (nu (sigma x) KOpt)], (S n). split; [left; reflexivity|]. apply dvs_single.
      apply dv_n with a; [|exact Hda]. apply (req_in_P KOpt x); [exact Hsub|]. simpl.
      apply in_or_app. left. apply in_map_iff. exists a. auto.
    - (* opt, none *)
      exists [SN (nu (sigma x) KOpt)], 1. split; [left; reflexivity|]. apply dvs_single.
      apply dv_n with []; [|constructor]. apply (req_in_P KOpt x); [exact Hsub|]. simpl.
      apply in_or_app. right. left. reflexivity.
    - (* star, nil *)
      exists [SN (nu (sigma x) KStar)], 1. split; [left; reflexivity|]. apply dvs_single.
      apply dv_n with []; [|constructor]. apply (req_in_P KStar x); [exact Hsub|]. simpl.
      apply in_or_app. right. left. reflexivity.
    - (* star, snoc *)
      destruct (IHs Hsub) as [a0 [n [Ha0 Hd0]]]. simpl in Ha0. destruct Ha0 as [<-|[]].
      apply dvs_single in Hd0.
      destruct (IHx (sub_down _ _ Hsub (oc_star _ _ (oc_refl _)))) as [a [m [Ha Hda]]].
      exists [SN (nu (sigma x) KStar)], (S (max n m)). split; [left; reflexivity|]. apply dvs_single.
      apply dv_n with (SN (nu (sigma x) KStar) :: a).
      + apply (req_in_P KStar x); [exact Hsub|]. simpl. apply in_or_app. left.
        apply in_map_iff. exists a. auto.
      + constructor; [eapply dv_mono; eauto; lia | eapply dvs_mono; eauto; lia].
    - (* plus, one *)
      destruct (IHx (sub_down _ _ Hsub (oc_plus _ _ (oc_refl _)))) as [a [n [Ha Hda]]].
      exists [SN (nu (sigma x) KPlus)], (S n). split; [left; reflexivity|]. apply dvs_single.
      apply dv_n with a; [|exact Hda]. apply (req_in_P KPlus x); [exact Hsub|]. simpl.
      apply in_flat_map. exists a. split; [exact Ha | right; left; reflexivity].
    - (* plus, snoc *)
      destruct (IHs Hsub) as [a0 [n [Ha0 Hd0]]]. simpl in Ha0. destruct Ha0 as [<-|[]].
      apply dvs_single in Hd0.
      destruct (IHx (sub_down _ _ Hsub (oc_plus _ _ (oc_refl _)))) as [a [m [Ha Hda]]].
      exists [SN (nu (sigma x) KPlus)], (S (max n m)). split; [left; reflexivity|]. apply dvs_single.
      apply dv_n with (SN (nu (sigma x) KPlus) :: a).
      + apply (req_in_P KPlus x); [exact Hsub|]. simpl.
        apply in_flat_map. exists a. split; [exact Ha | left; reflexivity].
      + constructor; [eapply dv_mono; eauto; lia | eapply dvs_mono; eauto; lia].
  Qed.

  (* ---- soundness: what is derivable is denoted ---- *)
  Definition B1 (n : nat) : Prop := forall X w, dv n X w ->
    match X with
    | ST a => w = [a]
    | SN A => (mentioned A -> em (ENT A) w) /\
              (forall k x, sub (wrap k x) -> A = nu (sigma x) k -> em (wrap k x) w)
    end.
  Definition B2 (n : nat) : Prop := forall r b w, sub r -> In b (sigma r) -> dvs n b w -> em r w.

  Lemma sub_wrap_inner k x : sub (wrap k x) -> sub x.
  Proof. intros H. apply (sub_down x _ H). destruct k; constructor; constructor. Qed.

  Lemma dvs_nil_inv n w : dvs n [] w -> w = [].
  Proof. intros H. inversion H. reflexivity. Qed.

  Lemma B2_of_B1 n : B1 n -> B2 n.
  Proof.
    intros HB1 r. induction r as [a l|A|x IHx y IHy|x IHx y IHy|x IHx|x IHx|x IHx|x IHx|x IHx];
      intros b w Hsub Hin Hd; simpl in Hin.
    - destruct Hin as [<-|[]]. apply dvs_single in Hd. apply HB1 in Hd. subst. constructor.
    - destruct Hin as [<-|[]]. apply dvs_single in Hd. apply HB1 in Hd. destruct Hd as [H1 _].
      apply H1. right. exists (ENT A). auto.
    - apply in_cross in Hin as [a1 [a2 [H1 [H2 ->]]]].
      apply dvs_app_inv in Hd as [u [v [-> [Hu Hv]]]].
      constructor; [apply (IHx a1) | apply (IHy a2)]; auto;
        [apply (sub_down _ _ Hsub); constructor; constructor | apply (sub_down _ _ Hsub); apply oc_catr; constructor].
    - apply in_app_or in Hin as [Hin|Hin].
      + apply em_altl. apply (IHx b); auto. apply (sub_down _ _ Hsub); constructor; constructor.
      + apply em_altr. apply (IHy b); auto. apply (sub_down _ _ Hsub); apply oc_altr; constructor.
    - apply in_app_or in Hin as [Hin|[<-|[]]].
      + apply em_alte. apply (IHx b); auto. apply (sub_down _ _ Hsub); constructor; constructor.
      + apply dvs_nil_inv in Hd. subst. apply em_alte_eps.
    - destruct Hin as [<-|[]]. apply dvs_single in Hd. apply HB1 in Hd. destruct Hd as [_ H2].
      apply (H2 KGroup x); auto.
    - destruct Hin as [<-|[]]. apply dvs_single in Hd. apply HB1 in Hd. destruct Hd as [_ H2].
      apply (H2 KOpt x); auto.
    - destruct Hin as [<-|[]]. apply dvs_single in Hd. apply HB1 in Hd. destruct Hd as [_ H2].
      apply (H2 KStar x); auto.
    - destruct Hin as [<-|[]]. apply dvs_single in Hd. apply HB1 in Hd. destruct Hd as [_ H2].
      apply (H2 KPlus x); auto.
  Qed.

  Lemma req_here_shape k x A b : In (A, b) (req_here k x) ->
    A = nu (sigma x) k /\
    match k with
    | KGroup => In b (sigma x)
    | KOpt => In b (sigma x) \/ b = []
    | KStar => (exists a, In a (sigma x) /\ b = SN (nu (sigma x) k) :: a) \/ b = []
    | KPlus => exists a, In a (sigma x) /\ (b = SN (nu (sigma x) k) :: a \/ b = a)
    end.
  Proof.
    unfold req_here. destruct k; simpl; intros H.
    - apply in_map_iff in H as [a [E Ha]]. inversion E; subst. auto.
    - apply in_app_or in H as [H|[E|[]]].
      + apply in_map_iff in H as [a [E Ha]]. inversion E; subst. auto.
      + inversion E; subst. auto.
    - apply in_app_or in H as [H|[E|[]]].
      + apply in_map_iff in H as [a [E Ha]]. inversion E; subst. split; [reflexivity|]. left. eauto.
      + inversion E; subst. auto.
    - apply in_flat_map in H as [a [Ha [E|[E|[]]]]]; inversion E; subst; split; try reflexivity; eexists; split; try eassumption; auto.
  Qed.

  Lemma B1_step n : B1 n -> B1 (S n).
  Proof.
    intros HB1. pose proof (B2_of_B1 n HB1) as HB2.
    intros X w Hd. inversion Hd as [n' a|n' A b w' HinP Hds]; subst; [reflexivity|].
    apply P_spec in HinP as [[r [Hr Hb]]|[[Hr ->]|[k0 [x0 [Hs0 Hreq]]]]].
    - assert (Hm : mentioned A) by (left; eauto).
      split.
      + intros _. apply em_nt with r; [exact Hr|]. apply (HB2 r b); auto. exists A, r. split; [exact Hr | constructor].
      + intros k x Hs E. exfalso. apply (names_fresh k x Hs). rewrite <- E. exact Hm.
    - assert (Hm : mentioned A) by (left; eauto).
      apply dvs_nil_inv in Hds. subst. split.
      + intros _. apply em_nt_empty. exact Hr.
      + intros k x Hs E. exfalso. apply (names_fresh k x Hs). rewrite <- E. exact Hm.
    - apply req_here_shape in Hreq as [EA Hshape]. split.
      + intros Hm. exfalso. apply (names_fresh k0 x0 Hs0). rewrite <- EA. exact Hm.
      + intros k x Hs E.
        assert (Heq : nu (sigma x) k = nu (sigma x0) k0) by (rewrite <- E, <- EA; reflexivity).
        destruct (names_inj k x k0 x0 Hs Hs0 Heq) as [-> [Hto Hfrom]].
        pose proof (sub_wrap_inner _ _ Hs) as Hsx.
        destruct k0; simpl in *.
        * apply em_group. apply (HB2 x b); auto.
        * destruct Hshape as [Hb| ->].
          -- apply em_opt. apply (HB2 x b); auto.
          -- apply dvs_nil_inv in Hds. subst. apply em_opt_eps.
        * destruct Hshape as [[a [Ha ->]]| ->].
          -- inversion Hds as [|n0 X0 b0 u v HX Hrest]; subst.
             apply HB1 in HX. destruct HX as [_ H2].
             apply em_star_snoc.
             ++ apply (H2 KStar x); auto.
             ++ apply (HB2 x a); auto.
          -- apply dvs_nil_inv in Hds. subst. apply em_star_nil.
        * destruct Hshape as [a [Ha [-> | ->]]].
          -- inversion Hds as [|n0 X0 b0 u v HX Hrest]; subst.
             apply HB1 in HX. destruct HX as [_ H2].
             apply em_plus_snoc.
             ++ apply (H2 KPlus x); auto.
             ++ apply (HB2 x a); auto.
          -- apply em_plus_one. apply (HB2 x a); auto.
  Qed.

  Lemma B1_all n : B1 n.
  Proof.
    induction n as [|n IH]; [|apply B1_step; exact IH].
    intros X w Hd. inversion Hd; subst. reflexivity.
  Qed.

  (* ---- the theorem: every user rule generates exactly what its EBNF text denotes ---- *)
  Theorem translate_preserves A w : mentioned A -> (derives (SN A) w <-> em (ENT A) w).
  Proof.
    intros Hm. split.
    - intros [n Hd]. apply (B1_all n) in Hd. destruct Hd as [H _]. apply H. exact Hm.
    - intros He. inversion He as [|A' r w' Hin Hem| A' Hin| | | | | | | | | | | |]; subst.
      + assert (Hsr : sub r) by (exists A, r; split; [exact Hin | constructor]).
        destruct (complete r w Hem Hsr) as [a [n [Ha Hd]]].
        exists (S n). apply dv_n with a; [|exact Hd]. apply P_spec. left. eauto.
      + exists 1. apply dv_n with []; [|constructor]. apply P_spec. right. left. auto.
  Qed.
End Translate.
