(* Generic fuelled work-list exploration with a soundness theorem.
   Used by every certified checker (bisimulation of automata, DFA-vs-regex,
   scanner product, LR item propagation). *)
From Coq Require Import List Bool Arith Lia.
Import ListNotations.

Section Explore.
  Variable A : Type.
  Variable eqb : A -> A -> bool.
  Hypothesis eqb_spec : forall x y, eqb x y = true <-> x = y.
  Variable succs : A -> list A.
  Variable ok : A -> bool.

  Definition memb (x : A) (l : list A) : bool := existsb (eqb x) l.

  Lemma memb_In x l : memb x l = true <-> In x l.
  Proof.
    unfold memb. rewrite existsb_exists. split.
    - intros [y [Hy He]]. apply eqb_spec in He. subst. exact Hy.
    - intros H. exists x. split; [exact H|]. apply eqb_spec. reflexivity.
  Qed.

  (* [explore fuel todo visited] returns [Some V] when the closure was reached
     within [fuel] steps and every visited node satisfied [ok]; [None] otherwise
     (fuel exhausted or a node failing [ok]). *)
  Fixpoint explore (fuel : nat) (todo visited : list A) : option (list A) :=
    match fuel with
    | O => None
    | S f =>
      match todo with
      | [] => Some visited
      | x :: t =>
        if memb x visited then explore f t visited
        else if ok x then explore f (succs x ++ t) (x :: visited)
        else None
      end
    end.

  Definition closed_inv (todo visited : list A) : Prop :=
    forall x, In x visited ->
      ok x = true /\ forall y, In y (succs x) -> In y visited \/ In y todo.

  Lemma explore_inv fuel : forall todo visited V,
      closed_inv todo visited ->
      explore fuel todo visited = Some V ->
      (forall x, In x visited \/ In x todo -> In x V) /\ closed_inv [] V.
  Proof.
    induction fuel as [|f IH]; intros todo visited V Hinv Hex; simpl in Hex; [discriminate|].
    destruct todo as [|x t].
    - inversion Hex; subst. split.
      + intros x [H|[]]; exact H.
      + exact Hinv.
    - destruct (memb x visited) eqn:Hm.
      + apply memb_In in Hm.
        assert (Hinv' : closed_inv t visited).
        { intros z Hz. destruct (Hinv z Hz) as [Hok Hs]. split; [exact Hok|].
          intros y Hy. destruct (Hs y Hy) as [H|[H|H]]; subst; auto. }
        destruct (IH _ _ _ Hinv' Hex) as [H1 H2]. split; [|exact H2].
        intros z [Hz|[Hz|Hz]]; subst; auto.
      + destruct (ok x) eqn:Hok; [|discriminate].
        assert (Hinv' : closed_inv (succs x ++ t) (x :: visited)).
        { intros z [Hz|Hz].
          - subst z. split; [exact Hok|]. intros y Hy. right. apply in_or_app. left. exact Hy.
          - destruct (Hinv z Hz) as [Hokz Hs]. split; [exact Hokz|].
            intros y Hy. destruct (Hs y Hy) as [H|[H|H]].
            + left. right. exact H.
            + subst. left. left. reflexivity.
            + right. apply in_or_app. right. exact H. }
        destruct (IH _ _ _ Hinv' Hex) as [H1 H2]. split; [|exact H2].
        intros z [Hz|[Hz|Hz]].
        * apply H1. left. right. exact Hz.
        * subst. apply H1. left. left. reflexivity.
        * apply H1. right. apply in_or_app. right. exact Hz.
  Qed.

  Theorem explore_sound fuel init V :
      explore fuel init [] = Some V ->
      (forall x, In x init -> In x V) /\
      (forall x, In x V -> ok x = true /\ forall y, In y (succs x) -> In y V).
  Proof.
    intros Hex.
    assert (Hinv : closed_inv init []) by (intros x []).
    destruct (explore_inv _ _ _ _ Hinv Hex) as [H1 H2]. split.
    - intros x Hx. apply H1. right. exact Hx.
    - intros x Hx. destruct (H2 x Hx) as [Hok Hs]. split; [exact Hok|].
      intros y Hy. destruct (Hs y Hy) as [H|[]]. exact H.
  Qed.
End Explore.

Arguments explore {A} eqb succs ok fuel todo visited.
Arguments explore_sound {A} eqb _ succs ok fuel init V.
Arguments memb {A} eqb x l.
