(* Sets of code points as lists of closed intervals over N, and the
   "atoms" reflection lemma: membership in any interval whose end points
   are listed among the boundaries is decided by a representative boundary.
   This is what reduces "for every code point" to a finite check. *)
From Coq Require Import List Bool NArith Lia.
Import ListNotations.
Local Open Scope N_scope.

Definition interval := (N * N)%type.          (* closed [lo, hi] *)
Definition charset := list interval.

Definition in_iv (iv : interval) (c : N) : bool := (fst iv <=? c) && (c <=? snd iv).
Definition cs_mem (s : charset) (c : N) : bool := existsb (fun iv => in_iv iv c) s.

(* [rep B c]: the largest element of [B] that is <= c, or 0 if none. *)
Definition rep_step (c acc b : N) : N := if (b <=? c) && (acc <? b) then b else acc.
Definition rep (B : list N) (c : N) : N := fold_left (rep_step c) B 0.

Lemma rep_fold_le B : forall c acc, acc <= c -> fold_left (rep_step c) B acc <= c.
Proof.
  induction B as [|b B IH]; intros c acc Hacc; simpl; [exact Hacc|].
  apply IH. unfold rep_step.
  destruct (b <=? c) eqn:H1; destruct (acc <? b) eqn:H2; simpl; try exact Hacc.
  apply N.leb_le in H1. exact H1.
Qed.

Lemma rep_le B c : rep B c <= c.
Proof. apply rep_fold_le. lia. Qed.

Lemma rep_fold_ge_acc B : forall c acc, acc <= fold_left (rep_step c) B acc.
Proof.
  induction B as [|b B IH]; intros c acc; simpl; [lia|].
  etransitivity; [|apply IH]. unfold rep_step.
  destruct (b <=? c) eqn:H1; destruct (acc <? b) eqn:H2; simpl; try lia.
  apply N.ltb_lt in H2. lia.
Qed.

Lemma rep_fold_ge B : forall c acc b, In b B -> b <= c -> b <= fold_left (rep_step c) B acc.
Proof.
  induction B as [|b0 B IH]; intros c acc b Hin Hb; simpl; [destruct Hin|].
  destruct Hin as [->|Hin].
  - etransitivity; [|apply rep_fold_ge_acc]. unfold rep_step.
    destruct (b <=? c) eqn:H1; [|apply N.leb_gt in H1; lia].
    destruct (acc <? b) eqn:H2; simpl; [lia|]. apply N.ltb_ge in H2. exact H2.
  - apply IH; assumption.
Qed.

Lemma rep_ge B c b : In b B -> b <= c -> b <= rep B c.
Proof. apply rep_fold_ge. Qed.

Lemma rep_fold_in B : forall c acc, fold_left (rep_step c) B acc = acc \/ In (fold_left (rep_step c) B acc) B.
Proof.
  induction B as [|b B IH]; intros c acc; simpl; [left; reflexivity|].
  destruct (IH c (rep_step c acc b)) as [H|H].
  - rewrite H. unfold rep_step.
    destruct ((b <=? c) && (acc <? b)); [right; left; reflexivity | left; reflexivity].
  - right. right. exact H.
Qed.

Lemma rep_in B c : In (rep B c) (0 :: B).
Proof.
  unfold rep. destruct (rep_fold_in B c 0) as [H|H]; [left; symmetry; exact H | right; exact H].
Qed.

(* An interval is "covered" by boundaries B when lo and hi+1 are both in B. *)
Definition nmem (x : N) (l : list N) : bool := existsb (N.eqb x) l.

Lemma nmem_In x l : nmem x l = true <-> In x l.
Proof.
  unfold nmem. rewrite existsb_exists. split.
  - intros [y [Hy He]]. apply N.eqb_eq in He. subst. exact Hy.
  - intros H. exists x. split; [exact H | apply N.eqb_refl].
Qed.

Definition iv_covered (B : list N) (iv : interval) : bool :=
  nmem (fst iv) B && nmem (snd iv + 1) B.

Lemma in_iv_rep B iv c : iv_covered B iv = true -> in_iv iv c = in_iv iv (rep B c).
Proof.
  unfold iv_covered, in_iv. destruct iv as [lo hi]; simpl.
  intros H. apply andb_prop in H as [Hlo Hhi].
  apply nmem_In in Hlo. apply nmem_In in Hhi.
  pose proof (rep_le B c) as Hle.
  destruct (lo <=? c) eqn:E1.
  - apply N.leb_le in E1. pose proof (rep_ge B c lo Hlo E1) as Hge.
    assert (E1' : (lo <=? rep B c) = true) by (apply N.leb_le; exact Hge).
    rewrite E1'. simpl.
    destruct (c <=? hi) eqn:E2.
    + apply N.leb_le in E2. symmetry. apply N.leb_le. lia.
    + apply N.leb_gt in E2. symmetry. apply N.leb_gt.
      assert (hi + 1 <= c) by lia.
      pose proof (rep_ge B c (hi + 1) Hhi H). lia.
  - apply N.leb_gt in E1. simpl.
    assert (E1' : (lo <=? rep B c) = false) by (apply N.leb_gt; lia).
    rewrite E1'. reflexivity.
Qed.

Definition cs_covered (B : list N) (s : charset) : bool := forallb (iv_covered B) s.

Lemma cs_mem_rep B s c : cs_covered B s = true -> cs_mem s c = cs_mem s (rep B c).
Proof.
  unfold cs_covered, cs_mem. induction s as [|iv s IH]; simpl; intros H; [reflexivity|].
  apply andb_prop in H as [H1 H2].
  rewrite (in_iv_rep B iv c H1). rewrite (IH H2). reflexivity.
Qed.

(* Boundaries of a charset. *)
Definition cs_bounds (s : charset) : list N := flat_map (fun iv => [fst iv; snd iv + 1]) s.

Lemma nmem_app x l1 l2 : nmem x (l1 ++ l2) = nmem x l1 || nmem x l2.
Proof. unfold nmem. apply existsb_app. Qed.

Lemma nmem_incl x l1 l2 : incl l1 l2 -> nmem x l1 = true -> nmem x l2 = true.
Proof. intros Hi H. apply nmem_In. apply Hi. apply nmem_In. exact H. Qed.

Lemma cs_covered_incl B B' s : incl B B' -> cs_covered B s = true -> cs_covered B' s = true.
Proof.
  intros Hi. unfold cs_covered. rewrite !forallb_forall. intros H iv Hiv.
  specialize (H iv Hiv). unfold iv_covered in *. apply andb_prop in H as [H1 H2].
  rewrite (nmem_incl _ _ _ Hi H1), (nmem_incl _ _ _ Hi H2). reflexivity.
Qed.

Lemma cs_covered_self s : cs_covered (cs_bounds s) s = true.
Proof.
  unfold cs_covered. apply forallb_forall. intros iv Hiv.
  unfold iv_covered. apply andb_true_intro. split; apply nmem_In; unfold cs_bounds;
    apply in_flat_map; exists iv; (split; [exact Hiv|]); simpl; auto.
Qed.
