(* C16 — CLI: success iff the package is fully written; flags honoured; existing files untouched.

   The theorems of Emerge/Cli.v instantiated with the parameter record the translator read from the CURRENT
   source (gen/CliGo.v).  Each side condition is discharged by computation on that record: when the code drops
   O_EXCL, validates the name after making the directory, loses a reserved word, accepts the blank identifier or
   panics on a flag error, the corresponding `reflexivity` fails. *)
From Coq Require Import String List Bool.
From Verif Require Import Emerge.Cli.
From VerifGen Require Import CliGo.
Import ListNotations.
Local Open Scope string_scope.

(* a run never modifies, truncates or deletes anything that existed: for every command line, every outcome of
   parsing and every pre-existing file system *)
Theorem existing_entries_untouched c s : preserves s (r_fs (run params_go c s)).
Proof. apply frame. vm_compute. reflexivity. Qed.
Print Assumptions existing_entries_untouched.

(* status 0 (outside -help/-version) implies: success announced, the specification accepted with both the lexer and the
   parser step succeeding, every file of the package present with its own content in <out>/<name> *)
Theorem exit0_implies_package_complete c s g d l :
  c_flag_error c = None -> c_help c = false -> c_version c = false -> c_arg c = Readable (PAccepted g d l) ->
  r_exit (run params_go c s) = Exit 0 ->
  r_announced (run params_go c s) = true
  /\ written (r_fs (run params_go c s)) (join (c_out c) (package_name params_go c g)) (all_files params_go)
  /\ d = true /\ l = true.
Proof. apply success_means_complete. vm_compute. reflexivity. Qed.
Print Assumptions exit0_implies_package_complete.

Theorem package_complete_implies_exit0 c s g :
  c_flag_error c = None -> c_help c = false -> c_version c = false -> c_arg c = Readable (PAccepted g true true) ->
  snd (generate params_go s (c_out c) (package_name params_go c g) true true) = true ->
  r_exit (run params_go c s) = Exit 0 /\ r_announced (run params_go c s) = true.
Proof. exact (complete_means_success params_go c s g). Qed.
Print Assumptions package_complete_implies_exit0.

Theorem not_accepted_implies_failure c s :
  c_flag_error c = None -> c_help c = false -> c_version c = false ->
  (forall g d l, c_arg c <> Readable (PAccepted g d l)) ->
  r_exit (run params_go c s) = Exit 1 /\ r_announced (run params_go c s) = false /\ r_fs (run params_go c s) = s.
Proof. exact (failure_before_generation params_go c s). Qed.
Print Assumptions not_accepted_implies_failure.

Theorem name_flag_replaces_grammar_name c g : c_name c <> "" -> package_name params_go c g = c_name c.
Proof. apply name_flag_replaces. vm_compute. reflexivity. Qed.
Print Assumptions name_flag_replaces_grammar_name.

Theorem without_name_flag_grammar_name c g : c_name c = "" -> package_name params_go c g = g.
Proof. exact (no_name_flag_keeps params_go c g). Qed.
Print Assumptions without_name_flag_grammar_name.

Theorem everything_created_is_under_out_name c s q :
  lookup (r_fs (run params_go c s)) q <> lookup s q ->
  exists g d l, c_arg c = Readable (PAccepted g d l) /\ under (join (c_out c) (package_name params_go c g)) q.
Proof. exact (out_flag_selects_parent params_go c s q). Qed.
Print Assumptions everything_created_is_under_out_name.

(* nothing is created inside a directory (or through a link) that existed before: the package directory is new *)
Theorem package_directory_is_created_by_the_run c s q :
  lookup (r_fs (run params_go c s)) q <> lookup s q ->
  exists g d l, c_arg c = Readable (PAccepted g d l) /\ lookup s (join (c_out c) (package_name params_go c g)) = None.
Proof. apply package_directory_is_new. vm_compute. reflexivity. Qed.
Print Assumptions package_directory_is_created_by_the_run.

(* non-vacuity: an accepted specification into an empty directory *)
Example success_example :
  let c := {| c_flag_error := None; c_help := false; c_version := false; c_name := ""; c_out := "out";
              c_arg := Readable (PAccepted "calc" true true) |} in
  let r := run params_go c [("out", Dir)] in
  r_exit r = Exit 0 /\ lookup (r_fs r) "out/calc/lexer.go" = Some (File "lexer.go").
Proof. vm_compute. split; reflexivity. Qed.
