(* C03 — the combined scanner automaton: exact union, right winner, conflicts iff real.

   UNIVERSAL: the certified product check of Reg/Scanner.v.  For ANY definition list (literals and
   patterns), automaton, accepting set and terminal map: if [scanner_ok] evaluates to true then for EVERY
   text the state reached is accepting iff some definition matches, and it is attributed to the one
   terminal that must win (the only match, or the single literal among several matches); no text is in
   conflict.  If [conflict_free] evaluates to true no text is in conflict; a [conflict_witness] is a real
   conflict.  A string literal denotes its own characters with backslash escapes resolved.
   PER DEFINITION SET (gen/inst_C03_*.v): the automaton and terminal map dumped from Spec.DFA() pass
   [scanner_ok]; when emerge reports a conflict a conflicting text is exhibited and verified, and when
   it does not, none exists.  The per-definition expressions are the C02 model of each pattern. *)
From Coq Require Import List Bool Arith NArith.
From Verif Require Import Base.CharSet Reg.Dfa Reg.Regex Reg.EquivCheck Reg.PatSem Reg.Scanner Reg.StringDfa.
Import ListNotations.
Local Open Scope N_scope.

Theorem scanner_is_exact_union_with_right_winner :
  forall d finals tm lits rs,
    scanner_ok d finals tm lits rs = true ->
    forall w,
      let v := map (fun r => matchb r w) rs in
      match winner lits v with
      | VNone => accepts d finals w = false
      | VOwner i => accepts d finals w = true /\ exists q, run d w = Some q /\ owners tm q = [i]
      | VConflict => False
      end.
Proof. exact scanner_check_sound. Qed.
Print Assumptions scanner_is_exact_union_with_right_winner.

Theorem no_conflict_means_none_exists :
  forall lits rs, conflict_free lits rs = true ->
    forall w, winner lits (map (fun r => matchb r w) rs) <> VConflict.
Proof. exact conflict_free_sound. Qed.
Print Assumptions no_conflict_means_none_exists.

Theorem reported_conflict_is_real :
  forall lits rs w, conflict_witness lits rs = Some w ->
    winner lits (map (fun r => matchb r w) rs) = VConflict.
Proof. exact conflict_witness_sound. Qed.
Print Assumptions reported_conflict_is_real.

Theorem string_literal_denotes_its_characters :
  forall cs w, matches (lit_re cs) w <-> w = unescape cs.
Proof. exact literal_denotation. Qed.
Print Assumptions string_literal_denotes_its_characters.

(* stringToDFA (emerge's own construction for string definitions): the chain automaton accepts exactly the literal's
   characters, for every value; compared edge for edge with the implementation's automaton per generated value *)
Theorem automaton_of_a_string_definition_accepts_exactly_the_literal :
  forall value w, accepts (fst (string_dfa value)) (snd (string_dfa value)) w = true <-> w = unescape value.
Proof. exact string_dfa_accepts_the_literal. Qed.
Print Assumptions automaton_of_a_string_definition_accepts_exactly_the_literal.

(* the winner rule on small vectors: keyword over identifier; two patterns: conflict; two literals: conflict *)
Example winner_examples :
  winner [true; false] [true; true] = VOwner 0%nat /\
  winner [false; false] [true; true] = VConflict /\
  winner [true; true; false] [true; true; true] = VConflict /\
  winner [true; false] [false; true] = VOwner 1%nat /\
  winner [true; false] [false; false] = VNone /\
  unescape [97; 92; 34; 98; 92; 92] = [97; 34; 98; 92].
Proof. vm_compute. repeat split; reflexivity. Qed.
