(* C15 — Same specification and options give byte-identical output and diagnostics.

   The pipeline is single-threaded (the translator finds no go/select statement and no package-level variable
   written after initialisation except the hasher of C17); its inputs other than the arguments are the
   random emoji (outside the property) and the ORDER in which maps and the dependency's hash tables deliver
   their entries.  Each such traversal is modelled as an arbitrary permutation; the theorems below say that
   what the caller observes does not depend on it.  The translator lists the traversal sites of the current
   source with the shape of each loop, and the check matches every site with the theorem that covers it. *)
From Coq Require Import List Bool Arith NArith Permutation String.
From Verif Require Import Emerge.Perm.
Import ListNotations.

(* generic shapes *)
Theorem collected_then_sorted_states l1 l2 : Permutation l1 l2 -> sortN l1 = sortN l2.
Proof. exact (sortN_canonical l1 l2). Qed.
Print Assumptions collected_then_sorted_states.

Theorem collected_then_sorted_strings l1 l2 : Permutation l1 l2 -> sortS l1 = sortS l2.
Proof. exact (sortS_canonical l1 l2). Qed.
Print Assumptions collected_then_sorted_strings.

Theorem inserted_into_ordered_store (l1 l2 : list N) :
  Permutation l1 l2 ->
  fold_left (fun s x => insert N.leb x s) l1 [] = fold_left (fun s x => insert N.leb x s) l2 [].
Proof. exact (fold_insert_canonical N N.leb Nleb_total Nleb_antisym Nleb_trans l1 l2). Qed.
Print Assumptions inserted_into_ordered_store.

Theorem per_entry_update (V : Type) (f : N -> V -> V) l1 l2 :
  Permutation l1 l2 -> NoDup l1 -> forall m, fold_left (upd V f) l1 m = fold_left (upd V f) l2 m.
Proof. exact (pointwise_update_independent V f l1 l2). Qed.
Print Assumptions per_entry_update.

(* the terminal map printed into the emitted lexer, and the conflict diagnostics of Spec.DFA *)
Theorem terminal_map_independent state_map defs o1 o2 :
  Permutation o1 o2 -> dfa_result o1 state_map defs = dfa_result o2 state_map defs.
Proof. exact (dfa_result_independent state_map defs o1 o2). Qed.
Print Assumptions terminal_map_independent.

Theorem terminal_states_ascending order sd a :
  tm_get (fst (dfa_tail (sortN order) sd)) a = filter (owned sd a) (sortN order).
Proof. exact (states_ascending order sd a). Qed.
Print Assumptions terminal_states_ascending.

Theorem conflicts_in_state_order order sd :
  snd (dfa_tail (sortN order) sd) = flat_map (conflict_of sd) (sortN order).
Proof. exact (conflicts_ascending order sd). Qed.
Print Assumptions conflicts_in_state_order.

(* the diagnostics of SymbolTable.Verify and the definition list *)
Theorem verify_diagnostics_independent tab p1 p2 p3 q1 q2 q3 :
  Permutation p1 q1 -> Permutation p2 q2 -> Permutation p3 q3 ->
  verify_diags tab p1 p2 p3 = verify_diags tab q1 q2 q3.
Proof. exact (verify_diags_independent tab p1 p2 p3 q1 q2 q3). Qed.
Print Assumptions verify_diagnostics_independent.

Theorem definition_list_independent l1 l2 :
  NoDup (map td_term l1) -> Permutation l1 l2 -> sort_defs l1 = sort_defs l2.
Proof. exact (definitions_independent l1 l2). Qed.
Print Assumptions definition_list_independent.

(* why the sorts are needed: the loops as they were before the repairs (D18, D19) *)
Theorem terminal_map_in_map_order_refuted :
  exists state_map defs o1 o2, Permutation o1 o2 /\ dfa_result_unsorted o1 state_map defs <> dfa_result_unsorted o2 state_map defs.
Proof. exact unsorted_iteration_refuted. Qed.
Print Assumptions terminal_map_in_map_order_refuted.

Theorem diagnostics_in_table_order_refuted :
  exists tab p q, Permutation p q /\ verify_diags_unsorted tab p p [] <> verify_diags_unsorted tab q q [].
Proof. exact unsorted_verify_refuted. Qed.
Print Assumptions diagnostics_in_table_order_refuted.
