(* C04 — the built-in EBNF parser accepts exactly the documented, disambiguated grammar.

   All objects are REGENERATED from parsing_table.go on every run (gen/TableGo.v).
   1. Entry for entry, no extra entries: the embedded ACTION/GOTO tables are the LALR(1) tables of the
      embedded grammar with the embedded precedence levels, as DEFINED independently in Cfg/Lalr.v
      (LR(0) automaton, LALR(1) look-aheads, documented resolution rule), modulo renumbering of states;
      no entry is left unresolved.  A finite statement, completely enumerated by the kernel.
   2. Sound: every accepted token sequence is a sentence of the embedded grammar (tree with the tokens
      as leaves, one production per interior node).
   3. Byte-for-byte regeneration is checked by the harness (go run ./generate on a scratch copy).
   4. Complete, with the documented disambiguation.  The disambiguation is written down once, as a
      classification of parse trees (Cfg/EbnfDoc.v: juxtaposition binds tighter than `|`, juxtaposition
      groups to the left, `|` to the right, handles are consumed greedily); a tree that can be classified
      is "canonical".  For token sequences of ANY length:
        - every canonical tree of the grammar is parsed: its leaves are accepted and the callbacks are
          exactly its post-order (Cfg/LRComplete.v, certificate checked by the kernel on the regenerated
          table);
        - every tree the parser builds is canonical (Cfg/LRCanon.v, ditto);
        - hence the accepted sequences are exactly the leaves of canonical trees, and a sequence has at most
          one canonical tree: the disambiguation leaves no choice.
      That the classification is the DOCUMENTED reading is cross-checked per explored sequence against an
      independent recursive-descent reader written from the documentation (harness). *)
From Coq Require Import String List Bool Arith NArith Lia.
From Verif Require Import Cfg.LR Cfg.LRSafe Cfg.Lalr Cfg.LRComplete Cfg.LRCanon Cfg.EbnfDoc Cfg.EbnfCert.
From VerifGen Require Import TableGo.
Import ListNotations.
Local Open Scope N_scope.

Definition reference := lalr ebnf_grammar ebnf_start ebnf_eof ebnf_nnt ebnf_prec.

Theorem ebnf_table_is_lalr :
  snd reference = [] /\ table_iso (fst reference) ebnf_table ebnf_eof ebnf_nnt = true.
Proof. vm_compute. split; reflexivity. Qed.

(* the comparison is not vacuous: the reference has the expected size and a perturbed table is told apart *)
Example reference_is_nontrivial :
  (length (t_action (fst reference)) =? 400)%nat = false /\
  (100 <? length (t_action (fst reference)))%nat = true /\
  table_iso (fst reference)
            {| t_action := (0, 0, Shift 1) :: t_action ebnf_table; t_goto := t_goto ebnf_table |}
            ebnf_eof ebnf_nnt = false.
Proof. vm_compute. repeat split; reflexivity. Qed.

Theorem ebnf_table_safe :
  safe_check ebnf_grammar ebnf_table ebnf_eof ebnf_err_state ebnf_start ebnf_past = true.
Proof. vm_compute. reflexivity. Qed.

Theorem ebnf_parser_sound :
  forall toks fin fuel tr,
    ~ In ebnf_eof toks ->
    LR.run ebnf_grammar ebnf_table ebnf_eof ebnf_err_state toks fin fuel init = (tr, OAccept) ->
    exists t, wf_tree ebnf_grammar t /\ root ebnf_grammar t = NT ebnf_start /\
              map fst (leaves t) = toks.
Proof.
  intros toks fin fuel tr Hn Hr.
  destruct (lr_callbacks_in_derivation_order _ _ _ _ _ _ toks fin fuel tr ebnf_table_safe Hn Hr) as [t [H1 [H2 [H3 _]]]].
  exists t. repeat split; auto. rewrite H3.
  clear. generalize 0%nat. induction toks as [|a toks IH]; intros n; simpl; [reflexivity|]. f_equal. apply IH.
Qed.
Print Assumptions ebnf_parser_sound.

(* ---- 4. exactly the documented, disambiguated language ---- *)

(* t is a parse tree of the token sequence that respects the documented disambiguation *)
Definition canonical_sentence (toks : list N) (t : tree) : Prop :=
  wf_tree ebnf_grammar t /\ root ebnf_grammar t = NT ebnf_start /\
  (exists k, classify ebnf_rules t = Some k) /\
  leaves t = combine toks (seq 0 (length toks)).

Theorem ebnf_parser_complete :
  forall toks t, canonical_sentence toks t ->
  forall fuel, (length (post t) < fuel)%nat ->
    LR.run ebnf_grammar ebnf_table ebnf_eof ebnf_err_state toks EndOfInput fuel init = (post t, OAccept).
Proof.
  intros toks t [Hwf [Hroot [[k Hk] Hl]]].
  exact (lr_complete _ _ _ _ _ _ _ _ _ toks ebnf_complete_check t k Hwf Hroot Hk Hl).
Qed.
Print Assumptions ebnf_parser_complete.

Theorem ebnf_parser_builds_the_canonical_tree :
  forall toks fin fuel tr, ~ In ebnf_eof toks ->
    LR.run ebnf_grammar ebnf_table ebnf_eof ebnf_err_state toks fin fuel init = (tr, OAccept) ->
    exists t, canonical_sentence toks t /\ tr = post t.
Proof.
  intros toks fin fuel tr Hn Hr.
  destruct (lr_sound_init _ _ _ _ _ _ ebnf_table_safe toks fin Hn fuel tr Hr) as [t [Hb [Hwf [Hroot Hl]]]].
  destruct (lr_builds_canonical _ _ _ _ _ _ _ _ _ _ toks fin ebnf_table_safe ebnf_canon_check Hn fuel tr Hr)
    as [t' [k [Hb' Hk]]].
  rewrite Hb in Hb'. injection Hb' as <-.
  exists t. split; [repeat split; eauto|].
  destruct (lr_callbacks_in_derivation_order _ _ _ _ _ _ toks fin fuel tr ebnf_table_safe Hn Hr) as [t2 [W2 [R2 [L2 P2]]]].
  pose proof (run_prods_exist ebnf_grammar toks ebnf_table ebnf_eof ebnf_err_state fin fuel init) as Hp.
  rewrite Hr in Hp. simpl in Hp.
  rewrite (build_is_postorder ebnf_grammar toks tr Hp) at 1. rewrite Hb. simpl. apply app_nil_r.
Qed.
Print Assumptions ebnf_parser_builds_the_canonical_tree.

Theorem ebnf_parser_accepts_exactly_the_disambiguated_grammar :
  forall toks, ~ In ebnf_eof toks ->
    ((exists fuel tr, LR.run ebnf_grammar ebnf_table ebnf_eof ebnf_err_state toks EndOfInput fuel init = (tr, OAccept))
     <-> exists t, canonical_sentence toks t).
Proof.
  intros toks Hn. split.
  - intros [fuel [tr Hr]].
    destruct (ebnf_parser_builds_the_canonical_tree toks EndOfInput fuel tr Hn Hr) as [t [Ht _]]. eauto.
  - intros [t Ht]. exists (S (length (post t))), (post t). apply ebnf_parser_complete; [exact Ht | lia].
Qed.
Print Assumptions ebnf_parser_accepts_exactly_the_disambiguated_grammar.

Theorem the_disambiguation_leaves_no_choice :
  forall toks t1 t2, canonical_sentence toks t1 -> canonical_sentence toks t2 -> t1 = t2.
Proof.
  intros toks t1 t2 [W1 [R1 [[k1 C1] L1]]] [W2 [R2 [[k2 C2] L2]]].
  exact (canonical_unique ebnf_grammar ebnf_table ebnf_eof ebnf_err_state ebnf_start ebnf_rules ebnf_nul ebnf_first ebnf_V toks ebnf_complete_check t1 k1 t2 k2 W1 R1 C1 L1 W2 R2 C2 L2).
Qed.
Print Assumptions the_disambiguation_leaves_no_choice.

(* non-vacuity: a canonical sentence with a juxtaposition, an alternation and a directive exists, and two
   non-canonical readings are told apart *)
Definition ex_toks : list N := [13; 17; 1; 17; 0; 17; 17; 2; 17; 2; 1; 14; 19; 1].
     (* grammar x ; a = b c | d | ; @left "s" ; *)

Example a_canonical_sentence_exists :
  exists t, canonical_sentence ex_toks t /\ (20 <? length (post t))%nat = true.
Proof.
  assert (Hr : LR.run ebnf_grammar ebnf_table ebnf_eof ebnf_err_state ex_toks EndOfInput 100 init =
               (fst (LR.run ebnf_grammar ebnf_table ebnf_eof ebnf_err_state ex_toks EndOfInput 100 init), OAccept))
    by (vm_compute; reflexivity).
  destruct (ebnf_parser_builds_the_canonical_tree ex_toks EndOfInput 100 _ ltac:(vm_compute; intuition discriminate) Hr)
    as [t [Ht Hp]].
  exists t. split; [exact Ht|]. rewrite <- Hp. vm_compute. reflexivity.
Qed.

Definition opnd (i : nat) : tree := Node 30 [Node 32 [Leaf 17 i]].
Example forbidden_shapes_are_not_canonical :
  (* b (c d): juxtaposition grouped to the right *)
  classify ebnf_rules (Node 23 [opnd 0; Node 23 [opnd 1; opnd 2]]) = None /\
  (* (b | c) d without brackets: alternation below juxtaposition *)
  classify ebnf_rules (Node 23 [Node 28 [opnd 0; Leaf 2 1; opnd 2]; opnd 3]) = None /\
  (* (b | c) | d: alternation grouped to the left *)
  classify ebnf_rules (Node 28 [Node 28 [opnd 0; Leaf 2 1; opnd 2]; Leaf 2 3; opnd 4]) = None /\
  (* the documented readings of the same token sequences *)
  classify ebnf_rules (Node 23 [Node 23 [opnd 0; opnd 1]; opnd 2]) = Some 2 /\
  classify ebnf_rules (Node 28 [opnd 0; Leaf 2 1; Node 23 [opnd 2; opnd 3]]) = Some 3 /\
  classify ebnf_rules (Node 28 [opnd 0; Leaf 2 1; Node 28 [opnd 2; Leaf 2 3; opnd 4]]) = Some 3.
Proof. vm_compute. repeat split; reflexivity. Qed.
