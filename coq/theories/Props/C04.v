(* C04 — the built-in EBNF parser accepts exactly the documented, disambiguated grammar.

   All objects are REGENERATED from parsing_table.go on every run (gen/TableGo.v).
   1. Entry for entry, no extra entries: the embedded ACTION/GOTO tables are the LALR(1) tables of the
      embedded grammar with the embedded precedence levels, as DEFINED independently in Cfg/Lalr.v
      (LR(0) automaton, LALR(1) look-aheads, documented resolution rule), modulo renumbering of states;
      no entry is left unresolved.  A finite statement, completely enumerated by the kernel.
   2. Sound: every accepted token sequence is a sentence of the embedded grammar (tree with the tokens
      as leaves, one production per interior node).
   3. Byte-for-byte regeneration is checked by the harness (go run ./generate on a scratch copy).
   PARTIAL — 4. complete, with the documented disambiguation: every sentence of the documented grammar
      is accepted and the tree is the one the precedence list dictates.  Not yet a Coq theorem (needs
      lr_complete, see DESIGN.md appendix A); decided per explored token sequence by an exact Earley
      recogniser for the documented grammar and an independent recursive-descent tree builder. *)
From Coq Require Import String List Bool Arith NArith.
From Verif Require Import Cfg.LR Cfg.LRSafe Cfg.Lalr.
From VerifGen Require Import TableGo.
Import ListNotations.
Local Open Scope N_scope.

Definition reference := lalr ebnf_grammar ebnf_start ebnf_eof ebnf_nnt ebnf_prec.

Theorem ebnf_table_is_lalr :
  snd reference = [] /\ table_iso (fst reference) ebnf_table ebnf_eof ebnf_nnt = true.
Proof. vm_compute. split; reflexivity. Qed.

(* the comparison is not vacuous: the reference has the expected size and a perturbed table is told apart *)
Example reference_is_nontrivial :
  (length (t_action (fst reference)) =? 400)%nat = false /\
  (100 <? length (t_action (fst reference)))%nat = true /\
  table_iso (fst reference)
            {| t_action := (0, 0, Shift 1) :: t_action ebnf_table; t_goto := t_goto ebnf_table |}
            ebnf_eof ebnf_nnt = false.
Proof. vm_compute. repeat split; reflexivity. Qed.

Theorem ebnf_table_safe :
  safe_check ebnf_grammar ebnf_table ebnf_eof ebnf_err_state ebnf_start ebnf_past = true.
Proof. vm_compute. reflexivity. Qed.

Theorem ebnf_parser_sound :
  forall toks fin fuel tr,
    ~ In ebnf_eof toks ->
    LR.run ebnf_grammar ebnf_table ebnf_eof ebnf_err_state toks fin fuel init = (tr, OAccept) ->
    exists t, wf_tree ebnf_grammar t /\ root ebnf_grammar t = NT ebnf_start /\
              map fst (leaves t) = toks.
Proof.
  intros toks fin fuel tr Hn Hr.
  destruct (lr_callbacks_in_derivation_order _ _ _ _ _ _ toks fin fuel tr ebnf_table_safe Hn Hr) as [t [H1 [H2 [H3 _]]]].
  exists t. repeat split; auto. rewrite H3.
  clear. generalize 0%nat. induction toks as [|a toks IH]; intros n; simpl; [reflexivity|]. f_equal. apply IH.
Qed.
Print Assumptions ebnf_parser_sound.
