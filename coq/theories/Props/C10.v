(* C10 — the direct (followpos) construction agrees with the NFA route, and both with the
   documented meaning.

   Both automata are built with the help of the dependency (subset construction, Minimize), so the
   agreement is certified per explored pattern, for ALL strings: both automata pass the same checker
   against the same model expression, hence accept the same language (three-way).

   UNIVERSAL (Reg/Followpos.v): emerge's own part of the direct route - nullable, firstpos, lastpos, followpos over the
   n-ary syntax tree and the automaton on sets of positions - is modelled over the same tree shape and proved correct
   for EVERY tree: the position automaton of (r)µ accepts exactly the language of r.  The proof goes through the
   language [after n p] that may follow a position: L(n) = [nullable]ε + Σ_{p∈firstpos} char(p)·after(p), and
   after(p) = [p∈lastpos]ε + Σ_{q∈followpos(p)} char(q)·after(q), both by structural induction.
   PER PATTERN (gen/cases_C10fp_*.v): the tree dumped from the implementation is numbered left to right, its nullable /
   firstpos / lastpos / followpos tables equal the model's, and the automaton ToDFA returns passes the certified check
   against the tree's expression - hence is the position automaton of that tree; and the tree equals (modulo nesting and the
   order of alternatives) [tree_of] of the model's reading of the pattern, for which [direct_route_is_the_documented_meaning_of_the_pattern]
   gives the documented meaning, for every well-formed abstract pattern. *)
From Coq Require Import String List Bool NArith.
From Verif Require Import Reg.Followpos Reg.FollowposRe Reg.FollowposQuant Reg.FollowposPat Reg.FollowposAcc.
From Verif Require Import Base.CharSet Reg.Dfa Reg.Regex Reg.EquivCheck Reg.Pattern Reg.PatSem Reg.PatCheck.
From VerifGen Require Import RuneGo.
Import ListNotations.
Local Open Scope N_scope.

Definition case_ok := PatCheck.case_ok escaped ascii_names uni_cats cls_letters rune_classes.
Definition model := PatCheck.model escaped ascii_names uni_cats cls_letters rune_classes.

Theorem three_way_agreement :
  forall p d1 f1 d2 f2, case_ok (p, 0, [(d1, f1); (d2, f2)]) = true ->
    (forall s, accepts d1 f1 s = accepts d2 f2 s) /\
    exists t, pr_regex t = p /\ forall s, accepts d1 f1 s = true <-> matches (desugar_impl (ast_regex rune_classes t)) s.
Proof.
  intros p d1 f1 d2 f2 H.
  destruct (case_ok_impl escaped ascii_names uni_cats cls_letters rune_classes p _ H) as [t [Hp Ht]].
  split.
  - intros s.
    pose proof (Ht d1 f1 (or_introl eq_refl) s) as H1.
    pose proof (Ht d2 f2 (or_intror (or_introl eq_refl)) s) as H2.
    destruct (accepts d1 f1 s), (accepts d2 f2 s); try reflexivity.
    + exfalso. assert (false = true) by (apply H2, H1; reflexivity). discriminate.
    + exfalso. assert (false = true) by (apply H1, H2; reflexivity). discriminate.
  - exists t. split; [exact Hp|]. intros s. apply (Ht d1 f1 (or_introl eq_refl) s).
Qed.
Print Assumptions three_way_agreement.

Theorem three_way_agreement_guarded :
  forall p d1 f1 d2 f2, case_ok (p, 0, [(d1, f1); (d2, f2)]) = true ->
    pattern_nul_free escaped ascii_names uni_cats cls_letters rune_classes p = true ->
    exists t, pr_regex t = p /\
      forall s, (accepts d1 f1 s = true <-> doc_sem (ast_regex rune_classes t) s) /\
                (accepts d2 f2 s = true <-> doc_sem (ast_regex rune_classes t) s).
Proof.
  intros p d1 f1 d2 f2 H Hg.
  destruct (case_ok_sound escaped ascii_names uni_cats cls_letters rune_classes p _ H Hg) as [t [Hp Ht]].
  exists t. split; [exact Hp|]. intros s. split.
  - apply (Ht d1 f1 (or_introl eq_refl) s).
  - apply (Ht d2 f2 (or_intror (or_introl eq_refl)) s).
Qed.
Print Assumptions three_way_agreement_guarded.

(* the documented meaning of the shapes the position construction is sensitive to:
   nullable operands of a concatenation, patterns matching the empty string, duplicated sub-expressions *)
Example position_automaton_examples :
  match model [97;42] (* a* *), model [97;98;63;99] (* ab?c *), model [40;97;98;41;123;48;44;50;125;99] (* (ab){0,2}c *) with
  | MOk _ r1, MOk _ r2, MOk _ r3 =>
    matchb r1 [] && matchb r1 [97;97] && matchb r2 [97;99] && matchb r2 [97;98;99] && negb (matchb r2 [97;98;98;99])
    && matchb r3 [99] && matchb r3 [97;98;97;98;99] && negb (matchb r3 [97;98;97;98;97;98;99])
  | _, _, _ => false
  end = true.
Proof. vm_compute. reflexivity. Qed.

(* ---- the direct construction itself, for every syntax tree ---- *)
Theorem position_automaton_accepts_exactly_the_language :
  forall (r : node) (em : N), ~ In em (chars r) ->
    forall w, ~ In em w -> (Followpos.accepts r em w = true <-> lang r w).
Proof. exact position_automaton_correct. Qed.
Print Assumptions position_automaton_accepts_exactly_the_language.

Theorem tree_language_is_its_expression : forall n w, lang n w <-> matches (re_of n) w.
Proof. exact (proj1 lang_re). Qed.
Print Assumptions tree_language_is_its_expression.

Theorem checked_automaton_is_the_position_automaton_of_its_tree :
  forall d finals tree em fuel,
    dfa_re_check d finals (re_of tree) fuel = true -> ~ In em (chars tree) ->
    forall w, ~ In em w -> (EquivCheck.accepts d finals w = true <-> Followpos.accepts tree em w = true).
Proof. exact checked_automaton_is_the_position_automaton. Qed.
Print Assumptions checked_automaton_is_the_position_automaton_of_its_tree.

(* non-vacuity: (a|b)*a?c - the tables of the model are those of the implementation (one-based), and the position
   automaton accepts "abac" and "c" and rejects "ca" *)
Example followpos_example :
  let r := NCat (NCons (NStar (NAlt (NCons (NCat (NCons (NChar 97) NNil)) (NCons (NCat (NCons (NChar 98) NNil)) NNil))))
                (NCons (NAlt (NCons NEmpty (NCons (NChar 97) NNil))) (NCons (NChar 99) NNil))) in
  tables_agree r 61166 false [1;2;3;4]%nat [5]%nat [(1, [1;2;3;4]); (2, [1;2;3;4]); (3, [4]); (4, [5])]%nat
  && Followpos.accepts r 61166 [97;98;97;99] && Followpos.accepts r 61166 [99] && negb (Followpos.accepts r 61166 [99;97]) = true.
Proof. vm_compute. reflexivity. Qed.

(* ---- quantifyNode: what a quantified tree denotes, for every operand tree and every quantifier ---- *)
Theorem quantified_tree_denotes_the_documented_repetition :
  forall x w,
    (lang (quantify x QOpt) w <-> w = [] \/ lang x w) /\
    (lang (quantify x QStar) w <-> exists i, power (lang x) i w) /\
    (lang (quantify x QPlus) w <-> exists i, (1 <= i)%nat /\ power (lang x) i w) /\
    (forall m, lang (quantify x (QRange m None)) w <-> exists i, (m <= i)%nat /\ power (lang x) i w) /\
    (forall m k, (m <= k)%nat -> (lang (quantify x (QRange m (Some k))) w <-> exists i, (m <= i <= k)%nat /\ power (lang x) i w)).
Proof.
  intros x w. split; [apply quantify_opt|]. split; [apply quantify_star|]. split; [apply quantify_plus|].
  split; [intros m; apply quantify_at_least | intros m k H; apply quantify_range; exact H].
Qed.
Print Assumptions quantified_tree_denotes_the_documented_repetition.

(* non-vacuity: a{1,2} is (a)(ε|a), modulo the one-operand concatenation the parser wraps a lone item in *)
Example quantify_example :
  quantified_as_modelled (NCat (NCons (NChar 97) NNil)) (QRange 1 (Some 2%nat))
    (NCat (NCons (NCat (NCons (NChar 97) (NCons (NAlt (NCons NEmpty (NCons (NChar 97) NNil))) NNil))) NNil)) = true.
Proof. vm_compute. reflexivity. Qed.

(* ---- from the abstract pattern to the automaton: the whole direct route ---- *)
Theorem tree_of_a_pattern_denotes_its_documented_meaning :
  forall p, wf_pat p -> forall w, lang (tree_of p) w <-> doc_sem p w.
Proof. exact tree_of_correct. Qed.
Print Assumptions tree_of_a_pattern_denotes_its_documented_meaning.

Theorem direct_route_is_the_documented_meaning_of_the_pattern :
  forall p em, wf_pat p -> ~ In em (chars (tree_of p)) ->
    forall w, ~ In em w -> (Followpos.accepts (tree_of p) em w = true <-> doc_sem p w).
Proof. exact direct_route_is_the_documented_meaning. Qed.
Print Assumptions direct_route_is_the_documented_meaning_of_the_pattern.

(* computeFollows as the code runs it - one pass that ADDS (position, followers) pairs at every concatenation and star -
   yields, for every position of the tree, exactly the positions the model's [follow] finds by descending to it *)
Theorem accumulated_follow_table_is_followpos :
  forall n o p q, (o <= p < o + size n)%nat -> (In q (table_at (entries o n) p) <-> In q (follow o n p)).
Proof. exact (proj1 accumulated_table_is_follow). Qed.
Print Assumptions accumulated_follow_table_is_followpos.

(* nullable is what it is meant to be, for every tree: true exactly when the tree's language has the empty string *)
Theorem nullable_iff_the_empty_string_is_matched : forall n, Followpos.nullable n = true <-> lang n [].
Proof.
  intros n. rewrite (proj1 lang_first n 0%nat []). split.
  - intros H. left. split; [reflexivity | exact H].
  - intros [[_ H]|[p [v [_ [E _]]]]]; [exact H | discriminate].
Qed.
Print Assumptions nullable_iff_the_empty_string_is_matched.
