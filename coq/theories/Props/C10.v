(* C10 — the direct (followpos) construction agrees with the NFA route, and both with the
   documented meaning.

   Both automata are built with the help of the dependency (subset construction, Minimize), so the
   agreement is certified per explored pattern, for ALL strings: both automata pass the same checker
   against the same model expression, hence accept the same language (three-way). *)
From Coq Require Import String List Bool NArith.
From Verif Require Import Base.CharSet Reg.Dfa Reg.Regex Reg.EquivCheck Reg.Pattern Reg.PatSem Reg.PatCheck.
From VerifGen Require Import RuneGo.
Import ListNotations.
Local Open Scope N_scope.

Definition case_ok := PatCheck.case_ok escaped ascii_names uni_cats cls_letters rune_classes.
Definition model := PatCheck.model escaped ascii_names uni_cats cls_letters rune_classes.

Theorem three_way_agreement :
  forall p d1 f1 d2 f2, case_ok (p, 0, [(d1, f1); (d2, f2)]) = true ->
    (forall s, accepts d1 f1 s = accepts d2 f2 s) /\
    exists t, pr_regex t = p /\ forall s, accepts d1 f1 s = true <-> matches (desugar_impl (ast_regex rune_classes t)) s.
Proof.
  intros p d1 f1 d2 f2 H.
  destruct (case_ok_impl escaped ascii_names uni_cats cls_letters rune_classes p _ H) as [t [Hp Ht]].
  split.
  - intros s.
    pose proof (Ht d1 f1 (or_introl eq_refl) s) as H1.
    pose proof (Ht d2 f2 (or_intror (or_introl eq_refl)) s) as H2.
    destruct (accepts d1 f1 s), (accepts d2 f2 s); try reflexivity.
    + exfalso. assert (false = true) by (apply H2, H1; reflexivity). discriminate.
    + exfalso. assert (false = true) by (apply H1, H2; reflexivity). discriminate.
  - exists t. split; [exact Hp|]. intros s. apply (Ht d1 f1 (or_introl eq_refl) s).
Qed.
Print Assumptions three_way_agreement.

Theorem three_way_agreement_guarded :
  forall p d1 f1 d2 f2, case_ok (p, 0, [(d1, f1); (d2, f2)]) = true ->
    pattern_nul_free escaped ascii_names uni_cats cls_letters rune_classes p = true ->
    exists t, pr_regex t = p /\
      forall s, (accepts d1 f1 s = true <-> doc_sem (ast_regex rune_classes t) s) /\
                (accepts d2 f2 s = true <-> doc_sem (ast_regex rune_classes t) s).
Proof.
  intros p d1 f1 d2 f2 H Hg.
  destruct (case_ok_sound escaped ascii_names uni_cats cls_letters rune_classes p _ H Hg) as [t [Hp Ht]].
  exists t. split; [exact Hp|]. intros s. split.
  - apply (Ht d1 f1 (or_introl eq_refl) s).
  - apply (Ht d2 f2 (or_intror (or_introl eq_refl)) s).
Qed.
Print Assumptions three_way_agreement_guarded.

(* the documented meaning of the shapes the position construction is sensitive to:
   nullable operands of a concatenation, patterns matching the empty string, duplicated sub-expressions *)
Example position_automaton_examples :
  match model [97;42] (* a* *), model [97;98;63;99] (* ab?c *), model [40;97;98;41;123;48;44;50;125;99] (* (ab){0,2}c *) with
  | MOk _ r1, MOk _ r2, MOk _ r3 =>
    matchb r1 [] && matchb r1 [97;97] && matchb r2 [97;99] && matchb r2 [97;98;99] && negb (matchb r2 [97;98;98;99])
    && matchb r3 [99] && matchb r3 [97;98;97;98;99] && negb (matchb r3 [97;98;97;98;97;98;99])
  | _, _, _ => false
  end = true.
Proof. vm_compute. reflexivity. Qed.
