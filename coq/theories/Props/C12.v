(* C12 — the recorded precedence levels are exactly the directives, in order, with their handles.

   UNIVERSAL: for every declaration list, the levels recorded by the symbol-table model are one per
   directive, in source order, with the associativity written (an earlier directive is a higher level).
   UNIVERSAL TOO (Emerge/SpecLevels.v): the terminal handles of the levels are exactly the terminals written in the
   directives, level by level and in the order written; and every production handle of a recorded level is one of the
   grammar's own productions (a rule handle adds its productions to the grammar and contributes exactly those).
   UNIVERSAL TOO (Emerge/SpecLevels.v): the terminal handles of the levels are exactly the terminals written in the
   directives, level by level and in the order written; and every production handle of a recorded level is one of the
   grammar's own productions (a rule handle adds its productions to the grammar and contributes exactly those).
   PER SPECIFICATION (kernel-evaluated): the handle SETS of every level equal the declarative reading
   (terminals as written; a rule handle contributes one production handle per alternative of its
   expansion) and every production handle is one of the grammar's own productions; and the levels equal
   those of spec.Parse. *)
From Coq Require Import String List Bool NArith.
From Verif Require Import Cfg.Ebnf Cfg.Translate Emerge.SpecModel Emerge.SpecWf Emerge.SpecLevels Emerge.SpecSigma Emerge.Pipeline.
From VerifGen Require Import RuneGo.
Import ListNotations.

Theorem levels_are_the_directives_in_order :
  forall ds, map fst (s_precs (translate_spec ds)) = flat_map assoc_of ds.
Proof. intros ds. apply levels_in_source_order. Qed.
Print Assumptions levels_are_the_directives_in_order.

Theorem level_terminals_are_the_ones_written :
  forall ds, map (fun lv => handle_terms (snd lv)) (s_precs (translate_spec ds)) = flat_map directive_terms ds.
Proof. intros ds. exact (level_terminals_are_the_written_ones terminal_names predefs_s ds). Qed.
Print Assumptions level_terminals_are_the_ones_written.

Theorem every_production_handle_is_a_production_of_the_grammar :
  forall ds lv A b, In lv (s_precs (translate_spec ds)) -> In (PHProd A b) (snd lv) -> In (A, b) (s_prods (translate_spec ds)).
Proof. intros ds lv A b. exact (production_handles_are_productions terminal_names predefs_s ds lv A b). Qed.
Print Assumptions every_production_handle_is_a_production_of_the_grammar.

(* THE LEVELS ARE THE DIRECTIVES: the recorded list of levels equals, as a list, the declarative reading of the directives
   - one level per directive in source order, its associativity, and for its handles in the order written: the terminal
   itself, or one production handle per alternative of a rule handle's expansion ([sigma] under the naming the memo ends
   up with; the empty production for an empty rule handle).  Every declaration list, no premise. *)
Theorem recorded_levels_are_exactly_the_directives :
  forall ds, s_precs (translate_spec ds) = directive_levels (spec_nu ds) ds.
Proof. intros ds. exact (recorded_levels_are_the_directives terminal_names predefs_s ds). Qed.
Print Assumptions recorded_levels_are_exactly_the_directives.

Fixpoint cp (s : string) : list N :=
  match s with EmptyString => [] | String a t => Ascii.N_of_ascii a :: cp t end.
Local Open Scope string_scope.

Example levels_example :
  match front (cp "grammar g; @right ""^""; start = e; @left <e = e e | ""-"" e> ""*"" NUM; e = ""n""; @none ""<"" ""<""; NUM = /1/;") with
  | FSpec _ ds =>
    let s := translate_spec ds in
    levels_eqb (s_precs s) (directive_levels (spec_nu ds) ds) && handles_are_productions s &&
    match s_precs s with
    | [(1, [PHTerm "^"]); (0, [PHProd "e" [SN "e"; SN "e"]; PHProd "e" [ST "-"; SN "e"]; PHTerm "*"; PHTerm "NUM"]); (2, [PHTerm "<"; PHTerm "<"])] => true
    | _ => false
    end
  | _ => false
  end = true.
Proof. vm_compute. reflexivity. Qed.
