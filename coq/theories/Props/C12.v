(* C12 — the recorded precedence levels are exactly the directives, in order, with their handles.

   UNIVERSAL: for every declaration list, the levels recorded by the symbol-table model are one per
   directive, in source order, with the associativity written (an earlier directive is a higher level).
   PER SPECIFICATION (kernel-evaluated): the handle SETS of every level equal the declarative reading
   (terminals as written; a rule handle contributes one production handle per alternative of its
   expansion) and every production handle is one of the grammar's own productions; and the levels equal
   those of spec.Parse. *)
From Coq Require Import String List Bool NArith.
From Verif Require Import Cfg.Ebnf Cfg.Translate Emerge.SpecModel Emerge.SpecWf Emerge.Pipeline.
From VerifGen Require Import RuneGo.
Import ListNotations.

Theorem levels_are_the_directives_in_order :
  forall ds, map fst (s_precs (translate_spec ds)) = flat_map assoc_of ds.
Proof. intros ds. apply levels_in_source_order. Qed.
Print Assumptions levels_are_the_directives_in_order.

Fixpoint cp (s : string) : list N :=
  match s with EmptyString => [] | String a t => Ascii.N_of_ascii a :: cp t end.
Local Open Scope string_scope.

Example levels_example :
  match front (cp "grammar g; @right ""^""; start = e; @left <e = e e | ""-"" e> ""*"" NUM; e = ""n""; @none ""<"" ""<""; NUM = /1/;") with
  | FSpec _ ds =>
    let s := translate_spec ds in
    levels_eqb (s_precs s) (directive_levels (spec_nu ds) ds) && handles_are_productions s &&
    match s_precs s with
    | [(1, [PHTerm "^"]); (0, [PHProd "e" [SN "e"; SN "e"]; PHProd "e" [ST "-"; SN "e"]; PHTerm "*"; PHTerm "NUM"]); (2, [PHTerm "<"; PHTerm "<"])] => true
    | _ => false
    end
  | _ => false
  end = true.
Proof. vm_compute. reflexivity. Qed.
