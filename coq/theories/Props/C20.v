(* C20 — lexical and syntax errors are reported at the first offending token.

   On the table regenerated from parsing_table.go, for ALL token sequences:
   - nothing after the offending token influences the error index or the callbacks before it;
   - every token before the reported one had been shifted, in source order (the parser never reports
     an earlier, innocent token, and a premature end is reported at the end marker, which carries
     no position);
   Lexical errors: by C05's scanner_stream the stream ends with EndError at the START of the first
   lexeme the documented automaton cannot classify; the examples below instantiate it for a stray
   character and for an unterminated string, pattern and block comment.
   PARTIAL: "the shifted prefix is a prefix of some acceptable specification" and "the offending token
   admits no continuation" need the LR viable-prefix / completeness theorems; they are decided per
   explored case by an exact Earley oracle for the documented grammar (see DESIGN.md). *)
From Coq Require Import String List Bool Arith NArith.
From Verif Require Import Cfg.LR Cfg.LRPrefix Reg.Dfa Reg.MaxMunch.
From VerifGen Require Import TableGo LexerGo.
Import ListNotations.
Local Open Scope N_scope.

Definition ebnf_run := LR.run ebnf_grammar ebnf_table ebnf_eof ebnf_err_state.

Theorem nothing_after_the_error_matters :
  forall toks fin fuel tr i rest' fin',
    ebnf_run toks fin fuel init = (tr, OSyntaxError i) -> (i < length toks)%nat ->
    ebnf_run (firstn (S i) toks ++ rest') fin' fuel init = (tr, OSyntaxError i).
Proof. intros toks fin fuel tr i rest' fin' H Hi. apply (error_independent_of_suffix _ _ _ _ toks fin); assumption. Qed.
Print Assumptions nothing_after_the_error_matters.

Theorem tokens_before_the_error_were_shifted :
  forall toks fin fuel tr k,
    ebnf_run toks fin fuel init = (tr, OSyntaxError k) ->
    tok_events tr = seq 0 k.
Proof.
  intros toks fin fuel tr k H.
  pose proof (tokens_before_error_shifted ebnf_grammar ebnf_table ebnf_eof ebnf_err_state toks fin fuel init tr _ H) as E.
  simpl in E. rewrite Nat.sub_0_r in E. exact E.
Qed.
Print Assumptions tokens_before_the_error_were_shifted.

(* a specification that merely ends too early: the end marker is the offending token *)
Example premature_end_example :
  snd (ebnf_run [13; 17; 17; 0; 17] EndOfInput 1000 init) = OSyntaxError 5   (* grammar x a = b *)
  /\ snd (ebnf_run [13] EndOfInput 1000 init) = OSyntaxError 1.
Proof. vm_compute. split; reflexivity. Qed.

(* lexical errors are reported at the first character of the stray / unterminated element *)
Definition go_cls := classify go_eval go_skip.
Definition scan (text : list N) := tokens (Dfa.step go_dfa) go_cls (text ++ [10]).
Example lexical_error_examples :
  (* x = [quote]a[quote] ; # y  : stray character at offset 10 *)
  snd (scan [120;32;61;32;34;97;34;32;59;32;35;32;121]) = mk_err 10 1 11 []
  (* x = [quote]abc  : unterminated string reported at its opening quote (offset 4) *)
  /\ (match snd (scan [120;32;61;32;34;97;98;99]) with EndError p _ => p_off p =? 4 | _ => false end) = true
  (* x [slash][star] open  : unterminated block comment reported at offset 2 *)
  /\ (match snd (scan [120;32;47;42;32;111;112;101;110]) with EndError p _ => p_off p =? 2 | _ => false end) = true
  (* AB = [slash]ab  : unterminated pattern reported at offset 5 *)
  /\ (match snd (scan [65;66;32;61;32;47;97;98]) with EndError p _ => p_off p =? 5 | _ => false end) = true.
Proof. vm_compute. repeat split; reflexivity. Qed.
