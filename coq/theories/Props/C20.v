(* C20 — lexical and syntax errors are reported at the first offending token.

   On the table regenerated from parsing_table.go, for ALL token sequences:
   - nothing after the offending token influences the error index or the callbacks before it;
   - every token before the reported one had been shifted, in source order (the parser never reports
     an earlier, innocent token, and a premature end is reported at the end marker, which carries
     no position);
   - the tokens before the reported one are a prefix of some input the parser ACCEPTS
     ([the_shifted_prefix_can_be_completed], Cfg/LRViable.v: the stack of trees of any reachable configuration is
     completed to a canonical tree of the whole grammar by a kernel-checked certificate, and Cfg/LRComplete.v says
     its leaves are accepted), and so are all the tokens read before a lexical error;
   - with the offending token no continuation is accepted ([the_offending_token_admits_no_continuation]).
   Together: the reported token is the FIRST one after which no valid specification can continue.
   Lexical errors: by C05's scanner_stream the stream ends with EndError at the START of the first
   lexeme the documented automaton cannot classify; the examples below instantiate it for a stray
   character and for an unterminated string, pattern and block comment.
   (The harness still compares every explored case with an exact Earley oracle for the documented grammar: that
   ties "accepted by the parser" to "a sentence of the documentation".) *)
From Coq Require Import String List Bool Arith NArith.
From Verif Require Import Cfg.LR Cfg.LRSafe Cfg.LRPrefix Cfg.LRComplete Cfg.LRCanon Cfg.LRExact Cfg.LRViable Cfg.EbnfDoc Cfg.EbnfCert Reg.Dfa Reg.MaxMunch.
From VerifGen Require Import TableGo LexerGo.
Import ListNotations.
Local Open Scope N_scope.

Definition ebnf_run := LR.run ebnf_grammar ebnf_table ebnf_eof ebnf_err_state.

Theorem nothing_after_the_error_matters :
  forall toks fin fuel tr i rest' fin',
    ebnf_run toks fin fuel init = (tr, OSyntaxError i) -> (i < length toks)%nat ->
    ebnf_run (firstn (S i) toks ++ rest') fin' fuel init = (tr, OSyntaxError i).
Proof. intros toks fin fuel tr i rest' fin' H Hi. apply (error_independent_of_suffix _ _ _ _ toks fin); assumption. Qed.
Print Assumptions nothing_after_the_error_matters.

Theorem tokens_before_the_error_were_shifted :
  forall toks fin fuel tr k,
    ebnf_run toks fin fuel init = (tr, OSyntaxError k) ->
    tok_events tr = seq 0 k.
Proof.
  intros toks fin fuel tr k H.
  pose proof (tokens_before_error_shifted ebnf_grammar ebnf_table ebnf_eof ebnf_err_state toks fin fuel init tr _ H) as E.
  simpl in E. rewrite Nat.sub_0_r in E. exact E.
Qed.
Print Assumptions tokens_before_the_error_were_shifted.

Lemma ebnf_safe : safe_check ebnf_grammar ebnf_table ebnf_eof ebnf_err_state ebnf_start ebnf_past = true.
Proof. vm_compute. reflexivity. Qed.

(* the tokens before the offending one can be continued to an input the parser accepts *)
Theorem the_shifted_prefix_can_be_completed :
  forall toks fin fuel tr k, ~ In ebnf_eof toks ->
    ebnf_run toks fin fuel init = (tr, OSyntaxError k) ->
    exists w fuel' tr', ebnf_run (firstn k toks ++ w) EndOfInput fuel' init = (tr', OAccept).
Proof.
  intros toks fin fuel tr k Hn Hr.
  exact (error_prefix_can_be_completed ebnf_grammar ebnf_table ebnf_eof ebnf_err_state ebnf_start ebnf_past ebnf_rules
           ebnf_nul ebnf_first ebnf_V ebnf_Wany ebnf_W ebnf_E ebnf_plans ebnf_wits toks fin
           ebnf_safe ebnf_complete_check ebnf_canon_check ebnf_viable_check ebnf_no_shift_to_err Hn fuel tr k Hr).
Qed.
Print Assumptions the_shifted_prefix_can_be_completed.

(* ... as a canonical tree of the documented grammar (Cfg/EbnfDoc.v) whose leaves begin with those tokens *)
Theorem the_shifted_prefix_begins_a_sentence :
  forall toks fin fuel tr k, ~ In ebnf_eof toks ->
    ebnf_run toks fin fuel init = (tr, OSyntaxError k) ->
    exists w t, canonical_sentence ebnf_grammar ebnf_start ebnf_rules (firstn k toks ++ w) t.
Proof.
  intros toks fin fuel tr k Hn Hr.
  exact (shifted_prefix_is_viable ebnf_grammar ebnf_table ebnf_eof ebnf_err_state ebnf_start ebnf_past ebnf_rules
           ebnf_Wany ebnf_W ebnf_E ebnf_plans ebnf_wits toks fin
           ebnf_safe ebnf_canon_check ebnf_viable_check ebnf_no_shift_to_err Hn fuel tr k Hr).
Qed.
Print Assumptions the_shifted_prefix_begins_a_sentence.

Theorem tokens_before_a_lexical_error_begin_a_sentence :
  forall toks fin fuel tr, ~ In ebnf_eof toks ->
    ebnf_run toks fin fuel init = (tr, OLexError) ->
    exists w t, canonical_sentence ebnf_grammar ebnf_start ebnf_rules (toks ++ w) t.
Proof.
  intros toks fin fuel tr Hn Hr.
  exact (tokens_before_lexical_error_are_viable ebnf_grammar ebnf_table ebnf_eof ebnf_err_state ebnf_start ebnf_past ebnf_rules
           ebnf_Wany ebnf_W ebnf_E ebnf_plans ebnf_wits toks fin
           ebnf_safe ebnf_canon_check ebnf_viable_check ebnf_no_shift_to_err Hn fuel tr Hr).
Qed.
Print Assumptions tokens_before_a_lexical_error_begin_a_sentence.

(* with the offending token, whatever follows, the input is not accepted *)
Theorem the_offending_token_admits_no_continuation :
  forall toks fin fuel tr i,
    ebnf_run toks fin fuel init = (tr, OSyntaxError i) -> (i < length toks)%nat ->
    forall rest' fin' fuel' tr', ebnf_run (firstn (S i) toks ++ rest') fin' fuel' init <> (tr', OAccept).
Proof. exact (no_continuation_after_the_error ebnf_grammar ebnf_table ebnf_eof ebnf_err_state). Qed.
Print Assumptions the_offending_token_admits_no_continuation.

(* the premise is met by concrete inputs, and the completion is a real one *)
Example a_prefix_and_its_completion :
  snd (ebnf_run [13; 17; 17; 0; 3; 17; 2; 1] EndOfInput 1000 init) = OSyntaxError 7     (* grammar x a = ( b | ;  *)
  /\ snd (ebnf_run ([13; 17; 17; 0; 3; 17; 2] ++ [4; 1]) EndOfInput 1000 init) = OAccept.   (* ... ) ; *)
Proof. vm_compute. split; reflexivity. Qed.

(* a specification that merely ends too early: the end marker is the offending token *)
Example premature_end_example :
  snd (ebnf_run [13; 17; 17; 0; 17] EndOfInput 1000 init) = OSyntaxError 5   (* grammar x a = b *)
  /\ snd (ebnf_run [13] EndOfInput 1000 init) = OSyntaxError 1.
Proof. vm_compute. split; reflexivity. Qed.

(* lexical errors are reported at the first character of the stray / unterminated element *)
Definition go_cls := classify go_eval go_skip.
Definition scan (text : list N) := tokens (Dfa.step go_dfa) go_cls (text ++ [10]).
Example lexical_error_examples :
  (* x = [quote]a[quote] ; # y  : stray character at offset 10 *)
  snd (scan [120;32;61;32;34;97;34;32;59;32;35;32;121]) = mk_err 10 1 11 []
  (* x = [quote]abc  : unterminated string reported at its opening quote (offset 4) *)
  /\ (match snd (scan [120;32;61;32;34;97;98;99]) with EndError p _ => p_off p =? 4 | _ => false end) = true
  (* x [slash][star] open  : unterminated block comment reported at offset 2 *)
  /\ (match snd (scan [120;32;47;42;32;111;112;101;110]) with EndError p _ => p_off p =? 2 | _ => false end) = true
  (* AB = [slash]ab  : unterminated pattern reported at offset 5 *)
  /\ (match snd (scan [65;66;32;61;32;47;97;98]) with EndError p _ => p_off p =? 5 | _ => false end) = true.
Proof. vm_compute. repeat split; reflexivity. Qed.
