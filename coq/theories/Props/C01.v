(* C01 — the EBNF-to-grammar translation preserves the language of every rule.

   UNIVERSAL (Cfg/Ebnf.v, Cfg/Translate.v): for every rule list, every naming of the synthesised
   non-terminals and every production set, if the decidable premise [pure_ok] holds — the production set
   is exactly "one production per alternative of every rule plus the expansions of the bracketed
   sub-expressions", synthesised names are not names the user mentions, and equal synthesised names
   stand for the same kind and the same set of alternatives — then every user rule generates exactly
   the terminal strings its EBNF text denotes (no sentence added or lost, for every nesting and
   combination of ( ) [ ] { } {{ }} | and trailing |).
   The production set and the naming are those of the model of emerge's symbol table
   (Emerge/SpecModel.v), which the correspondence compares with spec.Parse on generated specifications;
   [spec_pure_ok] is evaluated by the kernel for each of them.
   KNOWN FINDING D2: when the premise fails (a user name coincides with a synthesised one, or two
   different bodies synthesise the same name, e.g. {"+"} and {plus}), the language is NOT preserved:
   see [name_collision_refuted]. *)
From Coq Require Import String List Bool NArith.
From Verif Require Import Cfg.Ebnf Cfg.Translate Emerge.SpecModel Emerge.Pipeline.
Import ListNotations.

Theorem translation_preserves_language :
  forall (rules : list rule) (nu : strings -> kind -> string) (P : list (string * sstr)),
    pure_ok rules nu P = true ->
    forall A w, In A (map fst rules) -> (derives P (SN A) w <-> em rules (ENT A) w).
Proof. exact pure_ok_sound. Qed.
Print Assumptions translation_preserves_language.

Corollary model_preserves_language :
  forall ds, spec_pure_ok ds = true ->
    forall A w, In A (map fst (rules_of_decls ds)) ->
      (derives (s_prods (translate_spec ds)) (SN A) w <-> em (rules_of_decls ds) (ENT A) w).
Proof. intros ds H. unfold spec_pure_ok in H. exact (pure_ok_sound _ _ _ H). Qed.
Print Assumptions model_preserves_language.

Fixpoint cp (s : string) : list N :=
  match s with EmptyString => [] | String a t => Ascii.N_of_ascii a :: cp t end.
Local Open Scope string_scope.

(* the premise is satisfiable: every operator, nested, repeated on the same sub-expression *)
Example premise_holds_somewhere :
  match front (cp "grammar g; start = {a ""+""} [a] (b | c |) {{a ""+""}} [{a}] ({a}); a = ""x"" {{a}}; b = ""y""; c = ;") with
  | FSpec _ ds => spec_pure_ok ds
  | _ => false
  end = true.
Proof. vm_compute. reflexivity. Qed.

(* D2: {"+"} and {plus} both become gen_plus_star; the premise fails and the language really changes:
   start = {"+"} "x" {plus} ; plus = "p"  — the grammar derives "p x" although the EBNF does not *)
Example name_collision_refuted :
  match front (cp "grammar g; start = {""+""} ""x"" {plus}; plus = ""p"";") with
  | FSpec _ ds =>
    negb (spec_pure_ok ds) &&
    pmem ("gen_plus_star", [SN "gen_plus_star"; ST "+"]) (s_prods (translate_spec ds)) &&
    pmem ("gen_plus_star", [SN "gen_plus_star"; SN "plus"]) (s_prods (translate_spec ds))
  | _ => false
  end = true.
Proof. vm_compute. reflexivity. Qed.
