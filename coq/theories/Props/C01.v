(* C01 — the EBNF-to-grammar translation preserves the language of every rule.

   UNIVERSAL (Cfg/Ebnf.v, Cfg/Translate.v): for every rule list, every naming of the synthesised
   non-terminals and every production set, if the decidable premise [pure_ok] holds — the production set
   is exactly "one production per alternative of every rule plus the expansions of the bracketed
   sub-expressions", synthesised names are not names the user mentions, and equal synthesised names
   stand for the same kind and the same set of alternatives — then every user rule generates exactly
   the terminal strings its EBNF text denotes (no sentence added or lost, for every nesting and
   combination of ( ) [ ] { } {{ }} | and trailing |).
   The production set and the naming are those of the model of emerge's symbol table
   (Emerge/SpecModel.v), which the correspondence compares with spec.Parse on generated specifications;
   [spec_pure_ok] is evaluated by the kernel for each of them.
   UNIVERSAL TOO (Emerge/SpecMemo.v, Emerge/SpecSigma.v): the model COMPUTES the specified translation.  The memo's
   keys are compared as multisets ([key_eqb] is multiset equality, an equivalence), entries have pairwise different keys,
   a name once assigned is never changed or lost; hence, under the naming the memo ends up with, the alternatives
   computed for a right-hand side are [sigma] of it and the production set is exactly [P_pure] - for every declaration
   list, no premise.  So the only premise left of the language theorem is that NAMES are well chosen ([names_ok], the
   first two conjuncts of [pure_ok]): [emerge_translation_preserves_language].
   KNOWN FINDING D2: when the premise fails (a user name coincides with a synthesised one, or two
   different bodies synthesise the same name, e.g. {"+"} and {plus}), the language is NOT preserved:
   see [name_collision_refuted]. *)
From Coq Require Import String List Bool NArith.
From Verif Require Import Cfg.Ebnf Cfg.Translate Emerge.SpecModel Emerge.SpecSigma Emerge.Pipeline.
From VerifGen Require Import RuneGo.
Import ListNotations.

Theorem translation_preserves_language :
  forall (rules : list rule) (nu : strings -> kind -> string) (P : list (string * sstr)),
    pure_ok rules nu P = true ->
    forall A w, In A (map fst rules) -> (derives P (SN A) w <-> em rules (ENT A) w).
Proof. exact pure_ok_sound. Qed.
Print Assumptions translation_preserves_language.

Corollary model_preserves_language :
  forall ds, spec_pure_ok ds = true ->
    forall A w, In A (map fst (rules_of_decls ds)) ->
      (derives (s_prods (translate_spec ds)) (SN A) w <-> em (rules_of_decls ds) (ENT A) w).
Proof. intros ds H. unfold spec_pure_ok in H. exact (pure_ok_sound _ _ _ H). Qed.
Print Assumptions model_preserves_language.

(* the production set of the model IS the specified one, under the naming the memo ends up with: every declaration list *)
Theorem model_production_set_is_the_specified_one :
  forall ds p, In p (s_prods (translate_spec ds)) <-> In p (P_pure (rules_of_decls ds) (spec_nu ds)).
Proof. intros ds p. exact (production_set_is_the_specified_one terminal_names predefs_s ds p). Qed.
Print Assumptions model_production_set_is_the_specified_one.

(* names are well chosen: synthesised names are not names the user mentions, and equal synthesised names stand for the same
   kind and the same set of alternatives (exactly the first two conjuncts of [pure_ok]) *)
Definition names_ok (rules : list rule) (nu : strings -> kind -> string) : bool :=
  forallb (fun kx => negb (existsb (String.eqb (name_of nu kx)) (mentioned_list rules))) (brackets rules)
  && forallb (fun kx => forallb (fun kx' =>
               if String.eqb (name_of nu kx) (name_of nu kx')
               then kind_eqb (fst kx) (fst kx') && seteqb (sigma nu (snd kx)) (sigma nu (snd kx'))
               else true) (brackets rules)) (brackets rules).

Theorem emerge_translation_preserves_language :
  forall ds, names_ok (rules_of_decls ds) (spec_nu ds) = true ->
    forall A w, In A (map fst (rules_of_decls ds)) ->
      (derives (s_prods (translate_spec ds)) (SN A) w <-> em (rules_of_decls ds) (ENT A) w).
Proof.
  intros ds Hn. apply (pure_ok_sound (rules_of_decls ds) (spec_nu ds) (s_prods (translate_spec ds))). unfold pure_ok. unfold names_ok in Hn. rewrite Hn. simpl.
  apply andb_true_iff. split; apply forallb_forall; intros p Hp; apply pmem_spec.
  - apply (model_production_set_is_the_specified_one ds p). exact Hp.
  - apply (model_production_set_is_the_specified_one ds p). exact Hp.
Qed.
Print Assumptions emerge_translation_preserves_language.

Fixpoint cp (s : string) : list N :=
  match s with EmptyString => [] | String a t => Ascii.N_of_ascii a :: cp t end.
Local Open Scope string_scope.

(* the premise is satisfiable: every operator, nested, repeated on the same sub-expression *)
Example premise_holds_somewhere :
  match front (cp "grammar g; start = {a ""+""} [a] (b | c |) {{a ""+""}} [{a}] ({a}); a = ""x"" {{a}}; b = ""y""; c = ;") with
  | FSpec _ ds => spec_pure_ok ds && names_ok (rules_of_decls ds) (spec_nu ds)
  | _ => false
  end = true.
Proof. vm_compute. reflexivity. Qed.

(* D2: {"+"} and {plus} both become gen_plus_star; the premise fails and the language really changes:
   start = {"+"} "x" {plus} ; plus = "p"  — the grammar derives "p x" although the EBNF does not *)
Example name_collision_refuted :
  match front (cp "grammar g; start = {""+""} ""x"" {plus}; plus = ""p"";") with
  | FSpec _ ds =>
    negb (spec_pure_ok ds) &&
    pmem ("gen_plus_star", [SN "gen_plus_star"; ST "+"]) (s_prods (translate_spec ds)) &&
    pmem ("gen_plus_star", [SN "gen_plus_star"; SN "plus"]) (s_prods (translate_spec ds))
  | _ => false
  end = true.
Proof. vm_compute. reflexivity. Qed.
