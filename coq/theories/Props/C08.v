(* C08 — the emitted lexer is valid stand-alone Go encoding exactly the token automaton.

   PER EMITTED PACKAGE: (1) the Go front end (go vet: parser + type checker, standard library only) accepts
   the six files — decided by Go, not by Coq; (2) the transition function and the accepting-state table are
   READ BACK from the emitted lexer.go by the translator and compared with the automaton and terminal map
   dumped from Spec.DFA(): [emitted_ok] evaluated by the kernel.
   UNIVERSAL: whenever [emitted_ok] holds, the emitted transition function equals the automaton's for EVERY
   state and EVERY code point, and the emitted table equals the terminal map for EVERY state (nothing for
   any other state). *)
From Coq Require Import String List Bool NArith.
From Verif Require Import Base.CharSet Reg.Dfa Reg.Emitted.
Import ListNotations.
Local Open Scope N_scope.

Theorem emitted_encodes_exactly_the_automaton :
  forall de te dd td,
    emitted_ok (de, te, dd, td) = true ->
    (forall q c, step de q c = step dd q c) /\ (forall q, elookup te q = elookup td q).
Proof. exact emitted_ok_sound. Qed.
Print Assumptions emitted_encodes_exactly_the_automaton.

(* the check distinguishes: one rune dropped from one transition, or a terminal attributed to another state *)
Example check_is_sharp :
  let d := {| d_start := 0; d_edges := [(0, 97, 122, 1); (1, 97, 122, 1); (0, 39, 39, 2); (0, 92, 92, 3)] |} in
  let d' := {| d_start := 0; d_edges := [(0, 97, 122, 1); (1, 97, 121, 1); (0, 39, 39, 2); (0, 92, 92, 3)] |} in
  let t := [(1, "ID"%string); (2, "QUOT"%string); (3, "BSL"%string)] in
  let t' := [(1, "ID"%string); (3, "QUOT"%string); (2, "BSL"%string)] in
  emitted_ok (d, t, d, t) = true /\ emitted_ok (d', t, d, t) = false /\ emitted_ok (d, t', d, t) = false.
Proof. vm_compute. repeat split; reflexivity. Qed.
