(* C16 — an unusable package name is rejected before anything is created (see Props/C16.v) *)
From Coq Require Import String List Bool.
From Verif Require Import Emerge.Cli.
From VerifGen Require Import CliGo.
Import ListNotations.
Local Open Scope string_scope.

(* a name that is not a usable Go package identifier (identifier syntax, not a keyword, not the blank identifier; ASCII
   names) is rejected before anything is created *)
Theorem unusable_package_name_rejected c s g d l :
  c_flag_error c = None -> c_help c = false -> c_version c = false -> c_arg c = Readable (PAccepted g d l) ->
  ~ usable (package_name params_go c g) ->
  r_exit (run params_go c s) = Exit 1 /\ r_announced (run params_go c s) = false /\ r_fs (run params_go c s) = s.
Proof. apply unusable_name_rejected; vm_compute; reflexivity. Qed.
Print Assumptions unusable_package_name_rejected.

