(* C11 — Syntax trees of a specification reflect the source exactly and round-trip.

   (a) the generic tree of ParseAndBuildAST: one production of the EBNF grammar at every interior node, rooted at the
       start symbol, leaves = the significant tokens left to right (with their indices, hence positions) — from
       lr_sound on the table regenerated from parsing_table.go;
   (b) the typed tree: declarations in source order; juxtaposition and alternation flattened with the operands in
       the order written; groups transparent; a trailing "|" adds the empty operand; always in normal form;
   (c) printing a typed tree back to an expression and building the tree again gives the same tree;
   (d) the structure of the typed tree determines the same declarations the direct derivation starts from
       (per instance: the grammar derived from the printed typed tree is compared with spec.Parse's). *)
From Coq Require Import String List Bool Arith NArith.
From Verif Require Import Cfg.LR Cfg.LRSafe Cfg.LRComplete Cfg.LRCanon Cfg.LRExact Cfg.EbnfDoc Cfg.EbnfCert Cfg.Ebnf Emerge.SpecModel Emerge.TypedTree Emerge.TypedSpec.
From VerifGen Require Import TableGo.
Import ListNotations.

Theorem generic_tree_reflects_the_tokens :
  forall toks fin fuel tr,
    ~ In ebnf_eof toks ->
    run ebnf_grammar ebnf_table ebnf_eof ebnf_err_state toks fin fuel init = (tr, OAccept) ->
    exists t, build ebnf_grammar toks tr = [t] /\ wf_tree ebnf_grammar t /\ root ebnf_grammar t = NT ebnf_start /\
              leaves t = combine toks (seq 0 (length toks)).
Proof.
  intros toks fin fuel tr Hn Hr.
  assert (Hs : safe_check ebnf_grammar ebnf_table ebnf_eof ebnf_err_state ebnf_start ebnf_past = true) by (vm_compute; reflexivity).
  exact (lr_sound_init ebnf_grammar ebnf_table ebnf_eof ebnf_err_state ebnf_start ebnf_past Hs toks fin Hn fuel tr Hr).
Qed.
Print Assumptions generic_tree_reflects_the_tokens.

(* the nesting of the generic tree is the documented reading of the tokens (juxtaposition tighter than `|`, juxtaposition
   to the left, `|` to the right, greedy handles: Cfg/EbnfDoc.v), it is the only tree with that property, and every
   tree with that property is built when its tokens are parsed *)
Theorem generic_tree_has_the_documented_nesting :
  forall toks fin fuel tr,
    ~ In ebnf_eof toks ->
    run ebnf_grammar ebnf_table ebnf_eof ebnf_err_state toks fin fuel init = (tr, OAccept) ->
    exists t, build ebnf_grammar toks tr = [t] /\ canonical_sentence ebnf_grammar ebnf_start ebnf_rules toks t /\
              forall t', canonical_sentence ebnf_grammar ebnf_start ebnf_rules toks t' -> t' = t.
Proof.
  intros toks fin fuel tr Hn Hr.
  assert (Hs : safe_check ebnf_grammar ebnf_table ebnf_eof ebnf_err_state ebnf_start ebnf_past = true) by (vm_compute; reflexivity).
  destruct (exact_builds_canonical ebnf_grammar ebnf_table ebnf_eof ebnf_err_state ebnf_start ebnf_past ebnf_rules
              ebnf_Wany ebnf_W ebnf_E Hs ebnf_canon_check toks fin fuel tr Hn Hr) as [t [Hc [_ Hb]]].
  exists t. split; [exact Hb|]. split; [exact Hc|].
  intros t' Hc'. exact (exact_unique ebnf_grammar ebnf_table ebnf_eof ebnf_err_state ebnf_start ebnf_rules
                           ebnf_nul ebnf_first ebnf_V ebnf_complete_check toks t' t Hc' Hc).
Qed.
Print Assumptions generic_tree_has_the_documented_nesting.

Theorem every_documented_reading_is_built :
  forall toks t, canonical_sentence ebnf_grammar ebnf_start ebnf_rules toks t ->
    exists fuel, run ebnf_grammar ebnf_table ebnf_eof ebnf_err_state toks EndOfInput fuel init = (post t, OAccept).
Proof.
  intros toks t Ht. exists (S (length (post t))).
  apply (exact_complete ebnf_grammar ebnf_table ebnf_eof ebnf_err_state ebnf_start ebnf_rules ebnf_nul ebnf_first ebnf_V
           ebnf_complete_check toks t Ht). apply Nat.lt_succ_diag_r.
Qed.
Print Assumptions every_documented_reading_is_built.

Theorem juxtaposition_operands_in_written_order x y :
  ast_value (ECat x y) = TConcat (map ast_value (cat_operands (ECat x y))).
Proof. exact (operands_in_written_order x y). Qed.
Print Assumptions juxtaposition_operands_in_written_order.

Theorem alternation_operands_in_written_order x y :
  ast_value (EAlt x y) = TAlt (map opt_value (alt_operands (EAlt x y))).
Proof. exact (alternatives_in_written_order x y). Qed.
Print Assumptions alternation_operands_in_written_order.

Theorem trailing_bar_is_an_empty_operand x :
  ast_value (EAltE x) = TAlt (map opt_value (alt_operands x) ++ [TEmpty]).
Proof. exact (trailing_bar_adds_empty x). Qed.
Print Assumptions trailing_bar_is_an_empty_operand.

Theorem typed_trees_are_normal e : normal (ast_value e) = true.
Proof. exact (ast_value_normal e). Qed.
Print Assumptions typed_trees_are_normal.

Theorem print_and_build_again v : normal v = true -> ast_value (unparse v) = v.
Proof. exact (roundtrip v). Qed.
Print Assumptions print_and_build_again.

Theorem print_and_build_again_any e : ast_value (unparse (ast_value e)) = ast_value e.
Proof. exact (print_then_parse_again e). Qed.
Print Assumptions print_and_build_again_any.

Theorem declarations_keep_their_order predefs ds i d :
  nth_error ds i = Some d -> nth_error (typed_spec predefs ds) i = Some (tdecl_of predefs d).
Proof. exact (nth_declaration predefs ds i d). Qed.
Print Assumptions declarations_keep_their_order.

(* (d) what is printed from the typed tree denotes exactly the language of what was written, for every interpretation of the
   non-terminals: the grammar derived from the typed tree's structure generates what the directly derived grammar generates *)
Theorem typed_tree_denotes_the_written_language rules e w : em rules e w <-> tden rules (ast_value e) w.
Proof. exact (typed_tree_same_language rules e w). Qed.
Print Assumptions typed_tree_denotes_the_written_language.

Theorem printed_tree_same_language rules e w : em rules (unparse (ast_value e)) w <-> em rules e w.
Proof. exact (printed_same_language rules e w). Qed.
Print Assumptions printed_tree_same_language.

(* non-vacuity: (a b) c | d |  *)
Example typed_example :
  ast_value (EAltE (EAlt (ECat (EGroup (ECat (ENT "a") (ENT "b"))) (ENT "c")) (ENT "d")))
  = TAlt [TConcat [TNT "a"; TNT "b"; TNT "c"]; TNT "d"; TEmpty].
Proof. reflexivity. Qed.
