(* C06 — the LALR(1) table emerge builds for a user grammar parses exactly its language, per directives.

   The LALR(1) construction and the conflict resolution are the dependency's (moorara/algo); emerge
   passes it the grammar and the precedence levels (C12) and surfaces conflicts.  Here:
   - UNIVERSAL: the documented resolution rule as decision-rule theorems about [Lalr.beats]/[Lalr.resolve]
     (the reference the dumped tables are compared with), and the soundness theorem for ANY table that
     passes the static safety check;
   - UNIVERSAL: any table that passes [exact_check] (soundness + completeness + canonicity certificates,
     computed and validated by the kernel) accepts EXACTLY the token sequences that have a parse tree allowed by
     the directives (read as a classification of trees), builds that tree, and no sequence has two such trees;
     without directives every parse tree is allowed: the table accepts exactly the grammar's sentences and the
     grammar is unambiguous;
   - PER INSTANCE (gen/inst_C06_*.v, evaluated by the kernel): exact_check for the dumped table; the table dumped from
     Spec.LALRParsingTable is, entry for entry, the reference LALR(1) table of the dumped grammar and
     precedence levels and passes the safety check — or, when emerge rejects, the reference construction
     leaves exactly the reported entries unresolved. *)
From Coq Require Import String List Bool Arith NArith Lia.
From Verif Require Import Cfg.LR Cfg.LRSafe Cfg.Lalr Cfg.LRComplete Cfg.LRCanon Cfg.LRExact.
Import ListNotations.
Local Open Scope N_scope.

Lemma act_eqb_sym x y : act_eqb x y = act_eqb y x.
Proof. destruct x, y; simpl; try reflexivity; apply N.eqb_sym. Qed.

Section Rule.
  Variable G : grammar.
  Variables start nnt : N.
  Variable prec : list (N * list N * list N).
  Let beats := Lalr.beats G start nnt prec.
  Let hof := Lalr.handle_of G start nnt.

  (* earlier line binds tighter: the action whose handle sits in an earlier level wins *)
  Theorem resolve_prefers_earlier_level a x y hx hy ox ax oy ay :
    act_eqb x y = false ->
    hof a x = Some hx -> hof a y = Some hy ->
    level_of hx prec O = Some (ox, ax) -> level_of hy prec O = Some (oy, ay) ->
    (ox < oy)%nat -> beats a x y = Some true /\ beats a y x = Some false.
  Proof.
    intros Hne Hx Hy Lx Ly Hlt. unfold beats, Lalr.beats. fold hof.
    assert (Hne' : act_eqb y x = false) by (rewrite act_eqb_sym; exact Hne).
    rewrite Hne, Hne', Hx, Hy, Lx, Ly.
    assert (E1 : (ox <? oy)%nat = true) by (apply Nat.ltb_lt; exact Hlt).
    assert (E2 : (oy <? ox)%nat = false) by (apply Nat.ltb_ge; lia).
    rewrite E1, E2. auto.
  Qed.

  (* same level, @left: reduce; @right: shift; @none or two reductions: unresolved *)
  Theorem resolve_left_reduces a p s hx hy o :
    hof a (Reduce p) = Some hx -> hof a (Shift s) = Some hy ->
    level_of hx prec O = Some (o, 0) -> level_of hy prec O = Some (o, 0) ->
    beats a (Reduce p) (Shift s) = Some true /\ beats a (Shift s) (Reduce p) = Some false.
  Proof.
    intros Hx Hy Lx Ly. unfold beats, Lalr.beats. fold hof. simpl act_eqb.
    rewrite Hx, Hy, Lx, Ly, Nat.ltb_irrefl. auto.
  Qed.

  Theorem resolve_right_shifts a p s hx hy o :
    hof a (Reduce p) = Some hx -> hof a (Shift s) = Some hy ->
    level_of hx prec O = Some (o, 1) -> level_of hy prec O = Some (o, 1) ->
    beats a (Shift s) (Reduce p) = Some true /\ beats a (Reduce p) (Shift s) = Some false.
  Proof.
    intros Hx Hy Lx Ly. unfold beats, Lalr.beats. fold hof. simpl act_eqb.
    rewrite Hx, Hy, Lx, Ly, Nat.ltb_irrefl. auto.
  Qed.

  Theorem resolve_none_is_unresolved a x y hx hy o :
    act_eqb x y = false ->
    hof a x = Some hx -> hof a y = Some hy ->
    level_of hx prec O = Some (o, 2) -> level_of hy prec O = Some (o, 2) ->
    beats a x y = None.
  Proof.
    intros Hne Hx Hy Lx Ly. unfold beats, Lalr.beats. fold hof.
    rewrite Hne, Hx, Hy, Lx, Ly, Nat.ltb_irrefl. reflexivity.
  Qed.

  Theorem no_level_is_unresolved a x y hx :
    act_eqb x y = false -> hof a x = Some hx -> level_of hx prec O = None -> beats a x y = None.
  Proof.
    intros Hne Hx Lx. unfold beats, Lalr.beats. fold hof. rewrite Hne, Hx.
    destruct (hof a y); [|reflexivity]. rewrite Lx. reflexivity.
  Qed.

  (* the resolution never invents an action: the survivor is one of the candidates *)
  Theorem resolve_never_invents a l x : Lalr.resolve G start nnt prec a l = Some x -> In x l.
  Proof.
    unfold Lalr.resolve. destruct l as [|x0 t]; [discriminate|].
    set (f := fun (acc : option act) (y : act) =>
                match acc with
                | None => None
                | Some m => match Lalr.beats G start nnt prec a y m with
                            | Some true => Some y | Some false => Some m | None => None end
                end).
    assert (Hnone : forall t, fold_left f t None = None) by (induction t0 as [|z t0 IHt]; simpl; auto).
    assert (Hgen : forall t m, fold_left f t (Some m) = Some x -> x = m \/ In x t).
    { induction t0 as [|y t0 IH]; intros m H; simpl in H.
      - inversion H. left. reflexivity.
      - change (f (Some m) y) with (match Lalr.beats G start nnt prec a y m with Some true => Some y | Some false => Some m | None => None end) in H.
        destruct (Lalr.beats G start nnt prec a y m) as [[|]|].
        + destruct (IH _ H) as [->|Hin]; right; [left; reflexivity | right; exact Hin].
        + destruct (IH _ H) as [->|Hin]; [left; reflexivity | right; right; exact Hin].
        + rewrite Hnone in H. discriminate. }
    intros H. destruct (Hgen t x0 H) as [->|Hin]; [left; reflexivity | right; exact Hin].
  Qed.
End Rule.

(* any table that passes the check parses soundly: accepted => a derivation tree over the grammar *)
Theorem certified_table_is_sound :
  forall G tb eof err_state start past toks fin fuel tr,
    safe_check G tb eof err_state start past = true ->
    ~ In eof toks ->
    LR.run G tb eof err_state toks fin fuel init = (tr, OAccept) ->
    exists t, wf_tree G t /\ root G t = NT start /\
              leaves t = combine toks (seq 0 (length toks)) /\ tr = post t.
Proof. intros. eapply lr_callbacks_in_derivation_order; eauto. Qed.
Print Assumptions certified_table_is_sound.

(* any table that passes the three certificates parses EXACTLY the canonical trees, for inputs of any length *)
Theorem certified_table_is_exact :
  forall G tb eof err_state start past rules n,
    exact_check G tb eof err_state start past rules n = true ->
    forall toks, ~ In eof toks ->
      ((exists fuel tr, LR.run G tb eof err_state toks EndOfInput fuel init = (tr, OAccept))
       <-> exists t, canonical_sentence G start rules toks t) /\
      (forall fin fuel tr, LR.run G tb eof err_state toks fin fuel init = (tr, OAccept) ->
         exists t, canonical_sentence G start rules toks t /\ tr = post t /\ build G toks tr = [t]) /\
      (forall t1 t2, canonical_sentence G start rules toks t1 -> canonical_sentence G start rules toks t2 -> t1 = t2).
Proof. exact exact_check_sound. Qed.
Print Assumptions certified_table_is_exact.

(* without directives every parse tree is canonical: a certified table accepts exactly the grammar's sentences *)
Theorem without_directives_every_tree_is_canonical :
  forall G start toks t,
    canonical_sentence G start (trivial_rules G) toks t <->
    (wf_tree G t /\ root G t = NT start /\ leaves t = combine toks (seq 0 (length toks))).
Proof. exact trivial_canonical. Qed.
Print Assumptions without_directives_every_tree_is_canonical.
