(* C17 — Processing is a pure function of the text: no interference from earlier or concurrent processing.

   The translator lists every package-level variable of /repo with every write, mutating call and escape; the
   check accepts only variables that are never modified after initialisation.  The one variable that was
   modified (the hasher of hashStrings) is modelled in Emerge/Shared.v. *)
From Coq Require Import List Bool NArith.
From Verif Require Import Emerge.Shared.
Import ListNotations.
Local Open Scope N_scope.

(* one call: the result is the FNV-1 hash of what the call wrote, whatever the hasher held before *)
Theorem hash_independent_of_history acc syms : exec acc (hash_ops syms) = [fnv (concat syms)].
Proof. exact (hash_strings_history_free acc syms). Qed.
Print Assumptions hash_independent_of_history.

(* sequential processing: whatever was processed earlier in the process, the result is that of a fresh process *)
Theorem sequential_processing_independent (R : Type) (earlier : list (prog R)) (p : prog R) acc :
  fst (run p (run_all earlier acc)) = fst (run p fnv_offset).
Proof. exact (sequential_independence earlier p acc). Qed.
Print Assumptions sequential_processing_independent.

(* concurrent processing with a hasher per call (the code as repaired): every interleaving of the atomic steps
   gives each goroutine the result it gets alone *)
Theorem concurrent_private_hasher_safe sched s1 s2 a1 a2 :
  inter_private sched (hash_ops s1) (hash_ops s2) a1 a2 = ([fnv (concat s1)], [fnv (concat s2)]).
Proof. exact (private_hash_strings_safe sched s1 s2 a1 a2). Qed.
Print Assumptions concurrent_private_hasher_safe.

Theorem concurrent_private_state_safe sched o1 o2 a1 a2 :
  inter_private sched o1 o2 a1 a2 = (exec a1 o1, exec a2 o2).
Proof. exact (private_hashers_safe sched o1 o2 a1 a2). Qed.
Print Assumptions concurrent_private_state_safe.

(* a hasher shared by the goroutines (the code before the repair; still the dependency's own hash functions) *)
Theorem concurrent_shared_hasher_refuted :
  exists sched s1 s2 acc, fst (inter_shared sched (hash_ops s1) (hash_ops s2) acc) <> [fnv (concat s1)].
Proof. exact shared_hasher_refuted. Qed.
Print Assumptions concurrent_shared_hasher_refuted.
