(* C13 — the result depends only on the token sequence, not on layout, padding or file size.

   1. THE READER, for EVERY half size n >= 1 and EVERY NUL-free file: reading sequentially through the
      two-half buffer returns exactly the bytes of the file and then the end of input — independent of
      where bytes fall relative to the half boundaries and of the file's length ([read_all_correct],
      Reg/TwoBuf.v; the model is the reader of moorara/algo/lexer/input, tied to it by replaying
      operation scripts at small half sizes).
   2. KNOWN FINDINGS (dependency), as kernel-evaluated witnesses: a Retract of the last byte of a half
      makes the next read reload that half — a whole half of the input is skipped (D14); after a Retract
      at the end of the input the byte is lost (D13, compensated in emerge by the terminating newline).
      The scanner retracts exactly one character after each lexeme, so D14 strikes exactly when a
      lexeme's look-ahead character is the last byte of a half; the check classifies paddings by this
      predicate.
   3. The scanner's token stream is a function of the text (C05: [scanner_stream_unique]); that inserted
      blanks and comments produce no token is evaluated per generated layout by the kernel on the
      scanner model and compared with the implementation.
   4. EVERYTHING AFTER THE SCANNER depends on the token kinds and lexemes only, for all texts
      ([result_depends_only_on_the_token_sequence]): two texts with the same token sequence give the same
      declarations, hence the same grammar, definitions, precedences and verdict, wherever the tokens sit.
   5. THE SCANNER, for all texts: a blank, tab, line feed or carriage return in front of the text, or directly after any
      token, changes neither the sequence of token kinds and lexemes nor the kind of ending
      ([layout_character_in_front], [layout_character_after_a_token]; Reg/Layout.v, generic in the automaton, with
      the side conditions decided by computation on the transition table translated from lexer.go); with 4, the
      derived specification is the same ([leading_layout_does_not_change_the_result]).
   6. COMMENTS, for all texts and all comments: every string the translated scanner itself takes for a complete block
      comment, in front of the text or directly after any token, and every line comment in front of a line end or of the
      end of the text, changes neither kinds, lexemes nor the kind of ending ([block_comment_in_front],
      [line_comment_in_front], [comment_after_a_token]); a comment begins with a slash and a slash extends no token, so
      the premises of [comment_after_a_token] hold at every token boundary.  (That the scanner's comments are the
      DOCUMENTED comments is C05's bisimulation.)
   7. POSITIONS: the position of every token and of a lexical error is the one reached by advancing over exactly the text
      in front of it ([positions_are_those_of_the_text_in_front]); inserted text therefore moves the positions behind it by
      exactly itself ([inserted_text_moves_positions_by_itself]). *)
From Coq Require Import List Bool Arith NArith.
From Verif Require Import Reg.Dfa Reg.TwoBuf Reg.MaxMunch Reg.Layout Emerge.Pipeline.
From VerifGen Require Import LexerGo.
Import ListNotations.

Theorem sequential_reading_is_exact :
  forall n, 1 <= n -> forall file, nul_free file ->
    read_all n (S (length file)) (new n file) = file.
Proof. intros n Hn file Hf. apply read_all_correct; assumption. Qed.
Print Assumptions sequential_reading_is_exact.

Theorem result_depends_only_on_the_token_sequence t1 t2 :
  kinds_and_lexemes (fst (scan t1)) = kinds_and_lexemes (fst (scan t2)) -> snd (scan t1) = EndEOF -> snd (scan t2) = EndEOF ->
  front t1 = front t2.
Proof. intros H E1 E2. apply front_depends_only_on_tokens; [exact H | rewrite E1, E2; reflexivity]. Qed.
Print Assumptions result_depends_only_on_the_token_sequence.

(* the premises are satisfiable at the real half size, with a file that crosses both halves *)
Example reading_example :
  let file := map N.of_nat (seq 1 20) in
  read_all 4 21 (new 4 file) = file /\ read_all 3 21 (new 3 file) = file /\ read_all 1 21 (new 1 file) = file.
Proof. vm_compute. repeat split; reflexivity. Qed.

(* D14 and the reader half of D13, on the code as it stands *)
Theorem retract_at_a_half_boundary_refuted :
  exists n file ops, nul_free file /\
    run_ops n (new n file) 0 ops <> map (fun _ => None) ops /\
    run_ops n (new n file) 0 ops = [Some 97; Some 98; Some 98; Some 101]%N.
Proof.
  exists 2, [97; 98; 99; 100; 101; 102; 103; 104]%N, [ONext; ONext; ORetract; ONext; ONext].
  split; [repeat constructor; discriminate|]. split; [vm_compute; discriminate | vm_compute; reflexivity].
Qed.

(* ---- scanner-level layout invariance, for the scanner translated from lexer.go ---- *)
Definition layout_chars : list (N * N) := [(32, 1); (9, 1); (10, 2); (13, 2)]%N.   (* character, state of a run of its class *)

Lemma layout_conditions b w : In (b, w) layout_chars ->
  Dfa.step go_dfa 0 b = Some w /\ go_cls w = CSkip /\ closed_ok go_dfa w = true /\ loop_ok go_dfa w = true
  /\ tokens_dead_ok go_dfa go_cls b = true.
Proof.
  intros H. repeat (destruct H as [H|H]; [injection H as <- <-; vm_compute; repeat split; reflexivity|]). destruct H.
Qed.

Lemma go_start_not_accepting : go_cls 0%N = CErr.
Proof. vm_compute. reflexivity. Qed.

Theorem layout_character_in_front b w s : In (b, w) layout_chars ->
  let r1 := tokens (Dfa.step go_dfa) go_cls s in
  let r2 := tokens (Dfa.step go_dfa) go_cls (b :: s) in
  kinds_and_lexemes (fst r2) = kinds_and_lexemes (fst r1) /\ ekind (snd r2) = ekind (snd r1).
Proof.
  intros Hin r1 r2. destruct (layout_conditions b w Hin) as [H0 [Hs [Hc [Hl _]]]].
  pose proof (tokens_spec (Dfa.step go_dfa) go_cls go_start_not_accepting s) as L1.
  destruct (insert_in_front (Dfa.step go_dfa) go_cls b w H0 Hs (closed_ok_sound go_dfa w Hc) (loop_ok_sound go_dfa w Hl)
              _ _ _ _ L1 pos0) as [ts' [e' [L2 [P E]]]].
  pose proof (tokens_spec (Dfa.step go_dfa) go_cls go_start_not_accepting (b :: s)) as L3.
  destruct (lexes_functional _ _ _ _ _ _ L3 _ _ L2) as [E1 E2]. subst r1 r2. cbv zeta. rewrite E1, E2. split; [exact P | exact E].
Qed.
Print Assumptions layout_character_in_front.

Theorem layout_character_after_a_token b w s s' : In (b, w) layout_chars ->
  after_token (Dfa.step go_dfa) go_cls b s s' ->
  let r1 := tokens (Dfa.step go_dfa) go_cls s in
  let r2 := tokens (Dfa.step go_dfa) go_cls s' in
  kinds_and_lexemes (fst r2) = kinds_and_lexemes (fst r1) /\ ekind (snd r2) = ekind (snd r1).
Proof.
  intros Hin Hins r1 r2. destruct (layout_conditions b w Hin) as [H0 [Hs [Hc [Hl _]]]].
  pose proof (tokens_spec (Dfa.step go_dfa) go_cls go_start_not_accepting s) as L1.
  destruct (insertion_after_a_token (Dfa.step go_dfa) go_cls b w H0 Hs (closed_ok_sound go_dfa w Hc) (loop_ok_sound go_dfa w Hl)
              s s' Hins _ _ _ L1) as [ts' [e' [L2 [P E]]]].
  pose proof (tokens_spec (Dfa.step go_dfa) go_cls go_start_not_accepting s') as L3.
  destruct (lexes_functional _ _ _ _ _ _ L3 _ _ L2) as [E1 E2]. subst r1 r2. cbv zeta. rewrite E1, E2. split; [exact P | exact E].
Qed.
Print Assumptions layout_character_after_a_token.

(* every token of the scanner is closed under these characters: the premise `adv q b = None` of after_token holds at every token *)
Theorem tokens_are_not_extended_by_layout b w q k m : In (b, w) layout_chars -> go_cls q = CTok k m -> Dfa.step go_dfa q b = None.
Proof.
  intros Hin Hq. destruct (layout_conditions b w Hin) as [_ [_ [_ [_ Hd]]]].
  exact (tokens_dead_ok_sound go_dfa go_cls b Hd q k m Hq).
Qed.
Print Assumptions tokens_are_not_extended_by_layout.

Theorem leading_layout_does_not_change_the_result b w t : In (b, w) layout_chars ->
  snd (scan t) = EndEOF -> front (b :: t) = front t.
Proof.
  intros Hin He. destruct (layout_character_in_front b w (t ++ [10%N]) Hin) as [P E].
  apply front_depends_only_on_tokens; [exact P|].
  unfold scan in *. change ((b :: t) ++ [10%N]) with (b :: t ++ [10%N]). rewrite He in E.
  destruct (snd (tokens (Dfa.step go_dfa) go_cls (b :: t ++ [10%N]))); try discriminate E. rewrite He. reflexivity.
Qed.
Print Assumptions leading_layout_does_not_change_the_result.

(* ---- comments: a whole comment in front of the text or directly after any token, for the scanner translated from lexer.go ---- *)
Definition state_after (s : list N) : N := match runq (Dfa.step go_dfa) 0 s with Some q => q | None => 0%N end.
Definition block_end : N := state_after [47; 42; 42; 47]%N.      (* after the closing star-slash *)
Definition line_state : N := state_after [47; 47]%N.             (* inside a line comment *)
Definition comment_states : list N := map state_after [[47]; [47; 92]; [47; 97]; [47; 97; 47]; [47; 47]; [47; 42]; [47; 42; 42]; [47; 42; 42; 47]]%N.

(* what the scanner itself takes for a complete block comment / a line comment up to (not including) the line end *)
Definition is_block_comment (v : list N) : Prop := runq (Dfa.step go_dfa) 0 v = Some block_end.
Definition is_line_comment (v : list N) : Prop := runq (Dfa.step go_dfa) 0 v = Some line_state.

Lemma comment_conditions :
  go_cls block_end = CSkip /\ final_closed_ok go_dfa block_end = true /\ block_end <> 0%N /\
  go_cls line_state = CSkip /\ line_state <> 0%N /\
  Dfa.step go_dfa line_state 10 = None /\ Dfa.step go_dfa line_state 13 = None /\
  tokens_dead_ok go_dfa go_cls 47 = true /\
  entered_by go_dfa comment_states 47 = true /\ memq 0 comment_states = false /\
  memq block_end comment_states = true /\ memq line_state comment_states = true.
Proof. vm_compute. repeat split; try reflexivity; discriminate. Qed.

Lemma comment_nonempty v q : runq (Dfa.step go_dfa) 0 v = Some q -> q <> 0%N -> v <> [].
Proof. intros H Hq ->. unfold runq in H. simpl in H. congruence. Qed.

Theorem comments_begin_with_a_slash v : is_block_comment v \/ is_line_comment v -> hd 0%N v = 47%N.
Proof.
  destruct comment_conditions as [_ [_ [_ [_ [_ [_ [_ [_ [He [H0 [Hb Hl]]]]]]]]]]].
  intros [H|H]; eapply (entered_by_sound go_dfa comment_states 47 He H0); eauto.
Qed.
Print Assumptions comments_begin_with_a_slash.

Theorem a_slash_does_not_extend_a_token q k m : go_cls q = CTok k m -> Dfa.step go_dfa q 47 = None.
Proof.
  destruct comment_conditions as [_ [_ [_ [_ [_ [_ [_ [Hd _]]]]]]]].
  exact (tokens_dead_ok_sound go_dfa go_cls 47 Hd q k m).
Qed.
Print Assumptions a_slash_does_not_extend_a_token.

Lemma same_tokens_from_lexes s s' :
  (forall p ts e, lexes (Dfa.step go_dfa) go_cls p s ts e ->
     exists ts' e', lexes (Dfa.step go_dfa) go_cls p s' ts' e' /\ proj ts' = proj ts /\ ekind e' = ekind e) ->
  let r1 := tokens (Dfa.step go_dfa) go_cls s in
  let r2 := tokens (Dfa.step go_dfa) go_cls s' in
  kinds_and_lexemes (fst r2) = kinds_and_lexemes (fst r1) /\ ekind (snd r2) = ekind (snd r1).
Proof.
  intros H r1 r2.
  pose proof (tokens_spec (Dfa.step go_dfa) go_cls go_start_not_accepting s) as L1.
  destruct (H _ _ _ L1) as [ts' [e' [L2 [P E]]]].
  pose proof (tokens_spec (Dfa.step go_dfa) go_cls go_start_not_accepting s') as L3.
  destruct (lexes_functional _ _ _ _ _ _ L3 _ _ L2) as [E1 E2]. subst r1 r2. cbv zeta. rewrite E1, E2. split; [exact P | exact E].
Qed.

Theorem block_comment_in_front v s : is_block_comment v ->
  let r1 := tokens (Dfa.step go_dfa) go_cls s in
  let r2 := tokens (Dfa.step go_dfa) go_cls (v ++ s) in
  kinds_and_lexemes (fst r2) = kinds_and_lexemes (fst r1) /\ ekind (snd r2) = ekind (snd r1).
Proof.
  intros Hv. destruct comment_conditions as [Hs [Hc [Hn _]]].
  apply same_tokens_from_lexes. intros p ts e L.
  exact (skip_lexeme_in_front (Dfa.step go_dfa) go_cls v block_end (comment_nonempty v _ Hv Hn) Hs p s ts e L
           (closed_munch go_dfa block_end v s Hc Hv) p).
Qed.
Print Assumptions block_comment_in_front.

Theorem line_comment_in_front v s : is_line_comment v ->
  (s = [] \/ exists c s1, s = c :: s1 /\ (c = 10 \/ c = 13)%N) ->
  let r1 := tokens (Dfa.step go_dfa) go_cls s in
  let r2 := tokens (Dfa.step go_dfa) go_cls (v ++ s) in
  kinds_and_lexemes (fst r2) = kinds_and_lexemes (fst r1) /\ ekind (snd r2) = ekind (snd r1).
Proof.
  intros Hv Hs. destruct comment_conditions as [_ [_ [_ [Hk [Hn [H10 [H13 _]]]]]]].
  apply same_tokens_from_lexes. intros p ts e L.
  refine (skip_lexeme_in_front (Dfa.step go_dfa) go_cls v line_state (comment_nonempty v _ Hv Hn) Hk p s ts e L _ p).
  split; [exact Hv|]. destruct Hs as [->|[c [s1 [-> [->| ->]]]]]; [exact I | exact H10 | exact H13].
Qed.
Print Assumptions line_comment_in_front.

(* directly after ANY token: [after_token_s] walks to a token boundary; its premises at that boundary are that the token is
   not extended by the comment's first character (always true: the two theorems above) and that the scanner stops exactly
   after the comment (always true for a block comment; for a line comment: a line end or the end of the text follows) *)
Theorem comment_after_a_token v f s s' :
  (is_block_comment v /\ f = block_end) \/ (is_line_comment v /\ f = line_state) ->
  after_token_s (Dfa.step go_dfa) go_cls v f s s' ->
  let r1 := tokens (Dfa.step go_dfa) go_cls s in
  let r2 := tokens (Dfa.step go_dfa) go_cls s' in
  kinds_and_lexemes (fst r2) = kinds_and_lexemes (fst r1) /\ ekind (snd r2) = ekind (snd r1).
Proof.
  intros Hv Hins. destruct comment_conditions as [Hs [_ [Hn [Hk [Hn' _]]]]].
  apply same_tokens_from_lexes. intros p ts e L.
  destruct Hv as [[Hv ->]|[Hv ->]].
  - exact (skip_lexeme_after_a_token (Dfa.step go_dfa) go_cls v block_end (comment_nonempty v _ Hv Hn) Hs s s' Hins p ts e L).
  - exact (skip_lexeme_after_a_token (Dfa.step go_dfa) go_cls v line_state (comment_nonempty v _ Hv Hn') Hk s s' Hins p ts e L).
Qed.
Print Assumptions comment_after_a_token.

(* the premise "the scanner stops exactly after a block comment" holds whatever follows *)
Theorem the_scanner_stops_after_a_block_comment v r : is_block_comment v -> munch (Dfa.step go_dfa) v r block_end.
Proof. intros Hv. destruct comment_conditions as [_ [Hc _]]. exact (closed_munch go_dfa block_end v r Hc Hv). Qed.
Print Assumptions the_scanner_stops_after_a_block_comment.

Theorem leading_block_comment_does_not_change_the_result v t : is_block_comment v ->
  snd (scan t) = EndEOF -> front (v ++ t) = front t.
Proof.
  intros Hv He. destruct (block_comment_in_front v (t ++ [10%N]) Hv) as [P E].
  apply front_depends_only_on_tokens.
  - unfold scan. rewrite <- app_assoc. exact P.
  - unfold scan in *. rewrite <- app_assoc. rewrite He in E.
    destruct (snd (tokens (Dfa.step go_dfa) go_cls (v ++ t ++ [10%N]))); try discriminate E. rewrite He. reflexivity.
Qed.
Print Assumptions leading_block_comment_does_not_change_the_result.

(* the definitions are not vacuous *)
Example comments_exist :
  is_block_comment [47; 42; 32; 97; 32; 42; 32; 98; 10; 42; 42; 47]%N /\     (* a comment with stars, a blank and a line feed inside *)
  is_line_comment [47; 47; 32; 120; 32; 47; 42]%N /\                        (* a line comment containing slash-star *)
  ~ is_block_comment [47; 42; 32; 42]%N.
Proof. unfold is_block_comment, is_line_comment. vm_compute. repeat split; try reflexivity. discriminate. Qed.

(* ---- positions: "reported positions move by exactly the inserted text" ---- *)
(* the position of every token, and of a lexical error, is the position reached by advancing (offset, line, column) over
   exactly the text in front of it; hence text inserted anywhere in front of a token moves its position by exactly that text:
   pos_adv p (inserted ++ before) = pos_adv (pos_adv p inserted) before *)
Theorem positions_are_those_of_the_text_in_front s :
  let r := tokens (Dfa.step go_dfa) go_cls s in
  Forall (placed pos0 s) (fst r) /\
  match snd r with
  | EndError p' u => exists pre rest, s = pre ++ u ++ rest /\ p' = pos_adv pos0 pre
  | _ => True
  end.
Proof.
  intros r. exact (lexes_positions (Dfa.step go_dfa) go_cls pos0 s (fst r) (snd r)
                     (tokens_spec (Dfa.step go_dfa) go_cls go_start_not_accepting s)).
Qed.
Print Assumptions positions_are_those_of_the_text_in_front.

Theorem inserted_text_moves_positions_by_itself p ins before : pos_adv p (ins ++ before) = pos_adv (pos_adv p ins) before.
Proof. exact (pos_adv_app p ins before). Qed.
Print Assumptions inserted_text_moves_positions_by_itself.

(* ---- any number of layout changes at once ---- *)
(* one change: a layout character or a comment put in front of the text or directly after a token *)
Inductive layout_step : list N -> list N -> Prop :=
| ls_char_front b w s : In (b, w) layout_chars -> layout_step s (b :: s)
| ls_char_after b w s s' : In (b, w) layout_chars -> after_token (Dfa.step go_dfa) go_cls b s s' -> layout_step s s'
| ls_block_front v s : is_block_comment v -> layout_step s (v ++ s)
| ls_line_front v s : is_line_comment v -> (s = [] \/ exists c s1, s = c :: s1 /\ (c = 10 \/ c = 13)%N) -> layout_step s (v ++ s)
| ls_comment_after v f s s' :
    (is_block_comment v /\ f = block_end) \/ (is_line_comment v /\ f = line_state) ->
    after_token_s (Dfa.step go_dfa) go_cls v f s s' -> layout_step s s'.

(* two texts have the same layout-free content when one is reached from the other by any number of such changes, made or undone,
   in any order and at any places *)
Inductive same_modulo_layout : list N -> list N -> Prop :=
| sml_refl s : same_modulo_layout s s
| sml_add s s' : layout_step s s' -> same_modulo_layout s s'
| sml_remove s s' : layout_step s s' -> same_modulo_layout s' s
| sml_trans s1 s2 s3 : same_modulo_layout s1 s2 -> same_modulo_layout s2 s3 -> same_modulo_layout s1 s3.

Lemma layout_step_same_tokens s s' : layout_step s s' ->
  kinds_and_lexemes (fst (tokens (Dfa.step go_dfa) go_cls s')) = kinds_and_lexemes (fst (tokens (Dfa.step go_dfa) go_cls s)) /\
  ekind (snd (tokens (Dfa.step go_dfa) go_cls s')) = ekind (snd (tokens (Dfa.step go_dfa) go_cls s)).
Proof.
  intros H. destruct H as [b w s Hin|b w s s' Hin Ha|v s Hv|v s Hv Hs|v f s s' Hv Ha].
  - exact (layout_character_in_front b w s Hin).
  - exact (layout_character_after_a_token b w s s' Hin Ha).
  - exact (block_comment_in_front v s Hv).
  - exact (line_comment_in_front v s Hv Hs).
  - exact (comment_after_a_token v f s s' Hv Ha).
Qed.

Theorem any_layout_changes_leave_the_tokens s s' : same_modulo_layout s s' ->
  kinds_and_lexemes (fst (tokens (Dfa.step go_dfa) go_cls s')) = kinds_and_lexemes (fst (tokens (Dfa.step go_dfa) go_cls s)) /\
  ekind (snd (tokens (Dfa.step go_dfa) go_cls s')) = ekind (snd (tokens (Dfa.step go_dfa) go_cls s)).
Proof.
  induction 1 as [s|s s' H|s s' H|s1 s2 s3 _ IH1 _ IH2].
  - split; reflexivity.
  - exact (layout_step_same_tokens s s' H).
  - destruct (layout_step_same_tokens s s' H) as [P E]. split; symmetry; assumption.
  - destruct IH1 as [P1 E1], IH2 as [P2 E2]. split; [rewrite P2; exact P1 | rewrite E2; exact E1].
Qed.
Print Assumptions any_layout_changes_leave_the_tokens.

(* ... hence the same specification: whatever blanks, line ends and comments are added or removed, wherever, the derived
   declarations (grammar, definitions, precedences, verdict) are the same *)
Theorem any_layout_changes_leave_the_result t1 t2 :
  same_modulo_layout (t1 ++ [10%N]) (t2 ++ [10%N]) -> snd (scan t1) = EndEOF -> front t2 = front t1.
Proof.
  intros H He. destruct (any_layout_changes_leave_the_tokens _ _ H) as [P E].
  apply front_depends_only_on_tokens; [exact P|]. unfold scan in *. rewrite He in E.
  destruct (snd (tokens (Dfa.step go_dfa) go_cls (t2 ++ [10%N]))); try discriminate E. rewrite He. reflexivity.
Qed.
Print Assumptions any_layout_changes_leave_the_result.

(* non-vacuity: " \n/* c */grammar g;" and "\tgrammar g;" are the same modulo layout: three additions and, from the other side,
   one (a removal seen from the first text) *)
Example several_changes_example :
  let g := [103;114;97;109;109;97;114;32;103;59;10]%N in
  same_modulo_layout ([32; 10] ++ [47;42;32;99;32;42;47] ++ g)%N (9 :: g)%N.
Proof.
  intros g. apply (sml_trans _ g).
  - apply (sml_trans _ ([47;42;32;99;32;42;47] ++ g)%N).
    + apply (sml_trans _ (10 :: [47;42;32;99;32;42;47] ++ g)%N).
      * apply sml_remove. apply (ls_char_front 32 1)%N. left. reflexivity.
      * apply sml_remove. apply (ls_char_front 10 2)%N. right. right. left. reflexivity.
    + apply sml_remove. apply ls_block_front. unfold is_block_comment. vm_compute. reflexivity.
  - apply sml_add. apply (ls_char_front 9 1)%N. right. left. reflexivity.
Qed.
