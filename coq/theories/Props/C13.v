(* C13 — the result depends only on the token sequence, not on layout, padding or file size.

   1. THE READER, for EVERY half size n >= 1 and EVERY NUL-free file: reading sequentially through the
      two-half buffer returns exactly the bytes of the file and then the end of input — independent of
      where bytes fall relative to the half boundaries and of the file's length ([read_all_correct],
      Reg/TwoBuf.v; the model is the reader of moorara/algo/lexer/input, tied to it by replaying
      operation scripts at small half sizes).
   2. KNOWN FINDINGS (dependency), as kernel-evaluated witnesses: a Retract of the last byte of a half
      makes the next read reload that half — a whole half of the input is skipped (D14); after a Retract
      at the end of the input the byte is lost (D13, compensated in emerge by the terminating newline).
      The scanner retracts exactly one character after each lexeme, so D14 strikes exactly when a
      lexeme's look-ahead character is the last byte of a half; the check classifies paddings by this
      predicate.
   3. The scanner's token stream is a function of the text (C05: [scanner_stream_unique]); that inserted
      blanks and comments produce no token is evaluated per generated layout by the kernel on the
      scanner model and compared with the implementation.
   4. EVERYTHING AFTER THE SCANNER depends on the token kinds and lexemes only, for all texts
      ([result_depends_only_on_the_token_sequence]): two texts with the same token sequence give the same
      declarations, hence the same grammar, definitions, precedences and verdict, wherever the tokens sit.
   5. THE SCANNER, for all texts: a blank, tab, line feed or carriage return in front of the text, or directly after any
      token, changes neither the sequence of token kinds and lexemes nor the kind of ending
      ([layout_character_in_front], [layout_character_after_a_token]; Reg/Layout.v, generic in the automaton, with
      the side conditions decided by computation on the transition table translated from lexer.go); with 4, the
      derived specification is the same ([leading_layout_does_not_change_the_result]). *)
From Coq Require Import List Bool Arith NArith.
From Verif Require Import Reg.Dfa Reg.TwoBuf Reg.MaxMunch Reg.Layout Emerge.Pipeline.
From VerifGen Require Import LexerGo.
Import ListNotations.

Theorem sequential_reading_is_exact :
  forall n, 1 <= n -> forall file, nul_free file ->
    read_all n (S (length file)) (new n file) = file.
Proof. intros n Hn file Hf. apply read_all_correct; assumption. Qed.
Print Assumptions sequential_reading_is_exact.

Theorem result_depends_only_on_the_token_sequence t1 t2 :
  kinds_and_lexemes (fst (scan t1)) = kinds_and_lexemes (fst (scan t2)) -> snd (scan t1) = EndEOF -> snd (scan t2) = EndEOF ->
  front t1 = front t2.
Proof. intros H E1 E2. apply front_depends_only_on_tokens; [exact H | rewrite E1, E2; reflexivity]. Qed.
Print Assumptions result_depends_only_on_the_token_sequence.

(* the premises are satisfiable at the real half size, with a file that crosses both halves *)
Example reading_example :
  let file := map N.of_nat (seq 1 20) in
  read_all 4 21 (new 4 file) = file /\ read_all 3 21 (new 3 file) = file /\ read_all 1 21 (new 1 file) = file.
Proof. vm_compute. repeat split; reflexivity. Qed.

(* D14 and the reader half of D13, on the code as it stands *)
Theorem retract_at_a_half_boundary_refuted :
  exists n file ops, nul_free file /\
    run_ops n (new n file) 0 ops <> map (fun _ => None) ops /\
    run_ops n (new n file) 0 ops = [Some 97; Some 98; Some 98; Some 101]%N.
Proof.
  exists 2, [97; 98; 99; 100; 101; 102; 103; 104]%N, [ONext; ONext; ORetract; ONext; ONext].
  split; [repeat constructor; discriminate|]. split; [vm_compute; discriminate | vm_compute; reflexivity].
Qed.

(* ---- scanner-level layout invariance, for the scanner translated from lexer.go ---- *)
Definition layout_chars : list (N * N) := [(32, 1); (9, 1); (10, 2); (13, 2)]%N.   (* character, state of a run of its class *)

Lemma layout_conditions b w : In (b, w) layout_chars ->
  Dfa.step go_dfa 0 b = Some w /\ go_cls w = CSkip /\ closed_ok go_dfa w = true /\ loop_ok go_dfa w = true
  /\ tokens_dead_ok go_dfa go_cls b = true.
Proof.
  intros H. repeat (destruct H as [H|H]; [injection H as <- <-; vm_compute; repeat split; reflexivity|]). destruct H.
Qed.

Lemma go_start_not_accepting : go_cls 0%N = CErr.
Proof. vm_compute. reflexivity. Qed.

Theorem layout_character_in_front b w s : In (b, w) layout_chars ->
  let r1 := tokens (Dfa.step go_dfa) go_cls s in
  let r2 := tokens (Dfa.step go_dfa) go_cls (b :: s) in
  kinds_and_lexemes (fst r2) = kinds_and_lexemes (fst r1) /\ ekind (snd r2) = ekind (snd r1).
Proof.
  intros Hin r1 r2. destruct (layout_conditions b w Hin) as [H0 [Hs [Hc [Hl _]]]].
  pose proof (tokens_spec (Dfa.step go_dfa) go_cls go_start_not_accepting s) as L1.
  destruct (insert_in_front (Dfa.step go_dfa) go_cls b w H0 Hs (closed_ok_sound go_dfa w Hc) (loop_ok_sound go_dfa w Hl)
              _ _ _ _ L1 pos0) as [ts' [e' [L2 [P E]]]].
  pose proof (tokens_spec (Dfa.step go_dfa) go_cls go_start_not_accepting (b :: s)) as L3.
  destruct (lexes_functional _ _ _ _ _ _ L3 _ _ L2) as [E1 E2]. subst r1 r2. cbv zeta. rewrite E1, E2. split; [exact P | exact E].
Qed.
Print Assumptions layout_character_in_front.

Theorem layout_character_after_a_token b w s s' : In (b, w) layout_chars ->
  after_token (Dfa.step go_dfa) go_cls b s s' ->
  let r1 := tokens (Dfa.step go_dfa) go_cls s in
  let r2 := tokens (Dfa.step go_dfa) go_cls s' in
  kinds_and_lexemes (fst r2) = kinds_and_lexemes (fst r1) /\ ekind (snd r2) = ekind (snd r1).
Proof.
  intros Hin Hins r1 r2. destruct (layout_conditions b w Hin) as [H0 [Hs [Hc [Hl _]]]].
  pose proof (tokens_spec (Dfa.step go_dfa) go_cls go_start_not_accepting s) as L1.
  destruct (insertion_after_a_token (Dfa.step go_dfa) go_cls b w H0 Hs (closed_ok_sound go_dfa w Hc) (loop_ok_sound go_dfa w Hl)
              s s' Hins _ _ _ L1) as [ts' [e' [L2 [P E]]]].
  pose proof (tokens_spec (Dfa.step go_dfa) go_cls go_start_not_accepting s') as L3.
  destruct (lexes_functional _ _ _ _ _ _ L3 _ _ L2) as [E1 E2]. subst r1 r2. cbv zeta. rewrite E1, E2. split; [exact P | exact E].
Qed.
Print Assumptions layout_character_after_a_token.

(* every token of the scanner is closed under these characters: the premise `adv q b = None` of after_token holds at every token *)
Theorem tokens_are_not_extended_by_layout b w q k m : In (b, w) layout_chars -> go_cls q = CTok k m -> Dfa.step go_dfa q b = None.
Proof.
  intros Hin Hq. destruct (layout_conditions b w Hin) as [_ [_ [_ [_ Hd]]]].
  exact (tokens_dead_ok_sound go_dfa go_cls b Hd q k m Hq).
Qed.
Print Assumptions tokens_are_not_extended_by_layout.

Theorem leading_layout_does_not_change_the_result b w t : In (b, w) layout_chars ->
  snd (scan t) = EndEOF -> front (b :: t) = front t.
Proof.
  intros Hin He. destruct (layout_character_in_front b w (t ++ [10%N]) Hin) as [P E].
  apply front_depends_only_on_tokens; [exact P|].
  unfold scan in *. change ((b :: t) ++ [10%N]) with (b :: t ++ [10%N]). rewrite He in E.
  destruct (snd (tokens (Dfa.step go_dfa) go_cls (b :: t ++ [10%N]))); try discriminate E. rewrite He. reflexivity.
Qed.
Print Assumptions leading_layout_does_not_change_the_result.
