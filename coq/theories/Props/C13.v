(* C13 — the result depends only on the token sequence, not on layout, padding or file size.

   1. THE READER, for EVERY half size n >= 1 and EVERY NUL-free file: reading sequentially through the
      two-half buffer returns exactly the bytes of the file and then the end of input — independent of
      where bytes fall relative to the half boundaries and of the file's length ([read_all_correct],
      Reg/TwoBuf.v; the model is the reader of moorara/algo/lexer/input, tied to it by replaying
      operation scripts at small half sizes).
   2. KNOWN FINDINGS (dependency), as kernel-evaluated witnesses: a Retract of the last byte of a half
      makes the next read reload that half — a whole half of the input is skipped (D14); after a Retract
      at the end of the input the byte is lost (D13, compensated in emerge by the terminating newline).
      The scanner retracts exactly one character after each lexeme, so D14 strikes exactly when a
      lexeme's look-ahead character is the last byte of a half; the check classifies paddings by this
      predicate.
   3. The scanner's token stream is a function of the text (C05: [scanner_stream_unique]); that inserted
      blanks and comments produce no token is evaluated per generated layout by the kernel on the
      scanner model and compared with the implementation.
   4. EVERYTHING AFTER THE SCANNER depends on the token kinds and lexemes only, for all texts
      ([result_depends_only_on_the_token_sequence]): two texts with the same token sequence give the same
      declarations, hence the same grammar, definitions, precedences and verdict, wherever the tokens sit. *)
From Coq Require Import List Bool Arith NArith.
From Verif Require Import Reg.TwoBuf Reg.MaxMunch Emerge.Pipeline.
Import ListNotations.

Theorem sequential_reading_is_exact :
  forall n, 1 <= n -> forall file, nul_free file ->
    read_all n (S (length file)) (new n file) = file.
Proof. intros n Hn file Hf. apply read_all_correct; assumption. Qed.
Print Assumptions sequential_reading_is_exact.

Theorem result_depends_only_on_the_token_sequence t1 t2 :
  kinds_and_lexemes (fst (scan t1)) = kinds_and_lexemes (fst (scan t2)) -> snd (scan t1) = EndEOF -> snd (scan t2) = EndEOF ->
  front t1 = front t2.
Proof. intros H E1 E2. apply front_depends_only_on_tokens; [exact H | rewrite E1, E2; reflexivity]. Qed.
Print Assumptions result_depends_only_on_the_token_sequence.

(* the premises are satisfiable at the real half size, with a file that crosses both halves *)
Example reading_example :
  let file := map N.of_nat (seq 1 20) in
  read_all 4 21 (new 4 file) = file /\ read_all 3 21 (new 3 file) = file /\ read_all 1 21 (new 1 file) = file.
Proof. vm_compute. repeat split; reflexivity. Qed.

(* D14 and the reader half of D13, on the code as it stands *)
Theorem retract_at_a_half_boundary_refuted :
  exists n file ops, nul_free file /\
    run_ops n (new n file) 0 ops <> map (fun _ => None) ops /\
    run_ops n (new n file) 0 ops = [Some 97; Some 98; Some 98; Some 101]%N.
Proof.
  exists 2, [97; 98; 99; 100; 101; 102; 103; 104]%N, [ONext; ONext; ORetract; ONext; ONext].
  split; [repeat constructor; discriminate|]. split; [vm_compute; discriminate | vm_compute; reflexivity].
Qed.
