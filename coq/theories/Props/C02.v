(* C02 — token patterns compile to automata that accept exactly the pattern's language.

   Universal part (all patterns, all strings): emerge's own expansion of the documented
   constructs ([desugar], the model of quantifyNFA / concat / the class mappers) denotes
   exactly the documented meaning [doc_sem]; the class tables REGENERATED from rune.go are
   the standard ones and the universe of '.' and negation is 7-bit ASCII without NUL.
   Per-instance part (all strings): every automaton dumped from the real pipeline that
   passes [case_ok] accepts exactly [doc_sem] of the pattern ([case_ok_sound]); the
   automata algebra, determinisation, minimisation and pruning are the dependency's and
   are certified stage by stage per explored pattern, never sampled on strings. *)
From Coq Require Import String List Bool NArith.
From Verif Require Import Base.CharSet Reg.Dfa Reg.Regex Reg.EquivCheck Reg.Pattern Reg.PatSem Reg.PatCheck.
From VerifGen Require Import RuneGo.
Import ListNotations.
Local Open Scope N_scope.
Local Open Scope string_scope.

Definition model := PatCheck.model escaped ascii_names uni_cats cls_letters rune_classes.
Definition case_ok := PatCheck.case_ok escaped ascii_names uni_cats cls_letters rune_classes.

(* 1. emerge's expansion = documented meaning, for every well-formed pattern and every string *)
Theorem expansion_is_documented_meaning :
  forall p, wf_pat p -> forall s, matches (desugar p) s <-> doc_sem p s.
Proof. exact desugar_correct. Qed.
Print Assumptions expansion_is_documented_meaning.

(* 2. FULL STATEMENT (not provable on the code as it stands — known finding D3):
        forall c, cs_mem (universe rune_classes) c = ((1 <=? c) && (c <=? 127))%N
      i.e. the universe of '.' and of every negation is 7-bit ASCII WITHOUT NUL.  The table of
      rune.go starts the universe at 0x00, and code point 0 is the automata library's epsilon.
      Proved instead: the universe is 0..127, and the refutation witness below. *)
Theorem ascii_universe_with_nul :
  forall c, cs_mem (universe rune_classes) c = (c <=? 127)%N.
Proof.
  intros c. rewrite (cs_equivb_spec (universe rune_classes) [(0, 127)]); [|vm_compute; reflexivity].
  unfold cs_mem, in_iv. simpl. rewrite orb_false_r. destruct c; reflexivity.
Qed.
Print Assumptions ascii_universe_with_nul.

(* the defect, as a theorem: the pattern a.b is accepted, the code's expansion matches "ab",
   the documented meaning does not *)
Theorem full_statement_refuted :
  match model [97; 46; 98] with
  | MOk t r => matchb r [97; 98] = true /\ matchb (desugar (ast_regex rune_classes t)) [97; 98] = false
  | _ => False
  end.
Proof. vm_compute. split; reflexivity. Qed.

(* 3. the named classes are the standard ones *)
Definition std_classes : list (string * charset) := [
  ("\s", [(32,32); (9,10); (12,13)]);
  ("\d", [(48,57)]);
  ("\w", [(48,57); (65,90); (95,95); (97,122)]);
  ("[:blank:]", [(32,32); (9,9)]);
  ("[:space:]", [(32,32); (9,13)]);
  ("[:digit:]", [(48,57)]);
  ("[:xdigit:]", [(48,57); (65,70); (97,102)]);
  ("[:upper:]", [(65,90)]);
  ("[:lower:]", [(97,122)]);
  ("[:alpha:]", [(65,90); (97,122)]);
  ("[:alnum:]", [(48,57); (65,90); (97,122)]);
  ("[:word:]", [(48,57); (65,90); (95,95); (97,122)]);
  ("[:ascii:]", [(0,127)])     (* with NUL: known finding D3 *)
].

Theorem class_tables_standard :
  forall name cs, In (name, cs) std_classes -> forall c, cs_mem (class_of rune_classes name) c = cs_mem cs c.
Proof.
  assert (H : forallb (fun kv => cs_equivb (class_of rune_classes (fst kv)) (snd kv)) std_classes = true)
    by (vm_compute; reflexivity).
  rewrite forallb_forall in H. intros name cs Hin. apply cs_equivb_spec. apply (H _ Hin).
Qed.
Print Assumptions class_tables_standard.

(* 4. certified instances: an automaton passing the checker accepts exactly the documented
      language, for every pattern none of whose sets contains NUL (guard of known finding D3) ... *)
Theorem certified_instance_guarded :
  forall p autos, case_ok (p, 0, autos) = true ->
    pattern_nul_free escaped ascii_names uni_cats cls_letters rune_classes p = true ->
    exists t, pr_regex t = p /\
      forall d finals, In (d, finals) autos ->
        forall s, accepts d finals s = true <-> doc_sem (ast_regex rune_classes t) s.
Proof. exact (case_ok_sound escaped ascii_names uni_cats cls_letters rune_classes). Qed.
Print Assumptions certified_instance_guarded.

(* ... and in general exactly the language of the expansion as the code performs it *)
Theorem certified_instance_impl :
  forall p autos, case_ok (p, 0, autos) = true ->
    exists t, pr_regex t = p /\
      forall d finals, In (d, finals) autos ->
        forall s, accepts d finals s = true <-> matches (desugar_impl (ast_regex rune_classes t)) s.
Proof. exact (case_ok_impl escaped ascii_names uni_cats cls_letters rune_classes). Qed.
Print Assumptions certified_instance_impl.

(* the guard is satisfiable: a pattern with classes, ranges and quantifiers but no NUL-containing set *)
Example guard_holds_somewhere :
  pattern_nul_free escaped ascii_names uni_cats cls_letters rune_classes
    [40;91;97;45;99;93;124;92;100;41;123;50;44;51;125;120;42] (* ([a-c]|\d){2,3}x* *) = true
  /\ accept_model escaped ascii_names uni_cats cls_letters rune_classes
    [40;91;97;45;99;93;124;92;100;41;123;50;44;51;125;120;42] = true.
Proof. vm_compute. split; reflexivity. Qed.

(* 5. every predefined pattern is a meaningful sentence of the pattern grammar *)
Theorem predefs_accepted :
  forallb (fun kv => accept_model escaped ascii_names uni_cats cls_letters rune_classes (snd kv)) predefs = true.
Proof. vm_compute. reflexivity. Qed.

(* Non-vacuity: a concrete pattern exercising range repetition, negation and star *)
Example model_example :
  match model [97;123;50;44;51;125;124;91;94;98;93;99;42] (* a{2,3}|[^b]c* *) with
  | MOk _ r => matchb r [97;97] && matchb r [97;97;97] && negb (matchb r [97;97;97;97]) && matchb r [120;99;99] && negb (matchb r [98;98])
  | _ => false
  end = true.
Proof. vm_compute. reflexivity. Qed.
