(* C14 — No input crashes or hangs emerge; failures are errors and clean non-zero exits.

   Panics have four sources in /repo's own code; each is decided on a model tied to the current source:
     1. type assertions and indexes in the two evaluation callbacks (spec.Parse, ast.Parse): the typing theorem
        below, instantiated with the facts the translator reads from the callbacks with go/types;
     2. the command line (flag errors): Props/C16Flags.v, cli_never_panics;
     3. the LR driver's stacks: lr_sound (Cfg/LRSafe.v) — on a table passing safe_check the driver never pops an
        empty stack and the callbacks receive exactly the body's values (evaluate_plumbing);
     4. the pattern parser (combinators over a string cursor) and the character-class tables: modelled in
        Reg/Peg.v, Reg/Pattern.v as total functions; their agreement with the implementation on the error /
        success verdict, including the inputs that used to panic (D15, D16), is the correspondence of C02/C09.
   Termination: every model is a structurally recursive or fuelled total function whose fuel is proved
   sufficient (lexes_functional, lr driver: one token or one reduction per step); run-time hangs of the real
   process cannot be exhibited by a theorem and are searched for by the harness under time limits. *)
From Coq Require Import String List Bool NArith.
From Verif Require Import Cfg.LR Cfg.LRSafe Cfg.LREval Emerge.Typing.
From VerifGen Require Import TableGo ActionsGo.
Import ListNotations.
Local Open Scope string_scope.

Definition spec_S : tab := Eval vm_compute in infer ebnf_grammar spec_act 40 [].
Definition ast_S : tab := Eval vm_compute in infer ebnf_grammar ast_act 40 [].

Section Any.
  Variables V Pos : Type.
  Variable typeof : V -> vty.
  Variable tokval : nat -> V.
  Variable tokpos : nat -> Pos.
  Variable eval : N -> list V -> V.
  Hypothesis tokens_are_strings : forall i, typeof (tokval i) = VT "string".

  (* spec.Parse: for every parse tree of the EBNF grammar, no assertion of the callback fails, no index is out of
     range, and the value of every subtree has one of the dynamic types computed for its symbol *)
  Theorem spec_callback_never_panics :
    (forall p vs, act_ok spec_sat (spec_act p) (map typeof vs) = true ->
                  In (typeof (eval p vs)) (act_results (spec_act p) (map typeof vs))) ->
    forall t, wf_tree ebnf_grammar t ->
      tree_ok spec_act spec_sat V Pos typeof tokval tokpos eval t
      /\ In (tyof V Pos typeof tokval tokpos eval t) (S (tab_get spec_S) (root ebnf_grammar t)).
  Proof.
    intros Hresp. apply values_typed with (G := ebnf_grammar); try assumption. vm_compute. reflexivity.
  Qed.

  Theorem spec_final_assertion_holds :
    (forall p vs, act_ok spec_sat (spec_act p) (map typeof vs) = true ->
                  In (typeof (eval p vs)) (act_results (spec_act p) (map typeof vs))) ->
    forall t, wf_tree ebnf_grammar t -> root ebnf_grammar t = NT ebnf_start ->
      exists ty, tyof V Pos typeof tokval tokpos eval t = VT ty /\ spec_sat spec_final ty = true.
  Proof.
    intros Hresp t Hwf Hroot.
    apply (final_assertion_holds ebnf_grammar spec_act spec_sat (tab_get spec_S) V Pos typeof tokval tokpos eval
             tokens_are_strings Hresp ebnf_start spec_final t); try assumption; vm_compute; reflexivity.
  Qed.

  (* ast.Parse (the typed tree) *)
  Theorem ast_callback_never_panics :
    (forall p vs, act_ok ast_sat (ast_act p) (map typeof vs) = true ->
                  In (typeof (eval p vs)) (act_results (ast_act p) (map typeof vs))) ->
    forall t, wf_tree ebnf_grammar t ->
      tree_ok ast_act ast_sat V Pos typeof tokval tokpos eval t
      /\ In (tyof V Pos typeof tokval tokpos eval t) (S (tab_get ast_S) (root ebnf_grammar t)).
  Proof.
    intros Hresp. apply values_typed with (G := ebnf_grammar); try assumption. vm_compute. reflexivity.
  Qed.

  Theorem ast_final_assertion_holds :
    (forall p vs, act_ok ast_sat (ast_act p) (map typeof vs) = true ->
                  In (typeof (eval p vs)) (act_results (ast_act p) (map typeof vs))) ->
    forall t, wf_tree ebnf_grammar t -> root ebnf_grammar t = NT ebnf_start ->
      exists ty, tyof V Pos typeof tokval tokpos eval t = VT ty /\ ast_sat ast_final ty = true.
  Proof.
    intros Hresp t Hwf Hroot.
    apply (final_assertion_holds ebnf_grammar ast_act ast_sat (tab_get ast_S) V Pos typeof tokval tokpos eval
             tokens_are_strings Hresp ebnf_start ast_final t); try assumption; vm_compute; reflexivity.
  Qed.
End Any.

Print Assumptions spec_callback_never_panics.
Print Assumptions spec_final_assertion_holds.
Print Assumptions ast_callback_never_panics.
Print Assumptions ast_final_assertion_holds.
