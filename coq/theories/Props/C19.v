(* C19 — the compiled emitted lexer tokenises input exactly as the token automaton prescribes.

   UNIVERSAL, for ANY transition function and accepting-state table (hence for every accepted
   specification's automaton) and EVERY text: the scanning loop of templates/lexer.go.tmpl — advance until
   the automaton is dead, retract one character, evaluate the state reached, skip WS/EOL/COMMENT, discard
   whitespace no token matches, evaluate the pending lexeme at the end of input — computes exactly the
   maximal-munch token stream ([emitted_stream]), which is unique; and the emitted two-half reader returns
   exactly the file for every half size and length ([emitted_reader_exact]; single-byte characters), and the
   REPAIRED reader (scanned / loaded bookkeeping, sentinel, Retract clearing the end of input) refines a cursor into the
   file for every half size >= 4, every NUL-free file and every disciplined sequence of next() / Retract(k <= 4) calls
   ([emitted_reader_with_retract_exact]): boundaries may be crossed backwards and forwards any number of times.
   The emitted automaton IS the specification's automaton by C08.
   PER EMITTED PACKAGE: the package is compiled with a driver and run on generated inputs and on paddings
   that move tokens across both buffer boundaries; its output is compared with the Coq model of the loop
   evaluated on the same automaton and text. *)
From Coq Require Import String List Bool Arith NArith.
From Verif Require Import Reg.Dfa Reg.MaxMunch Reg.TwoBuf.
From Verif Require Reg.Reader2.
Import ListNotations.
Local Open Scope N_scope.

(* the emitted loop: unmatched whitespace at the start of a token is consumed one character at a time *)
Definition is_ws (c : N) : bool := (c =? 32) || (c =? 9) || (c =? 10) || (c =? 13).

Section Emitted.
  Variable adv : N -> N -> option N.
  Variable owner : N -> option string.      (* accepting state -> terminal *)
  Variable wsq : N.                          (* a state number the automaton does not use *)

  Definition adv' (q c : N) : option N :=
    if q =? wsq then None
    else if (q =? 0) && is_ws c then match adv 0 c with Some n => Some n | None => Some wsq end
    else adv q c.

  Definition skip_kind (k : string) : bool :=
    String.eqb k "WS" || String.eqb k "EOL" || String.eqb k "COMMENT".

  Definition cls' (q : N) : cls_t :=
    if q =? wsq then CSkip
    else match owner q with
         | Some k => if skip_kind k then CSkip else CTok k Whole
         | None => CErr
         end.

  Definition emitted_tokens (text : list N) : list token * ending := tokens adv' cls' text.

  Theorem emitted_stream :
    cls' 0 = CErr ->
    forall text, lexes adv' cls' pos0 text (fst (emitted_tokens text)) (snd (emitted_tokens text)).
  Proof. intros H text. apply tokens_spec. exact H. Qed.

  Theorem emitted_stream_unique :
    cls' 0 = CErr ->
    forall text ts e, lexes adv' cls' pos0 text ts e -> ts = fst (emitted_tokens text) /\ e = snd (emitted_tokens text).
  Proof.
    intros H text ts e Hl.
    destruct (lexes_functional adv' cls' _ _ _ _ Hl _ _ (emitted_stream H text)) as [-> ->]. auto.
  Qed.
End Emitted.
Print Assumptions emitted_stream.
Print Assumptions emitted_stream_unique.

Theorem emitted_reader_exact :
  forall n : nat, (1 <= n)%nat -> forall file, nul_free file -> read_all n (S (length file)) (new n file) = file.
Proof. intros n Hn file Hf. apply read_all_correct; assumption. Qed.
Print Assumptions emitted_reader_exact.

(* the repaired emitted reader, with Retract: every next() returns the byte at the abstract cursor, the end of input
   exactly at the end of the file; a Retract gives back at most the 4 bytes of one character read since the last Retract *)
Theorem emitted_reader_with_retract_exact (n : nat) (file : list N) (ops : list Reader2.op) :
  (4 <= n)%nat -> Forall (fun b => b <> 0%N) file -> Reader2.disciplined file ops 0 0 ->
  Reader2.run n file ops (Reader2.init n file) = Reader2.spec file ops 0.
Proof. intros Hn Hf. exact (Reader2.emitted_reader_with_retract n Hn file Hf ops). Qed.
Print Assumptions emitted_reader_with_retract_exact.

(* ---- characters: the UTF-8 decoding done by the emitted reader's Next, on the tables translated from input.go.tmpl ---- *)
From Verif Require Reg.Utf8.
From VerifGen Require Utf8Go.

Definition emitted_decode : list N -> Utf8.dres :=
  Utf8.decode Utf8Go.u_first Utf8Go.u_accept Utf8Go.u_xx Utf8Go.u_as Utf8Go.u_locb Utf8Go.u_hicb
              Utf8Go.u_maskx Utf8Go.u_mask2 Utf8Go.u_mask3 Utf8Go.u_mask4.

Lemma all_scalars_checked :
  Utf8.all_scalars_ok Utf8Go.u_first Utf8Go.u_accept Utf8Go.u_xx Utf8Go.u_as Utf8Go.u_locb Utf8Go.u_hicb
                      Utf8Go.u_maskx Utf8Go.u_mask2 Utf8Go.u_mask3 Utf8Go.u_mask4 = true.
Proof. vm_compute. reflexivity. Qed.

(* EVERY Unicode scalar value, followed by anything: the character and the number of bytes of its encoding *)
Theorem every_character_is_decoded :
  forall c rest, Utf8.scalar c = true ->
    emitted_decode (Utf8.encode c ++ rest) = Utf8.DOk c (length (Utf8.encode c)).
Proof. intros c rest. exact (Utf8.decode_encode _ _ _ _ _ _ _ _ _ _ all_scalars_checked c rest). Qed.
Print Assumptions every_character_is_decoded.

(* hence every text of scalar values, of any length, is read back character by character *)
Theorem every_text_is_read_back :
  forall cs, forallb Utf8.scalar cs = true ->
    forall fuel, (length cs < fuel)%nat ->
      Utf8.decode_all Utf8Go.u_first Utf8Go.u_accept Utf8Go.u_xx Utf8Go.u_as Utf8Go.u_locb Utf8Go.u_hicb
                      Utf8Go.u_maskx Utf8Go.u_mask2 Utf8Go.u_mask3 Utf8Go.u_mask4 fuel (flat_map Utf8.encode cs) = Some cs.
Proof. intros cs. exact (Utf8.decode_all_encode_all _ _ _ _ _ _ _ _ _ _ all_scalars_checked cs). Qed.
Print Assumptions every_text_is_read_back.

Example decoding_examples :
  emitted_decode [240; 159; 152; 128; 65]%N = Utf8.DOk 128512 4 /\        (* U+1F600 *)
  emitted_decode [237; 160; 128]%N = Utf8.DInvalid /\                      (* an encoded surrogate *)
  emitted_decode [192; 128]%N = Utf8.DInvalid /\                           (* an overlong form *)
  emitted_decode [226; 130]%N = Utf8.DEof.                                 (* cut off by the end of the input *)
Proof. vm_compute. repeat split; reflexivity. Qed.
