(* C19 — the compiled emitted lexer tokenises input exactly as the token automaton prescribes.

   UNIVERSAL, for ANY transition function and accepting-state table (hence for every accepted
   specification's automaton) and EVERY text: the scanning loop of templates/lexer.go.tmpl — advance until
   the automaton is dead, retract one character, evaluate the state reached, skip WS/EOL/COMMENT, discard
   whitespace no token matches, evaluate the pending lexeme at the end of input — computes exactly the
   maximal-munch token stream ([emitted_stream]), which is unique; and the emitted two-half reader returns
   exactly the file for every half size and length ([emitted_reader_exact]; single-byte characters), and the
   REPAIRED reader (scanned / loaded bookkeeping, sentinel, Retract clearing the end of input) refines a cursor into the
   file for every half size >= 4, every NUL-free file and every disciplined sequence of next() / Retract(k <= 4) calls
   ([emitted_reader_with_retract_exact]): boundaries may be crossed backwards and forwards any number of times.
   The emitted automaton IS the specification's automaton by C08.
   PER EMITTED PACKAGE: the package is compiled with a driver and run on generated inputs and on paddings
   that move tokens across both buffer boundaries; its output is compared with the Coq model of the loop
   evaluated on the same automaton and text. *)
From Coq Require Import String List Bool Arith NArith.
From Verif Require Import Reg.Dfa Reg.MaxMunch Reg.TwoBuf.
From Verif Require Reg.Reader2.
Import ListNotations.
Local Open Scope N_scope.

(* the emitted loop: unmatched whitespace at the start of a token is consumed one character at a time *)
Definition is_ws (c : N) : bool := (c =? 32) || (c =? 9) || (c =? 10) || (c =? 13).

Section Emitted.
  Variable adv : N -> N -> option N.
  Variable owner : N -> option string.      (* accepting state -> terminal *)
  Variable wsq : N.                          (* a state number the automaton does not use *)

  Definition adv' (q c : N) : option N :=
    if q =? wsq then None
    else if (q =? 0) && is_ws c then match adv 0 c with Some n => Some n | None => Some wsq end
    else adv q c.

  Definition skip_kind (k : string) : bool :=
    String.eqb k "WS" || String.eqb k "EOL" || String.eqb k "COMMENT".

  Definition cls' (q : N) : cls_t :=
    if q =? wsq then CSkip
    else match owner q with
         | Some k => if skip_kind k then CSkip else CTok k Whole
         | None => CErr
         end.

  Definition emitted_tokens (text : list N) : list token * ending := tokens adv' cls' text.

  Theorem emitted_stream :
    cls' 0 = CErr ->
    forall text, lexes adv' cls' pos0 text (fst (emitted_tokens text)) (snd (emitted_tokens text)).
  Proof. intros H text. apply tokens_spec. exact H. Qed.

  Theorem emitted_stream_unique :
    cls' 0 = CErr ->
    forall text ts e, lexes adv' cls' pos0 text ts e -> ts = fst (emitted_tokens text) /\ e = snd (emitted_tokens text).
  Proof.
    intros H text ts e Hl.
    destruct (lexes_functional adv' cls' _ _ _ _ Hl _ _ (emitted_stream H text)) as [-> ->]. auto.
  Qed.
End Emitted.
Print Assumptions emitted_stream.
Print Assumptions emitted_stream_unique.

Theorem emitted_reader_exact :
  forall n : nat, (1 <= n)%nat -> forall file, nul_free file -> read_all n (S (length file)) (new n file) = file.
Proof. intros n Hn file Hf. apply read_all_correct; assumption. Qed.
Print Assumptions emitted_reader_exact.

(* the repaired emitted reader, with Retract: every next() returns the byte at the abstract cursor, the end of input
   exactly at the end of the file; a Retract gives back at most the 4 bytes of one character read since the last Retract *)
Theorem emitted_reader_with_retract_exact (n : nat) (file : list N) (ops : list Reader2.op) :
  (4 <= n)%nat -> Forall (fun b => b <> 0%N) file -> Reader2.disciplined file ops 0 0 ->
  Reader2.run n file ops (Reader2.init n file) = Reader2.spec file ops 0.
Proof. intros Hn Hf. exact (Reader2.emitted_reader_with_retract n Hn file Hf ops). Qed.
Print Assumptions emitted_reader_with_retract_exact.
