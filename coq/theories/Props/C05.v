(* C05 — EBNF scanner yields exactly the documented tokens, lexemes and positions.

   go_dfa / go_eval / go_skip are REGENERATED from /repo/internal/ebnf/lexer/lexer.go on every run
   (gen/LexerGo.v); doc_dfa / doc_cls are regenerated from docs/6-design.md (the documented program is
   executed) and the token table of docs/5-definitions.md (gen/DocDfa.v).  This file holds only the
   property theorems; each is closed by a lemma/reflection and followed by Print Assumptions. *)
From Coq Require Import String List Bool NArith.
From Verif Require Import Base.Explore Base.CharSet Reg.Dfa Reg.MaxMunch.
From VerifGen Require Import LexerGo DocDfa.
Import ListNotations.
Local Open Scope N_scope.

Definition go_cls : N -> cls_t := classify go_eval go_skip.
Definition go_adv : N -> N -> option N := step go_dfa.
Definition doc_adv : N -> N -> option N := step doc_dfa.

(* The token stream emerge's scanner model produces for a character sequence. *)
Definition go_tokens (text : list N) : list token * ending := tokens go_adv go_cls text.

(* lexer.New terminates the source with a newline before handing it to the reader
   (fix for the lost last token); the scanner therefore sees [text ++ [10]]. *)
Definition scan_text (text : list N) : list token * ending := go_tokens (text ++ [10]).

(* 1. Every (state, code point) pair, over all of N: the scanner's transition function and
      accepting-state table are a labelled bisimulation of the documented automaton. *)
Theorem advance_is_documented :
  forall w : list N, related go_cls doc_cls cls_eqb (run go_dfa w, run doc_dfa w).
Proof. apply (bisim_check_sound go_dfa doc_dfa go_cls doc_cls cls_eqb (N.to_nat 200000)). vm_compute. reflexivity. Qed.
Print Assumptions advance_is_documented.

Theorem start_not_accepting : go_cls 0 = CErr.
Proof. vm_compute. reflexivity. Qed.

Lemma go_doc_bisim : forall u,
  match runq go_adv 0 u, runq doc_adv 0 u with
  | Some q1, Some q2 => go_cls q1 = doc_cls q2
  | None, None => True
  | _, _ => False
  end.
Proof.
  intros u. pose proof (advance_is_documented u) as H.
  change (runq go_adv 0 u) with (run go_dfa u).
  change (runq doc_adv 0 u) with (run doc_dfa u).
  unfold related in H.
  destruct (run go_dfa u), (run doc_dfa u); auto.
  apply cls_eqb_spec. exact H.
Qed.

(* 2. For every text: the stream the scanner model computes is the maximal-munch stream of the
      DOCUMENTED automaton (kinds, lexemes, offset/line/column of the first character, skipping,
      lexical error at the start of the offending lexeme), and it is the only such stream. *)
Theorem scanner_stream :
  forall text : list N,
    lexes doc_adv doc_cls pos0 text (fst (go_tokens text)) (snd (go_tokens text)).
Proof.
  intros text. apply (lexes_transfer go_adv doc_adv go_cls doc_cls go_doc_bisim).
  apply tokens_spec. exact start_not_accepting.
Qed.
Print Assumptions scanner_stream.

Corollary scan_text_stream :
  forall text : list N,
    lexes doc_adv doc_cls pos0 (text ++ [10]) (fst (scan_text text)) (snd (scan_text text)).
Proof. intros text. apply scanner_stream. Qed.
Print Assumptions scan_text_stream.

Theorem scanner_stream_unique :
  forall text ts e, lexes doc_adv doc_cls pos0 text ts e -> ts = fst (go_tokens text) /\ e = snd (go_tokens text).
Proof.
  intros text ts e H.
  destruct (lexes_functional doc_adv doc_cls _ _ _ _ H _ _ (scanner_stream text)) as [-> ->]. auto.
Qed.
Print Assumptions scanner_stream_unique.

(* Non-vacuity: a concrete text exercising keyword, identifier, string, pattern, comment and error. *)
Example scanner_stream_example :
  let text := [103;114;97;109;109;97;114;32;120;59;10;47;42;32;42;42;47;32;65;66;32;61;32;34;97;34;10;35]%N in
  List.length (fst (go_tokens text)) = 6%nat /\ snd (go_tokens text) = mk_err 27 3 1 [].
Proof. vm_compute. split; reflexivity. Qed.
