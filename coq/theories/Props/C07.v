(* C07 — a specification is rejected iff it is ill-formed; every terminal gets exactly one definition.

   Model: Emerge/SpecModel.v (terminal table with definitions and occurrences, Verify = ensureSingleDefs /
   ensureDistinctDefs / ensureStartSymbol, CFG.Verify, Precedences.Verify, Definitions()).
   Declarative reading: Emerge/SpecWf.v ([wf_spec], [defs_of], written over the declaration list only).
   UNIVERSAL: an accepted specification has exactly one definition for every terminal of its grammar;
   Definitions() is a permutation of the singly-defined terminals.
   PER SPECIFICATION (kernel-evaluated in gen/cases_C07_*.v): the model's verdict equals the declarative
   well-formedness and its definition list equals the declarative one — claimed only under
   [names_distinct] (known finding D7: a token and a literal with the same text are one terminal) — and
   verdict, diagnostics (kind, symbol) and definition list equal those of spec.Parse / Spec.DFA. *)
From Coq Require Import String List Bool NArith Permutation.
From Verif Require Import Cfg.Ebnf Cfg.Translate Emerge.SpecModel Emerge.SpecWf Emerge.Pipeline.
Import ListNotations.

Theorem accepted_has_one_definition_per_terminal :
  forall ds, spec_diags ds = [] ->
    forall e, In e (s_terms (translate_spec ds)) -> exists v r, te_defs e = [(v, r)].
Proof. intros ds H. apply accepted_one_definition_each. exact H. Qed.
Print Assumptions accepted_has_one_definition_per_terminal.

Theorem definition_list_is_exact :
  forall ds, Permutation (definitions (translate_spec ds)) (single_defs (translate_spec ds)).
Proof. intros ds. apply definitions_are_the_single_defs. Qed.
Print Assumptions definition_list_is_exact.

Fixpoint cp (s : string) : list N :=
  match s with EmptyString => [] | String a t => Ascii.N_of_ascii a :: cp t end.
Local Open Scope string_scope.

(* the seven defects, each alone, are rejected with the right diagnostic; a well-formed specification is accepted *)
Example verdict_examples :
  let diags t := match front (cp t) with FSpec _ ds => Some (spec_diags ds) | _ => None end in
  diags "grammar g; start = ""a"" ID; ID = $ID;" = Some []
  /\ diags "grammar g; start = ID;" = Some [NoDefinition "ID"]
  /\ diags "grammar g; start = ID; ID = ""x""; ID = /y/;" = Some [MultipleDefinitions "ID"]
  /\ diags "grammar g; start = ""x"" ID; ID = ""x"";" = Some [SameValue "x" ["x"; "ID"]]
  /\ diags "grammar g; start = ID; ID = $NOPE;" = Some [InvalidPredef "$NOPE"; NoDefinition "ID"]
  /\ diags "grammar g; start = a;" = Some [NoProductionFor "a"]
  /\ diags "grammar g; a = ""x"";" = Some [NoStartRule]
  /\ diags "grammar g; start = ""x"" ""y""; @left ""x""; @right ""x"" ""y"";" = Some [HandleInTwoLevels].
Proof. vm_compute. repeat split; reflexivity. Qed.

(* D7: token IF = "if" together with the literal "IF": the literal silently takes the token's value *)
Example name_clash_refuted :
  match front (cp "grammar g; IF = ""if""; start = IF ""IF"";") with
  | FSpec _ ds => negb (spec_names_distinct ds) && match spec_diags ds with [] => true | _ => false end
                  && negb (spec_wf ds)
  | _ => false
  end = true.
Proof. vm_compute. reflexivity. Qed.
