(* C07 — a specification is rejected iff it is ill-formed; every terminal gets exactly one definition.

   Model: Emerge/SpecModel.v (terminal table with definitions and occurrences, Verify = ensureSingleDefs /
   ensureDistinctDefs / ensureStartSymbol, CFG.Verify, Precedences.Verify, Definitions()).
   Declarative reading: Emerge/SpecWf.v ([wf_spec], [defs_of], written over the declaration list only).
   UNIVERSAL: an accepted specification has exactly one definition for every terminal of its grammar;
   Definitions() is a permutation of the singly-defined terminals.
   UNIVERSAL TOO (Emerge/SpecTable.v, a refinement of the terminal table to the declaration list): whatever the
   order of the declarations, every terminal of the table carries exactly the definitions the declaration
   list gives its name - the declared strings / patterns / expansions of predefined names for a token, the
   literal itself for a string literal - and the table has an entry for exactly the names that are defined or
   used; hence an accepted specification gives every terminal THE declared definition, not just some single one.
   PER SPECIFICATION (kernel-evaluated in gen/cases_C07_*.v): the model's verdict equals the declarative
   well-formedness and its definition list equals the declarative one — claimed only under
   [names_distinct] (known finding D7: a token and a literal with the same text are one terminal) — and
   verdict, diagnostics (kind, symbol) and definition list equal those of spec.Parse / Spec.DFA. *)
From Coq Require Import String List Bool NArith Permutation.
From Verif Require Import Cfg.Ebnf Cfg.Translate Emerge.SpecModel Emerge.SpecWf Emerge.SpecTable Emerge.SpecRules Emerge.SpecVerdict Emerge.SpecSigma Emerge.Pipeline.
From VerifGen Require Import RuneGo.
Import ListNotations.

Theorem accepted_has_one_definition_per_terminal :
  forall ds, spec_diags ds = [] ->
    forall e, In e (s_terms (translate_spec ds)) -> exists v r, te_defs e = [(v, r)].
Proof. intros ds H. apply accepted_one_definition_each. exact H. Qed.
Print Assumptions accepted_has_one_definition_per_terminal.

Theorem definition_list_is_exact :
  forall ds, Permutation (definitions (translate_spec ds)) (single_defs (translate_spec ds)).
Proof. intros ds. apply definitions_are_the_single_defs. Qed.
Print Assumptions definition_list_is_exact.

(* the terminal table refines the declaration list: every entry carries exactly the declarative definitions of its
   name, for EVERY declaration list in any order (premise: no literal shares its text with a token name, D7) *)
Theorem every_terminal_carries_the_declared_definitions :
  forall ds, spec_names_distinct ds = true ->
    forall e, In e (s_terms (translate_spec ds)) -> te_defs e = defs_of predefs_s ds (te_name e).
Proof. intros ds H e He. exact (entry_carries_the_declarations terminal_names predefs_s ds e H He). Qed.
Print Assumptions every_terminal_carries_the_declared_definitions.

(* ... so an accepted specification gives every terminal its one DECLARED definition *)
Theorem accepted_terminal_has_the_declared_definition :
  forall ds, spec_names_distinct ds = true -> spec_diags ds = [] ->
    forall e, In e (s_terms (translate_spec ds)) ->
      exists d, defs_of predefs_s ds (te_name e) = [d] /\ te_defs e = [d].
Proof.
  intros ds Hn Hd e He.
  destruct (accepted_one_definition_each _ Hd e He) as [v [r Hvr]].
  exists (v, r). split; [|exact Hvr].
  rewrite <- (entry_carries_the_declarations terminal_names predefs_s ds e Hn He). exact Hvr.
Qed.
Print Assumptions accepted_terminal_has_the_declared_definition.

(* a string literal used in a rule or directive defines itself *)
Theorem string_literal_defines_itself :
  forall ds a, spec_names_distinct ds = true -> In (a, true) (used_terms ds) ->
    defs_in (s_terms (translate_spec ds)) a = [(a, false)].
Proof.
  intros ds a Hn Hu. unfold translate_spec. rewrite (table_carries_the_declarations terminal_names predefs_s ds a Hn).
  assert (Hl : lit_used ds a = true).
  { unfold lit_used. apply existsb_exists. exists (a, true). split; [exact Hu | simpl; rewrite String.eqb_refl; reflexivity]. }
  rewrite defs_of_split, Hl.
  destruct (distinct_literal predefs_s ds a Hn Hl) as [Hnodecl _].
  assert (Hnil : declared_defs predefs_s ds a = []).
  { unfold declared_defs. apply flat_map_nil_all. intros [n o] Hin. simpl.
    destruct (String.eqb n a) eqn:E; [|reflexivity]. apply String.eqb_eq in E. subst n. destruct (Hnodecl o Hin). }
  rewrite Hnil. reflexivity.
Qed.
Print Assumptions string_literal_defines_itself.

(* a name that is never written as a literal carries its declarations, in source order: the declared string, the
   declared pattern, the expansion of the predefined name looked up in the (translated) table of predefined patterns *)
Theorem named_token_carries_its_declarations :
  forall ds a, spec_names_distinct ds = true -> lit_used ds a = false ->
    defs_in (s_terms (translate_spec ds)) a = declared_defs predefs_s ds a.
Proof.
  intros ds a Hn Hl. unfold translate_spec. rewrite (table_carries_the_declarations terminal_names predefs_s ds a Hn).
  rewrite defs_of_split, Hl. apply app_nil_r.
Qed.
Print Assumptions named_token_carries_its_declarations.

(* the table has an entry for exactly the names that are defined (with a known value) or used *)
Theorem table_has_exactly_the_defined_and_used_names :
  forall ds a, In a (map te_name (s_terms (translate_spec ds))) <->
    (exists d, In (a, Some d) (declared predefs_s ds)) \/ (exists lit, In (a, lit) (used_terms ds)).
Proof. intros ds a. exact (table_names terminal_names predefs_s ds a). Qed.
Print Assumptions table_has_exactly_the_defined_and_used_names.

(* the diagnostics name a problem that is present and none that is not, for three of the listed defects, for EVERY
   declaration list: "no definition" is reported for a name iff the name occurs and the declarations give it none ... *)
Theorem no_definition_is_reported_iff_a_token_is_used_without_one :
  forall ds a, spec_names_distinct ds = true ->
    (In (NoDefinition a) (spec_diags ds) <-> in_table predefs_s ds a /\ defs_of predefs_s ds a = []).
Proof. intros ds a H. exact (no_definition_reported_iff terminal_names predefs_s ds a H). Qed.
Print Assumptions no_definition_is_reported_iff_a_token_is_used_without_one.

(* ... "multiple definitions" iff the declarations give the name two or more ... *)
Theorem multiple_definitions_are_reported_iff_there_are_several :
  forall ds a, spec_names_distinct ds = true ->
    (In (MultipleDefinitions a) (spec_diags ds) <-> 2 <= List.length (defs_of predefs_s ds a)).
Proof. intros ds a H. exact (multiple_definitions_reported_iff terminal_names predefs_s ds a H). Qed.
Print Assumptions multiple_definitions_are_reported_iff_there_are_several.

(* ... and "invalid predefined regex" iff that name is written in a token declaration and is not in the table of
   predefined patterns (no premise) *)
Theorem unknown_predefined_name_is_reported_iff_written :
  forall ds v, In (InvalidPredef v) (spec_diags ds) <-> In v (unknown_predefs predefs_s ds).
Proof. intros ds v. exact (unknown_predef_reported_iff terminal_names predefs_s ds v). Qed.
Print Assumptions unknown_predefined_name_is_reported_iff_written.

(* "no start rule": reported iff no rule is written for [start] (rules written as rule handles count, as in the
   implementation) - every declaration list, no premise *)
Theorem no_start_rule_is_reported_iff_none_is_written :
  forall ds, In NoStartRule (spec_diags ds) <-> ~ In "start"%string (rules_heads ds).
Proof.
  intros ds. unfold spec_diags, translate_spec. rewrite no_start_rule_reported_iff, start_production_iff_start_rule. split.
  - intros H Hin. assert (X : existsb (String.eqb "start") (rules_heads ds) = true).
    { apply existsb_exists. exists "start"%string. split; [exact Hin | reflexivity]. }
    rewrite X in H. discriminate.
  - intros H. destruct (existsb (String.eqb "start") (rules_heads ds)) eqn:E; [|reflexivity]. exfalso. apply H.
    apply existsb_exists in E as [A [HA EA]]. apply String.eqb_eq in EA. subst A. exact HA.
Qed.
Print Assumptions no_start_rule_is_reported_iff_none_is_written.

(* "a non-terminal with no production": whatever is reported is a non-terminal that a written rule mentions and that has
   no written rule (a problem that is present) - every declaration list, no premise ... *)
Theorem reported_missing_rule_is_missing :
  forall ds A, In (NoProductionFor A) (spec_diags ds) -> In A (mentioned_nts ds) /\ ~ In A (rules_heads ds).
Proof.
  intros ds A H. unfold spec_diags, translate_spec in H. apply no_production_reported_iff in H as (_ & Hin & Hno).
  exact (unproductive_is_mentioned_without_a_rule terminal_names predefs_s ds A Hin Hno).
Qed.
Print Assumptions reported_missing_rule_is_missing.

(* ... and every mentioned non-terminal without a written rule is reported, once the terminal table is in order (the
   implementation returns the table's diagnostics alone when there are any) - for names that do not begin with "gen"
   (a user rule that carries a synthesised name is known finding D2) *)
Theorem missing_rule_is_reported :
  forall ds A, table_diags (translate_spec ds) = [] ->
    In A (mentioned_nts ds) -> ~ In A (rules_heads ds) -> is_gen A = false ->
    In (NoProductionFor A) (spec_diags ds).
Proof.
  intros ds A Ht Hm Hh Hg. unfold spec_diags. apply no_production_reported_iff.
  destruct (mentioned_without_a_rule_is_unproductive terminal_names predefs_s ds A Hm Hh Hg) as [Hin Hno].
  repeat split; assumption.
Qed.
Print Assumptions missing_rule_is_reported.

(* "two terminals with the same value": reported for v iff two different names each have v as their one definition *)
Theorem same_value_is_reported_iff_two_terminals_share_it :
  forall ds v, spec_names_distinct ds = true ->
    ((exists ts, In (SameValue v ts) (spec_diags ds)) <->
     exists a b r1 r2, a <> b /\ in_table predefs_s ds a /\ in_table predefs_s ds b /\
                       defs_of predefs_s ds a = [(v, r1)] /\ defs_of predefs_s ds b = [(v, r2)]).
Proof. intros ds v H. exact (same_value_reported_iff terminal_names predefs_s ds v H). Qed.
Print Assumptions same_value_is_reported_iff_two_terminals_share_it.

(* THE VERDICT: a specification is accepted iff it is well-formed as read off the declaration list - every terminal name
   that occurs has exactly one definition, no unknown predefined name, no two terminals with the same value, a rule for
   [start], a rule for every mentioned non-terminal - and no handle sits in two of the recorded precedence levels (that
   conjunct is stated on the model's levels; their handle sets are compared with the directives per specification, C12).
   Every declaration list in any order; premises: D7 (no literal shares its text with a token name) and D2 (no mentioned
   non-terminal begins with "gen"). *)
Theorem rejected_iff_ill_formed :
  forall ds, spec_names_distinct ds = true -> forallb (fun A => negb (is_gen A)) (mentioned_nts ds) = true ->
    (spec_diags ds = [] <-> well_formed predefs_s ds /\ levels_overlap (s_precs (translate_spec ds)) = false).
Proof.
  intros ds Hn Hu. apply (accepted_iff_well_formed terminal_names predefs_s ds Hn).
  intros A HA. rewrite forallb_forall in Hu. specialize (Hu A HA). apply negb_true_iff in Hu. exact Hu.
Qed.
Print Assumptions rejected_iff_ill_formed.

(* ... and with the levels read off the directives (Emerge/SpecSigma.v: the recorded levels ARE the directives) the
   verdict is declarative throughout: accepted iff well-formed and no handle is listed in two directives *)
Theorem rejected_iff_ill_formed_declaratively :
  forall ds, spec_names_distinct ds = true -> forallb (fun A => negb (is_gen A)) (mentioned_nts ds) = true ->
    (spec_diags ds = [] <-> well_formed predefs_s ds /\ levels_overlap (directive_levels (spec_nu ds) ds) = false).
Proof.
  intros ds Hn Hu. rewrite (rejected_iff_ill_formed ds Hn Hu).
  unfold translate_spec, spec_nu, translate_spec. rewrite (recorded_levels_are_the_directives terminal_names predefs_s ds). reflexivity.
Qed.
Print Assumptions rejected_iff_ill_formed_declaratively.

(* ... which is exactly the boolean well-formedness written independently over the declaration list (SpecWf.wf_spec, the
   one the kernel also evaluates per generated specification): REJECTED IFF ILL-FORMED *)
Theorem accepted_iff_wf_spec :
  forall ds, spec_names_distinct ds = true -> forallb (fun A => negb (is_gen A)) (mentioned_nts ds) = true ->
    (spec_diags ds = [] <-> spec_wf ds = true).
Proof.
  intros ds Hn Hu. rewrite (rejected_iff_ill_formed_declaratively ds Hn Hu). symmetry.
  unfold spec_wf. apply wf_spec_is_well_formed.
Qed.
Print Assumptions accepted_iff_wf_spec.

Fixpoint cp (s : string) : list N :=
  match s with EmptyString => [] | String a t => Ascii.N_of_ascii a :: cp t end.
Local Open Scope string_scope.

(* the seven defects, each alone, are rejected with the right diagnostic; a well-formed specification is accepted *)
Example verdict_examples :
  let diags t := match front (cp t) with FSpec _ ds => Some (spec_diags ds) | _ => None end in
  diags "grammar g; start = ""a"" ID; ID = $ID;" = Some []
  /\ diags "grammar g; start = ID;" = Some [NoDefinition "ID"]
  /\ diags "grammar g; start = ID; ID = ""x""; ID = /y/;" = Some [MultipleDefinitions "ID"]
  /\ diags "grammar g; start = ""x"" ID; ID = ""x"";" = Some [SameValue "x" ["x"; "ID"]]
  /\ diags "grammar g; start = ID; ID = $NOPE;" = Some [InvalidPredef "$NOPE"; NoDefinition "ID"]
  /\ diags "grammar g; start = a;" = Some [NoProductionFor "a"]
  /\ diags "grammar g; a = ""x"";" = Some [NoStartRule]
  /\ diags "grammar g; start = ""x"" ""y""; @left ""x""; @right ""x"" ""y"";" = Some [HandleInTwoLevels].
Proof. vm_compute. repeat split; reflexivity. Qed.

(* non-vacuity: a specification with a literal, a string token, a pattern token and a predefined name, declared
   after their use, satisfies the premise and its table has the four declared definitions *)
Example declared_definitions_example :
  match front (cp "grammar g; start = ""+"" AA BB CC; AA = ""a""; BB = /b+/; CC = $DIGIT;") with
  | FSpec _ ds => spec_names_distinct ds && match spec_diags ds with [] => true | _ => false end
                  && forallb (fun A => negb (is_gen A)) (mentioned_nts ds)
                  && Nat.eqb (List.length (s_terms (translate_spec ds))) 4
                  && forallb (fun e => Nat.eqb (List.length (te_defs e)) 1) (s_terms (translate_spec ds))
  | _ => false
  end = true.
Proof. vm_compute. reflexivity. Qed.

(* D2 as the reason for the second premise: a mentioned non-terminal that carries a synthesised name ("gen1_star", the name
   given to {a b}) has no rule, yet the specification is accepted - the premise about names beginning with "gen" is needed *)
Example gen_name_premise_is_needed :
  match front (cp "grammar g; start = {a b} gen1_star; a = ""x""; b = ""y"";") with
  | FSpec _ ds => spec_names_distinct ds && negb (forallb (fun A => negb (is_gen A)) (mentioned_nts ds))
                  && match spec_diags ds with [] => true | _ => false end && negb (spec_wf ds)
  | _ => false
  end = true.
Proof. vm_compute. reflexivity. Qed.

(* D7: token IF = "if" together with the literal "IF": the literal silently takes the token's value *)
Example name_clash_refuted :
  match front (cp "grammar g; IF = ""if""; start = IF ""IF"";") with
  | FSpec _ ds => negb (spec_names_distinct ds) && match spec_diags ds with [] => true | _ => false end
                  && negb (spec_wf ds)
  | _ => false
  end = true.
Proof. vm_compute. reflexivity. Qed.
