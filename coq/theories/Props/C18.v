(* C18 — parse callbacks fire in derivation order with the right values; errors abort.

   ebnf_grammar / ebnf_table / ebnf_past are REGENERATED from parsing_table.go on every run
   (gen/TableGo.v).  The driver loops Parse / ParseAndBuildAST / ParseAndEvaluate are modelled in
   Cfg/LR.v, Cfg/LRSafe.v, Cfg/LREval.v and tied to the Go code by the correspondence run. *)
From Coq Require Import String List Bool Arith NArith.
From Verif Require Import Cfg.LR Cfg.LRSafe Cfg.LREval.
From VerifGen Require Import TableGo.
Import ListNotations.
Local Open Scope N_scope.

Definition ebnf_run := run ebnf_grammar ebnf_table ebnf_eof ebnf_err_state.
Definition ebnf_run_cb := run_cb ebnf_grammar ebnf_table ebnf_eof ebnf_err_state.

(* the embedded table passes the static safety check (finite, completely enumerated) *)
Theorem ebnf_table_safe :
  safe_check ebnf_grammar ebnf_table ebnf_eof ebnf_err_state ebnf_start ebnf_past = true.
Proof. vm_compute. reflexivity. Qed.

(* 1. For every token sequence: if the parse succeeds, the token callback fired once per token in
      source order and the production callback once per reduction, in the post-order of THE parse
      tree (= a rightmost derivation in reverse); that tree applies one production of the grammar at
      every interior node, is rooted at the start symbol and has the tokens as its leaves. *)
Theorem callbacks_in_derivation_order :
  forall toks fin fuel tr,
    ~ In ebnf_eof toks ->
    ebnf_run toks fin fuel init = (tr, OAccept) ->
    exists t, wf_tree ebnf_grammar t /\ root ebnf_grammar t = NT ebnf_start /\
              leaves t = combine toks (seq 0 (length toks)) /\ tr = post t.
Proof.
  intros toks fin fuel tr Hn Hr.
  exact (lr_callbacks_in_derivation_order _ _ _ _ _ _ toks fin fuel tr ebnf_table_safe Hn Hr).
Qed.
Print Assumptions callbacks_in_derivation_order.

(* 2. An error returned by any callback stops the parse at that point and is what the caller gets:
      the log is the failure-free log cut after the first failing callback. *)
Theorem error_aborts_at_that_point :
  forall toks fin cb fuel,
    ebnf_run_cb toks fin cb fuel init =
    cut cb (fst (ebnf_run toks fin fuel init)) (snd (ebnf_run toks fin fuel init)).
Proof. intros. apply abort_at_first_error. Qed.
Print Assumptions error_aborts_at_that_point.

(* 3. ParseAndEvaluate: the value stack is the image of the node stack under bottom-up evaluation:
      every evaluation call gets the values of the body symbols left to right, its result is the
      head's value, and the head's position is the first body symbol's (none for an empty body). *)
Theorem evaluation_plumbing :
  forall (V Pos : Type) (tokval : nat -> V) (tokpos : nat -> Pos) (eval : N -> list V -> V) toks tr,
    fold_left (eval_step ebnf_grammar V Pos tokval tokpos eval) tr [] =
    map (eval_tree V Pos tokval tokpos eval) (build ebnf_grammar toks tr).
Proof. intros. apply evaluate_is_tree_fold. Qed.
Print Assumptions evaluation_plumbing.

(* Non-vacuity: "grammar x ; a = b ;"  is accepted and produces 11 production callbacks *)
Example accepted_example :
  let toks := [13; 17; 1; 17; 0; 17; 1] in
  snd (ebnf_run toks EndOfInput 1000 init) = OAccept /\
  length (filter (fun e => match e with EvProd _ => true | _ => false end) (fst (ebnf_run toks EndOfInput 1000 init))) = 11%nat.
Proof. vm_compute. split; reflexivity. Qed.
