(* C16 / C14 — flag errors end the process cleanly (see Props/C16.v) *)
From Coq Require Import String List Bool.
From Verif Require Import Emerge.Cli.
From VerifGen Require Import CliGo.
Import ListNotations.
Local Open Scope string_scope.

(* bad flags: a non-zero status, never a Go stack trace, nothing touched (also the CLI clause of C14) *)
Theorem bad_flags_exit_cleanly c s h :
  c_flag_error c = Some h ->
  r_exit (run params_go c s) <> Panic /\ (h = false -> r_exit (run params_go c s) <> Exit 0) /\ r_fs (run params_go c s) = s.
Proof. apply bad_flags_clean_exit. vm_compute. reflexivity. Qed.
Print Assumptions bad_flags_exit_cleanly.

Theorem cli_never_panics c s : r_exit (run params_go c s) <> Panic.
Proof. apply never_panics. vm_compute. reflexivity. Qed.
Print Assumptions cli_never_panics.

