(* C09 — a pattern is accepted only as a whole sentence of the documented pattern grammar.

   The concrete-syntax-tree type of Reg/Pattern.v IS the documented grammar (one constructor
   per production); [pr_regex] prints a tree.  The model of emerge's PEG parser (ordered
   choice, greedy repetition, as written with the combinators) only ever accepts a text
   that is the print of a tree: acceptance never rests on an ignored suffix. *)
From Coq Require Import String List Bool NArith.
From Verif Require Import Base.CharSet Reg.Regex Reg.Peg Reg.Pattern Reg.PatSem Reg.PatCheck.
From VerifGen Require Import RuneGo.
Import ListNotations.
Local Open Scope N_scope.

Definition accept := accept_model escaped ascii_names uni_cats cls_letters rune_classes.
Definition model := PatCheck.model escaped ascii_names uni_cats cls_letters rune_classes.

Theorem accepted_only_as_whole_sentence :
  forall p, accept p = true -> exists t : regex, pr_regex t = p.
Proof. exact (accepted_only_whole escaped ascii_names uni_cats cls_letters rune_classes). Qed.
Print Assumptions accepted_only_as_whole_sentence.

(* whatever prefix the parser consumes is the print of the tree it returns *)
Theorem parser_consumes_what_it_prints :
  forall s t rest, parse escaped ascii_names uni_cats cls_letters s = Some (t, rest) -> s = pr_regex t ++ rest.
Proof. exact (parse_sound escaped ascii_names uni_cats cls_letters). Qed.
Print Assumptions parser_consumes_what_it_prints.

(* grammatical but meaningless patterns are rejected: an accepted pattern has no descending
   character range and no repetition range with min > max *)
Theorem accepted_is_meaningful :
  forall p t r, model p = MOk t r ->
    pr_regex t = p /\ expr_ok (snd t) = true /\ wf_pat (ast_regex rune_classes t).
Proof.
  intros p t r H.
  destruct (PatCheck.accepted_is_meaningful escaped ascii_names uni_cats cls_letters rune_classes p t r H)
    as [H1 [H2 [H3 _]]]. auto.
Qed.
Print Assumptions accepted_is_meaningful.

(* Non-vacuity and the named examples: suffixes, unknown constructs and meaningless ranges are rejected;
   documented constructs in unambiguous form are accepted. *)
Fixpoint cp (s : string) : list N :=
  match s with EmptyString => [] | String a t => Ascii.N_of_ascii a :: cp t end.

Local Open Scope string_scope.
Example rejected_examples :
  forallb (fun s => negb (accept (cp s))) ["a|b|"; "ab)"; "[b-a]"; "a{2,1}"; "a{1"; "\q"; ""; "a**"; "(a"] = true.
Proof. vm_compute. reflexivity. Qed.

Example accepted_examples :
  forallb (fun s => accept (cp s)) ["a|b"; "(ab)*"; "[a-c]+"; "a{1,2}"; "\x41"; "[^a]\."; "\p{Greek}?"; "a{2,}?"] = true.
Proof. vm_compute. reflexivity. Qed.
