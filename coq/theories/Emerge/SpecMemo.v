(* The memo of synthesised non-terminals: its keys are compared as multisets of alternatives ([key_eqb] is
   multiset equality, an equivalence), the entries have pairwise different keys, and a name once assigned to
   (alternatives, kind) is never changed or lost by later lookups. *)
From Coq Require Import String List Bool Arith Lia.
From Verif Require Import Cfg.Ebnf Cfg.Translate Emerge.SpecModel Emerge.SpecRules.
Import ListNotations.

(* ---- key_eqb is multiset equality ---- *)
Definition meq (s t : strings) : Prop := forall a, count_s a s = count_s a t.

Fixpoint rem1 (a : sstr) (t : strings) : strings :=
  match t with
  | [] => []
  | b :: t' => if sstr_eqb a b then t' else b :: rem1 a t'
  end.

Lemma sstr_eqb_refl a : sstr_eqb a a = true.
Proof. apply sstr_eqb_spec. reflexivity. Qed.

Lemma sstr_eqb_false a b : sstr_eqb a b = false <-> a <> b.
Proof.
  split.
  - intros H E. subst. rewrite sstr_eqb_refl in H. discriminate.
  - intros H. destruct (sstr_eqb a b) eqn:E; [|reflexivity]. apply sstr_eqb_spec in E. destruct (H E).
Qed.

Lemma count_rem1_same a t : 1 <= count_s a t -> S (count_s a (rem1 a t)) = count_s a t.
Proof.
  induction t as [|b t IH]; simpl; intros H; [lia|].
  destruct (sstr_eqb a b) eqn:E; simpl; [lia|]. rewrite E. simpl in *. apply IH. exact H.
Qed.

Lemma count_rem1_other a b t : a <> b -> count_s b (rem1 a t) = count_s b t.
Proof.
  intros Hab. induction t as [|c t IH]; simpl; [reflexivity|].
  destruct (sstr_eqb a c) eqn:E; simpl.
  - apply sstr_eqb_spec in E. subst c. assert (X : sstr_eqb b a = false) by (apply sstr_eqb_false; auto).
    rewrite X. reflexivity.
  - rewrite IH. reflexivity.
Qed.

Lemma length_rem1 a t : 1 <= count_s a t -> S (length (rem1 a t)) = length t.
Proof.
  induction t as [|b t IH]; simpl; intros H; [lia|].
  destruct (sstr_eqb a b) eqn:E; simpl; [reflexivity|]. simpl in H. rewrite IH; [reflexivity | exact H].
Qed.

Lemma count_cons a b s : count_s a (b :: s) = (if sstr_eqb a b then 1 else 0) + count_s a s.
Proof. reflexivity. Qed.

Lemma count_in a s : In a s -> 1 <= count_s a s.
Proof.
  induction s as [|b s IH]; intros H; [destruct H|]. rewrite count_cons. destruct H as [->|H].
  - rewrite sstr_eqb_refl. lia.
  - specialize (IH H). lia.
Qed.

Lemma meq_of_counts s : forall t,
  length s = length t -> (forall a, In a s -> count_s a s = count_s a t) -> meq s t.
Proof.
  induction s as [|a s IH]; intros t Hl Hc.
  - destruct t; [intros b; reflexivity | discriminate].
  - assert (Ha : count_s a (a :: s) = count_s a t) by (apply Hc; left; reflexivity).
    rewrite count_cons, sstr_eqb_refl in Ha.
    assert (H1 : 1 <= count_s a t) by lia.
    assert (IH' : meq s (rem1 a t)).
    { apply IH.
      - pose proof (length_rem1 a t H1). simpl in Hl. lia.
      - intros b Hb. destruct (sstr_eqb b a) eqn:E.
        + apply sstr_eqb_spec in E. subst b. pose proof (count_rem1_same a t H1). lia.
        + assert (Hne : a <> b) by (intros X; subst; rewrite sstr_eqb_refl in E; discriminate).
          rewrite (count_rem1_other a b t Hne). rewrite <- (Hc b (or_intror Hb)), count_cons, E. reflexivity. }
    intros b. rewrite count_cons. destruct (sstr_eqb b a) eqn:E.
    + apply sstr_eqb_spec in E. subst b. rewrite (IH' a). pose proof (count_rem1_same a t H1). lia.
    + assert (Hne : a <> b) by (intros X; subst; rewrite sstr_eqb_refl in E; discriminate).
      rewrite (IH' b), (count_rem1_other a b t Hne). reflexivity.
Qed.

Lemma meq_length s : forall t, meq s t -> length s = length t.
Proof.
  induction s as [|a s IH]; intros t H.
  - destruct t as [|b t]; [reflexivity|]. specialize (H b). rewrite count_cons, sstr_eqb_refl in H. simpl in H. lia.
  - assert (Ha : count_s a (a :: s) = count_s a t) by apply H. rewrite count_cons, sstr_eqb_refl in Ha.
    assert (H1 : 1 <= count_s a t) by lia.
    assert (H' : meq s (rem1 a t)).
    { intros b. specialize (H b). rewrite count_cons in H. destruct (sstr_eqb b a) eqn:E.
      - apply sstr_eqb_spec in E. subst b. pose proof (count_rem1_same a t H1). lia.
      - assert (Hne : a <> b) by (intros X; subst; rewrite sstr_eqb_refl in E; discriminate).
        rewrite (count_rem1_other a b t Hne). lia. }
    specialize (IH _ H'). pose proof (length_rem1 a t H1). simpl. lia.
Qed.

Theorem key_eqb_meq s t : key_eqb s t = true <-> meq s t.
Proof.
  unfold key_eqb. rewrite andb_true_iff, Nat.eqb_eq, forallb_forall. split.
  - intros [Hl Hc]. apply meq_of_counts; [exact Hl|]. intros a Ha. apply Nat.eqb_eq. apply Hc. exact Ha.
  - intros H. split; [apply meq_length; exact H|]. intros a _. apply Nat.eqb_eq. apply H.
Qed.

Lemma key_eqb_refl s : key_eqb s s = true.
Proof. apply key_eqb_meq. intros a. reflexivity. Qed.
Lemma key_eqb_sym s t : key_eqb s t = key_eqb t s.
Proof.
  apply eq_true_iff_eq. rewrite !key_eqb_meq. unfold meq. split; intros H a; symmetry; apply H.
Qed.
Lemma key_eqb_trans s t u : key_eqb s t = true -> key_eqb t u = true -> key_eqb s u = true.
Proof. rewrite !key_eqb_meq. unfold meq. intros H1 H2 a. rewrite H1. apply H2. Qed.

(* ---- the memo ---- *)
Definition lookup (m : list memo_entry) (sg : strings) : option memo_entry :=
  find (fun e => key_eqb (m_key e) sg) m.

Lemma nu_of_lookup m sg k : nu_of m sg k = match lookup m sg with Some e => m_get e k | None => ""%string end.
Proof. reflexivity. Qed.

Fixpoint keys_distinct (m : list memo_entry) : Prop :=
  match m with
  | [] => True
  | e :: t => (forall e', In e' t -> key_eqb (m_key e) (m_key e') = false) /\ keys_distinct t
  end.

Lemma keys_distinct_unique m : keys_distinct m -> forall e1 e2,
  In e1 m -> In e2 m -> key_eqb (m_key e1) (m_key e2) = true -> e1 = e2.
Proof.
  induction m as [|e m IH]; intros Hd e1 e2 H1 H2 Hk; [destruct H1|]. destruct Hd as [Hh Ht].
  destruct H1 as [<-|H1], H2 as [<-|H2].
  - reflexivity.
  - rewrite (Hh e2 H2) in Hk. discriminate.
  - rewrite key_eqb_sym, (Hh e1 H1) in Hk. discriminate.
  - apply IH; assumption.
Qed.

Lemma keys_distinct_map m f : (forall e, m_key (f e) = m_key e) -> keys_distinct m -> keys_distinct (map f m).
Proof.
  intros Hf. induction m as [|e m IH]; simpl; [auto|]. intros [Hh Ht]. split; [|apply IH; exact Ht].
  intros e' He'. apply in_map_iff in He' as [e0 [<- H0]]. rewrite !Hf. apply Hh. exact H0.
Qed.

Lemma keys_distinct_snoc m e :
  keys_distinct m -> (forall e', In e' m -> key_eqb (m_key e') (m_key e) = false) -> keys_distinct (m ++ [e]).
Proof.
  induction m as [|x m IH]; simpl; intros Hd Hn; [split; [intros e' []|exact I]|]. destruct Hd as [Hh Ht]. split.
  - intros e' He'. apply in_app_or in He' as [He'|[<-|[]]]; [apply Hh; exact He' | apply Hn; left; reflexivity].
  - apply IH; [exact Ht|]. intros e' He'. apply Hn. right. exact He'.
Qed.

Lemma find_app {A : Type} (p : A -> bool) (l1 l2 : list A) :
  find p (l1 ++ l2) = match find p l1 with Some x => Some x | None => find p l2 end.
Proof. induction l1 as [|x l1 IH]; simpl; [reflexivity|]. destruct (p x); [reflexivity | exact IH]. Qed.

Lemma find_map_key (p : strings -> bool) f m :
  (forall e, m_key (f e) = m_key e) ->
  find (fun e => p (m_key e)) (map f m) = option_map f (find (fun e => p (m_key e)) m).
Proof.
  intros Hf. induction m as [|e m IH]; simpl; [reflexivity|]. rewrite Hf. destruct (p (m_key e)); [reflexivity | exact IH].
Qed.

(* a name that is set stays: m is extended by m' *)
Definition extends (m m' : list memo_entry) : Prop :=
  forall sg k, nu_of m sg k <> ""%string -> nu_of m' sg k = nu_of m sg k.

Lemma extends_refl m : extends m m.
Proof. intros sg k _. reflexivity. Qed.
Lemma extends_trans m1 m2 m3 : extends m1 m2 -> extends m2 m3 -> extends m1 m3.
Proof.
  intros H1 H2 sg k Hne. rewrite (H2 sg k); [apply H1; exact Hne|]. rewrite (H1 sg k Hne). exact Hne.
Qed.

Lemma is_gen_nonempty x : is_gen x = true -> x <> ""%string.
Proof. intros H E. subst. discriminate. Qed.

Section GetName.
  Variable terminal_names : list (string * string).

  Definition memo_inv (m : list memo_entry) : Prop := memo_ok m /\ keys_distinct m.

  Theorem get_name_memo s sg k :
    memo_inv (s_memo s) ->
    memo_inv (s_memo (snd (get_name terminal_names s sg k))) /\
    extends (s_memo s) (s_memo (snd (get_name terminal_names s sg k))) /\
    nu_of (s_memo (snd (get_name terminal_names s sg k))) sg k = fst (get_name terminal_names s sg k) /\
    fst (get_name terminal_names s sg k) <> ""%string.
  Proof.
    intros [Mok Mkd].
    destruct (get_name_spec terminal_names s sg k Mok) as (Hg & Mok' & _ & _).
    split; [|split; [|split; [|apply is_gen_nonempty; exact Hg]]].
    - split; [exact Mok'|]. unfold get_name. destruct (find _ (s_memo s)) as [e|] eqn:Ef.
      + destruct (String.eqb (m_get e k) ""); [|exact Mkd].
        destruct (synth_name terminal_names sg k (s_counter s)) as [n c]. simpl.
        apply keys_distinct_map; [|exact Mkd]. intros e'. destruct (key_eqb (m_key e') sg); [apply m_key_m_set | reflexivity].
      + destruct (synth_name terminal_names sg k (s_counter s)) as [n c]. simpl.
        apply keys_distinct_snoc; [exact Mkd|]. intros e' He'. rewrite m_key_m_set. simpl.
        apply (find_none _ _ Ef e' He').
    - unfold get_name. destruct (find _ (s_memo s)) as [e|] eqn:Ef.
      + destruct (String.eqb (m_get e k) "") eqn:Ee; [|apply extends_refl].
        destruct (synth_name terminal_names sg k (s_counter s)) as [n c]. simpl.
        intros sg2 k2 Hne. rewrite !nu_of_lookup in *. unfold lookup in *.
        set (f := fun e' => if key_eqb (m_key e') sg then m_set e' k n else e').
        assert (Hf : forall e', m_key (f e') = m_key e') by (intros e'; unfold f; destruct (key_eqb (m_key e') sg); [apply m_key_m_set | reflexivity]).
        rewrite (find_map_key (fun key => key_eqb key sg2) f (s_memo s) Hf).
        destruct (find (fun e0 => key_eqb (m_key e0) sg2) (s_memo s)) as [e2|] eqn:E2; [|destruct (Hne eq_refl)]. simpl.
        unfold f. destruct (key_eqb (m_key e2) sg) eqn:K2; [|reflexivity].
        rewrite m_get_m_set. destruct (kind_eqb k k2) eqn:Kk; [|reflexivity]. exfalso.
        apply kind_eqb_spec in Kk. subst k2.
        apply find_some in Ef as [He Ke]. apply find_some in E2 as [He2 Ke2].
        assert (E : e = e2).
        { apply (keys_distinct_unique _ Mkd e e2 He He2). apply (key_eqb_trans _ sg); [exact Ke | rewrite key_eqb_sym; exact K2]. }
        subst e2. apply String.eqb_eq in Ee. apply Hne. exact Ee.
      + destruct (synth_name terminal_names sg k (s_counter s)) as [n c]. simpl.
        intros sg2 k2 Hne. rewrite !nu_of_lookup in *. unfold lookup in *. rewrite find_app.
        destruct (find (fun e0 => key_eqb (m_key e0) sg2) (s_memo s)) as [e2|]; [reflexivity | destruct (Hne eq_refl)].
    - unfold get_name. destruct (find _ (s_memo s)) as [e|] eqn:Ef.
      + destruct (String.eqb (m_get e k) "") eqn:Ee.
        * destruct (synth_name terminal_names sg k (s_counter s)) as [n c]. simpl.
          rewrite nu_of_lookup. unfold lookup.
          set (f := fun e' => if key_eqb (m_key e') sg then m_set e' k n else e').
          assert (Hf : forall e', m_key (f e') = m_key e') by (intros e'; unfold f; destruct (key_eqb (m_key e') sg); [apply m_key_m_set | reflexivity]).
          rewrite (find_map_key (fun key => key_eqb key sg) f (s_memo s) Hf), Ef. simpl.
          apply find_some in Ef as [_ Ke]. unfold f. rewrite Ke, m_get_m_set.
          destruct k; reflexivity.
        * simpl. rewrite nu_of_lookup. unfold lookup. rewrite Ef. reflexivity.
      + destruct (synth_name terminal_names sg k (s_counter s)) as [n c]. simpl.
        rewrite nu_of_lookup. unfold lookup. rewrite find_app, Ef. simpl. rewrite m_key_m_set. simpl.
        rewrite key_eqb_refl, m_get_m_set. destruct k; reflexivity.
  Qed.
End GetName.
