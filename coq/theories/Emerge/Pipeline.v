(* The whole front end as a model: scanner (regenerated tables) -> LR driver (regenerated table) ->
   tree -> declarations -> symbol table.  Everything below is executable and is what the correspondence
   cases evaluate on the texts the implementation was run on. *)
From Coq Require Import String Ascii List Bool Arith NArith.
From Verif Require Import Reg.Dfa Reg.MaxMunch Cfg.LR Cfg.LRSafe Cfg.Ebnf Cfg.Translate Emerge.SpecModel.
From VerifGen Require Import LexerGo TableGo RuneGo.
Import ListNotations.

Fixpoint str_of_codes (l : list N) : string :=
  match l with
  | [] => EmptyString
  | c :: t => String (ascii_of_N c) (str_of_codes t)
  end.

Fixpoint index_of (k : string) (l : list string) (i : N) : N :=
  match l with
  | [] => i
  | x :: t => if String.eqb x k then i else index_of k t (i + 1)%N
  end.

Definition go_cls := classify go_eval go_skip.

Definition scan (text : list N) : list token * ending := tokens (Dfa.step go_dfa) go_cls (text ++ [10%N]).

Inductive front_res :=
| FLexError
| FSyntaxError
| FSpec (name : string) (ds : list decl)
| FInternal.

Definition dummy_tok : token := mk_tok EmptyString [] 0 0 0.

(* everything after the scanner is a function of the token KINDS and LEXEMES only (positions are not consulted) *)
Definition parse_tokens (kl : list (string * list N)) (e : ending) : front_res :=
  match e with
  | EndEOF =>
    let ks := map (fun t => index_of (fst t) ebnf_terminals 0%N) kl in
    let lexs := map (fun t => str_of_codes (snd t)) kl in
    let '(tr, o) := LR.run ebnf_grammar ebnf_table ebnf_eof ebnf_err_state ks EndOfInput (N.to_nat 200000) init in
    match o with
    | OAccept =>
      match build ebnf_grammar ks tr with
      | [t] => match spec_of (fun i => nth i lexs EmptyString) t with
               | Some (name, ds) => FSpec name ds
               | None => FInternal
               end
      | _ => FInternal
      end
    | OSyntaxError _ => FSyntaxError
    | _ => FInternal
    end
  | _ => FLexError
  end.

Definition kinds_and_lexemes (toks : list token) : list (string * list N) := map (fun t => (t_kind t, t_lexeme t)) toks.

Definition front (text : list N) : front_res :=
  parse_tokens (kinds_and_lexemes (fst (scan text))) (snd (scan text)).

(* two texts with the same sequence of tokens (kind and lexeme; whatever the blanks, comments, line breaks and padding
   between them, whatever their positions) and the same ending give the same result *)
Theorem front_depends_only_on_tokens t1 t2 :
  kinds_and_lexemes (fst (scan t1)) = kinds_and_lexemes (fst (scan t2)) -> snd (scan t1) = snd (scan t2) ->
  front t1 = front t2.
Proof. intros H1 H2. unfold front. rewrite H1, H2. reflexivity. Qed.

Definition translate_spec (ds : list decl) : st := translate terminal_names predefs_s ds.

(* the naming the symbol table ends up with, and the decidable premise of the language theorem *)
Definition spec_pure_ok (ds : list decl) : bool :=
  let s := translate_spec ds in
  pure_ok (rules_of_decls ds) (nu_of (s_memo s)) (s_prods s).

(* ---- what C07 / C12 evaluate per specification ---- *)
From Verif Require Import Emerge.SpecWf Reg.PatCheck.

Definition spec_nu (ds : list decl) : strings -> kind -> string := nu_of (s_memo (translate_spec ds)).
Definition spec_diags (ds : list decl) : list diag := final_diags (translate_spec ds).
Definition spec_wf (ds : list decl) : bool := wf_spec predefs_s (spec_nu ds) ds.
Definition spec_names_distinct (ds : list decl) : bool := names_distinct predefs_s ds.

Fixpoint codes_of_str (s : string) : list N :=
  match s with EmptyString => [] | String a t => N_of_ascii a :: codes_of_str t end.

(* patterns are validated when the scanner automaton is built: every pattern definition must be accepted *)
Definition patterns_ok (ds : list decl) : bool :=
  forallb (fun d : string * string * bool => let '(_, v, isre) := d in
                    if isre then accept_model escaped ascii_names uni_cats cls_letters rune_classes (codes_of_str v) else true)
          (definitions (translate_spec ds)).

Definition expected_defs (ds : list decl) : list (string * string * bool) :=
  flat_map (fun a => map (fun v => (a, fst v, snd v)) (defs_of predefs_s ds a)) (names predefs_s ds).

Definition def_eqb (x y : string * string * bool) : bool :=
  String.eqb (fst (fst x)) (fst (fst y)) && String.eqb (snd (fst x)) (snd (fst y)) && Bool.eqb (snd x) (snd y).
Fixpoint defs_eqb (a b : list (string * string * bool)) : bool :=
  match a, b with
  | [], [] => true
  | x :: a', y :: b' => def_eqb x y && defs_eqb a' b'
  | _, _ => false
  end.
Definition defs_seteqb (a b : list (string * string * bool)) : bool :=
  forallb (fun x => existsb (def_eqb x) b) a && forallb (fun x => existsb (def_eqb x) a) b.

Definition levels_eqb (a b : list (nat * list phandle)) : bool :=
  Nat.eqb (length a) (length b) &&
  forallb (fun xy : (nat * list phandle) * (nat * list phandle) => let '(x, y) := xy in
                     Nat.eqb (fst x) (fst y) &&
                     forallb (fun h => existsb (phandle_eqb h) (snd y)) (snd x) &&
                     forallb (fun h => existsb (phandle_eqb h) (snd x)) (snd y)) (combine a b).

(* every production handle of a recorded level is one of the grammar's own productions *)
Definition handles_are_productions (s : st) : bool :=
  forallb (fun lv : nat * list phandle => forallb (fun h => match h with PHProd A b => pmem (A, b) (s_prods s) | PHTerm _ => true end) (snd lv)) (s_precs s).
