(* The whole front end as a model: scanner (regenerated tables) -> LR driver (regenerated table) ->
   tree -> declarations -> symbol table.  Everything below is executable and is what the correspondence
   cases evaluate on the texts the implementation was run on. *)
From Coq Require Import String Ascii List Bool Arith NArith.
From Verif Require Import Reg.Dfa Reg.MaxMunch Cfg.LR Cfg.LRSafe Cfg.Ebnf Cfg.Translate Emerge.SpecModel.
From VerifGen Require Import LexerGo TableGo RuneGo.
Import ListNotations.

Fixpoint str_of_codes (l : list N) : string :=
  match l with
  | [] => EmptyString
  | c :: t => String (ascii_of_N c) (str_of_codes t)
  end.

Fixpoint index_of (k : string) (l : list string) (i : N) : N :=
  match l with
  | [] => i
  | x :: t => if String.eqb x k then i else index_of k t (i + 1)%N
  end.

Definition go_cls := classify go_eval go_skip.

Definition scan (text : list N) : list token * ending := tokens (Dfa.step go_dfa) go_cls (text ++ [10%N]).

Inductive front_res :=
| FLexError
| FSyntaxError
| FSpec (name : string) (ds : list decl)
| FInternal.

Definition dummy_tok : token := mk_tok EmptyString [] 0 0 0.

Definition front (text : list N) : front_res :=
  let '(toks, e) := scan text in
  match e with
  | EndEOF =>
    let ks := map (fun t => index_of (t_kind t) ebnf_terminals 0%N) toks in
    let '(tr, o) := LR.run ebnf_grammar ebnf_table ebnf_eof ebnf_err_state ks EndOfInput (N.to_nat 200000) init in
    match o with
    | OAccept =>
      match build ebnf_grammar ks tr with
      | [t] => match spec_of (fun i => str_of_codes (t_lexeme (nth i toks dummy_tok))) t with
               | Some (name, ds) => FSpec name ds
               | None => FInternal
               end
      | _ => FInternal
      end
    | OSyntaxError _ => FSyntaxError
    | _ => FInternal
    end
  | _ => FLexError
  end.

Definition translate_spec (ds : list decl) : st := translate terminal_names predefs_s ds.

(* the naming the symbol table ends up with, and the decidable premise of the language theorem *)
Definition spec_pure_ok (ds : list decl) : bool :=
  let s := translate_spec ds in
  pure_ok (rules_of_decls ds) (nu_of (s_memo s)) (s_prods s).
