(* Shared mutable state (C17).

   /repo's own code has one piece of state that outlives a call: the hasher used by hashStrings (the hash
   function of the memo table of synthesised names).  A hasher is an accumulator with three operations; one
   hashStrings call is Reset, one Write per grammar symbol, Sum64.  The model is FNV-1 (64 bit), as hash/fnv.New64.

   - sequential use: every call starts with Reset, so its result does not depend on what was hashed before
     (any program that touches the hasher only through hashStrings is a pure function);
   - a hasher SHARED by two goroutines: some interleaving of the atomic steps returns the hash of the other
     goroutine's argument (refuted statement, the situation before the repair);
   - a hasher PRIVATE to each call (the code as repaired): every interleaving gives each goroutine exactly the
     result it gets alone. *)
From Coq Require Import List Bool NArith Lia.
Import ListNotations.
Local Open Scope N_scope.

Definition fnv_offset : N := 14695981039346656037.
Definition fnv_prime : N := 1099511628211.
Definition two64 : N := 18446744073709551616.

Definition fnv_byte (acc b : N) : N := N.lxor ((acc * fnv_prime) mod two64) b.
Definition fnv_bytes (acc : N) (bs : list N) : N := fold_left fnv_byte bs acc.
Definition fnv (bs : list N) : N := fnv_bytes fnv_offset bs.

Inductive hop := Reset | Write (bs : list N) | Sum.

(* one atomic step on an accumulator: new accumulator and the values returned *)
Definition step (acc : N) (o : hop) : N * list N :=
  match o with
  | Reset => (fnv_offset, [])
  | Write bs => (fnv_bytes acc bs, [])
  | Sum => (acc, [acc])
  end.

Fixpoint exec (acc : N) (ops : list hop) : list N :=
  match ops with
  | [] => []
  | o :: t => snd (step acc o) ++ exec (fst (step acc o)) t
  end.
Fixpoint final (acc : N) (ops : list hop) : N :=
  match ops with
  | [] => acc
  | o :: t => final (fst (step acc o)) t
  end.

(* hashStrings: the argument is the list of symbols (as bytes) of the sorted strings, one Write per symbol *)
Definition hash_ops (syms : list (list N)) : list hop := Reset :: map Write syms ++ [Sum].

Lemma fnv_bytes_app acc a b : fnv_bytes acc (a ++ b) = fnv_bytes (fnv_bytes acc a) b.
Proof. unfold fnv_bytes. apply fold_left_app. Qed.

Lemma exec_writes syms : forall acc, exec acc (map Write syms ++ [Sum]) = [fnv_bytes acc (concat syms)].
Proof.
  induction syms as [|s t IH]; intros acc; simpl; [reflexivity|].
  rewrite IH, fnv_bytes_app. reflexivity.
Qed.

(* the result of one call does not depend on the state the hasher was left in *)
Theorem hash_strings_history_free acc syms : exec acc (hash_ops syms) = [fnv (concat syms)].
Proof. unfold hash_ops. simpl. apply exec_writes. Qed.

(* a computation that uses the hasher only through hashStrings *)
Inductive prog (R : Type) : Type :=
| Ret (r : R)
| Hash (syms : list (list N)) (k : N -> prog R).
Arguments Ret {R} r.
Arguments Hash {R} syms k.

Fixpoint run {R} (p : prog R) (acc : N) : R * N :=
  match p with
  | Ret r => (r, acc)
  | Hash syms k =>
    let ops := hash_ops syms in
    run (k (hd 0 (exec acc ops))) (final acc ops)
  end.

Lemma final_writes syms : forall acc, final acc (map Write syms ++ [Sum]) = fnv_bytes acc (concat syms).
Proof.
  induction syms as [|s t IH]; intros acc; simpl; [reflexivity|].
  rewrite IH, fnv_bytes_app. reflexivity.
Qed.
Lemma final_hash acc syms : final acc (hash_ops syms) = fnv (concat syms).
Proof. unfold hash_ops. simpl. apply final_writes. Qed.

Theorem run_history_free {R} (p : prog R) : forall a1 a2, fst (run p a1) = fst (run p a2).
Proof.
  induction p as [r|syms k IH]; intros a1 a2; cbn [run]; [reflexivity|].
  rewrite !hash_strings_history_free, !final_hash. reflexivity.
Qed.

(* any sequence of earlier computations, then p: the same result as p alone in a fresh process *)
Fixpoint run_all {R} (ps : list (prog R)) (acc : N) : N :=
  match ps with [] => acc | p :: t => run_all t (snd (run p acc)) end.

Theorem sequential_independence {R} (earlier : list (prog R)) (p : prog R) acc :
  fst (run p (run_all earlier acc)) = fst (run p fnv_offset).
Proof. apply run_history_free. Qed.

(* ---- two goroutines; sched says who makes the next atomic step (true = first) ---- *)
Fixpoint inter_shared (sched : list bool) (o1 o2 : list hop) (acc : N) : list N * list N :=
  match sched with
  | [] => (exec acc o1, exec (final acc o1) o2)
  | true :: t =>
    match o1 with
    | [] => inter_shared t o1 o2 acc
    | o :: o1' => let r := inter_shared t o1' o2 (fst (step acc o)) in (snd (step acc o) ++ fst r, snd r)
    end
  | false :: t =>
    match o2 with
    | [] => inter_shared t o1 o2 acc
    | o :: o2' => let r := inter_shared t o1 o2' (fst (step acc o)) in (fst r, snd (step acc o) ++ snd r)
    end
  end.

Fixpoint inter_private (sched : list bool) (o1 o2 : list hop) (a1 a2 : N) : list N * list N :=
  match sched with
  | [] => (exec a1 o1, exec a2 o2)
  | true :: t =>
    match o1 with
    | [] => inter_private t o1 o2 a1 a2
    | o :: o1' => let r := inter_private t o1' o2 (fst (step a1 o)) a2 in (snd (step a1 o) ++ fst r, snd r)
    end
  | false :: t =>
    match o2 with
    | [] => inter_private t o1 o2 a1 a2
    | o :: o2' => let r := inter_private t o1 o2' a1 (fst (step a2 o)) in (fst r, snd (step a2 o) ++ snd r)
    end
  end.

(* private hashers: every schedule gives each goroutine what it gets alone *)
Theorem private_hashers_safe sched : forall o1 o2 a1 a2,
  inter_private sched o1 o2 a1 a2 = (exec a1 o1, exec a2 o2).
Proof.
  induction sched as [|b t IH]; intros o1 o2 a1 a2; simpl; [reflexivity|].
  destruct b.
  - destruct o1 as [|o o1']; [apply IH|]. rewrite IH. reflexivity.
  - destruct o2 as [|o o2']; [apply IH|]. rewrite IH. reflexivity.
Qed.

Corollary private_hash_strings_safe sched s1 s2 a1 a2 :
  inter_private sched (hash_ops s1) (hash_ops s2) a1 a2 = ([fnv (concat s1)], [fnv (concat s2)]).
Proof. rewrite private_hashers_safe, !hash_strings_history_free. reflexivity. Qed.

(* a shared hasher: the first goroutine hashes "a", the second "b"; the second resets and writes between the
   first's Write and Sum *)
Theorem shared_hasher_refuted :
  exists sched s1 s2 acc, fst (inter_shared sched (hash_ops s1) (hash_ops s2) acc) <> [fnv (concat s1)].
Proof.
  exists [true; true; false; false; true], [[97]], [[98]], fnv_offset. vm_compute. discriminate.
Qed.

(* the interleaved result is the hash of neither argument alone *)
Example shared_hasher_example :
  inter_shared [true; true; false; false; true] (hash_ops [[97]]) (hash_ops [[98]]) fnv_offset
  = ([fnv [98]], [fnv [98]]).
Proof. vm_compute. reflexivity. Qed.
