(* The command-line tool and the generator's file handling (C16, and the CLI part of C14).

   The model is a function of PARAMETERS read from the current source by the translator (mode "cli"): the
   reserved-word list, the conjuncts of isIDValid, what main does when flag parsing fails, the files of each
   generation step, whether files are opened with O_EXCL, whether the package directory is made with Mkdir or
   MkdirAll, and whether the name is validated before the directory is made.  The theorems hold for every
   parameter record that satisfies a boolean side condition, every command line, every outcome of parsing and
   every pre-existing file system; Props/C16.v instantiates them with the translated record and discharges the
   side condition by computation, so a change of the code that falsifies it breaks that proof. *)
From Coq Require Import String List Bool Arith Ascii Lia.
Import ListNotations.
Local Open Scope string_scope.

(* ---- file system: a finite map from paths to nodes; the newest binding of a path wins ---- *)
Inductive node := Dir | File (tag : string) | Link.
Definition fs := list (string * node).

Fixpoint lookup (s : fs) (p : string) : option node :=
  match s with
  | [] => None
  | (q, n) :: t => if String.eqb p q then Some n else lookup t p
  end.
Definition add (s : fs) (p : string) (n : node) : fs := (p, n) :: s.

Definition join (d f : string) : string := d ++ "/" ++ f.

(* ---- parameters ---- *)
Inductive id_conj := CRegex | CNotBuiltin | CNotBlank.
Inductive exit := Exit (n : nat) | Panic.

Record params := {
  p_builtin : list string;
  p_conj : list id_conj;
  p_flag_error : bool -> exit;          (* argument: the error is flag.ErrHelp (-h) *)
  p_core : list string;
  p_lexer : list string;
  p_parser : list string;
  p_excl : bool;
  p_mkdir_all : bool;
  p_check_out : bool;                   (* os.Stat + IsDir on the output path before anything else *)
  p_valid_before_mkdir : bool;
  p_name_override : bool
}.

(* ---- identifiers (ASCII part of ^[\p{L}_][\p{L}\p{Nd}_]*$) ---- *)
Definition is_letter (c : ascii) : bool :=
  let n := nat_of_ascii c in (((65 <=? n) && (n <=? 90)) || ((97 <=? n) && (n <=? 122)))%nat.
Definition is_digit (c : ascii) : bool := let n := nat_of_ascii c in ((48 <=? n) && (n <=? 57))%nat.
Definition is_us (c : ascii) : bool := (nat_of_ascii c =? 95)%nat.
Definition ascii_only (s : string) : Prop := Forall (fun c => nat_of_ascii c < 128) (list_ascii_of_string s).

Definition ident_syntax (s : string) : bool :=
  match s with
  | EmptyString => false
  | String c t => (is_letter c || is_us c) && forallb (fun d => is_letter d || is_digit d || is_us d) (list_ascii_of_string t)
  end.

Definition mem (s : string) (l : list string) : bool := existsb (String.eqb s) l.

Definition conj_holds (P : params) (s : string) (c : id_conj) : bool :=
  match c with
  | CRegex => ident_syntax s
  | CNotBuiltin => negb (mem s (p_builtin P))
  | CNotBlank => negb (String.eqb s "_")
  end.
Definition is_id_valid (P : params) (s : string) : bool := forallb (conj_holds P s) (p_conj P).

(* what the Go language specification says, written independently of code.go: an identifier that is not a
   keyword and not the blank identifier *)
Definition go_keywords : list string :=
  ["break"; "default"; "func"; "interface"; "select"; "case"; "defer"; "go"; "map"; "struct"; "chan"; "else"; "goto";
   "package"; "switch"; "const"; "fallthrough"; "if"; "range"; "type"; "continue"; "for"; "import"; "return"; "var"].
Definition usable (s : string) : Prop := ident_syntax s = true /\ mem s go_keywords = false /\ s <> "_".

Definition conj_mem (c : id_conj) (l : list id_conj) : bool :=
  existsb (fun d => match c, d with CRegex, CRegex | CNotBuiltin, CNotBuiltin | CNotBlank, CNotBlank => true | _, _ => false end) l.

Definition id_safe (P : params) : bool :=
  conj_mem CRegex (p_conj P) && conj_mem CNotBuiltin (p_conj P) && conj_mem CNotBlank (p_conj P)
  && forallb (fun k => mem k (p_builtin P)) go_keywords.

Lemma conj_mem_forallb P s c : conj_mem c (p_conj P) = true -> is_id_valid P s = true -> conj_holds P s c = true.
Proof.
  unfold conj_mem, is_id_valid. intros Hm Hv. apply existsb_exists in Hm as [d [Hd Hcd]].
  rewrite forallb_forall in Hv. specialize (Hv d Hd). destruct c, d; try discriminate; exact Hv.
Qed.

Lemma mem_true_iff s l : mem s l = true <-> In s l.
Proof.
  unfold mem. rewrite existsb_exists. split.
  - intros [x [Hx He]]. apply String.eqb_eq in He. subst. exact Hx.
  - intros H. exists s. split; [exact H | apply String.eqb_refl].
Qed.

Theorem valid_names_are_usable P s : id_safe P = true -> is_id_valid P s = true -> usable s.
Proof.
  unfold id_safe. intros Hs Hv.
  apply andb_prop in Hs as [Hs Hkw]. apply andb_prop in Hs as [Hs Hc3]. apply andb_prop in Hs as [Hc1 Hc2].
  pose proof (conj_mem_forallb P s CRegex Hc1 Hv) as H1.
  pose proof (conj_mem_forallb P s CNotBuiltin Hc2 Hv) as H2.
  pose proof (conj_mem_forallb P s CNotBlank Hc3 Hv) as H3.
  simpl in H1, H2, H3. split; [exact H1|]. split.
  - destruct (mem s go_keywords) eqn:E; [|reflexivity]. exfalso.
    apply mem_true_iff in E. rewrite forallb_forall in Hkw. specialize (Hkw s E).
    rewrite Hkw in H2. discriminate H2.
  - intros ->. discriminate H3.
Qed.

(* ---- the run ---- *)
Inductive parse_result := PSyntax | PSpec | PAccepted (gname : string) (dfa_ok lalr_ok : bool).
Inductive file_arg := NoArg | Unreadable | Readable (r : parse_result).

Record config := {
  c_flag_error : option bool;      (* Some true: -h; Some false: undefined flag or bad value; None: flags parsed *)
  c_help : bool;
  c_version : bool;
  c_name : string;
  c_out : string;
  c_arg : file_arg
}.

Record result := { r_exit : exit; r_announced : bool; r_fs : fs }.

Definition create (excl : bool) (s : fs) (p tag : string) : fs * bool :=
  match lookup s p with
  | None => (add s p (File tag), true)
  | Some Dir => (s, false)
  | Some _ => if excl then (s, false) else (add s p (File tag), true)
  end.

Fixpoint render (excl : bool) (s : fs) (dir : string) (files : list string) : fs * bool :=
  match files with
  | [] => (s, true)
  | f :: t => let r := create excl s (join dir f) f in
              let r' := render excl (fst r) dir t in
              (fst r', snd r && snd r')
  end.

Definition mkdir (all : bool) (s : fs) (p : string) : fs * bool :=
  match lookup s p with
  | None => (add s p Dir, true)
  | Some Dir => (s, all)
  | Some _ => (s, false)
  end.

Definition out_ok (P : params) (s : fs) (out : string) : bool :=
  if p_check_out P then match lookup s out with Some Dir => true | _ => false end else true.

Definition prepare (P : params) (s : fs) (out pkg : string) : fs * bool :=
  if negb (out_ok P s out) then (s, false)
  else if p_valid_before_mkdir P then
         if is_id_valid P pkg then mkdir (p_mkdir_all P) s (join out pkg) else (s, false)
       else let r := mkdir (p_mkdir_all P) s (join out pkg) in
            if snd r then (fst r, is_id_valid P pkg) else r.

Definition generate (P : params) (s : fs) (out pkg : string) (dfa_ok lalr_ok : bool) : fs * bool :=
  let r0 := prepare P s out pkg in
  if negb (snd r0) then r0 else
  let dir := join out pkg in
  let r1 := render (p_excl P) (fst r0) dir (p_core P) in
  let r2 := if dfa_ok then render (p_excl P) (fst r1) dir (p_lexer P) else (fst r1, false) in
  let r3 := if lalr_ok then render (p_excl P) (fst r2) dir (p_parser P) else (fst r2, false) in
  (fst r3, snd r1 && snd r2 && snd r3).

Definition package_name (P : params) (c : config) (gname : string) : string :=
  if p_name_override P then (if String.eqb (c_name c) "" then gname else c_name c) else gname.

Definition run (P : params) (c : config) (s : fs) : result :=
  match c_flag_error c with
  | Some h => {| r_exit := p_flag_error P h; r_announced := false; r_fs := s |}
  | None =>
    if c_help c then {| r_exit := Exit 0; r_announced := false; r_fs := s |}
    else if c_version c then {| r_exit := Exit 0; r_announced := false; r_fs := s |}
    else match c_arg c with
         | NoArg | Unreadable | Readable PSyntax | Readable PSpec => {| r_exit := Exit 1; r_announced := false; r_fs := s |}
         | Readable (PAccepted g dfa_ok lalr_ok) =>
           let r := generate P s (c_out c) (package_name P c g) dfa_ok lalr_ok in
           if snd r then {| r_exit := Exit 0; r_announced := true; r_fs := fst r |}
           else {| r_exit := Exit 1; r_announced := false; r_fs := fst r |}
         end
  end.

(* ---- frame: nothing that existed is modified ---- *)
Definition preserves (s s' : fs) : Prop := forall p n, lookup s p = Some n -> lookup s' p = Some n.

Lemma preserves_refl s : preserves s s.
Proof. intros p n H; exact H. Qed.
Lemma preserves_trans a b c : preserves a b -> preserves b c -> preserves a c.
Proof. intros H1 H2 p n H. apply H2, H1, H. Qed.
Lemma preserves_add_fresh s p n : lookup s p = None -> preserves s (add s p n).
Proof.
  intros Hf q m Hq. unfold add. simpl. destruct (String.eqb_spec q p) as [->|_]; [congruence | exact Hq].
Qed.

Lemma create_excl_preserves s p tag : preserves s (fst (create true s p tag)).
Proof.
  unfold create. destruct (lookup s p) as [[| |]|] eqn:E; simpl; try apply preserves_refl.
  apply preserves_add_fresh; exact E.
Qed.
Lemma render_excl_preserves files : forall s dir, preserves s (fst (render true s dir files)).
Proof.
  induction files as [|f t IH]; intros s dir; simpl; [apply preserves_refl|].
  eapply preserves_trans; [apply create_excl_preserves | apply IH].
Qed.
Lemma mkdir_preserves all s p : preserves s (fst (mkdir all s p)).
Proof.
  unfold mkdir. destruct (lookup s p) as [[| |]|] eqn:E; simpl; try apply preserves_refl.
  apply preserves_add_fresh; exact E.
Qed.
Lemma prepare_preserves P s out pkg : preserves s (fst (prepare P s out pkg)).
Proof.
  unfold prepare. destruct (negb (out_ok P s out)); [apply preserves_refl|].
  destruct (p_valid_before_mkdir P).
  - destruct (is_id_valid P pkg); [apply mkdir_preserves | apply preserves_refl].
  - destruct (snd (mkdir (p_mkdir_all P) s (join out pkg))) eqn:E; simpl; apply mkdir_preserves.
Qed.

Theorem frame P c s : p_excl P = true -> preserves s (r_fs (run P c s)).
Proof.
  intros Hex. unfold run. destruct (c_flag_error c); [apply preserves_refl|].
  destruct (c_help c); [apply preserves_refl|]. destruct (c_version c); [apply preserves_refl|].
  destruct (c_arg c) as [| |[| |g d l]]; try apply preserves_refl.
  assert (H : preserves s (fst (generate P s (c_out c) (package_name P c g) d l))).
  { unfold generate. rewrite Hex.
    destruct (negb (snd (prepare P s (c_out c) (package_name P c g)))); [apply prepare_preserves|]. simpl.
    eapply preserves_trans; [apply prepare_preserves|].
    eapply preserves_trans; [apply render_excl_preserves|].
    destruct d, l; simpl.
    - eapply preserves_trans; [apply render_excl_preserves | apply render_excl_preserves].
    - apply render_excl_preserves.
    - apply render_excl_preserves.
    - apply preserves_refl. }
  destruct (snd (generate _ _ _ _ _ _)); exact H.
Qed.

(* ---- success iff the package is completely written ---- *)
Definition written (s : fs) (dir : string) (files : list string) : Prop :=
  forall f, In f files -> lookup s (join dir f) = Some (File f).

Definition all_files (P : params) : list string := (p_core P ++ p_lexer P ++ p_parser P)%list.

(* distinct file names: a later file of the package does not hide an earlier one *)
Lemma join_inj d f g : join d f = join d g -> f = g.
Proof.
  unfold join. induction d as [|c d IH]; simpl; intros H.
  - injection H as H. exact H.
  - injection H as H. apply IH, H.
Qed.

Lemma create_ok_written excl s p tag : snd (create excl s p tag) = true -> lookup (fst (create excl s p tag)) p = Some (File tag).
Proof.
  unfold create. destruct (lookup s p) as [[| |]|] eqn:E; simpl; try discriminate;
    try (destruct excl; simpl; try discriminate); intros _; rewrite String.eqb_refl; reflexivity.
Qed.

Lemma create_other excl s p tag q : q <> p -> lookup (fst (create excl s p tag)) q = lookup s q.
Proof.
  intros Hq. unfold create. destruct (lookup s p) as [[| |]|]; simpl; try reflexivity;
    try (destruct excl; simpl; try reflexivity); destruct (String.eqb_spec q p); congruence.
Qed.

Lemma render_other excl files : forall s dir q, (forall f, In f files -> q <> join dir f) ->
  lookup (fst (render excl s dir files)) q = lookup s q.
Proof.
  induction files as [|f t IH]; intros s dir q Hq; simpl; [reflexivity|].
  rewrite IH by (intros g Hg; apply Hq; right; exact Hg).
  apply create_other. apply Hq. left; reflexivity.
Qed.

Lemma render_ok_written excl files : forall s dir, NoDup files -> snd (render excl s dir files) = true ->
  written (fst (render excl s dir files)) dir files.
Proof.
  induction files as [|f t IH]; intros s dir Hnd Hok g Hg; [destruct Hg|].
  simpl in Hok. apply andb_prop in Hok as [Hc Hr]. inversion Hnd as [|? ? Hnotin Hnd']; subst.
  simpl. destruct Hg as [<-|Hg].
  - rewrite render_other.
    + apply create_ok_written; exact Hc.
    + intros h Hh Heq. apply join_inj in Heq. subst h. contradiction.
  - apply IH; assumption.
Qed.

Lemma render_keeps_written excl files : forall s dir done, written s dir done ->
  (forall f, In f files -> ~ In f done) -> written (fst (render excl s dir files)) dir done.
Proof.
  intros s dir done Hw Hdis g Hg. rewrite render_other; [apply Hw; exact Hg|].
  intros f Hf Heq. apply join_inj in Heq. subst g. exact (Hdis f Hf Hg).
Qed.

Lemma nodup_app_l (A : Type) (a b : list A) : NoDup (a ++ b)%list -> NoDup a.
Proof.
  induction a as [|x a IH]; simpl; intros H; [constructor|]. inversion H; subst.
  constructor; [intros Hx; apply H2; apply in_or_app; left; exact Hx | apply IH; assumption].
Qed.
Lemma nodup_app_r (A : Type) (a b : list A) : NoDup (a ++ b)%list -> NoDup b.
Proof. induction a as [|x a IH]; simpl; intros H; [exact H|]. inversion H; subst. apply IH; assumption. Qed.
Lemma nodup_app_disjoint (A : Type) (a b : list A) : NoDup (a ++ b)%list -> forall x, In x b -> ~ In x a.
Proof.
  induction a as [|y a IH]; simpl; intros H x Hb Ha; [exact Ha|]. inversion H; subst.
  destruct Ha as [->|Ha]; [apply H2; apply in_or_app; right; exact Hb | exact (IH H3 x Hb Ha)].
Qed.

Definition files_safe (P : params) : bool :=
  if list_eq_dec string_dec (nodup string_dec (all_files P)) (all_files P) then true else false.

Lemma files_safe_nodup P : files_safe P = true -> NoDup (all_files P).
Proof.
  unfold files_safe. destruct (list_eq_dec _ _ _) as [E|]; [|discriminate]. intros _. rewrite <- E. apply NoDup_nodup.
Qed.

Theorem success_means_complete P c s g d l :
  files_safe P = true -> c_flag_error c = None -> c_help c = false -> c_version c = false ->
  c_arg c = Readable (PAccepted g d l) ->
  r_exit (run P c s) = Exit 0 ->
  r_announced (run P c s) = true
  /\ written (r_fs (run P c s)) (join (c_out c) (package_name P c g)) (all_files P)
  /\ d = true /\ l = true.
Proof.
  intros Hfs Hfe Hh Hv Ha. unfold run. rewrite Hfe, Hh, Hv, Ha.
  destruct (snd (generate P s (c_out c) (package_name P c g) d l)) eqn:Hok; simpl; [|discriminate].
  intros _. split; [reflexivity|].
  unfold generate in *. set (pkg := package_name P c g) in *. set (dir := join (c_out c) pkg) in *.
  destruct (negb (snd (prepare P s (c_out c) pkg))) eqn:Hp.
  { apply negb_true_iff in Hp. rewrite Hp in Hok. discriminate Hok. }
  simpl in *. apply andb_prop in Hok as [Hok H3]. apply andb_prop in Hok as [H1 H2].
  destruct d; [|simpl in H2; discriminate H2]. destruct l; [|simpl in H3; discriminate H3].
  simpl in *. pose proof (files_safe_nodup P Hfs) as Hnd. unfold all_files in *.
  assert (Hnd1 : NoDup (p_core P)) by (eapply nodup_app_l; exact Hnd).
  assert (Hnd23 : NoDup (p_lexer P ++ p_parser P)%list) by (eapply nodup_app_r; exact Hnd).
  assert (Hnd2 : NoDup (p_lexer P)) by (eapply nodup_app_l; exact Hnd23).
  assert (Hnd3 : NoDup (p_parser P)) by (eapply nodup_app_r; exact Hnd23).
  split; [|split; reflexivity].
  set (s0 := fst (prepare P s (c_out c) pkg)) in *.
  set (s1 := fst (render (p_excl P) s0 dir (p_core P))) in *.
  set (s2 := fst (render (p_excl P) s1 dir (p_lexer P))) in *.
  assert (W1 : written s1 dir (p_core P)) by (apply render_ok_written; assumption).
  assert (W2 : written s2 dir (p_lexer P)) by (apply render_ok_written; assumption).
  assert (W3 : written (fst (render (p_excl P) s2 dir (p_parser P))) dir (p_parser P)) by (apply render_ok_written; assumption).
  assert (Hdis12 : forall f, In f (p_lexer P) -> ~ In f (p_core P)).
  { intros f Hf. apply (nodup_app_disjoint _ _ _ Hnd). apply in_or_app; left; exact Hf. }
  assert (Hdis3 : forall f, In f (p_parser P) -> ~ In f (p_core P ++ p_lexer P)%list).
  { intros f Hf Hc. apply in_app_or in Hc as [Hc|Hc].
    - revert Hc. apply (nodup_app_disjoint _ _ _ Hnd). apply in_or_app; right; exact Hf.
    - revert Hc. apply (nodup_app_disjoint _ _ _ Hnd23). exact Hf. }
  intros f Hf. apply in_app_or in Hf as [Hf|Hf].
  - apply (render_keeps_written _ _ s2 dir (p_core P)).
    + apply (render_keeps_written _ _ s1 dir (p_core P)); [exact W1 | exact Hdis12].
    + intros h0 Hh0 Hc. apply (Hdis3 h0 Hh0). apply in_or_app; left; exact Hc.
    + exact Hf.
  - apply in_app_or in Hf as [Hf|Hf].
    + apply (render_keeps_written _ _ s2 dir (p_lexer P)); [exact W2 | | exact Hf].
      intros h0 Hh0 Hc. apply (Hdis3 h0 Hh0). apply in_or_app; right; exact Hc.
    + apply W3; exact Hf.
Qed.

(* the converse: an accepted specification whose steps all succeed is announced with status 0 *)
Theorem complete_means_success P c s g :
  c_flag_error c = None -> c_help c = false -> c_version c = false -> c_arg c = Readable (PAccepted g true true) ->
  snd (generate P s (c_out c) (package_name P c g) true true) = true ->
  r_exit (run P c s) = Exit 0 /\ r_announced (run P c s) = true.
Proof.
  intros Hfe Hh Hv Ha Hok. unfold run. rewrite Hfe, Hh, Hv, Ha, Hok. split; reflexivity.
Qed.

(* anything else than an accepted specification: non-zero (or help/version), nothing announced, nothing created *)
Theorem failure_before_generation P c s :
  c_flag_error c = None -> c_help c = false -> c_version c = false ->
  (forall g d l, c_arg c <> Readable (PAccepted g d l)) ->
  r_exit (run P c s) = Exit 1 /\ r_announced (run P c s) = false /\ r_fs (run P c s) = s.
Proof.
  intros Hfe Hh Hv Ha. unfold run. rewrite Hfe, Hh, Hv.
  destruct (c_arg c) as [| |[| |g d l]]; try (repeat split; reflexivity). exfalso. eapply Ha; reflexivity.
Qed.

(* ---- an unusable name is rejected before anything is created ---- *)
Theorem unusable_name_rejected P c s g d l :
  id_safe P = true -> p_valid_before_mkdir P = true ->
  c_flag_error c = None -> c_help c = false -> c_version c = false -> c_arg c = Readable (PAccepted g d l) ->
  ~ usable (package_name P c g) ->
  r_exit (run P c s) = Exit 1 /\ r_announced (run P c s) = false /\ r_fs (run P c s) = s.
Proof.
  intros Hid Hvb Hfe Hh Hv Ha Hnu. unfold run. rewrite Hfe, Hh, Hv, Ha.
  assert (Hinv : is_id_valid P (package_name P c g) = false).
  { destruct (is_id_valid P (package_name P c g)) eqn:E; [|reflexivity]. exfalso. apply Hnu.
    eapply valid_names_are_usable; eassumption. }
  unfold generate, prepare. rewrite Hvb, Hinv.
  destruct (negb (out_ok P s (c_out c))); simpl; repeat split; reflexivity.
Qed.

(* ---- flags ---- *)
Theorem name_flag_replaces P c g : p_name_override P = true -> c_name c <> "" -> package_name P c g = c_name c.
Proof.
  intros Ho Hn. unfold package_name. rewrite Ho. destruct (String.eqb_spec (c_name c) ""); [contradiction | reflexivity].
Qed.
Theorem no_name_flag_keeps P c g : c_name c = "" -> package_name P c g = g.
Proof. intros Hn. unfold package_name. rewrite Hn. destruct (p_name_override P); reflexivity. Qed.

Lemma onode_eq_dec (a b : option node) : {a = b} + {a <> b}.
Proof. decide equality. decide equality. apply string_dec. Qed.

(* everything created lies in <out>/<name> *)
Definition under (dir p : string) : Prop := p = dir \/ exists f, p = join dir f.

Lemma create_new_under excl s dir f tag q :
  lookup (fst (create excl s (join dir f) tag)) q <> lookup s q -> under dir q.
Proof.
  intros H. destruct (String.eqb_spec q (join dir f)) as [->|Hne]; [right; eexists; reflexivity|].
  exfalso. apply H. apply create_other. exact Hne.
Qed.

Lemma render_new_under excl files : forall s dir q,
  lookup (fst (render excl s dir files)) q <> lookup s q -> under dir q.
Proof.
  induction files as [|f t IH]; intros s dir q H; simpl in H; [exfalso; apply H; reflexivity|].
  destruct (onode_eq_dec (lookup (fst (create excl s (join dir f) f)) q) (lookup s q)) as [E|E].
  - apply (IH (fst (create excl s (join dir f) f))). rewrite E. exact H.
  - eapply create_new_under; exact E.
Qed.

Theorem out_flag_selects_parent P c s q :
  lookup (r_fs (run P c s)) q <> lookup s q ->
  exists g d l, c_arg c = Readable (PAccepted g d l) /\ under (join (c_out c) (package_name P c g)) q.
Proof.
  unfold run. destruct (c_flag_error c); [intros H; exfalso; apply H; reflexivity|].
  destruct (c_help c); [intros H; exfalso; apply H; reflexivity|].
  destruct (c_version c); [intros H; exfalso; apply H; reflexivity|].
  destruct (c_arg c) as [| |[| |g d l]]; try (intros H; exfalso; apply H; reflexivity).
  intros H. exists g, d, l. split; [reflexivity|].
  set (pkg := package_name P c g) in *. set (dir := join (c_out c) pkg) in *.
  assert (Hg : lookup (fst (generate P s (c_out c) pkg d l)) q <> lookup s q).
  { destruct (snd (generate P s (c_out c) pkg d l)); exact H. }
  clear H. unfold generate in Hg. fold dir in Hg.
  assert (Hprep : forall q, lookup (fst (prepare P s (c_out c) pkg)) q <> lookup s q -> under dir q).
  { intros q0 Hq. unfold prepare in Hq. fold dir in Hq.
    assert (Hm : lookup (fst (mkdir (p_mkdir_all P) s dir)) q0 <> lookup s q0 -> under dir q0).
    { unfold mkdir. destruct (lookup s dir) as [[| |]|]; simpl; try (intros X; exfalso; apply X; reflexivity).
      destruct (String.eqb_spec q0 dir) as [->|]; [intros _; left; reflexivity | intros X; exfalso; apply X; reflexivity]. }
    destruct (negb (out_ok P s (c_out c))); [exfalso; apply Hq; reflexivity|].
    destruct (p_valid_before_mkdir P).
    - destruct (is_id_valid P pkg); [apply Hm; exact Hq | exfalso; apply Hq; reflexivity].
    - destruct (snd (mkdir (p_mkdir_all P) s dir)); simpl in Hq; apply Hm; exact Hq. }
  destruct (negb (snd (prepare P s (c_out c) pkg))); [apply Hprep; exact Hg|]. simpl in Hg.
  set (s0 := fst (prepare P s (c_out c) pkg)) in *.
  destruct (onode_eq_dec (lookup s0 q) (lookup s q)) as [E0|E0]; [|apply Hprep; exact E0].
  rewrite <- E0 in Hg. clear E0 Hprep.
  set (s1 := fst (render (p_excl P) s0 dir (p_core P))) in *.
  destruct (onode_eq_dec (lookup s1 q) (lookup s0 q)) as [E1|E1]; [|eapply render_new_under; exact E1].
  rewrite <- E1 in Hg.
  destruct d; simpl in Hg.
  - set (s2 := fst (render (p_excl P) s1 dir (p_lexer P))) in *.
    destruct (onode_eq_dec (lookup s2 q) (lookup s1 q)) as [E2|E2]; [|eapply render_new_under; exact E2].
    rewrite <- E2 in Hg. destruct l; simpl in Hg; [eapply render_new_under; exact Hg | exfalso; apply Hg; reflexivity].
  - destruct l; simpl in Hg; [eapply render_new_under; exact Hg | exfalso; apply Hg; reflexivity].
Qed.

(* ---- bad flags: a message and a non-zero status, never a stack trace; nothing touched ---- *)
Definition flags_safe (P : params) : bool :=
  match p_flag_error P false, p_flag_error P true with
  | Exit (S _), Exit _ => true
  | _, _ => false
  end.

Theorem bad_flags_clean_exit P c s h :
  flags_safe P = true -> c_flag_error c = Some h ->
  r_exit (run P c s) <> Panic /\ (h = false -> r_exit (run P c s) <> Exit 0) /\ r_fs (run P c s) = s.
Proof.
  unfold flags_safe, run. intros Hf Hc. rewrite Hc. simpl.
  destruct (p_flag_error P false) as [[|n]|] eqn:E1; try discriminate Hf.
  destruct (p_flag_error P true) as [m|] eqn:E2; try discriminate Hf.
  destruct h; rewrite ?E1, ?E2; repeat split; try discriminate; intros; discriminate.
Qed.

Theorem never_panics P c s : flags_safe P = true -> r_exit (run P c s) <> Panic.
Proof.
  intros Hf. destruct (c_flag_error c) as [h|] eqn:E.
  - destruct (bad_flags_clean_exit P c s h Hf E) as [H _]. exact H.
  - unfold run. rewrite E. destruct (c_help c); [discriminate|]. destruct (c_version c); [discriminate|].
    destruct (c_arg c) as [| |[| |g d l]]; try discriminate. destruct (snd (generate _ _ _ _ _ _)); discriminate.
Qed.

(* ---- the package directory is made by this run: nothing is ever created inside a directory (or through a
        link) that existed before, apart from the one new entry <name> in <out> ---- *)
Lemma prepare_existing P s out pkg n :
  p_mkdir_all P = false -> lookup s (join out pkg) = Some n -> prepare P s out pkg = (s, false).
Proof.
  intros Hall He. unfold prepare, mkdir. rewrite He, Hall.
  destruct (negb (out_ok P s out)); [reflexivity|].
  destruct (p_valid_before_mkdir P).
  - destruct (is_id_valid P pkg); [destruct n; reflexivity | reflexivity].
  - destruct n; reflexivity.
Qed.

Theorem package_directory_is_new P c s q :
  p_mkdir_all P = false ->
  lookup (r_fs (run P c s)) q <> lookup s q ->
  exists g d l, c_arg c = Readable (PAccepted g d l) /\ lookup s (join (c_out c) (package_name P c g)) = None.
Proof.
  intros Hall. unfold run. destruct (c_flag_error c); [intros H; exfalso; apply H; reflexivity|].
  destruct (c_help c); [intros H; exfalso; apply H; reflexivity|].
  destruct (c_version c); [intros H; exfalso; apply H; reflexivity|].
  destruct (c_arg c) as [| |[| |g d l]]; try (intros H; exfalso; apply H; reflexivity).
  intros H. exists g, d, l. split; [reflexivity|].
  destruct (lookup s (join (c_out c) (package_name P c g))) as [n|] eqn:E; [|reflexivity].
  exfalso. apply H. unfold generate. rewrite (prepare_existing P s (c_out c) (package_name P c g) n Hall E). reflexivity.
Qed.
