(* Declarative well-formedness of a specification and the expected terminal definitions, written
   directly over the declaration list (independently of the symbol table), plus the universal facts
   about the symbol-table model that do not need its invariants: accepted => every terminal has exactly
   one definition; Definitions() is a permutation of the singly-defined terminals; precedence levels
   appear in source order with the associativity written. *)
From Coq Require Import String List Bool Arith Lia Permutation.
From Verif Require Import Cfg.Ebnf Cfg.Translate Emerge.SpecModel.
Import ListNotations.

(* ---- terminals a specification uses: (name, written as a literal) in any order ---- *)
Fixpoint terms_of (r : erhs) : list (string * bool) :=
  match r with
  | ETerm a lit => [(a, lit)]
  | ENT _ => []
  | ECat x y | EAlt x y => terms_of x ++ terms_of y
  | EAltE x | EGroup x | EOpt x | EStar x | EPlus x => terms_of x
  end.

Definition terms_of_rule (b : option erhs) : list (string * bool) :=
  match b with Some r => terms_of r | None => [] end.

Definition used_terms (ds : list decl) : list (string * bool) :=
  flat_map (fun d => match d with
                     | DRule _ b => terms_of_rule b
                     | DDirective _ hs => flat_map (fun h => match h with
                                                             | HTerm a lit => [(a, lit)]
                                                             | HRule _ b => terms_of_rule b
                                                             end) hs
                     | DToken _ _ _ => []
                     end) ds.

Section Wf.
  Variable predefs : list (string * string).

  (* declared definitions: (name, value, is a pattern); None when the predefined name is unknown *)
  Definition token_def (d : decl) : list (string * option (string * bool)) :=
    match d with
    | DToken n 0 v => [(n, Some (v, false))]
    | DToken n 1 v => [(n, Some (v, true))]
    | DToken n _ v => match find (fun e => String.eqb (fst e) v) predefs with
                      | Some e => [(n, Some (snd e, true))]
                      | None => [(n, None)]
                      end
    | _ => []
    end.
  Definition declared (ds : list decl) : list (string * option (string * bool)) := flat_map token_def ds.

  Definition names (ds : list decl) : list string :=
    nodup string_dec (map fst (declared ds) ++ map fst (used_terms ds)).

  (* the definitions a terminal name has, declaratively: every token declaration with a known value, plus the
     implicit self-definition of a name used as a literal *)
  Definition defs_of (ds : list decl) (a : string) : list (string * bool) :=
    flat_map (fun e => if String.eqb (fst e) a then match snd e with Some v => [v] | None => [] end else []) (declared ds)
    ++ (if existsb (fun u => String.eqb (fst u) a && snd u) (used_terms ds) then [(a, false)] else []).

  (* a literal and a token that share their text are ONE terminal in emerge (known finding D7); the
     declarative reading below is only claimed when no such clash exists *)
  Definition names_distinct (ds : list decl) : bool :=
    forallb (fun u : string * bool =>
               if snd u
               then negb (existsb (fun e : string * option (string * bool) => String.eqb (fst e) (fst u)) (declared ds))
                    && negb (existsb (fun v : string * bool => String.eqb (fst v) (fst u) && negb (snd v)) (used_terms ds))
               else true) (used_terms ds).

  Definition rules_heads (ds : list decl) : list string := map fst (rules_of_decls ds).
  Definition mentioned_nts (ds : list decl) : list string := mentioned_list (rules_of_decls ds).

  Definition handle_keys (nu : strings -> kind -> string) (h : handle) : list phandle :=
    match h with
    | HTerm a _ => [PHTerm a]
    | HRule A None => [PHProd A []]
    | HRule A (Some r) => map (PHProd A) (sigma nu r)
    end.

  Definition directive_levels (nu : strings -> kind -> string) (ds : list decl) : list (nat * list phandle) :=
    flat_map (fun d => match d with DDirective a hs => [(a, flat_map (handle_keys nu) hs)] | _ => [] end) ds.

  Definition wf_spec (nu : strings -> kind -> string) (ds : list decl) : bool :=
    (* every terminal has exactly one definition *)
    forallb (fun a => Nat.eqb (length (defs_of ds a)) 1) (names ds)
    (* no unknown predefined name *)
    && forallb (fun e => match snd e with Some _ => true | None => false end) (declared ds)
    (* no two terminals with the same value *)
    && forallb (fun a => forallb (fun b => if String.eqb a b then true
                                           else match defs_of ds a, defs_of ds b with
                                                | [(v, _)], [(w, _)] => negb (String.eqb v w)
                                                | _, _ => true
                                                end) (names ds)) (names ds)
    (* a start rule; every mentioned non-terminal has a rule *)
    && existsb (String.eqb "start") (rules_heads ds)
    && forallb (fun A => existsb (String.eqb A) (rules_heads ds)) (mentioned_nts ds)
    (* no handle in two precedence levels *)
    && negb (levels_overlap (directive_levels nu ds)).
End Wf.

(* ---- universal facts about the model ---- *)
Lemma table_diags_nil_single s :
  table_diags s = [] -> forall e, In e (s_terms s) -> exists v r, te_defs e = [(v, r)].
Proof.
  unfold table_diags. intros H e He.
  apply app_eq_nil in H as [H _].
  assert (Hx : forall l : list tentry, flat_map (fun e => match te_defs e with
                     | [] => [NoDefinition (te_name e)]
                     | [_] => []
                     | _ => [MultipleDefinitions (te_name e)]
                     end) l = [] -> forall e, In e l -> exists v r, te_defs e = [(v, r)]).
  { induction l as [|x l IH]; intros Hl e0 Hin; [destruct Hin|]. simpl in Hl.
    apply app_eq_nil in Hl as [Hx Hl]. destruct Hin as [<-|Hin].
    - destruct (te_defs x) as [|[v r] [|y t]]; try discriminate. eauto.
    - apply IH; assumption. }
  apply (Hx _ H e He).
Qed.

Theorem accepted_one_definition_each s :
  final_diags s = [] -> forall e, In e (s_terms s) -> exists v r, te_defs e = [(v, r)].
Proof.
  unfold final_diags. intros H. destruct (table_diags s) as [|d t] eqn:E.
  - apply table_diags_nil_single. exact E.
  - exfalso. destruct (map InvalidPredef (s_errs s)); simpl in H; discriminate H.
Qed.

Lemma insert_def_perm x l : Permutation (insert_def x l) (x :: l).
Proof.
  induction l as [|y l IH]; simpl; [apply Permutation_refl|].
  destruct (def_lt x y); [apply Permutation_refl|].
  eapply Permutation_trans; [apply perm_skip; exact IH | apply perm_swap].
Qed.

Theorem definitions_are_the_single_defs s : Permutation (definitions s) (single_defs s).
Proof.
  unfold definitions. induction (single_defs s) as [|x l IH]; simpl; [constructor|].
  eapply Permutation_trans; [apply insert_def_perm | apply perm_skip; exact IH].
Qed.

(* precedence levels are appended in source order with the associativity written *)
Section Levels.
  Variable terminal_names : list (string * string).
  Variable predefs : list (string * string).

  Lemma add_nt_precs s A : s_precs (add_nt s A) = s_precs s.
  Proof. unfold add_nt. destruct (existsb _ _); reflexivity. Qed.
  Lemma add_prod_precs s p : s_precs (add_prod s p) = s_precs s.
  Proof. unfold add_prod. destruct (pmem _ _); reflexivity. Qed.
  Lemma fold_add_prod_precs ps : forall s, s_precs (fold_left add_prod ps s) = s_precs s.
  Proof. induction ps as [|p ps IH]; intros s; simpl; [reflexivity|]. rewrite IH. apply add_prod_precs. Qed.
  Lemma get_name_precs s sg k : s_precs (snd (get_name terminal_names s sg k)) = s_precs s.
  Proof.
    unfold get_name. destruct (find _ (s_memo s)) as [e|].
    - destruct (String.eqb (m_get e k) ""); [|reflexivity]. destruct (synth_name _ _ _ _). reflexivity.
    - destruct (synth_name _ _ _ _). reflexivity.
  Qed.
  Lemma finish_bracket_precs k res : s_precs (snd (finish_bracket terminal_names k res)) = s_precs (snd res).
  Proof.
    unfold finish_bracket. destruct res as [sg s1]. 
    pose proof (get_name_precs s1 sg k) as H. destruct (get_name terminal_names s1 sg k) as [X s2]. simpl in *.
    rewrite fold_add_prod_precs, add_nt_precs. exact H.
  Qed.
  Lemma tr_precs r : forall s, s_precs (snd (tr terminal_names r s)) = s_precs s.
  Proof.
    induction r as [a lit|A|x IHx y IHy|x IHx y IHy|x IHx|x IHx|x IHx|x IHx|x IHx]; intros s; simpl.
    - destruct lit; reflexivity.
    - apply add_nt_precs.
    - specialize (IHx s). destruct (tr terminal_names x s) as [s1 st1]. specialize (IHy st1).
      destruct (tr terminal_names y st1) as [s2 st2]. simpl in *. congruence.
    - specialize (IHx s). destruct (tr terminal_names x s) as [s1 st1]. specialize (IHy st1).
      destruct (tr terminal_names y st1) as [s2 st2]. simpl in *. congruence.
    - specialize (IHx s). destruct (tr terminal_names x s) as [s1 st1]. simpl in *. exact IHx.
    - rewrite finish_bracket_precs. apply IHx.
    - rewrite finish_bracket_precs. apply IHx.
    - rewrite finish_bracket_precs. apply IHx.
    - rewrite finish_bracket_precs. apply IHx.
  Qed.
  Lemma tr_rule_precs A b s : s_precs (snd (tr_rule terminal_names A b s)) = s_precs s.
  Proof.
    unfold tr_rule. destruct b as [r|]; simpl.
    - pose proof (tr_precs r (add_nt s A)) as H. destruct (tr terminal_names r (add_nt s A)) as [sg s1]. simpl in *.
      rewrite fold_add_prod_precs, H. apply add_nt_precs.
    - rewrite add_prod_precs. apply add_nt_precs.
  Qed.
  Lemma tr_handles_precs hs : forall s, s_precs (snd (tr_handles terminal_names hs s)) = s_precs s.
  Proof.
    induction hs as [|h hs IH]; intros s; simpl; [reflexivity|]. destruct h as [a lit|A b].
    - specialize (IH (if lit then add_string_terminal s a else add_token_terminal s a)).
      destruct (tr_handles terminal_names hs _) as [r s2]. simpl in *. rewrite IH. destruct lit; reflexivity.
    - pose proof (tr_rule_precs A b s) as H. destruct (tr_rule terminal_names A b s) as [ps s1].
      specialize (IH s1). destruct (tr_handles terminal_names hs s1) as [r s2]. simpl in *. congruence.
  Qed.

  Definition assoc_of (d : decl) : list nat := match d with DDirective a _ => [a] | _ => [] end.

  Lemma tr_decl_assocs s d :
    map fst (s_precs (tr_decl terminal_names predefs s d)) = map fst (s_precs s) ++ assoc_of d.
  Proof.
    destruct d as [n k v|a hs|A b]; simpl.
    - destruct k as [|[|k]]; simpl; rewrite ?app_nil_r; try reflexivity.
      destruct (find _ predefs); simpl; rewrite ?app_nil_r; reflexivity.
    - pose proof (tr_handles_precs hs s) as H. destruct (tr_handles terminal_names hs s) as [phs s1]. simpl in *.
      rewrite map_app, H. reflexivity.
    - rewrite tr_rule_precs, app_nil_r. reflexivity.
  Qed.

  Theorem levels_in_source_order ds :
    map fst (s_precs (translate terminal_names predefs ds)) = flat_map assoc_of ds.
  Proof.
    unfold translate.
    assert (H : forall s, map fst (s_precs (fold_left (tr_decl terminal_names predefs) ds s))
                          = map fst (s_precs s) ++ flat_map assoc_of ds).
    { induction ds as [|d ds IH]; intros s; simpl; [rewrite app_nil_r; reflexivity|].
      rewrite IH, tr_decl_assocs, <- app_assoc. reflexivity. }
    apply (H st0).
  Qed.
End Levels.
