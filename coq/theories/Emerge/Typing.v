(* Dynamic types of semantic values (C14: no evaluation callback panics on a type assertion or an index).

   ParseAndEvaluate gives each reduce action the values of the production's body symbols (C18,
   evaluate_plumbing).  An action asserts dynamic types on those values (rhs[k].Val.(T)) and indexes rhs with
   constants; Go panics when an assertion without the comma-ok form meets another dynamic type or nil, or
   when an index is out of range.  The translator (mode "actions", go/types) lists per production the
   assertions, the largest index and, for each successful return, the dynamic type of the returned value.

   S assigns to every grammar symbol the set of dynamic types its value may have (computed below by
   iteration, then CHECKED to be closed).  Theorem: when the check passes, for EVERY well-formed parse tree no
   assertion fails and no index is out of range anywhere in the tree, and the value of the tree has one of the
   types of its root symbol; in particular the assertion on the final result holds. *)
From Coq Require Import String List Bool Arith NArith Lia.
From Verif Require Import Cfg.LR Cfg.LRSafe Cfg.LREval.
Import ListNotations.

Inductive vty := VT (t : string) | VNil.
Definition vty_eqb (a b : vty) : bool :=
  match a, b with VT s, VT t => String.eqb s t | VNil, VNil => true | _, _ => false end.
Lemma vty_eqb_eq a b : vty_eqb a b = true <-> a = b.
Proof.
  destruct a as [s|], b as [t|]; simpl; try (split; [discriminate | congruence]); try tauto.
  rewrite String.eqb_eq. split; congruence.
Qed.
Definition memv (v : vty) (l : list vty) : bool := existsb (vty_eqb v) l.
Lemma memv_in v l : memv v l = true <-> In v l.
Proof.
  unfold memv. rewrite existsb_exists. split.
  - intros [x [Hx He]]. apply vty_eqb_eq in He. subst. exact Hx.
  - intros H. exists v. split; [exact H | apply vty_eqb_eq; reflexivity].
Qed.

Inductive rexpr := RLit (t : string) | RPass (k : nat) | RNil | RUnknown.
Record assertion := { as_k : nat; as_ty : string; as_comma : bool; as_nilguard : bool }.
Record action := { a_asserts : list assertion; a_max : option nat; a_bad : bool; a_rets : list rexpr }.

Section Typing.
  Variable G : grammar.
  Variable act : N -> action.
  Variable sat : string -> string -> bool.      (* asserted type, dynamic type: the assertion succeeds *)
  Variable SN : N -> list vty.                  (* types of the value of a non-terminal *)

  Definition S (X : symbol) : list vty := match X with T _ => [VT "string"] | NT A => SN A end.

  Definition fits (a : assertion) (v : vty) : bool :=
    match v with VT t => sat (as_ty a) t | VNil => as_nilguard a end.

  Definition assert_ok (args : list vty) (a : assertion) : bool :=
    as_comma a || match nth_error args (as_k a) with Some v => fits a v | None => false end.

  Definition index_ok (a : action) (n : nat) : bool :=
    match a_max a with None => true | Some m => m <? n end.

  (* the run-time condition: with arguments of these dynamic types the action neither fails an assertion nor
     indexes out of range *)
  Definition act_ok (a : action) (args : list vty) : bool :=
    negb (a_bad a) && forallb (assert_ok args) (a_asserts a) && index_ok a (length args).

  Definition ret_types (args : list vty) (r : rexpr) : list vty :=
    match r with
    | RLit t => [VT t]
    | RPass k => match nth_error args k with Some v => [v] | None => [] end
    | RNil => [VNil]
    | RUnknown => []
    end.
  Definition act_results (a : action) (args : list vty) : list vty := flat_map (ret_types args) (a_rets a).

  (* ---- the static check ---- *)
  Definition subset (a b : list vty) : bool := forallb (fun v => memv v b) a.

  Definition prod_closed (i : nat) (pr : prod) : bool :=
    let a := act (N.of_nat i) in
    let body := p_body pr in
    negb (a_bad a) && index_ok a (length body)
    && forallb (fun s => as_comma s || match nth_error body (as_k s) with
                                       | Some X => forallb (fits s) (S X)
                                       | None => false
                                       end) (a_asserts a)
    && forallb (fun r => match r with
                         | RLit t => memv (VT t) (SN (p_head pr))
                         | RPass k => match nth_error body k with Some X => subset (S X) (SN (p_head pr)) | None => false end
                         | RNil => memv VNil (SN (p_head pr))
                         | RUnknown => false
                         end) (a_rets a).

  Fixpoint all_closed (i : nat) (ps : list prod) : bool :=
    match ps with
    | [] => true
    | pr :: t => prod_closed i pr && all_closed (Datatypes.S i) t
    end.
  Definition closed : bool := all_closed 0 G.

  Lemma all_closed_nth ps : forall i k pr, all_closed i ps = true -> nth_error ps k = Some pr -> prod_closed (i + k) pr = true.
  Proof.
    induction ps as [|q t IH]; intros i k pr Hc Hn; [destruct k; discriminate Hn|].
    simpl in Hc. apply andb_prop in Hc as [Hq Ht]. destruct k as [|k]; simpl in Hn.
    - injection Hn as <-. rewrite Nat.add_0_r. exact Hq.
    - replace (i + Datatypes.S k) with (Datatypes.S i + k) by lia. eapply IH; eassumption.
  Qed.

  (* ---- evaluation ---- *)
  Variables V Pos : Type.
  Variable typeof : V -> vty.
  Variable tokval : nat -> V.
  Variable tokpos : nat -> Pos.
  Variable eval : N -> list V -> V.

  (* what the translator reads from the source: a token's value is its lexeme (a string); an action that does not
     panic returns a value whose dynamic type is the one of one of its return statements *)
  Hypothesis tokens_are_strings : forall i, typeof (tokval i) = VT "string".
  Hypothesis eval_respects : forall p vs,
    act_ok (act p) (map typeof vs) = true -> In (typeof (eval p vs)) (act_results (act p) (map typeof vs)).

  Definition tyof (t : tree) : vty := typeof (fst (eval_tree V Pos tokval tokpos eval t)).

  Fixpoint tree_ok (t : tree) : Prop :=
    match t with
    | Leaf _ _ => True
    | Node p cs =>
      act_ok (act p) (map tyof cs) = true /\
      (fix all (l : list tree) : Prop := match l with [] => True | c :: l' => tree_ok c /\ all l' end) cs
    end.

  Lemma Forall2_nth (A B : Type) (R : A -> B -> Prop) l1 l2 : Forall2 R l1 l2 ->
    forall k a, nth_error l1 k = Some a -> exists b, nth_error l2 k = Some b /\ R a b.
  Proof.
    induction 1 as [|x y l1 l2 Hxy H IH]; intros k a Hk; [destruct k; discriminate Hk|].
    destruct k as [|k]; simpl in *; [injection Hk as <-; eauto | apply IH; exact Hk].
  Qed.

  Lemma Forall2_len (A B : Type) (R : A -> B -> Prop) l1 l2 : Forall2 R l1 l2 -> length l1 = length l2.
  Proof. induction 1; simpl; congruence. Qed.

  (* one node: arguments typed by the body symbols => the action is safe and its result is typed by the head *)
  Lemma node_step i pr (args : list vty) :
    prod_closed i pr = true ->
    Forall2 (fun v X => In v (S X)) args (p_body pr) ->
    act_ok (act (N.of_nat i)) args = true
    /\ forall v, In v (act_results (act (N.of_nat i)) args) -> In v (SN (p_head pr)).
  Proof.
    unfold prod_closed. intros Hc Hargs. set (a := act (N.of_nat i)) in *.
    apply andb_prop in Hc as [Hc Hrets]. apply andb_prop in Hc as [Hc Has]. apply andb_prop in Hc as [Hbad Hidx].
    pose proof (Forall2_len _ _ _ _ _ Hargs) as Hlen.
    split.
    - unfold act_ok. rewrite Hbad, Hlen, Hidx. simpl. rewrite andb_true_r.
      apply forallb_forall. intros s Hs. rewrite forallb_forall in Has. specialize (Has s Hs).
      unfold assert_ok. destruct (as_comma s); [reflexivity|]. simpl in *.
      destruct (nth_error (p_body pr) (as_k s)) as [X|] eqn:EX; [|discriminate Has].
      destruct (nth_error args (as_k s)) as [v|] eqn:Ev.
      + destruct (Forall2_nth _ _ _ _ _ Hargs _ _ Ev) as [X' [EX' Hin]]. rewrite EX in EX'. injection EX' as <-.
        rewrite forallb_forall in Has. apply Has; exact Hin.
      + exfalso. apply nth_error_None in Ev. assert (as_k s < length (p_body pr)) by (apply nth_error_Some; congruence). lia.
    - intros v Hv. unfold act_results in Hv. apply in_flat_map in Hv as [r [Hr Hv]].
      rewrite forallb_forall in Hrets. specialize (Hrets r Hr). destruct r as [t|k| |]; simpl in Hv.
      + destruct Hv as [<-|[]]. apply memv_in; exact Hrets.
      + destruct (nth_error (p_body pr) k) as [X|] eqn:EX; [|discriminate Hrets].
        destruct (nth_error args k) as [w|] eqn:Ew; [|destruct Hv].
        destruct Hv as [<-|[]].
        destruct (Forall2_nth _ _ _ _ _ Hargs _ _ Ew) as [X' [EX' Hin]]. rewrite EX in EX'. injection EX' as <-.
        unfold subset in Hrets. rewrite forallb_forall in Hrets. apply memv_in. apply Hrets; exact Hin.
      + destruct Hv as [<-|[]]. apply memv_in; exact Hrets.
      + destruct Hv.
  Qed.

  Theorem values_typed : closed = true -> forall t, wf_tree G t -> tree_ok t /\ In (tyof t) (S (root G t)).
  Proof.
    intros Hcl. fix IH 1. intros [a i|p cs] Hwf.
    - simpl. split; [exact I|]. left. unfold tyof. simpl. symmetry. apply tokens_are_strings.
    - simpl in Hwf. destruct Hwf as [[pr [Hpr Hroots]] Hall].
      assert (Hkids : (fix all (l : list tree) : Prop := match l with [] => True | c :: l' => tree_ok c /\ all l' end) cs
                      /\ Forall2 (fun v X => In v (S X)) (map tyof cs) (map (root G) cs)).
      { clear Hroots. induction cs as [|c cs IHcs]; simpl; [split; [exact I | constructor]|].
        destruct Hall as [Hc Hrest]. destruct (IH c Hc) as [Hok Hty]. destruct (IHcs Hrest) as [Hoks Htys].
        split; [split; assumption | constructor; assumption]. }
      destruct Hkids as [Hoks Htys]. rewrite Hroots in Htys.
      pose proof (all_closed_nth G 0 (N.to_nat p) pr Hcl Hpr) as Hpc. simpl in Hpc.
      destruct (node_step (N.to_nat p) pr (map tyof cs) Hpc Htys) as [Hact Hres].
      rewrite N2Nat.id in Hact, Hres.
      split; [split; assumption|].
      simpl. unfold head_of. rewrite Hpr. apply Hres.
      change (tyof (Node p cs)) with (typeof (eval p (map (fun c => fst (eval_tree V Pos tokval tokpos eval c)) cs))).
      assert (E : map tyof cs = map typeof (map (fun c => fst (eval_tree V Pos tokval tokpos eval c)) cs))
        by (rewrite map_map; reflexivity).
      rewrite E in *. apply eval_respects. exact Hact.
  Qed.

  (* the assertion made on the final result *)
  Definition final_ok (start : N) (final : string) : bool := forallb (fun v => match v with VT t => sat final t | VNil => false end) (SN start).

  Corollary final_assertion_holds start final t :
    closed = true -> final_ok start final = true -> wf_tree G t -> root G t = NT start ->
    exists ty, tyof t = VT ty /\ sat final ty = true.
  Proof.
    intros Hcl Hf Hwf Hroot. destruct (values_typed Hcl t Hwf) as [_ Hty]. rewrite Hroot in Hty. simpl in Hty.
    unfold final_ok in Hf. rewrite forallb_forall in Hf. specialize (Hf _ Hty).
    destruct (tyof t) as [ty|]; [exists ty; split; [reflexivity | exact Hf] | discriminate Hf].
  Qed.
End Typing.

(* ---- computing S by iteration (any result is then validated by `closed`) ---- *)
Section Infer.
  Variable G : grammar.
  Variable act : N -> action.
  Definition tab := list (N * list vty).
  Fixpoint tab_get (t : tab) (A : N) : list vty :=
    match t with [] => [] | (B, l) :: r => if N.eqb A B then l else tab_get r A end.
  Definition sym_types (t : tab) (X : symbol) : list vty := match X with T _ => [VT "string"] | NT A => tab_get t A end.
  Fixpoint union (a b : list vty) : list vty :=
    match a with [] => b | v :: r => if memv v b then union r b else union r (b ++ [v]) end.
  Fixpoint tab_add (t : tab) (A : N) (l : list vty) : tab :=
    match t with
    | [] => [(A, union l [])]
    | (B, m) :: r => if N.eqb A B then (B, union l m) :: r else (B, m) :: tab_add r A l
    end.
  Definition prod_types (t : tab) (i : nat) (pr : prod) : list vty :=
    flat_map (fun r => match r with
                       | RLit s => [VT s]
                       | RPass k => match nth_error (p_body pr) k with Some X => sym_types t X | None => [] end
                       | RNil => [VNil]
                       | RUnknown => []
                       end) (a_rets (act (N.of_nat i))).
  Fixpoint round (t : tab) (i : nat) (ps : list prod) : tab :=
    match ps with [] => t | pr :: r => round (tab_add t (p_head pr) (prod_types t i pr)) (Datatypes.S i) r end.
  Fixpoint infer (n : nat) (t : tab) : tab := match n with O => t | Datatypes.S m => infer m (round t 0 G) end.
End Infer.
