(* The production set and the non-terminal list of the symbol-table model against the declaration list:
   whatever the declarations and their order,
     - every production's head is the head of a written rule or a synthesised name ("gen..."),
     - every written rule head has a production,
     - every registered non-terminal is mentioned in a written rule, or is a synthesised name WITH a production,
     - every mentioned non-terminal is registered.
   Hence "missing production rule with the start symbol" is reported iff no rule is written for [start], and
   "no production rule for non-terminal A" only for a mentioned A without a written rule (and for every such A
   that does not itself look synthesised, once the terminal table is in order).
   Rules written inside directives (rule handles) count as written rules, as in the implementation. *)
From Coq Require Import String Ascii List Bool Arith Lia.
From Verif Require Import Cfg.Ebnf Cfg.Translate Emerge.SpecModel Emerge.SpecWf.
Import ListNotations.
Local Open Scope string_scope.
Local Open Scope list_scope.

(* the name begins with "gen" *)
Definition is_gen (x : string) : bool :=
  match x with String "g" (String "e" (String "n" _)) => true | _ => false end.

Definition memo_ok (m : list memo_entry) : Prop :=
  forall e k, In e m -> m_get e k = "" \/ is_gen (m_get e k) = true.

Lemma m_get_m_set e k n k' : m_get (m_set e k n) k' = if kind_eqb k k' then n else m_get e k'.
Proof. destruct k, k'; reflexivity. Qed.

Lemma m_key_m_set e k n : m_key (m_set e k n) = m_key e.
Proof. destruct k; reflexivity. Qed.

Section Rules.
  Variable terminal_names : list (string * string).
  Variable predefs : list (string * string).

  Lemma synth_name_is_gen sg k c : is_gen (fst (synth_name terminal_names sg k c)) = true.
  Proof. unfold synth_name. destruct (String.eqb _ ""); simpl; reflexivity. Qed.

  Lemma memo_ok_set m sg k n :
    memo_ok m -> is_gen n = true ->
    memo_ok (map (fun e' => if key_eqb (m_key e') sg then m_set e' k n else e') m).
  Proof.
    intros Hm Hn e k' Hin. apply in_map_iff in Hin as [e0 [<- Hin0]].
    destruct (key_eqb (m_key e0) sg); [|apply Hm; exact Hin0].
    rewrite m_get_m_set. destruct (kind_eqb k k'); [right; exact Hn | apply Hm; exact Hin0].
  Qed.

  Lemma memo_ok_add m sg k n :
    memo_ok m -> is_gen n = true ->
    memo_ok (m ++ [m_set {| m_key := sg; m_group := ""; m_opt := ""; m_star := ""; m_plus := "" |} k n]).
  Proof.
    intros Hm Hn e k' Hin. apply in_app_or in Hin as [Hin|[<-|[]]]; [apply Hm; exact Hin|].
    rewrite m_get_m_set. destruct (kind_eqb k k'); [right; exact Hn|]. left. destruct k'; reflexivity.
  Qed.

  Lemma get_name_spec s sg k :
    memo_ok (s_memo s) ->
    is_gen (fst (get_name terminal_names s sg k)) = true /\
    memo_ok (s_memo (snd (get_name terminal_names s sg k))) /\
    s_prods (snd (get_name terminal_names s sg k)) = s_prods s /\
    s_nts (snd (get_name terminal_names s sg k)) = s_nts s.
  Proof.
    intros Hm. unfold get_name. destruct (find _ (s_memo s)) as [e|] eqn:Ef.
    - destruct (String.eqb (m_get e k) "") eqn:Ee.
      + pose proof (synth_name_is_gen sg k (s_counter s)) as Hg.
        destruct (synth_name terminal_names sg k (s_counter s)) as [n c]. simpl in *.
        repeat split; [exact Hg | apply memo_ok_set; assumption].
      + simpl. repeat split; [|exact Hm]. apply find_some in Ef as [Hin _].
        destruct (Hm e k Hin) as [H|H]; [|exact H]. rewrite H in Ee. discriminate.
    - pose proof (synth_name_is_gen sg k (s_counter s)) as Hg.
      destruct (synth_name terminal_names sg k (s_counter s)) as [n c]. simpl in *.
      repeat split; [exact Hg | apply memo_ok_add; assumption].
  Qed.

  (* ---- elementary updates ---- *)
  Lemma add_nt_in s A B : In B (s_nts (add_nt s A)) <-> In B (s_nts s) \/ B = A.
  Proof.
    unfold add_nt. destruct (existsb (String.eqb A) (s_nts s)) eqn:E; simpl.
    - split; [intros H; left; exact H|]. intros [H| ->]; [exact H|].
      apply existsb_exists in E as [x [Hx Ex]]. apply String.eqb_eq in Ex. subst. exact Hx.
    - rewrite in_app_iff. simpl. split; [intros [H|[H|[]]]; auto | intros [H|H]; auto].
  Qed.
  Lemma add_nt_prods s A : s_prods (add_nt s A) = s_prods s.
  Proof. unfold add_nt. destruct (existsb _ _); reflexivity. Qed.
  Lemma add_nt_memo s A : s_memo (add_nt s A) = s_memo s.
  Proof. unfold add_nt. destruct (existsb _ _); reflexivity. Qed.

  Lemma add_prod_in s p q : In q (s_prods (add_prod s p)) <-> In q (s_prods s) \/ q = p.
  Proof.
    unfold add_prod. destruct (pmem p (s_prods s)) eqn:E; simpl.
    - split; [intros H; left; exact H|]. intros [H| ->]; [exact H | apply pmem_spec; exact E].
    - rewrite in_app_iff. simpl. split; [intros [H|[H|[]]]; auto | intros [H|H]; auto].
  Qed.
  Lemma add_prod_nts s p : s_nts (add_prod s p) = s_nts s.
  Proof. unfold add_prod. destruct (pmem _ _); reflexivity. Qed.
  Lemma add_prod_memo s p : s_memo (add_prod s p) = s_memo s.
  Proof. unfold add_prod. destruct (pmem _ _); reflexivity. Qed.

  Lemma fold_add_prod_in ps : forall s q, In q (s_prods (fold_left add_prod ps s)) <-> In q (s_prods s) \/ In q ps.
  Proof.
    induction ps as [|p ps IH]; intros s q; simpl; [split; [auto | intros [H|[]]; exact H]|].
    rewrite IH, add_prod_in. split; [intros [[H|H]|H]; auto | intros [H|[H|H]]; auto].
  Qed.
  Lemma fold_add_prod_nts ps : forall s, s_nts (fold_left add_prod ps s) = s_nts s.
  Proof. induction ps as [|p ps IH]; intros s; simpl; [reflexivity|]. rewrite IH. apply add_prod_nts. Qed.
  Lemma fold_add_prod_memo ps : forall s, s_memo (fold_left add_prod ps s) = s_memo s.
  Proof. induction ps as [|p ps IH]; intros s; simpl; [reflexivity|]. rewrite IH. apply add_prod_memo. Qed.

  (* ---- what translating a right-hand side does to productions and non-terminals ---- *)
  Definition ext (mention : list string) (s s' : st) : Prop :=
    memo_ok (s_memo s') /\
    (forall p, In p (s_prods s) -> In p (s_prods s')) /\
    (forall p, In p (s_prods s') -> In p (s_prods s) \/ is_gen (fst p) = true) /\
    (forall A, In A (s_nts s) -> In A (s_nts s')) /\
    (forall A, In A (s_nts s') -> In A (s_nts s) \/ In A mention \/ (is_gen A = true /\ exists b, In (A, b) (s_prods s'))) /\
    (forall A, In A mention -> In A (s_nts s')).

  Lemma ext_trans m1 m2 s s1 s2 : ext m1 s s1 -> ext m2 s1 s2 -> ext (m1 ++ m2) s s2.
  Proof.
    intros (_ & P1 & P2 & N1 & N2 & N3) (M' & Q1 & Q2 & O1 & O2 & O3). repeat split.
    - exact M'.
    - intros p H. apply Q1, P1, H.
    - intros p H. destruct (Q2 p H) as [H1|H1]; [apply P2; exact H1 | right; exact H1].
    - intros A H. apply O1, N1, H.
    - intros A H. destruct (O2 A H) as [H1|[H1|H1]].
      + destruct (N2 A H1) as [H2|[H2|[H2 [b Hb]]]]; [left; exact H2 | right; left; apply in_or_app; left; exact H2|].
        right. right. split; [exact H2|]. exists b. apply Q1. exact Hb.
      + right. left. apply in_or_app. right. exact H1.
      + right. right. exact H1.
    - intros A H. apply in_app_or in H as [H|H]; [apply O1, N3, H | apply O3, H].
  Qed.

  Lemma ext_same mention s s' :
    memo_ok (s_memo s) -> s_memo s' = s_memo s -> s_prods s' = s_prods s ->
    (forall A, In A (s_nts s') <-> In A (s_nts s) \/ In A mention) -> ext mention s s'.
  Proof.
    intros Hm Em Ep En. repeat split; rewrite ?Em, ?Ep; auto.
    - intros A H. apply En. left. exact H.
    - intros A H. apply En in H as [H|H]; auto.
    - intros A H. apply En. right. exact H.
  Qed.

  Lemma finish_bracket_ext k mention s sg s1 :
    ext mention s s1 -> sg <> [] ->
    ext mention s (snd (finish_bracket terminal_names k (sg, s1))).
  Proof.
    intros (M & P1 & P2 & N1 & N2 & N3) Hsg. unfold finish_bracket.
    destruct (get_name_spec s1 sg k M) as (Hg & M2 & Ep & En).
    destruct (get_name terminal_names s1 sg k) as [X s2]. simpl in *.
    set (ps := match k with
               | KGroup => map (fun a => (X, a)) sg
               | KOpt => map (fun a => (X, a)) sg ++ [(X, [])]
               | KStar => map (fun a => (X, SN X :: a)) sg ++ [(X, [])]
               | KPlus => flat_map (fun a => [(X, SN X :: a); (X, a)]) sg
               end).
    assert (Hheads : forall q, In q ps -> fst q = X).
    { intros q Hq. unfold ps in Hq. destruct k.
      - apply in_map_iff in Hq as [a [<- _]]. reflexivity.
      - apply in_app_or in Hq as [Hq|[<-|[]]]; [apply in_map_iff in Hq as [a [<- _]]|]; reflexivity.
      - apply in_app_or in Hq as [Hq|[<-|[]]]; [apply in_map_iff in Hq as [a [<- _]]|]; reflexivity.
      - apply in_flat_map in Hq as [a [_ [<-|[<-|[]]]]]; reflexivity. }
    assert (Hsome : exists b, In (X, b) ps).
    { destruct sg as [|a sg']; [destruct (Hsg eq_refl)|]. unfold ps. destruct k; simpl.
      - exists a. left. reflexivity.
      - exists a. left. reflexivity.
      - exists (SN X :: a). left. reflexivity.
      - exists (SN X :: a). left. reflexivity. }
    repeat split.
    - rewrite fold_add_prod_memo, add_nt_memo. exact M2.
    - intros p H. apply fold_add_prod_in. left. rewrite add_nt_prods, Ep. apply P1, H.
    - intros p H. apply fold_add_prod_in in H as [H|H].
      + rewrite add_nt_prods, Ep in H. apply P2, H.
      + right. rewrite (Hheads p H). exact Hg.
    - intros A H. rewrite fold_add_prod_nts. apply add_nt_in. left. rewrite En. apply N1, H.
    - intros A H. rewrite fold_add_prod_nts in H. apply add_nt_in in H as [H|H]; [|subst A].
      + rewrite En in H. destruct (N2 A H) as [H1|[H1|[H1 [b Hb]]]]; [left; exact H1 | right; left; exact H1|].
        right. right. split; [exact H1|]. exists b. apply fold_add_prod_in. left. rewrite add_nt_prods, Ep. exact Hb.
      + right. right. split; [exact Hg|]. destruct Hsome as [b Hb]. exists b. apply fold_add_prod_in. right. exact Hb.
    - intros A H. rewrite fold_add_prod_nts. apply add_nt_in. left. rewrite En. apply N3, H.
  Qed.

  Lemma cross_nonempty (s1 s2 : strings) : s1 <> [] -> s2 <> [] -> cross s1 s2 <> [].
  Proof.
    destruct s1 as [|a s1]; [intros H; destruct (H eq_refl)|]. destruct s2 as [|b s2]; [intros _ H; destruct (H eq_refl)|].
    intros _ _. unfold cross. simpl. discriminate.
  Qed.

  Lemma tr_ext r : forall s, memo_ok (s_memo s) ->
    ext (nts_of r) s (snd (tr terminal_names r s)) /\ fst (tr terminal_names r s) <> [].
  Proof.
    induction r as [a lit|A|x IHx y IHy|x IHx y IHy|x IHx|x IHx|x IHx|x IHx|x IHx]; intros s Hm; simpl nts_of.
    - simpl. split; [|discriminate]. apply ext_same; try (destruct lit; reflexivity); [exact Hm|].
      intros A. destruct lit; simpl; split; auto; intros [H|[]]; exact H.
    - simpl. split; [|discriminate]. apply ext_same; [exact Hm | apply add_nt_memo | apply add_nt_prods|].
      intros B. rewrite add_nt_in. simpl. split; [intros [H|H]; auto | intros [H|[H|[]]]; auto].
    - simpl tr. destruct (IHx s Hm) as [Ex Nx]. destruct (tr terminal_names x s) as [s1 st1]. simpl in *.
      assert (Hm1 : memo_ok (s_memo st1)) by (destruct Ex as [M _]; exact M).
      destruct (IHy st1 Hm1) as [Ey Ny]. destruct (tr terminal_names y st1) as [s2 st2]. simpl in *.
      split; [apply (ext_trans _ _ _ _ _ Ex Ey) | apply cross_nonempty; assumption].
    - simpl tr. destruct (IHx s Hm) as [Ex Nx]. destruct (tr terminal_names x s) as [s1 st1]. simpl in *.
      assert (Hm1 : memo_ok (s_memo st1)) by (destruct Ex as [M _]; exact M).
      destruct (IHy st1 Hm1) as [Ey Ny]. destruct (tr terminal_names y st1) as [s2 st2]. simpl in *.
      split; [apply (ext_trans _ _ _ _ _ Ex Ey)|]. destruct s1; [destruct (Nx eq_refl) | discriminate].
    - simpl tr. destruct (IHx s Hm) as [Ex Nx]. destruct (tr terminal_names x s) as [s1 st1]. simpl in *.
      split; [exact Ex|]. destruct s1; discriminate.
    - simpl tr. destruct (IHx s Hm) as [Ex Nx]. destruct (tr terminal_names x s) as [s1 st1]. simpl fst in *. simpl snd in Ex.
      split; [apply finish_bracket_ext; assumption|]. unfold finish_bracket. destruct (get_name _ _ _ _). discriminate.
    - simpl tr. destruct (IHx s Hm) as [Ex Nx]. destruct (tr terminal_names x s) as [s1 st1]. simpl fst in *. simpl snd in Ex.
      split; [apply finish_bracket_ext; assumption|]. unfold finish_bracket. destruct (get_name _ _ _ _). discriminate.
    - simpl tr. destruct (IHx s Hm) as [Ex Nx]. destruct (tr terminal_names x s) as [s1 st1]. simpl fst in *. simpl snd in Ex.
      split; [apply finish_bracket_ext; assumption|]. unfold finish_bracket. destruct (get_name _ _ _ _). discriminate.
    - simpl tr. destruct (IHx s Hm) as [Ex Nx]. destruct (tr terminal_names x s) as [s1 st1]. simpl fst in *. simpl snd in Ex.
      split; [apply finish_bracket_ext; assumption|]. unfold finish_bracket. destruct (get_name _ _ _ _). discriminate.
  Qed.

  (* ---- the invariant over the rules written so far ---- *)
  Definition body_nts (b : option erhs) : list string := match b with Some r => nts_of r | None => [] end.

  Definition G (R : list rule) (s : st) : Prop :=
    memo_ok (s_memo s) /\
    (forall p, In p (s_prods s) -> In (fst p) (map fst R) \/ is_gen (fst p) = true) /\
    (forall A, In A (map fst R) -> exists b, In (A, b) (s_prods s)) /\
    (forall A, In A (s_nts s) -> In A (mentioned_list R) \/ (is_gen A = true /\ exists b, In (A, b) (s_prods s))) /\
    (forall A, In A (mentioned_list R) -> In A (s_nts s)).

  Lemma mentioned_snoc R A b x :
    In x (mentioned_list (R ++ [(A, b)])) <-> In x (mentioned_list R) \/ x = A \/ In x (body_nts b).
  Proof.
    unfold mentioned_list, bodies. rewrite map_app, flat_map_app, flat_map_app, !in_app_iff. simpl.
    destruct b as [r|]; simpl; rewrite ?app_nil_r; split; intros H.
    - destruct H as [[H|[H|[]]]|[H|H]]; auto.
    - destruct H as [[H|H]|[H|H]]; auto.
    - destruct H as [[H|[H|[]]]|[H|[]]]; auto.
    - destruct H as [[H|H]|[H|[]]]; auto.
  Qed.

  Lemma tr_rule_G R s A b : G R s -> G (R ++ [(A, b)]) (snd (tr_rule terminal_names A b s)).
  Proof.
    intros (M & P1 & P2 & N1 & N2). unfold tr_rule. destruct b as [r|].
    - assert (M0 : memo_ok (s_memo (add_nt s A))) by (rewrite add_nt_memo; exact M).
      destruct (tr_ext r (add_nt s A) M0) as [(M' & Q1 & Q2 & O1 & O2 & O3) Hne].
      destruct (tr terminal_names r (add_nt s A)) as [sg s1]. simpl in *.
      repeat split.
      + rewrite fold_add_prod_memo. exact M'.
      + intros p H. rewrite map_app, in_app_iff. simpl. apply fold_add_prod_in in H as [H|H].
        * destruct (Q2 p H) as [H1|H1]; [|right; exact H1]. rewrite add_nt_prods in H1.
          destruct (P1 p H1) as [H2|H2]; [left; left; exact H2 | right; exact H2].
        * apply in_map_iff in H as [a [<- _]]. left. right. left. reflexivity.
      + intros B H. rewrite map_app, in_app_iff in H. simpl in H. destruct H as [H|[<-|[]]].
        * destruct (P2 B H) as [c Hc]. exists c. apply fold_add_prod_in. left. apply Q1. rewrite add_nt_prods. exact Hc.
        * destruct sg as [|a sg']; [destruct (Hne eq_refl)|]. exists a. apply fold_add_prod_in. right. left. reflexivity.
      + intros B H. rewrite fold_add_prod_nts in H. rewrite mentioned_snoc. simpl.
        destruct (O2 B H) as [H1|[H1|[H1 [c Hc]]]].
        * apply add_nt_in in H1 as [H1|H1]; [|subst B; left; right; left; reflexivity].
          destruct (N1 B H1) as [H2|[H2 [c Hc]]]; [left; left; exact H2|].
          right. split; [exact H2|]. exists c. apply fold_add_prod_in. left. apply Q1. rewrite add_nt_prods. exact Hc.
        * left. right. right. exact H1.
        * right. split; [exact H1|]. exists c. apply fold_add_prod_in. left. exact Hc.
      + intros B H. rewrite fold_add_prod_nts. apply mentioned_snoc in H. simpl in H. destruct H as [H|[->|H]].
        * apply O1, add_nt_in. left. apply N2, H.
        * apply O1, add_nt_in. right. reflexivity.
        * apply O3, H.
    - simpl. repeat split.
      + rewrite add_prod_memo, add_nt_memo. exact M.
      + intros p H. rewrite map_app, in_app_iff. simpl. apply add_prod_in in H as [H|H]; [|subst p].
        * rewrite add_nt_prods in H. destruct (P1 p H) as [H2|H2]; [left; left; exact H2 | right; exact H2].
        * left. right. left. reflexivity.
      + intros B H. rewrite map_app, in_app_iff in H. simpl in H. destruct H as [H|[<-|[]]].
        * destruct (P2 B H) as [c Hc]. exists c. apply add_prod_in. left. rewrite add_nt_prods. exact Hc.
        * exists []. apply add_prod_in. right. reflexivity.
      + intros B H. rewrite add_prod_nts in H. rewrite mentioned_snoc. simpl. apply add_nt_in in H as [H|H]; [|subst A].
        * destruct (N1 B H) as [H2|[H2 [c Hc]]]; [left; left; exact H2|].
          right. split; [exact H2|]. exists c. apply add_prod_in. left. rewrite add_nt_prods. exact Hc.
        * left. right. left. reflexivity.
      + intros B H. rewrite add_prod_nts. apply mentioned_snoc in H. simpl in H. destruct H as [H|[->|[]]].
        * apply add_nt_in. left. apply N2, H.
        * apply add_nt_in. right. reflexivity.
  Qed.

  Lemma G_terms R s ts : G R s -> G R (with_terms s ts).
  Proof. intros H. exact H. Qed.

  Definition handle_rules (hs : list handle) : list rule :=
    flat_map (fun h => match h with HRule A b => [(A, b)] | HTerm _ _ => [] end) hs.

  Lemma tr_handles_G hs : forall R s, G R s -> G (R ++ handle_rules hs) (snd (tr_handles terminal_names hs s)).
  Proof.
    induction hs as [|h hs IH]; intros R s HG; simpl; [rewrite app_nil_r; exact HG|]. destruct h as [a lit|A b].
    - specialize (IH R (if lit then add_string_terminal s a else add_token_terminal s a)).
      destruct (tr_handles terminal_names hs _) as [r s2]. simpl in *. apply IH. destruct lit; exact HG.
    - pose proof (tr_rule_G R s A b HG) as H1. destruct (tr_rule terminal_names A b s) as [ps s1]. simpl in H1.
      specialize (IH (R ++ [(A, b)]) s1 H1). destruct (tr_handles terminal_names hs s1) as [r s2]. simpl in *.
      rewrite <- app_assoc in IH. exact IH.
  Qed.

  Definition decl_rules (d : decl) : list rule :=
    match d with DRule A b => [(A, b)] | DDirective _ hs => handle_rules hs | DToken _ _ _ => [] end.

  Lemma tr_decl_G R s d : G R s -> G (R ++ decl_rules d) (tr_decl terminal_names predefs s d).
  Proof.
    intros HG. destruct d as [n k v|a hs|A b]; simpl.
    - rewrite app_nil_r. destruct k as [|[|k]]; try exact HG. destruct (find _ predefs); exact HG.
    - pose proof (tr_handles_G hs R s HG) as H. destruct (tr_handles terminal_names hs s) as [phs s1]. simpl in *. exact H.
    - apply tr_rule_G. exact HG.
  Qed.

  Lemma rules_of_decls_is_flat ds : rules_of_decls ds = flat_map decl_rules ds.
  Proof. unfold rules_of_decls. induction ds as [|d ds IH]; simpl; [reflexivity|]. rewrite IH. destruct d; reflexivity. Qed.

  Theorem translate_G ds : G (rules_of_decls ds) (translate terminal_names predefs ds).
  Proof.
    rewrite rules_of_decls_is_flat. unfold translate.
    assert (H : forall R s, G R s -> G (R ++ flat_map decl_rules ds) (fold_left (tr_decl terminal_names predefs) ds s)).
    { induction ds as [|d ds IH]; intros R s HG; simpl; [rewrite app_nil_r; exact HG|].
      rewrite app_assoc. apply IH, tr_decl_G, HG. }
    apply (H [] st0). unfold G, memo_ok. simpl.
    split; [intros e0 k0 []|]. split; [intros p []|]. split; [intros A []|]. split; intros A [].
  Qed.

  (* ---- the start rule ---- *)
  Theorem start_production_iff_start_rule ds :
    existsb (fun p => String.eqb (fst p) "start") (s_prods (translate terminal_names predefs ds))
    = existsb (String.eqb "start") (rules_heads ds).
  Proof.
    destruct (translate_G ds) as (_ & P1 & P2 & _ & _). unfold rules_heads.
    apply eq_true_iff_eq. rewrite !existsb_exists. split.
    - intros [p [Hp Ep]]. apply String.eqb_eq in Ep. destruct (P1 p Hp) as [H|H].
      + exists "start". split; [rewrite <- Ep; exact H | reflexivity].
      + rewrite Ep in H. discriminate.
    - intros [A [HA EA]]. apply String.eqb_eq in EA. subst A. destruct (P2 "start" HA) as [b Hb].
      exists ("start", b). split; [exact Hb | reflexivity].
  Qed.

  (* ---- non-terminals without a production ---- *)
  Definition has_prod (s : st) (A : string) : bool := existsb (fun p => String.eqb (fst p) A) (s_prods s).

  Lemma has_prod_iff s A : has_prod s A = true <-> exists b, In (A, b) (s_prods s).
  Proof.
    unfold has_prod. rewrite existsb_exists. split.
    - intros [[A' b] [Hin E]]. simpl in E. apply String.eqb_eq in E. subst. exists b. exact Hin.
    - intros [b Hb]. exists (A, b). split; [exact Hb | apply String.eqb_refl].
  Qed.

  (* a registered non-terminal without a production is mentioned in a written rule and has no written rule *)
  Theorem unproductive_is_mentioned_without_a_rule ds A :
    In A (s_nts (translate terminal_names predefs ds)) -> has_prod (translate terminal_names predefs ds) A = false ->
    In A (mentioned_nts ds) /\ ~ In A (rules_heads ds).
  Proof.
    destruct (translate_G ds) as (_ & P1 & P2 & N1 & N2). intros Hin Hno. split.
    - destruct (N1 A Hin) as [H|[_ H]]; [exact H|]. apply has_prod_iff in H. rewrite H in Hno. discriminate.
    - intros Hh. apply P2 in Hh. apply has_prod_iff in Hh. rewrite Hh in Hno. discriminate.
  Qed.

  (* conversely: a mentioned non-terminal without a written rule is registered, and has no production unless its name
     looks synthesised *)
  Theorem mentioned_without_a_rule_is_unproductive ds A :
    In A (mentioned_nts ds) -> ~ In A (rules_heads ds) -> is_gen A = false ->
    In A (s_nts (translate terminal_names predefs ds)) /\ has_prod (translate terminal_names predefs ds) A = false.
  Proof.
    destruct (translate_G ds) as (_ & P1 & P2 & N1 & N2). intros Hm Hh Hg. split; [apply N2; exact Hm|].
    destruct (has_prod (translate terminal_names predefs ds) A) eqn:E; [|reflexivity]. exfalso.
    apply has_prod_iff in E as [b Hb]. destruct (P1 _ Hb) as [H|H]; simpl in H; [apply Hh; exact H | rewrite H in Hg; discriminate].
  Qed.
End Rules.

(* ---- the two diagnostics of the assembled result ---- *)
Lemma entry_diags_kinds (ts : list tentry) d :
  In d (flat_map (fun e => match te_defs e with
                           | [] => [NoDefinition (te_name e)]
                           | [_] => []
                           | _ => [MultipleDefinitions (te_name e)]
                           end) ts) -> (exists a, d = NoDefinition a) \/ (exists a, d = MultipleDefinitions a).
Proof.
  intros H. apply in_flat_map in H as [e [_ H]]. destruct (te_defs e) as [|x [|y t]]; simpl in H.
  - destruct H as [<-|[]]. left. eexists. reflexivity.
  - destruct H.
  - destruct H as [<-|[]]. right. eexists. reflexivity.
Qed.

Lemma same_value_diags_kinds (sd : list (string * string * bool)) d :
  In d (flat_map (fun d => let '(a, v, _) := d in
                           let same := filter (fun d' => String.eqb (snd (fst d')) v) sd in
                           match same with
                           | _ :: _ :: _ =>
                             match same with
                             | (a0, _, _) :: _ => if String.eqb a0 a then [SameValue v (map (fun d' => fst (fst d')) same)] else []
                             | [] => []
                             end
                           | _ => []
                           end) sd) -> exists v ts, d = SameValue v ts.
Proof.
  intros H. apply in_flat_map in H as [[[a0 v] r] [_ H]].
  destruct (filter _ _) as [|[[a1 v1] r1] [|y t]]; simpl in H; try destruct H.
  destruct (String.eqb a1 a0); [|destruct H]. destruct H as [<-|[]]. eexists. eexists. reflexivity.
Qed.

Lemma no_start_rule_in_table_diags s :
  In NoStartRule (table_diags s) <-> existsb (fun p => String.eqb (fst p) "start") (s_prods s) = false.
Proof.
  unfold table_diags. rewrite !in_app_iff. split.
  - intros [H|[H|H]].
    + apply entry_diags_kinds in H as [[a H]|[a H]]; discriminate.
    + apply same_value_diags_kinds in H as [v [ts H]]. discriminate.
    + destruct (existsb _ _); [destruct H | reflexivity].
  - intros H. right. right. rewrite H. left. reflexivity.
Qed.

Theorem no_start_rule_reported_iff s :
  In NoStartRule (final_diags s) <-> existsb (fun p => String.eqb (fst p) "start") (s_prods s) = false.
Proof.
  rewrite <- no_start_rule_in_table_diags. unfold final_diags. destruct (table_diags s) as [|x t] eqn:E.
  - split; [|intros []]. intros H. exfalso. apply in_app_or in H as [H|H].
    + apply in_map_iff in H as [v [H _]]. discriminate.
    + apply in_app_or in H as [H|H].
      * apply in_flat_map in H as [A [_ H]]. destruct (existsb _ _); [destruct H|]. destruct H as [H|[]]. discriminate.
      * destruct (levels_overlap _); [|destruct H]. destruct H as [H|[]]. discriminate.
  - rewrite in_app_iff. split; [|intros H; right; exact H]. intros [H|H]; [|exact H].
    apply in_map_iff in H as [v [H _]]. discriminate.
Qed.

Theorem no_production_reported_iff s A :
  In (NoProductionFor A) (final_diags s) <->
  table_diags s = [] /\ In A (s_nts s) /\ existsb (fun p => String.eqb (fst p) A) (s_prods s) = false.
Proof.
  unfold final_diags. destruct (table_diags s) as [|x t] eqn:E.
  - rewrite !in_app_iff. split.
    + intros [H|[H|H]].
      * apply in_map_iff in H as [v [H _]]. discriminate.
      * apply in_flat_map in H as [B [HB H]]. destruct (existsb (fun p => String.eqb (fst p) B) (s_prods s)) eqn:EB; [destruct H|].
        destruct H as [H|[]]. inversion H; subst. repeat split; assumption.
      * destruct (levels_overlap _); [|destruct H]. destruct H as [H|[]]. discriminate.
    + intros (_ & HA & Hno). right. left. apply in_flat_map. exists A. split; [exact HA|]. rewrite Hno. left. reflexivity.
  - split; [|intros [H _]; discriminate]. intros H. exfalso. apply in_app_or in H as [H|H].
    + apply in_map_iff in H as [v [H _]]. discriminate.
    + assert (Ht : In (NoProductionFor A) (table_diags s)) by (rewrite E; exact H).
      unfold table_diags in Ht. rewrite !in_app_iff in Ht. destruct Ht as [Ht|[Ht|Ht]].
      * apply entry_diags_kinds in Ht as [[a Ht]|[a Ht]]; discriminate.
      * apply same_value_diags_kinds in Ht as [v [ts Ht]]. discriminate.
      * destruct (existsb _ _); [destruct Ht|]. destruct Ht as [Ht|[]]. discriminate.
Qed.
