(* The typed tree of a specification (C11).

   The typed tree is built bottom-up by the actions of ast/parser.go: juxtaposition and alternation are
   flattened into n-ary nodes, a parenthesised group yields the value of its content, a trailing "|" adds an
   empty operand.  `ast_value` is that construction on the declarative reading of the parse tree (erhs, the
   same reading the grammar derivation of C01 starts from).

   Theorems (all expressions, any nesting):
     operands_in_written_order   the operands of a flattened node are the maximal non-juxtaposition
                                 (non-alternation) sub-expressions read left to right through groups
     ast_value_normal            every typed tree is in normal form (no juxtaposition directly under a
                                 juxtaposition, no alternation under an alternation, at least two operands, the
                                 empty operand only as a non-first operand of an alternation)
     roundtrip                   printing a normal tree back to an expression and building the tree again gives the
                                 same tree
     printed_same_language       the expression printed from the typed tree denotes the same language as the one
                                 written (for every interpretation of the non-terminals) — so the grammar derived
                                 from the typed tree's structure generates what the directly derived grammar does *)
From Coq Require Import String List Bool Arith Lia.
From Verif Require Import Cfg.Ebnf.
Import ListNotations.
Arguments Nat.leb : simpl never.

Inductive trhs :=
| TTerm (a : string) (lit : bool)
| TNT (A : string)
| TConcat (ops : list trhs)
| TAlt (ops : list trhs)
| TOpt (x : trhs)
| TStar (x : trhs)
| TPlus (x : trhs)
| TEmpty.

Definition cat_ops (v : trhs) : list trhs := match v with TConcat l => l | _ => [v] end.
Definition alt_ops (v : trhs) : list trhs := match v with TAlt l => l | _ => [v] end.

Fixpoint ast_value (e : erhs) : trhs :=
  match e with
  | ETerm a lit => TTerm a lit
  | ENT A => TNT A
  | ECat x y => TConcat (cat_ops (ast_value x) ++ cat_ops (ast_value y))
  | EAlt x y => TAlt (alt_ops (ast_value x) ++ alt_ops (ast_value y))
  | EAltE x => TAlt (alt_ops (ast_value x) ++ [TEmpty])
  | EGroup x => ast_value x
  | EOpt x => TOpt (ast_value x)
  | EStar x => TStar (ast_value x)
  | EPlus x => TPlus (ast_value x)
  end.

(* ---- the declarative reading of operand lists ---- *)
Fixpoint cat_operands (e : erhs) : list erhs :=
  match e with
  | ECat x y => cat_operands x ++ cat_operands y
  | EGroup x => cat_operands x
  | _ => [e]
  end.
Fixpoint alt_operands (e : erhs) : list (option erhs) :=     (* None: the empty alternative *)
  match e with
  | EAlt x y => alt_operands x ++ alt_operands y
  | EAltE x => alt_operands x ++ [None]
  | EGroup x => alt_operands x
  | _ => [Some e]
  end.

Lemma cat_ops_value e : cat_ops (ast_value e) = map ast_value (cat_operands e).
Proof.
  induction e as [a lit|A|x IHx y IHy|x IHx y IHy|x IHx|x IHx|x IHx|x IHx|x IHx]; simpl; try reflexivity.
  - rewrite map_app, IHx, IHy. reflexivity.
  - exact IHx.
Qed.

Definition opt_value (o : option erhs) : trhs := match o with Some x => ast_value x | None => TEmpty end.

Lemma alt_ops_value e : alt_ops (ast_value e) = map opt_value (alt_operands e).
Proof.
  induction e as [a lit|A|x IHx y IHy|x IHx y IHy|x IHx|x IHx|x IHx|x IHx|x IHx]; simpl; try reflexivity.
  - rewrite map_app, IHx, IHy. reflexivity.
  - rewrite map_app, IHx. reflexivity.
  - exact IHx.
Qed.

(* the operands of a flattened node are the maximal sub-expressions that are not themselves juxtapositions
   (alternations), read left to right through parentheses *)
Theorem operands_in_written_order x y :
  ast_value (ECat x y) = TConcat (map ast_value (cat_operands (ECat x y))).
Proof. simpl. rewrite map_app, !cat_ops_value. reflexivity. Qed.

Theorem alternatives_in_written_order x y :
  ast_value (EAlt x y) = TAlt (map opt_value (alt_operands (EAlt x y))).
Proof. simpl. rewrite map_app, !alt_ops_value. reflexivity. Qed.

Theorem trailing_bar_adds_empty x :
  ast_value (EAltE x) = TAlt (map opt_value (alt_operands x) ++ [TEmpty]).
Proof. simpl. rewrite alt_ops_value. reflexivity. Qed.

Theorem group_is_transparent x : ast_value (EGroup x) = ast_value x.
Proof. reflexivity. Qed.

(* ---- normal form ---- *)
Definition is_tconcat (v : trhs) : bool := match v with TConcat _ => true | _ => false end.
Definition is_talt (v : trhs) : bool := match v with TAlt _ => true | _ => false end.
Definition is_tempty (v : trhs) : bool := match v with TEmpty => true | _ => false end.

Fixpoint normal (v : trhs) : bool :=
  match v with
  | TTerm _ _ | TNT _ => true
  | TConcat ops =>
    (2 <=? length ops) && forallb (fun o => normal o && negb (is_tconcat o) && negb (is_tempty o)) ops
  | TAlt ops =>
    (2 <=? length ops) && match ops with o :: _ => negb (is_tempty o) | [] => false end
    && forallb (fun o => (is_tempty o || normal o) && negb (is_talt o)) ops
  | TOpt x | TStar x | TPlus x => normal x && negb (is_tempty x)
  | TEmpty => false
  end.

Lemma cat_ops_normal v : normal v = true -> forallb (fun o => normal o && negb (is_tconcat o) && negb (is_tempty o)) (cat_ops v) = true /\ 1 <= length (cat_ops v).
Proof.
  destruct v as [a lit|A|ops|ops|x|x|x|]; simpl; intros H.
  - split; [reflexivity | lia].
  - split; [reflexivity | lia].
  - apply andb_prop in H as [Hl H]. split; [exact H|]. apply Nat.leb_le in Hl. lia.
  - rewrite H. split; [reflexivity | lia].
  - rewrite H. split; [reflexivity | lia].
  - rewrite H. split; [reflexivity | lia].
  - rewrite H. split; [reflexivity | lia].
  - discriminate H.
Qed.

Lemma alt_ops_normal v : normal v = true ->
  forallb (fun o => (is_tempty o || normal o) && negb (is_talt o)) (alt_ops v) = true
  /\ 1 <= length (alt_ops v) /\ match alt_ops v with o :: _ => is_tempty o = false | [] => False end.
Proof.
  destruct v as [a lit|A|ops|ops|x|x|x|]; simpl; intros H.
  - repeat split; try reflexivity; lia.
  - repeat split; try reflexivity; lia.
  - rewrite H. repeat split; try reflexivity; lia.
  - apply andb_prop in H as [H Hall]. apply andb_prop in H as [Hl Hhd]. apply Nat.leb_le in Hl.
    split; [exact Hall|]. split; [lia|]. destruct ops as [|o t]; [discriminate Hhd|]. apply negb_true_iff in Hhd. exact Hhd.
  - rewrite H. repeat split; try reflexivity; lia.
  - rewrite H. repeat split; try reflexivity; lia.
  - rewrite H. repeat split; try reflexivity; lia.
  - discriminate H.
Qed.

Theorem ast_value_normal e : normal (ast_value e) = true.
Proof.
  induction e as [a lit|A|x IHx y IHy|x IHx y IHy|x IHx|x IHx|x IHx|x IHx|x IHx]; simpl; try reflexivity; try exact IHx.
  - destruct (cat_ops_normal _ IHx) as [Hx Lx]. destruct (cat_ops_normal _ IHy) as [Hy Ly].
    rewrite app_length, forallb_app, Hx, Hy. simpl. rewrite andb_true_r. apply Nat.leb_le. lia.
  - destruct (alt_ops_normal _ IHx) as [Hx [Lx Hdx]]. destruct (alt_ops_normal _ IHy) as [Hy [Ly _]].
    rewrite app_length, forallb_app, Hx, Hy. simpl. rewrite andb_true_r.
    apply andb_true_intro. split; [apply Nat.leb_le; lia|].
    destruct (alt_ops (ast_value x)) as [|o t]; [destruct Hdx|]. simpl. rewrite Hdx. reflexivity.
  - destruct (alt_ops_normal _ IHx) as [Hx [Lx Hdx]].
    rewrite app_length, forallb_app, Hx. simpl. apply andb_true_intro. split; [|reflexivity].
    apply andb_true_intro. split; [apply Nat.leb_le; lia|].
    destruct (alt_ops (ast_value x)) as [|o t]; [destruct Hdx|]. simpl. rewrite Hdx. reflexivity.
  - rewrite IHx. simpl. destruct (ast_value x) eqn:E; try reflexivity. simpl in IHx. discriminate IHx.
  - rewrite IHx. simpl. destruct (ast_value x) eqn:E; try reflexivity. simpl in IHx. discriminate IHx.
  - rewrite IHx. simpl. destruct (ast_value x) eqn:E; try reflexivity. simpl in IHx. discriminate IHx.
Qed.

(* ---- printing a typed tree back to an expression ---- *)
(* an operand of a juxtaposition is parenthesised when it is an alternation; operands of an alternation and the
   content of brackets never need parentheses *)
Fixpoint unparse (v : trhs) : erhs :=
  match v with
  | TTerm a lit => ETerm a lit
  | TNT A => ENT A
  | TConcat ops =>
    let ps := map (fun o => match o with TAlt _ => EGroup (unparse o) | _ => unparse o end) ops in
    match ps with
    | [] => ENT ""
    | p :: t => fold_left ECat t p
    end
  | TAlt ops =>
    match ops with
    | [] => ENT ""
    | o :: t => fold_left (fun acc o' => match o' with TEmpty => EAltE acc | _ => EAlt acc (unparse o') end) t (unparse o)
    end
  | TOpt x => EOpt (unparse x)
  | TStar x => EStar (unparse x)
  | TPlus x => EPlus (unparse x)
  | TEmpty => ENT ""
  end.

(* induction principle for the nested type *)
Section TrhsInd.
  Variable P : trhs -> Prop.
  Hypothesis Hterm : forall a lit, P (TTerm a lit).
  Hypothesis Hnt : forall A, P (TNT A).
  Hypothesis Hcat : forall ops, Forall P ops -> P (TConcat ops).
  Hypothesis Halt : forall ops, Forall P ops -> P (TAlt ops).
  Hypothesis Hopt : forall x, P x -> P (TOpt x).
  Hypothesis Hstar : forall x, P x -> P (TStar x).
  Hypothesis Hplus : forall x, P x -> P (TPlus x).
  Hypothesis Hempty : P TEmpty.
  Fixpoint trhs_ind' (v : trhs) : P v :=
    match v with
    | TTerm a lit => Hterm a lit
    | TNT A => Hnt A
    | TConcat ops => Hcat ops ((fix go (l : list trhs) : Forall P l := match l with [] => Forall_nil P | x :: t => Forall_cons x (trhs_ind' x) (go t) end) ops)
    | TAlt ops => Halt ops ((fix go (l : list trhs) : Forall P l := match l with [] => Forall_nil P | x :: t => Forall_cons x (trhs_ind' x) (go t) end) ops)
    | TOpt x => Hopt x (trhs_ind' x)
    | TStar x => Hstar x (trhs_ind' x)
    | TPlus x => Hplus x (trhs_ind' x)
    | TEmpty => Hempty
    end.
End TrhsInd.

Lemma fold_cat_value t : forall p,
  cat_ops (ast_value (fold_left ECat t p)) = cat_ops (ast_value p) ++ flat_map (fun e => cat_ops (ast_value e)) t.
Proof.
  induction t as [|e t IH]; intros p; simpl; [rewrite app_nil_r; reflexivity|].
  rewrite IH. simpl. rewrite <- app_assoc. reflexivity.
Qed.

Lemma fold_cat_is_concat t p : t <> [] -> ast_value (fold_left ECat t p) = TConcat (cat_ops (ast_value (fold_left ECat t p))).
Proof.
  revert p. induction t as [|e t IH]; intros p Hne; [contradiction|]. simpl.
  destruct t as [|e' t']; [reflexivity|]. apply IH. discriminate.
Qed.

Definition alt_step (acc : erhs) (o' : trhs) : erhs := match o' with TEmpty => EAltE acc | _ => EAlt acc (unparse o') end.

Lemma fold_alt_value t : forall p,
  alt_ops (ast_value (fold_left alt_step t p))
  = alt_ops (ast_value p) ++ flat_map (fun o => match o with TEmpty => [TEmpty] | _ => alt_ops (ast_value (unparse o)) end) t.
Proof.
  induction t as [|o t IH]; intros p; simpl; [rewrite app_nil_r; reflexivity|].
  rewrite IH. destruct o; simpl; rewrite <- app_assoc; reflexivity.
Qed.

Lemma fold_alt_is_alt t p : t <> [] -> ast_value (fold_left alt_step t p) = TAlt (alt_ops (ast_value (fold_left alt_step t p))).
Proof.
  revert p. induction t as [|o t IH]; intros p Hne; [contradiction|]. simpl.
  destruct t as [|o' t']; [destruct o; reflexivity|]. apply IH. discriminate.
Qed.

Lemma alt_tail l :
  Forall (fun v => normal v = true -> ast_value (unparse v) = v) l ->
  forallb (fun o => (is_tempty o || normal o) && negb (is_talt o)) l = true ->
  flat_map (fun o => match o with TEmpty => [TEmpty] | _ => alt_ops (ast_value (unparse o)) end) l = l.
Proof.
  induction l as [|x l IHl]; intros HF Hb; [reflexivity|].
  inversion HF as [|? ? Hx HFl]; subst. cbn [forallb] in Hb. apply andb_prop in Hb as [Hbx Hbl].
  apply andb_prop in Hbx as [Hnx Hax]. cbn [flat_map]. rewrite (IHl HFl Hbl).
  destruct x as [a lit|A|ops|ops|y|y|y|]; cbn [is_tempty orb] in Hnx; try (rewrite (Hx Hnx)); try reflexivity.
  discriminate Hax.
Qed.

Theorem roundtrip v : normal v = true -> ast_value (unparse v) = v.
Proof.
  induction v as [a lit|A|ops IH|ops IH|x IH|x IH|x IH|] using trhs_ind'; intros Hn; simpl in *; try reflexivity; try discriminate.
  - (* TConcat *)
    apply andb_prop in Hn as [Hlen Hall]. apply Nat.leb_le in Hlen.
    destruct ops as [|o t]; [simpl in Hlen; lia|]. destruct t as [|o2 t2]; [simpl in Hlen; lia|].
    set (g := fun o => match o with TAlt _ => EGroup (unparse o) | _ => unparse o end).
    assert (Hops : forall l, Forall (fun v => normal v = true -> ast_value (unparse v) = v) l ->
                   forallb (fun o => normal o && negb (is_tconcat o) && negb (is_tempty o)) l = true ->
                   flat_map (fun e => cat_ops (ast_value e)) (map g l) = l).
    { induction l as [|x l IHl]; intros HF Hb; [reflexivity|]. simpl in *.
      inversion HF as [|? ? Hx HFl]; subst. apply andb_prop in Hb as [Hbx Hbl].
      apply andb_prop in Hbx as [Hbx He]. apply andb_prop in Hbx as [Hnx Hcx].
      rewrite (IHl HFl Hbl). f_equal.
      assert (E : ast_value (g x) = x) by (unfold g; destruct x; simpl; apply (Hx Hnx)).
      rewrite E. destruct x; simpl in *; try reflexivity. discriminate Hcx. }
    change (ast_value (fold_left ECat (g o2 :: map g t2) (g o)) = TConcat (o :: o2 :: t2)).
    rewrite fold_cat_is_concat by discriminate. f_equal. rewrite fold_cat_value.
    change (cat_ops (ast_value (g o)) ++ flat_map (fun e => cat_ops (ast_value e)) (g o2 :: map g t2))
      with (flat_map (fun e => cat_ops (ast_value e)) (map g (o :: o2 :: t2))).
    apply Hops; assumption.
  - (* TAlt *)
    apply andb_prop in Hn as [Hn Hall]. apply andb_prop in Hn as [Hlen Hhd]. apply Nat.leb_le in Hlen.
    destruct ops as [|o t]; [discriminate Hhd|]. destruct t as [|o2 t2]; [simpl in Hlen; lia|].
    apply negb_true_iff in Hhd.
    fold alt_step. rewrite fold_alt_is_alt by discriminate. f_equal. rewrite fold_alt_value.
    inversion IH as [|? ? Ho IHt]; subst. simpl in Hall. apply andb_prop in Hall as [Hao Hat].
    apply andb_prop in Hao as [Hno Hnao]. rewrite Hhd in Hno. simpl in Hno.
    rewrite (Ho Hno). assert (Eo : alt_ops o = [o]) by (destruct o; simpl in *; try reflexivity; discriminate Hnao).
    rewrite Eo. simpl. f_equal.
    apply (alt_tail (o2 :: t2)); assumption.
  - apply andb_prop in Hn as [Hn _]. rewrite (IH Hn). reflexivity.
  - apply andb_prop in Hn as [Hn _]. rewrite (IH Hn). reflexivity.
  - apply andb_prop in Hn as [Hn _]. rewrite (IH Hn). reflexivity.
Qed.

(* building the tree of a written expression and printing it gives an expression with the same tree *)
Corollary print_then_parse_again e : ast_value (unparse (ast_value e)) = ast_value e.
Proof. apply roundtrip, ast_value_normal. Qed.

(* ---- the language of a typed tree, and: what is printed denotes what was written ---- *)
Inductive star_of (L : word -> Prop) : word -> Prop :=
| so_nil : star_of L []
| so_snoc u v : star_of L u -> L v -> star_of L (u ++ v).
Inductive plus_of (L : word -> Prop) : word -> Prop :=
| po_one w : L w -> plus_of L w
| po_snoc u v : plus_of L u -> L v -> plus_of L (u ++ v).

Lemma star_of_ext (L L' : word -> Prop) : (forall w, L w <-> L' w) -> forall w, star_of L w <-> star_of L' w.
Proof. intros H w. split; induction 1; constructor; auto; apply H; assumption. Qed.
Lemma plus_of_ext (L L' : word -> Prop) : (forall w, L w <-> L' w) -> forall w, plus_of L w <-> plus_of L' w.
Proof.
  intros H w. split; induction 1; try (apply po_one; apply H; assumption); apply po_snoc; auto; apply H; assumption.
Qed.

Section Den.
  Variable den : trhs -> word -> Prop.
  Fixpoint cat_den (l : list trhs) (w : word) : Prop :=
    match l with
    | [] => w = []
    | o :: t => exists u v, w = u ++ v /\ den o u /\ cat_den t v
    end.
  Fixpoint alt_den (l : list trhs) (w : word) : Prop :=
    match l with
    | [] => False
    | o :: t => den o w \/ alt_den t w
    end.

  Lemma cat_den_app l1 : forall l2 w,
    cat_den (l1 ++ l2) w <-> exists u v, w = u ++ v /\ cat_den l1 u /\ cat_den l2 v.
  Proof.
    induction l1 as [|o t IH]; intros l2 w; simpl.
    - split; [intros H; exists [], w; auto | intros [u [v [-> [-> H]]]]; exact H].
    - split.
      + intros [u [v [-> [Ho Hr]]]]. apply IH in Hr as [u1 [v1 [-> [H1 H2]]]].
        exists (u ++ u1), v1. rewrite app_assoc. repeat split; [|exact H2]. exists u, u1. auto.
      + intros [u [v [-> [[u0 [u1 [-> [Ho H1]]]] H2]]]]. exists u0, (u1 ++ v). rewrite app_assoc. repeat split; [exact Ho|].
        apply IH. exists u1, v. auto.
  Qed.

  Lemma alt_den_app l1 : forall l2 w, alt_den (l1 ++ l2) w <-> alt_den l1 w \/ alt_den l2 w.
  Proof. induction l1 as [|o t IH]; intros l2 w; simpl; [tauto|]. rewrite IH. tauto. Qed.
End Den.

Section Lang.
  Variable rules : list rule.

  Fixpoint tden (v : trhs) : word -> Prop :=
    match v with
    | TTerm a _ => fun w => w = [a]
    | TNT A => fun w => em rules (ENT A) w
    | TConcat ops => cat_den tden ops
    | TAlt ops => alt_den tden ops
    | TOpt x => fun w => w = [] \/ tden x w
    | TStar x => star_of (tden x)
    | TPlus x => plus_of (tden x)
    | TEmpty => fun w => w = []
    end.

  Lemma cat_ops_den v w : cat_den tden (cat_ops v) w <-> tden v w.
  Proof.
    destruct v; simpl; try tauto;
      (split; [intros [u [v' [-> [H ->]]]]; rewrite app_nil_r; exact H | intros H; exists w, []; rewrite app_nil_r; auto]).
  Qed.
  Lemma alt_ops_den v w : alt_den tden (alt_ops v) w <-> tden v w.
  Proof. destruct v; simpl; tauto. Qed.

  Lemma em_star_iff x w : em rules (EStar x) w <-> star_of (em rules x) w.
  Proof.
    split.
    - intros H. remember (EStar x) as e eqn:E. induction H; try discriminate E.
      + constructor.
      + injection E as ->. apply so_snoc; [apply IHem1; reflexivity | exact H0].
    - induction 1; [apply em_star_nil | apply em_star_snoc; assumption].
  Qed.
  Lemma em_plus_iff x w : em rules (EPlus x) w <-> plus_of (em rules x) w.
  Proof.
    split.
    - intros H. remember (EPlus x) as e eqn:E. induction H; try discriminate E.
      + injection E as ->. apply po_one; exact H.
      + injection E as ->. apply po_snoc; [apply IHem1; reflexivity | exact H0].
    - induction 1; [apply em_plus_one | apply em_plus_snoc]; assumption.
  Qed.

  (* the typed tree denotes the language of the expression it was built from *)
  Theorem typed_tree_same_language e : forall w, em rules e w <-> tden (ast_value e) w.
  Proof.
    induction e as [a lit|A|x IHx y IHy|x IHx y IHy|x IHx|x IHx|x IHx|x IHx|x IHx]; intros w; simpl.
    - split; [intros H; inversion H; reflexivity | intros ->; constructor].
    - tauto.
    - rewrite cat_den_app. split.
      + intros H. inversion H; subst.
        match goal with
        | Hu : em rules x ?u, Hv : em rules y ?v |- _ =>
          exists u, v; repeat split; [apply cat_ops_den, IHx; exact Hu | apply cat_ops_den, IHy; exact Hv]
        end.
      + intros [u [v [-> [Hu Hv]]]]. apply em_cat; [apply IHx, cat_ops_den; exact Hu | apply IHy, cat_ops_den; exact Hv].
    - rewrite alt_den_app, !alt_ops_den, <- IHx, <- IHy. split.
      + intros H. inversion H; subst; [left | right]; assumption.
      + intros [H|H]; [apply em_altl | apply em_altr]; exact H.
    - rewrite alt_den_app, alt_ops_den, <- IHx. simpl. split.
      + intros H. inversion H; subst; [left; assumption | right; left; reflexivity].
      + intros [H|[->|[]]]; [apply em_alte; exact H | apply em_alte_eps].
    - rewrite <- IHx. split; [intros H; inversion H; assumption | apply em_group].
    - rewrite <- IHx. split.
      + intros H. inversion H; subst; [right; assumption | left; reflexivity].
      + intros [->|H]; [apply em_opt_eps | apply em_opt; exact H].
    - rewrite em_star_iff. apply star_of_ext. exact IHx.
    - rewrite em_plus_iff. apply plus_of_ext. exact IHx.
  Qed.

  (* what is printed from the typed tree of e denotes exactly what e denotes: the grammar derived from the typed tree's
     structure generates the language of the grammar derived directly (C01 ties each to its derivations) *)
  Theorem printed_same_language e w : em rules (unparse (ast_value e)) w <-> em rules e w.
  Proof.
    rewrite (typed_tree_same_language (unparse (ast_value e))), print_then_parse_again.
    symmetry. apply typed_tree_same_language.
  Qed.
End Lang.
