(* The terminal table of the symbol-table model refines the declaration list: whatever the order of the
   declarations, after translating a specification the definitions recorded for a terminal name are
   exactly the ones the declarative reading [SpecWf.defs_of] lists - the declared strings / patterns /
   expansions of predefined names in source order for a token, the literal itself for a string literal -
   provided no literal shares its text with a token name (known finding D7: those are ONE terminal in
   emerge; the theorem is false without the premise, see Props/C07.v name_clash_refuted).
   Universal: every declaration list, every terminal name, any terminalNames / predefined-name tables. *)
From Coq Require Import String List Bool Arith Lia.
From Verif Require Import Cfg.Ebnf Cfg.Translate Emerge.SpecModel Emerge.SpecWf.
Import ListNotations.

Lemma flat_map_nil_all {A B : Type} (f : A -> list B) (l : list A) :
  (forall x, In x l -> f x = []) -> flat_map f l = [].
Proof.
  induction l as [|x l IH]; intros H; [reflexivity|]. simpl. rewrite (H x (or_introl eq_refl)), IH; [reflexivity|].
  intros y Hy. apply H. right. exact Hy.
Qed.

Lemma NoDup_app_intro_single {A : Type} (l : list A) (a : A) : NoDup l -> ~ In a l -> NoDup (l ++ [a]).
Proof.
  intros Hl Ha. induction l as [|x l IH]; simpl; [constructor; [intros [] | constructor]|].
  inversion Hl as [|? ? Hx Hl']; subst. constructor.
  - intros Hin. apply in_app_or in Hin as [Hin|[Hin|[]]]; [apply Hx; exact Hin | subst; apply Ha; left; reflexivity].
  - apply IH; [exact Hl' | intros Hin; apply Ha; right; exact Hin].
Qed.

(* ---- the events the terminal table sees, in reduction order ---- *)
Inductive tev := TUse (a : string) (lit : bool) | TDef (a : string) (d : string * bool).

Definition ev_name (e : tev) : string := match e with TUse a _ => a | TDef a _ => a end.

Definition bump (e : tentry) : tentry := {| te_name := te_name e; te_defs := te_defs e; te_occ := S (te_occ e) |}.

Definition apply_ev (ts : list tentry) (e : tev) : list tentry :=
  match e with
  | TUse a true => upd_term ts a bump {| te_name := a; te_defs := [(a, false)]; te_occ := 1 |}
  | TUse a false => upd_term ts a bump {| te_name := a; te_defs := []; te_occ := 1 |}
  | TDef a d =>
    upd_term ts a (fun e => {| te_name := te_name e; te_defs := te_defs e ++ [d]; te_occ := te_occ e |})
             {| te_name := a; te_defs := [d]; te_occ := 0 |}
  end.

Definition uses_ev (l : list (string * bool)) : list tev := map (fun u => TUse (fst u) (snd u)) l.

Section Events.
  Variable terminal_names : list (string * string).
  Variable predefs : list (string * string).

  Definition handle_events (h : handle) : list tev :=
    match h with HTerm a lit => [TUse a lit] | HRule _ b => uses_ev (terms_of_rule b) end.

  Definition decl_events (d : decl) : list tev :=
    match d with
    | DToken n 0 v => [TDef n (v, false)]
    | DToken n 1 v => [TDef n (v, true)]
    | DToken n _ v => match find (fun e => String.eqb (fst e) v) predefs with
                      | Some e => [TDef n (snd e, true)]
                      | None => []
                      end
    | DDirective _ hs => flat_map handle_events hs
    | DRule _ b => uses_ev (terms_of_rule b)
    end.

  Definition events (ds : list decl) : list tev := flat_map decl_events ds.

  (* ---- the model's table is the fold of the events ---- *)
  Lemma add_nt_terms s A : s_terms (add_nt s A) = s_terms s.
  Proof. unfold add_nt. destruct (existsb _ _); reflexivity. Qed.
  Lemma add_prod_terms s p : s_terms (add_prod s p) = s_terms s.
  Proof. unfold add_prod. destruct (pmem _ _); reflexivity. Qed.
  Lemma fold_add_prod_terms ps : forall s, s_terms (fold_left add_prod ps s) = s_terms s.
  Proof. induction ps as [|p ps IH]; intros s; simpl; [reflexivity|]. rewrite IH. apply add_prod_terms. Qed.
  Lemma get_name_terms s sg k : s_terms (snd (get_name terminal_names s sg k)) = s_terms s.
  Proof.
    unfold get_name. destruct (find _ (s_memo s)) as [e|].
    - destruct (String.eqb (m_get e k) ""); [|reflexivity]. destruct (synth_name _ _ _ _). reflexivity.
    - destruct (synth_name _ _ _ _). reflexivity.
  Qed.
  Lemma finish_bracket_terms k res : s_terms (snd (finish_bracket terminal_names k res)) = s_terms (snd res).
  Proof.
    unfold finish_bracket. destruct res as [sg s1].
    pose proof (get_name_terms s1 sg k) as H. destruct (get_name terminal_names s1 sg k) as [X s2]. simpl in *.
    rewrite fold_add_prod_terms, add_nt_terms. exact H.
  Qed.

  Lemma fold_uses_app l1 l2 ts :
    fold_left apply_ev (uses_ev (l1 ++ l2)) ts = fold_left apply_ev (uses_ev l2) (fold_left apply_ev (uses_ev l1) ts).
  Proof. unfold uses_ev. rewrite map_app, fold_left_app. reflexivity. Qed.

  Lemma tr_terms r : forall s, s_terms (snd (tr terminal_names r s)) = fold_left apply_ev (uses_ev (terms_of r)) (s_terms s).
  Proof.
    induction r as [a lit|A|x IHx y IHy|x IHx y IHy|x IHx|x IHx|x IHx|x IHx|x IHx]; intros s; simpl terms_of.
    - destruct lit; reflexivity.
    - simpl. apply add_nt_terms.
    - simpl tr. specialize (IHx s). destruct (tr terminal_names x s) as [s1 st1]. specialize (IHy st1).
      destruct (tr terminal_names y st1) as [s2 st2]. simpl in *. rewrite fold_uses_app, <- IHx. exact IHy.
    - simpl tr. specialize (IHx s). destruct (tr terminal_names x s) as [s1 st1]. specialize (IHy st1).
      destruct (tr terminal_names y st1) as [s2 st2]. simpl in *. rewrite fold_uses_app, <- IHx. exact IHy.
    - simpl tr. specialize (IHx s). destruct (tr terminal_names x s) as [s1 st1]. simpl in *. exact IHx.
    - simpl tr. rewrite finish_bracket_terms. apply IHx.
    - simpl tr. rewrite finish_bracket_terms. apply IHx.
    - simpl tr. rewrite finish_bracket_terms. apply IHx.
    - simpl tr. rewrite finish_bracket_terms. apply IHx.
  Qed.

  Lemma tr_rule_terms A b s :
    s_terms (snd (tr_rule terminal_names A b s)) = fold_left apply_ev (uses_ev (terms_of_rule b)) (s_terms s).
  Proof.
    unfold tr_rule. destruct b as [r|]; simpl.
    - pose proof (tr_terms r (add_nt s A)) as H. destruct (tr terminal_names r (add_nt s A)) as [sg s1]. simpl in *.
      rewrite fold_add_prod_terms, H, add_nt_terms. reflexivity.
    - rewrite add_prod_terms. apply add_nt_terms.
  Qed.

  Lemma tr_handles_terms hs : forall s,
    s_terms (snd (tr_handles terminal_names hs s)) = fold_left apply_ev (flat_map handle_events hs) (s_terms s).
  Proof.
    induction hs as [|h hs IH]; intros s; simpl; [reflexivity|]. destruct h as [a lit|A b].
    - specialize (IH (if lit then add_string_terminal s a else add_token_terminal s a)).
      destruct (tr_handles terminal_names hs _) as [r s2]. simpl in *. rewrite IH. destruct lit; reflexivity.
    - pose proof (tr_rule_terms A b s) as H. destruct (tr_rule terminal_names A b s) as [ps s1].
      specialize (IH s1). destruct (tr_handles terminal_names hs s1) as [r s2]. simpl in *.
      rewrite fold_left_app, <- H. exact IH.
  Qed.

  Lemma tr_decl_terms s d :
    s_terms (tr_decl terminal_names predefs s d) = fold_left apply_ev (decl_events d) (s_terms s).
  Proof.
    destruct d as [n k v|a hs|A b]; simpl.
    - destruct k as [|[|k]]; simpl; try reflexivity.
      destruct (find _ predefs); reflexivity.
    - pose proof (tr_handles_terms hs s) as H. destruct (tr_handles terminal_names hs s) as [phs s1]. simpl in *. exact H.
    - apply tr_rule_terms.
  Qed.

  Theorem table_is_the_fold_of_the_events ds :
    s_terms (translate terminal_names predefs ds) = fold_left apply_ev (events ds) [].
  Proof.
    unfold translate, events.
    assert (H : forall s, s_terms (fold_left (tr_decl terminal_names predefs) ds s)
                          = fold_left apply_ev (flat_map decl_events ds) (s_terms s)).
    { induction ds as [|d ds IH]; intros s; simpl; [reflexivity|].
      rewrite IH, tr_decl_terms, fold_left_app. reflexivity. }
    apply (H st0).
  Qed.
End Events.

(* ---- what a fold of events leaves in the table ---- *)
Definition nm (a : string) (e : tentry) : bool := String.eqb (te_name e) a.

Definition defs_in (ts : list tentry) (a : string) : list (string * bool) :=
  match find (nm a) ts with Some e => te_defs e | None => [] end.

Definition ddefs (a : string) (evs : list tev) : list (string * bool) :=
  flat_map (fun e => match e with TDef b d => if String.eqb b a then [d] else [] | TUse _ _ => [] end) evs.

Definition first_defs (a : string) (e : tev) : list (string * bool) :=
  match e with TUse _ true => [(a, false)] | TUse _ false => [] | TDef _ d => [d] end.

Fixpoint fresh_defs (a : string) (evs : list tev) : list (string * bool) :=
  match evs with
  | [] => []
  | e :: t => if String.eqb (ev_name e) a then first_defs a e ++ ddefs a t else fresh_defs a t
  end.

Lemma upd_find_same ts a f fresh :
  (forall e, te_name (f e) = te_name e) -> te_name fresh = a ->
  find (nm a) (upd_term ts a f fresh) = match find (nm a) ts with Some e => Some (f e) | None => Some fresh end.
Proof.
  intros Hf Hn. induction ts as [|x ts IH]; simpl.
  - unfold nm. rewrite Hn, String.eqb_refl. reflexivity.
  - unfold nm at 2. destruct (String.eqb (te_name x) a) eqn:E; simpl.
    + unfold nm. rewrite Hf, E. reflexivity.
    + unfold nm at 1. rewrite E. exact IH.
Qed.

Lemma upd_find_other ts a b f fresh :
  (forall e, te_name (f e) = te_name e) -> te_name fresh = a -> String.eqb a b = false ->
  find (nm b) (upd_term ts a f fresh) = find (nm b) ts.
Proof.
  intros Hf Hn Hab. induction ts as [|x ts IH]; simpl.
  - unfold nm. rewrite Hn, Hab. reflexivity.
  - destruct (String.eqb (te_name x) a) eqn:E; simpl.
    + unfold nm. rewrite Hf. apply String.eqb_eq in E. rewrite E, Hab. reflexivity.
    + rewrite IH. reflexivity.
Qed.

Lemma apply_ev_find_same ts e a :
  String.eqb (ev_name e) a = true ->
  exists x, find (nm a) (apply_ev ts e) = Some x /\
            te_defs x = match find (nm a) ts with
                        | Some y => te_defs y ++ ddefs a [e]
                        | None => first_defs a e
                        end.
Proof.
  intros Hn. apply String.eqb_eq in Hn. destruct e as [b lit|b d]; simpl in Hn; subst b.
  - destruct lit; simpl apply_ev.
    + rewrite upd_find_same by reflexivity. destruct (find (nm a) ts) as [y|]; eexists; split; try reflexivity.
      simpl. rewrite app_nil_r. reflexivity.
    + rewrite upd_find_same by reflexivity. destruct (find (nm a) ts) as [y|]; eexists; split; try reflexivity.
      simpl. rewrite app_nil_r. reflexivity.
  - simpl apply_ev. rewrite upd_find_same by reflexivity. destruct (find (nm a) ts) as [y|]; eexists; split; try reflexivity.
    simpl. rewrite String.eqb_refl, app_nil_r. reflexivity.
Qed.

Lemma apply_ev_find_other ts e a :
  String.eqb (ev_name e) a = false -> find (nm a) (apply_ev ts e) = find (nm a) ts.
Proof.
  intros Hn. destruct e as [b lit|b d]; simpl in Hn.
  - destruct lit; simpl apply_ev; apply upd_find_other; auto.
  - simpl apply_ev. apply upd_find_other; auto.
Qed.

Lemma ddefs_cons_other a e t : String.eqb (ev_name e) a = false -> ddefs a (e :: t) = ddefs a t.
Proof. intros H. destruct e as [b lit|b d]; simpl in *; [reflexivity|]. rewrite H. reflexivity. Qed.

Lemma ddefs_cons a e t : ddefs a (e :: t) = ddefs a [e] ++ ddefs a t.
Proof. unfold ddefs. simpl. rewrite app_nil_r. reflexivity. Qed.

Theorem defs_after_events evs : forall ts a,
  defs_in (fold_left apply_ev evs ts) a =
  match find (nm a) ts with Some e => te_defs e ++ ddefs a evs | None => fresh_defs a evs end.
Proof.
  induction evs as [|e evs IH]; intros ts a; simpl fold_left.
  - unfold defs_in. destruct (find (nm a) ts); simpl; rewrite ?app_nil_r; reflexivity.
  - rewrite IH. destruct (String.eqb (ev_name e) a) eqn:E.
    + destruct (apply_ev_find_same ts e a E) as [x [Hx Hd]]. rewrite Hx, Hd.
      destruct (find (nm a) ts) as [y|].
      * rewrite (ddefs_cons a e evs), app_assoc. reflexivity.
      * simpl fresh_defs. rewrite E. reflexivity.
    + rewrite (apply_ev_find_other ts e a E). rewrite (ddefs_cons_other a e evs E). simpl fresh_defs. rewrite E. reflexivity.
Qed.

(* the first event about a name decides whether a literal defines itself *)
Fixpoint first_is_lit (a : string) (evs : list tev) : bool :=
  match evs with
  | [] => false
  | e :: t => if String.eqb (ev_name e) a then match e with TUse _ true => true | _ => false end else first_is_lit a t
  end.

Lemma fresh_defs_split a evs :
  fresh_defs a evs = (if first_is_lit a evs then [(a, false)] else []) ++ ddefs a evs.
Proof.
  induction evs as [|e t IH]; simpl fresh_defs; simpl first_is_lit; [reflexivity|].
  destruct (String.eqb (ev_name e) a) eqn:E.
  - destruct e as [b lit|b d]; simpl in E.
    + destruct lit; reflexivity.
    + simpl. rewrite E. reflexivity.
  - rewrite IH, (ddefs_cons_other a e t E). reflexivity.
Qed.

Lemma ddefs_nil a evs :
  (forall b d, In (TDef b d) evs -> String.eqb b a = false) -> ddefs a evs = [].
Proof.
  induction evs as [|e t IH]; intros H; [reflexivity|]. rewrite ddefs_cons, IH.
  - destruct e as [b lit|b d]; simpl; [reflexivity|]. rewrite (H b d (or_introl eq_refl)). reflexivity.
  - intros b d Hin. apply (H b d). right. exact Hin.
Qed.

Lemma first_is_lit_false a evs :
  (forall b, In (TUse b true) evs -> String.eqb b a = false) -> first_is_lit a evs = false.
Proof.
  induction evs as [|e t IH]; intros H; simpl; [reflexivity|].
  destruct (String.eqb (ev_name e) a) eqn:E.
  - destruct e as [b [|]|b d]; try reflexivity. simpl in E. rewrite (H b (or_introl eq_refl)) in E. discriminate.
  - apply IH. intros b Hin. apply H. right. exact Hin.
Qed.

Lemma first_is_lit_true a evs :
  (forall e, In e evs -> String.eqb (ev_name e) a = true -> exists b, e = TUse b true) ->
  (exists e, In e evs /\ String.eqb (ev_name e) a = true) -> first_is_lit a evs = true.
Proof.
  induction evs as [|e t IH]; intros Hall [e0 [Hin He0]]; [destruct Hin|]. simpl.
  destruct (String.eqb (ev_name e) a) eqn:E.
  - destruct (Hall e (or_introl eq_refl) E) as [b ->]. reflexivity.
  - apply IH.
    + intros e1 H1 H2. apply Hall; [right; exact H1 | exact H2].
    + destruct Hin as [<-|Hin]; [rewrite E in He0; discriminate|]. exists e0. split; assumption.
Qed.

(* ---- the events against the declarative reading ---- *)
Section Declarative.
  Variable predefs : list (string * string).

  Lemma in_uses_ev e l : In e (uses_ev l) -> exists a lit, e = TUse a lit /\ In (a, lit) l.
  Proof.
    unfold uses_ev. intros H. apply in_map_iff in H as [[a lit] [<- Hin]]. exists a, lit. split; [reflexivity | exact Hin].
  Qed.

  Lemma in_handle_events e h :
    In e (handle_events h) -> exists a lit, e = TUse a lit /\
      In (a, lit) (match h with HTerm a lit => [(a, lit)] | HRule _ b => terms_of_rule b end).
  Proof.
    destruct h as [a lit|A b]; simpl.
    - intros [<-|[]]. exists a, lit. split; [reflexivity | left; reflexivity].
    - apply in_uses_ev.
  Qed.

  (* a use event is a use of the declaration list, and conversely *)
  Lemma use_event_iff ds a lit : In (TUse a lit) (events predefs ds) <-> In (a, lit) (used_terms ds).
  Proof.
    unfold events, used_terms. rewrite !in_flat_map. split.
    - intros [d [Hd He]]. exists d. split; [exact Hd|]. destruct d as [n k v|assoc hs|A b]; simpl in *.
      + destruct k as [|[|k]]; simpl in He; try (destruct He as [He|[]]; discriminate).
        destruct (find _ predefs); [destruct He as [He|[]]; discriminate | destruct He].
      + apply in_flat_map in He as [h [Hh He]]. apply in_flat_map. exists h. split; [exact Hh|].
        apply in_handle_events in He as [a' [lit' [Heq Hin]]]. inversion Heq; subst. exact Hin.
      + apply in_uses_ev in He as [a' [lit' [Heq Hin]]]. inversion Heq; subst. exact Hin.
    - intros [d [Hd He]]. exists d. split; [exact Hd|]. destruct d as [n k v|assoc hs|A b]; simpl in *.
      + destruct He.
      + apply in_flat_map in He as [h [Hh He]]. apply in_flat_map. exists h. split; [exact Hh|].
        destruct h as [a' lit'|A b]; simpl in *.
        * destruct He as [He|[]]. inversion He; subst. left. reflexivity.
        * unfold uses_ev. apply in_map_iff. exists (a, lit). split; [reflexivity | exact He].
      + unfold uses_ev. apply in_map_iff. exists (a, lit). split; [reflexivity | exact He].
  Qed.

  (* a definition event comes from a token declaration with a known value *)
  Lemma def_event_declared ds a d : In (TDef a d) (events predefs ds) -> In (a, Some d) (declared predefs ds).
  Proof.
    unfold events, declared. rewrite !in_flat_map. intros [d0 [Hd He]]. exists d0. split; [exact Hd|].
    destruct d0 as [n k v|assoc hs|A b]; simpl in *.
    - destruct k as [|[|k]]; simpl in *.
      + destruct He as [He|[]]. inversion He; subst. left. reflexivity.
      + destruct He as [He|[]]. inversion He; subst. left. reflexivity.
      + destruct (find _ predefs) as [p|]; [|destruct He]. destruct He as [He|[]]. inversion He; subst. left. reflexivity.
    - apply in_flat_map in He as [h [_ He]]. apply in_handle_events in He as [a' [lit' [Heq _]]]. discriminate.
    - apply in_uses_ev in He as [a' [lit' [Heq _]]]. discriminate.
  Qed.

  Definition declared_defs (ds : list decl) (a : string) : list (string * bool) :=
    flat_map (fun e : string * option (string * bool) =>
                if String.eqb (fst e) a then match snd e with Some v => [v] | None => [] end else []) (declared predefs ds).

  Lemma ddefs_app a l1 l2 : ddefs a (l1 ++ l2) = ddefs a l1 ++ ddefs a l2.
  Proof. unfold ddefs. apply flat_map_app. Qed.

  Lemma ddefs_uses a l : ddefs a (uses_ev l) = [].
  Proof. apply ddefs_nil. intros b d H. apply in_uses_ev in H as [a' [lit [Heq _]]]. discriminate. Qed.

  Lemma ddefs_handles a hs : ddefs a (flat_map handle_events hs) = [].
  Proof.
    apply ddefs_nil. intros b d H. apply in_flat_map in H as [h [_ H]].
    apply in_handle_events in H as [a' [lit [Heq _]]]. discriminate.
  Qed.

  (* the definition events about a name are its declarations, in source order *)
  Lemma ddefs_events ds a : ddefs a (events predefs ds) = declared_defs ds a.
  Proof.
    unfold events, declared_defs, declared. induction ds as [|d ds IH]; [reflexivity|].
    simpl flat_map. rewrite ddefs_app, flat_map_app, IH. f_equal.
    destruct d as [n k v|assoc hs|A b]; simpl decl_events; simpl token_def.
    - destruct k as [|[|k]]; simpl; try reflexivity.
      destruct (find _ predefs) as [p|]; simpl.
      + reflexivity.
      + destruct (String.eqb n a); reflexivity.
    - apply ddefs_handles.
    - apply ddefs_uses.
  Qed.

  Definition lit_used (ds : list decl) (a : string) : bool :=
    existsb (fun u : string * bool => String.eqb (fst u) a && snd u) (used_terms ds).

  Lemma defs_of_split ds a :
    defs_of predefs ds a = declared_defs ds a ++ (if lit_used ds a then [(a, false)] else []).
  Proof. reflexivity. Qed.

  (* what [names_distinct] says about a name used as a literal *)
  Lemma distinct_literal ds a :
    names_distinct predefs ds = true -> lit_used ds a = true ->
    (forall o, ~ In (a, o) (declared predefs ds)) /\ ~ In (a, false) (used_terms ds).
  Proof.
    unfold names_distinct, lit_used. intros Hd Hl.
    apply existsb_exists in Hl as [[a' lit] [Hin Hc]]. simpl in Hc. apply andb_true_iff in Hc as [Ha Hlit].
    apply String.eqb_eq in Ha. subst a' lit.
    rewrite forallb_forall in Hd. specialize (Hd _ Hin). simpl in Hd. apply andb_true_iff in Hd as [H1 H2].
    apply negb_true_iff in H1. apply negb_true_iff in H2. split.
    - intros o Ho. assert (X : existsb (fun e : string * option (string * bool) => String.eqb (fst e) a) (declared predefs ds) = true).
      { apply existsb_exists. exists (a, o). split; [exact Ho | apply String.eqb_refl]. }
      rewrite X in H1. discriminate.
    - intros Hu. assert (X : existsb (fun v : string * bool => String.eqb (fst v) a && negb (snd v)) (used_terms ds) = true).
      { apply existsb_exists. exists (a, false). split; [exact Hu | simpl; rewrite String.eqb_refl; reflexivity]. }
      rewrite X in H2. discriminate.
  Qed.

  Lemma lit_used_false ds a b : lit_used ds a = false -> In (b, true) (used_terms ds) -> String.eqb b a = false.
  Proof.
    unfold lit_used. intros Hl Hin. destruct (String.eqb b a) eqn:E; [|reflexivity].
    assert (X : existsb (fun u : string * bool => String.eqb (fst u) a && snd u) (used_terms ds) = true).
    { apply existsb_exists. exists (b, true). split; [exact Hin | simpl; rewrite E; reflexivity]. }
    rewrite X in Hl. discriminate.
  Qed.

  (* THE REFINEMENT: the definitions recorded for a name after all the events are the declarative ones *)
  Theorem fold_defs_are_declarative ds a :
    names_distinct predefs ds = true ->
    defs_in (fold_left apply_ev (events predefs ds) []) a = defs_of predefs ds a.
  Proof.
    intros Hd. rewrite defs_after_events. simpl find. rewrite fresh_defs_split, ddefs_events, defs_of_split.
    destruct (lit_used ds a) eqn:Hl.
    - destruct (distinct_literal ds a Hd Hl) as [Hnodecl Hnotok].
      assert (Hall : forall e, In e (events predefs ds) -> String.eqb (ev_name e) a = true -> exists b, e = TUse b true).
      { intros e Hin He. apply String.eqb_eq in He. destruct e as [b lit|b d]; simpl in He; subst b.
        - destruct lit; [eexists; reflexivity|]. exfalso. apply Hnotok. apply use_event_iff. exact Hin.
        - exfalso. apply (Hnodecl (Some d)). apply def_event_declared. exact Hin. }
      assert (Hex : exists e, In e (events predefs ds) /\ String.eqb (ev_name e) a = true).
      { unfold lit_used in Hl. apply existsb_exists in Hl as [[a' lit] [Hin Hc]]. simpl in Hc.
        apply andb_true_iff in Hc as [Ha Hlit]. subst lit. exists (TUse a' true). split; [apply use_event_iff; exact Hin | exact Ha]. }
      rewrite (first_is_lit_true a _ Hall Hex).
      assert (Hnil : declared_defs ds a = []).
      { unfold declared_defs. apply flat_map_nil_all. intros [n o] Hin. simpl.
        destruct (String.eqb n a) eqn:E; [|reflexivity]. apply String.eqb_eq in E. subst n. destruct (Hnodecl o Hin). }
      rewrite Hnil. reflexivity.
    - rewrite first_is_lit_false, app_nil_r; [reflexivity|].
      intros b Hin. apply (lit_used_false ds a b Hl). apply use_event_iff. exact Hin.
  Qed.
End Declarative.

(* ---- names in the table ---- *)
Lemma upd_names ts a f fresh :
  (forall e, te_name (f e) = te_name e) -> te_name fresh = a ->
  map te_name (upd_term ts a f fresh) = if existsb (nm a) ts then map te_name ts else map te_name ts ++ [a].
Proof.
  intros Hf Hn. induction ts as [|x ts IH]; simpl; [rewrite Hn; reflexivity|].
  unfold nm at 1. destruct (String.eqb (te_name x) a) eqn:E; simpl.
  - rewrite Hf. reflexivity.
  - rewrite IH. destruct (existsb (nm a) ts); reflexivity.
Qed.

Lemma apply_ev_names ts e :
  map te_name (apply_ev ts e) = if existsb (nm (ev_name e)) ts then map te_name ts else map te_name ts ++ [ev_name e].
Proof. destruct e as [b [|]|b d]; simpl; apply upd_names; reflexivity. Qed.

Lemma existsb_nm ts a : existsb (nm a) ts = true <-> In a (map te_name ts).
Proof.
  rewrite existsb_exists, in_map_iff. unfold nm. split.
  - intros [x [Hin He]]. apply String.eqb_eq in He. exists x. split; assumption.
  - intros [x [He Hin]]. exists x. split; [exact Hin | apply String.eqb_eq; exact He].
Qed.

Lemma apply_ev_nodup ts e : NoDup (map te_name ts) -> NoDup (map te_name (apply_ev ts e)).
Proof.
  intros H. rewrite apply_ev_names. destruct (existsb (nm (ev_name e)) ts) eqn:E; [exact H|].
  apply NoDup_app_intro_single; [exact H|]. intros Hin. apply existsb_nm in Hin. rewrite Hin in E. discriminate.
Qed.

Lemma fold_events_nodup evs : forall ts, NoDup (map te_name ts) -> NoDup (map te_name (fold_left apply_ev evs ts)).
Proof. induction evs as [|e evs IH]; intros ts H; simpl; [exact H|]. apply IH, apply_ev_nodup, H. Qed.

Lemma fold_events_names evs : forall ts a,
  In a (map te_name (fold_left apply_ev evs ts)) <-> In a (map te_name ts) \/ exists e, In e evs /\ ev_name e = a.
Proof.
  induction evs as [|e evs IH]; intros ts a; simpl fold_left.
  - split; [intros H; left; exact H | intros [H|[e [[] _]]]; exact H].
  - rewrite IH, apply_ev_names. split.
    + intros [H|[e0 [Hin He]]].
      * destruct (existsb (nm (ev_name e)) ts); [left; exact H|].
        apply in_app_or in H as [H|[H|[]]]; [left; exact H | right; exists e; split; [left; reflexivity | exact H]].
      * right. exists e0. split; [right; exact Hin | exact He].
    + intros [H|[e0 [[<-|Hin] He]]].
      * left. destruct (existsb (nm (ev_name e)) ts); [exact H | apply in_or_app; left; exact H].
      * left. subst a. destruct (existsb (nm (ev_name e)) ts) eqn:E; [apply existsb_nm; exact E | apply in_or_app; right; left; reflexivity].
      * right. exists e0. split; assumption.
Qed.

Lemma find_of_in ts e : NoDup (map te_name ts) -> In e ts -> find (nm (te_name e)) ts = Some e.
Proof.
  induction ts as [|x ts IH]; intros Hnd Hin; [destruct Hin|]. simpl in *. inversion Hnd as [|? ? Hx Hnd']; subst.
  destruct Hin as [->|Hin].
  - unfold nm. rewrite String.eqb_refl. reflexivity.
  - unfold nm at 1. destruct (String.eqb (te_name x) (te_name e)) eqn:E.
    + exfalso. apply String.eqb_eq in E. apply Hx. rewrite E. apply in_map. exact Hin.
    + apply IH; assumption.
Qed.

(* ---- the theorems about the model ---- *)
Section Main.
  Variable terminal_names : list (string * string).
  Variable predefs : list (string * string).

  Theorem table_carries_the_declarations ds a :
    names_distinct predefs ds = true ->
    defs_in (s_terms (translate terminal_names predefs ds)) a = defs_of predefs ds a.
  Proof. intros H. rewrite table_is_the_fold_of_the_events. apply fold_defs_are_declarative. exact H. Qed.

  Theorem table_names_are_unique ds : NoDup (map te_name (s_terms (translate terminal_names predefs ds))).
  Proof. rewrite table_is_the_fold_of_the_events. apply fold_events_nodup. constructor. Qed.

  (* every entry of the table carries exactly the declarative definitions of its name *)
  Theorem entry_carries_the_declarations ds e :
    names_distinct predefs ds = true ->
    In e (s_terms (translate terminal_names predefs ds)) -> te_defs e = defs_of predefs ds (te_name e).
  Proof.
    intros H Hin. rewrite <- (table_carries_the_declarations ds (te_name e) H). unfold defs_in.
    rewrite (find_of_in _ e (table_names_are_unique ds) Hin). reflexivity.
  Qed.

  (* the table has an entry for a name iff the name is defined (with a known value) or used somewhere *)
  Theorem table_names ds a :
    In a (map te_name (s_terms (translate terminal_names predefs ds))) <->
    (exists d, In (a, Some d) (declared predefs ds)) \/ (exists lit, In (a, lit) (used_terms ds)).
  Proof.
    rewrite table_is_the_fold_of_the_events, fold_events_names. simpl. split.
    - intros [[]|[e [Hin He]]]. destruct e as [b lit|b d]; simpl in He; subst b.
      + right. exists lit. apply (use_event_iff predefs). exact Hin.
      + left. exists d. apply def_event_declared. exact Hin.
    - intros [[d Hd]|[lit Hu]]; right.
      + unfold declared in Hd. apply in_flat_map in Hd as [d0 [Hd0 Hin]].
        destruct d0 as [n k v|assoc hs|A b]; simpl in Hin; try destruct Hin.
        assert (X : In (TDef a d) (decl_events predefs (DToken n k v))).
        { destruct k as [|[|k]]; simpl in *.
          - destruct Hin as [Hin|[]]. inversion Hin; subst. left. reflexivity.
          - destruct Hin as [Hin|[]]. inversion Hin; subst. left. reflexivity.
          - destruct (find _ predefs) as [p|]; destruct Hin as [Hin|[]]; inversion Hin; subst. left. reflexivity. }
        exists (TDef a d). split; [|reflexivity]. unfold events. apply in_flat_map. exists (DToken n k v). split; assumption.
      + exists (TUse a lit). split; [|reflexivity]. apply use_event_iff. exact Hu.
  Qed.
End Main.

(* ---- which diagnostics the table produces, read off the declaration list ---- *)
Lemma in_entry_diags a ts d :
  In d (flat_map (fun e => match te_defs e with
                           | [] => [NoDefinition (te_name e)]
                           | [_] => []
                           | _ => [MultipleDefinitions (te_name e)]
                           end) ts) ->
  d = NoDefinition a \/ d = MultipleDefinitions a ->
  exists e, In e ts /\ te_name e = a /\
            (d = NoDefinition a -> te_defs e = []) /\ (d = MultipleDefinitions a -> 2 <= length (te_defs e)).
Proof.
  intros Hin Hd. apply in_flat_map in Hin as [e [He Hin]]. exists e. split; [exact He|].
  destruct (te_defs e) as [|x [|y t]] eqn:E; simpl in Hin.
  - destruct Hin as [<-|[]]. destruct Hd as [Hd|Hd]; inversion Hd; subst; repeat split; try reflexivity; try discriminate.
  - destruct Hin.
  - destruct Hin as [<-|[]]. destruct Hd as [Hd|Hd]; inversion Hd; subst; repeat split; try reflexivity; try discriminate; try (intros _; simpl; lia).
Qed.

Lemma table_diags_entry s a d :
  d = NoDefinition a \/ d = MultipleDefinitions a ->
  (In d (table_diags s) <->
   exists e, In e (s_terms s) /\ te_name e = a /\
             (d = NoDefinition a -> te_defs e = []) /\ (d = MultipleDefinitions a -> 2 <= length (te_defs e))).
Proof.
  intros Hd. unfold table_diags. split.
  - intros Hin. apply in_app_or in Hin as [Hin|Hin]; [apply (in_entry_diags a _ d Hin Hd)|].
    exfalso. apply in_app_or in Hin as [Hin|Hin].
    + apply in_flat_map in Hin as [[[a0 v] r] [_ Hin]].
      destruct (filter _ _) as [|[[a1 v1] r1] [|y t]]; simpl in Hin; try destruct Hin.
      destruct (String.eqb a1 a0); [|destruct Hin]. destruct Hin as [<-|[]]. destruct Hd; discriminate.
    + destruct (existsb _ _); [destruct Hin|]. destruct Hin as [<-|[]]. destruct Hd; discriminate.
  - intros [e [He [Hn [H0 H2]]]]. apply in_or_app. left. apply in_flat_map. exists e. split; [exact He|].
    destruct Hd as [->| ->].
    + rewrite (H0 eq_refl), Hn. left. reflexivity.
    + specialize (H2 eq_refl). destruct (te_defs e) as [|x [|y t]]; simpl in H2; try lia. rewrite Hn. left. reflexivity.
Qed.

Lemma final_diags_entry s a d :
  d = NoDefinition a \/ d = MultipleDefinitions a -> (In d (final_diags s) <-> In d (table_diags s)).
Proof.
  intros Hd. unfold final_diags. destruct (table_diags s) as [|x t] eqn:E.
  - split; [|intros []]. intros Hin. exfalso. apply in_app_or in Hin as [Hin|Hin].
    + apply in_map_iff in Hin as [v [<- _]]. destruct Hd; discriminate.
    + apply in_app_or in Hin as [Hin|Hin].
      * apply in_flat_map in Hin as [A [_ Hin]]. destruct (existsb _ _); [destruct Hin|]. destruct Hin as [<-|[]]. destruct Hd; discriminate.
      * destruct (levels_overlap _); [|destruct Hin]. destruct Hin as [<-|[]]. destruct Hd; discriminate.
  - split.
    + intros Hin. apply in_app_or in Hin as [Hin|Hin]; [|exact Hin].
      apply in_map_iff in Hin as [v [<- _]]. destruct Hd; discriminate.
    + intros Hin. apply in_or_app. right. exact Hin.
Qed.

Section Diagnostics.
  Variable terminal_names : list (string * string).
  Variable predefs : list (string * string).
  Let tbl ds := translate terminal_names predefs ds.

  Definition in_table (ds : list decl) (a : string) : Prop :=
    (exists d, In (a, Some d) (declared predefs ds)) \/ (exists lit, In (a, lit) (used_terms ds)).

  (* "a token used without a definition": reported for a iff a occurs and the declaration list gives it no definition *)
  Theorem no_definition_reported_iff ds a :
    names_distinct predefs ds = true ->
    (In (NoDefinition a) (final_diags (tbl ds)) <-> in_table ds a /\ defs_of predefs ds a = []).
  Proof.
    intros Hn. rewrite (final_diags_entry _ a) by (left; reflexivity). rewrite (table_diags_entry _ a) by (left; reflexivity). split.
    - intros [e [He [Hname [H0 _]]]]. split.
      + apply (table_names terminal_names predefs ds a). rewrite <- Hname. apply in_map. exact He.
      + rewrite <- Hname, <- (entry_carries_the_declarations terminal_names predefs ds e Hn He). apply H0. reflexivity.
    - intros [Hin Hd]. apply (table_names terminal_names predefs ds a) in Hin. apply in_map_iff in Hin as [e [Hname He]].
      exists e. repeat split; [exact He | exact Hname | | discriminate].
      intros _. rewrite (entry_carries_the_declarations terminal_names predefs ds e Hn He), Hname. exact Hd.
  Qed.

  (* "defined more than once": reported for a iff the declaration list gives a two or more definitions *)
  Theorem multiple_definitions_reported_iff ds a :
    names_distinct predefs ds = true ->
    (In (MultipleDefinitions a) (final_diags (tbl ds)) <-> 2 <= length (defs_of predefs ds a)).
  Proof.
    intros Hn. rewrite (final_diags_entry _ a) by (right; reflexivity). rewrite (table_diags_entry _ a) by (right; reflexivity). split.
    - intros [e [He [Hname [_ H2]]]].
      rewrite <- Hname, <- (entry_carries_the_declarations terminal_names predefs ds e Hn He). apply H2. reflexivity.
    - intros H2. pose proof (table_carries_the_declarations terminal_names predefs ds a Hn) as Hd.
      unfold defs_in in Hd. fold (tbl ds) in Hd. destruct (find (nm a) (s_terms (tbl ds))) as [e|] eqn:Ef.
      + apply find_some in Ef as [He Hname]. unfold nm in Hname. apply String.eqb_eq in Hname.
        exists e. repeat split; [exact He | exact Hname | discriminate | ]. intros _. rewrite Hd. exact H2.
      + rewrite <- Hd in H2. simpl in H2. lia.
  Qed.

  (* unknown predefined names: the errors recorded are exactly the unknown names written, in source order *)
  Definition unknown_predefs (ds : list decl) : list string :=
    flat_map (fun d => match d with
                       | DToken _ (S (S _)) v => match find (fun e => String.eqb (fst e) v) predefs with Some _ => [] | None => [v] end
                       | _ => []
                       end) ds.

  Lemma add_nt_errs s A : s_errs (add_nt s A) = s_errs s.
  Proof. unfold add_nt. destruct (existsb _ _); reflexivity. Qed.
  Lemma add_prod_errs s p : s_errs (add_prod s p) = s_errs s.
  Proof. unfold add_prod. destruct (pmem _ _); reflexivity. Qed.
  Lemma fold_add_prod_errs ps : forall s, s_errs (fold_left add_prod ps s) = s_errs s.
  Proof. induction ps as [|p ps IH]; intros s; simpl; [reflexivity|]. rewrite IH. apply add_prod_errs. Qed.
  Lemma get_name_errs s sg k : s_errs (snd (get_name terminal_names s sg k)) = s_errs s.
  Proof.
    unfold get_name. destruct (find _ (s_memo s)) as [e|].
    - destruct (String.eqb (m_get e k) ""); [|reflexivity]. destruct (synth_name _ _ _ _). reflexivity.
    - destruct (synth_name _ _ _ _). reflexivity.
  Qed.
  Lemma finish_bracket_errs k res : s_errs (snd (finish_bracket terminal_names k res)) = s_errs (snd res).
  Proof.
    unfold finish_bracket. destruct res as [sg s1].
    pose proof (get_name_errs s1 sg k) as H. destruct (get_name terminal_names s1 sg k) as [X s2]. simpl in *.
    rewrite fold_add_prod_errs, add_nt_errs. exact H.
  Qed.
  Lemma tr_errs r : forall s, s_errs (snd (tr terminal_names r s)) = s_errs s.
  Proof.
    induction r as [a lit|A|x IHx y IHy|x IHx y IHy|x IHx|x IHx|x IHx|x IHx|x IHx]; intros s; simpl.
    - destruct lit; reflexivity.
    - apply add_nt_errs.
    - specialize (IHx s). destruct (tr terminal_names x s) as [s1 st1]. specialize (IHy st1).
      destruct (tr terminal_names y st1) as [s2 st2]. simpl in *. congruence.
    - specialize (IHx s). destruct (tr terminal_names x s) as [s1 st1]. specialize (IHy st1).
      destruct (tr terminal_names y st1) as [s2 st2]. simpl in *. congruence.
    - specialize (IHx s). destruct (tr terminal_names x s) as [s1 st1]. simpl in *. exact IHx.
    - rewrite finish_bracket_errs. apply IHx.
    - rewrite finish_bracket_errs. apply IHx.
    - rewrite finish_bracket_errs. apply IHx.
    - rewrite finish_bracket_errs. apply IHx.
  Qed.
  Lemma tr_rule_errs A b s : s_errs (snd (tr_rule terminal_names A b s)) = s_errs s.
  Proof.
    unfold tr_rule. destruct b as [r|]; simpl.
    - pose proof (tr_errs r (add_nt s A)) as H. destruct (tr terminal_names r (add_nt s A)) as [sg s1]. simpl in *.
      rewrite fold_add_prod_errs, H. apply add_nt_errs.
    - rewrite add_prod_errs. apply add_nt_errs.
  Qed.
  Lemma tr_handles_errs hs : forall s, s_errs (snd (tr_handles terminal_names hs s)) = s_errs s.
  Proof.
    induction hs as [|h hs IH]; intros s; simpl; [reflexivity|]. destruct h as [a lit|A b].
    - specialize (IH (if lit then add_string_terminal s a else add_token_terminal s a)).
      destruct (tr_handles terminal_names hs _) as [r s2]. simpl in *. rewrite IH. destruct lit; reflexivity.
    - pose proof (tr_rule_errs A b s) as H. destruct (tr_rule terminal_names A b s) as [ps s1].
      specialize (IH s1). destruct (tr_handles terminal_names hs s1) as [r s2]. simpl in *. congruence.
  Qed.

  Theorem recorded_errors_are_the_unknown_predefs ds : s_errs (tbl ds) = unknown_predefs ds.
  Proof.
    unfold tbl, translate, unknown_predefs.
    assert (H : forall s, s_errs (fold_left (tr_decl terminal_names predefs) ds s)
                          = s_errs s ++ flat_map (fun d => match d with
                                | DToken _ (S (S _)) v => match find (fun e => String.eqb (fst e) v) predefs with Some _ => [] | None => [v] end
                                | _ => []
                                end) ds).
    { induction ds as [|d ds IH]; intros s; simpl; [rewrite app_nil_r; reflexivity|].
      rewrite IH. destruct d as [n k v|a hs|A b]; simpl.
      - destruct k as [|[|k]]; simpl; try reflexivity.
        destruct (find _ predefs); simpl; [reflexivity | rewrite <- app_assoc; reflexivity].
      - pose proof (tr_handles_errs hs s) as H. destruct (tr_handles terminal_names hs s) as [phs s1]. simpl in *. rewrite H. reflexivity.
      - rewrite tr_rule_errs. reflexivity. }
    apply (H st0).
  Qed.

  Theorem unknown_predef_reported_iff ds v :
    In (InvalidPredef v) (final_diags (tbl ds)) <-> In v (unknown_predefs ds).
  Proof.
    rewrite <- recorded_errors_are_the_unknown_predefs. unfold final_diags.
    assert (Hpre : In (InvalidPredef v) (map InvalidPredef (s_errs (tbl ds))) <-> In v (s_errs (tbl ds))).
    { rewrite in_map_iff. split; [intros [x [Hx Hin]]; inversion Hx; subst; exact Hin | intros H; exists v; split; [reflexivity | exact H]]. }
    assert (Htd : ~ In (InvalidPredef v) (table_diags (tbl ds))).
    { unfold table_diags. intros Hin. apply in_app_or in Hin as [Hin|Hin].
      - apply in_flat_map in Hin as [e [_ Hin]]. destruct (te_defs e) as [|x [|y t]]; simpl in Hin;
          [destruct Hin as [Hin|[]]; discriminate | destruct Hin | destruct Hin as [Hin|[]]; discriminate].
      - apply in_app_or in Hin as [Hin|Hin].
        + apply in_flat_map in Hin as [[[a0 v0] r] [_ Hin]].
          destruct (filter _ _) as [|[[a1 v1] r1] [|y t]]; simpl in Hin; try destruct Hin.
          destruct (String.eqb a1 a0); [|destruct Hin]. destruct Hin as [Hin|[]]. discriminate.
        + destruct (existsb _ _); [destruct Hin|]. destruct Hin as [Hin|[]]. discriminate. }
    destruct (table_diags (tbl ds)) as [|x t] eqn:E.
    - rewrite in_app_iff, Hpre. split; [|intros H; left; exact H]. intros [H|Hin]; [exact H|]. exfalso.
      apply in_app_or in Hin as [Hin|Hin].
      + apply in_flat_map in Hin as [A [_ Hin]]. destruct (existsb _ _); [destruct Hin|]. destruct Hin as [Hin|[]]. discriminate.
      + destruct (levels_overlap _); [|destruct Hin]. destruct Hin as [Hin|[]]. discriminate.
    - rewrite in_app_iff, Hpre. split; [|intros H; left; exact H]. intros [H|Hin]; [exact H | destruct (Htd Hin)].
  Qed.
End Diagnostics.

(* ---- two terminals with the same value ---- *)
Definition val_is (v : string) (d : string * string * bool) : bool := String.eqb (snd (fst d)) v.

Lemma two_in_length {A : Type} (l : list A) x y : In x l -> In y l -> x <> y -> 2 <= length l.
Proof.
  destruct l as [|a [|b t]]; simpl; intros Hx Hy Hne.
  - destruct Hx.
  - destruct Hx as [Hx|[]], Hy as [Hy|[]]. subst. destruct (Hne eq_refl).
  - lia.
Qed.

Lemma NoDup_map_filter {A B : Type} (f : A -> B) (P : A -> bool) (l : list A) :
  NoDup (map f l) -> NoDup (map f (filter P l)).
Proof.
  induction l as [|x l IH]; simpl; intros H; [constructor|]. inversion H as [|? ? Hx Hl]; subst.
  destruct (P x); simpl; [|apply IH; exact Hl]. constructor; [|apply IH; exact Hl].
  intros Hin. apply Hx. apply in_map_iff in Hin as [y [Hy Hin]]. apply filter_In in Hin as [Hin _].
  apply in_map_iff. exists y. split; assumption.
Qed.

Definition same_value_part (sd : list (string * string * bool)) : list diag :=
  flat_map (fun d => let '(a, v, _) := d in
                     let same := filter (fun d' => String.eqb (snd (fst d')) v) sd in
                     match same with
                     | _ :: _ :: _ =>
                       match same with
                       | (a0, _, _) :: _ => if String.eqb a0 a then [SameValue v (map (fun d' => fst (fst d')) same)] else []
                       | [] => []
                       end
                     | _ => []
                     end) sd.

Lemma same_value_part_sound sd v ts :
  In (SameValue v ts) (same_value_part sd) ->
  exists x y t, filter (val_is v) sd = x :: y :: t.
Proof.
  unfold same_value_part. intros H. apply in_flat_map in H as [[[a v'] r] [_ H]].
  destruct (filter (fun d' => String.eqb (snd (fst d')) v') sd) as [|[[a1 v1] r1] [|y t]] eqn:E; simpl in H; try destruct H.
  destruct (String.eqb a1 a); [|destruct H]. destruct H as [H|[]]. inversion H; subst.
  exists (a1, v1, r1), y, t. exact E.
Qed.

Lemma same_value_part_complete sd v :
  2 <= length (filter (val_is v) sd) -> exists ts, In (SameValue v ts) (same_value_part sd).
Proof.
  intros H. destruct (filter (val_is v) sd) as [|[[a0 v0] r0] [|y t]] eqn:E; simpl in H; try lia.
  assert (H0 : In (a0, v0, r0) (filter (val_is v) sd)) by (rewrite E; left; reflexivity).
  apply filter_In in H0 as [Hin Hv]. unfold val_is in Hv. simpl in Hv. apply String.eqb_eq in Hv. subst v0.
  eexists. unfold same_value_part. apply in_flat_map. exists (a0, v, r0). split; [exact Hin|].
  change (fun d' : string * string * bool => String.eqb (snd (fst d')) v) with (val_is v). rewrite E.
  rewrite String.eqb_refl. left. reflexivity.
Qed.

Lemma table_diags_same_value s v ts :
  In (SameValue v ts) (table_diags s) <-> In (SameValue v ts) (same_value_part (single_defs s)).
Proof.
  unfold table_diags. fold (same_value_part (single_defs s)). rewrite !in_app_iff. split.
  - intros [H|[H|H]]; [|exact H|].
    + apply in_flat_map in H as [e [_ H]]. destruct (te_defs e) as [|x [|y t]]; simpl in H;
        [destruct H as [H|[]]; discriminate | destruct H | destruct H as [H|[]]; discriminate].
    + destruct (existsb _ _); [destruct H|]. destruct H as [H|[]]. discriminate.
  - intros H. right. left. exact H.
Qed.

Lemma final_diags_same_value s v ts :
  In (SameValue v ts) (final_diags s) <-> In (SameValue v ts) (table_diags s).
Proof.
  unfold final_diags. destruct (table_diags s) as [|x t] eqn:E.
  - split; [|intros []]. intros H. exfalso. apply in_app_or in H as [H|H].
    + apply in_map_iff in H as [w [H _]]. discriminate.
    + apply in_app_or in H as [H|H].
      * apply in_flat_map in H as [A [_ H]]. destruct (existsb _ _); [destruct H|]. destruct H as [H|[]]. discriminate.
      * destruct (levels_overlap _); [|destruct H]. destruct H as [H|[]]. discriminate.
  - rewrite in_app_iff. split; [|intros H; right; exact H]. intros [H|H]; [|exact H].
    apply in_map_iff in H as [w [H _]]. discriminate.
Qed.

Lemma in_single_defs s a v r :
  In (a, v, r) (single_defs s) <-> exists e, In e (s_terms s) /\ te_name e = a /\ te_defs e = [(v, r)].
Proof.
  unfold single_defs. rewrite in_flat_map. split.
  - intros [e [He H]]. exists e. split; [exact He|]. destruct (te_defs e) as [|[v0 r0] [|y t]]; simpl in H.
    + destruct H.
    + destruct H as [H|[]]. inversion H; subst. split; reflexivity.
    + destruct H.
  - intros [e [He [Hn Hd]]]. exists e. split; [exact He|]. rewrite Hd, Hn. left. reflexivity.
Qed.

Lemma single_defs_names s :
  map (fun d : string * string * bool => fst (fst d)) (single_defs s)
  = map te_name (filter (fun e => match te_defs e with [_] => true | _ => false end) (s_terms s)).
Proof.
  unfold single_defs. induction (s_terms s) as [|e l IH]; simpl; [reflexivity|].
  destruct (te_defs e) as [|[v r] [|y t]]; simpl; rewrite ?IH; reflexivity.
Qed.

Section SameValue.
  Variable terminal_names : list (string * string).
  Variable predefs : list (string * string).
  Let tbl ds := translate terminal_names predefs ds.

  (* "two terminals with the same value": reported for v iff two different names of the table each have v as their one
     definition, read off the declaration list *)
  Theorem same_value_reported_iff ds v :
    names_distinct predefs ds = true ->
    ((exists ts, In (SameValue v ts) (final_diags (tbl ds))) <->
     exists a b r1 r2, a <> b /\ in_table predefs ds a /\ in_table predefs ds b /\
                       defs_of predefs ds a = [(v, r1)] /\ defs_of predefs ds b = [(v, r2)]).
  Proof.
    intros Hn. split.
    - intros [ts H]. apply final_diags_same_value, table_diags_same_value, same_value_part_sound in H as [x [y [t E]]].
      assert (Hnd : NoDup (map (fun d : string * string * bool => fst (fst d)) (filter (val_is v) (single_defs (tbl ds))))).
      { apply NoDup_map_filter. rewrite single_defs_names. apply NoDup_map_filter. apply table_names_are_unique. }
      rewrite E in Hnd. simpl in Hnd. inversion Hnd as [|? ? Hxy _]; subst.
      assert (Hx : In x (filter (val_is v) (single_defs (tbl ds)))) by (rewrite E; left; reflexivity).
      assert (Hy : In y (filter (val_is v) (single_defs (tbl ds)))) by (rewrite E; right; left; reflexivity).
      apply filter_In in Hx as [Hx Vx]. apply filter_In in Hy as [Hy Vy].
      destruct x as [[a va] r1], y as [[b vb] r2]. unfold val_is in Vx, Vy. simpl in *.
      apply String.eqb_eq in Vx. apply String.eqb_eq in Vy. subst va vb.
      apply in_single_defs in Hx as [e1 [He1 [Hn1 Hd1]]]. apply in_single_defs in Hy as [e2 [He2 [Hn2 Hd2]]].
      exists a, b, r1, r2. repeat split.
      + intros Hab. apply Hxy. left. symmetry. exact Hab.
      + apply (table_names terminal_names predefs ds a). rewrite <- Hn1. apply in_map. exact He1.
      + apply (table_names terminal_names predefs ds b). rewrite <- Hn2. apply in_map. exact He2.
      + rewrite <- Hn1, <- (entry_carries_the_declarations terminal_names predefs ds e1 Hn He1). exact Hd1.
      + rewrite <- Hn2, <- (entry_carries_the_declarations terminal_names predefs ds e2 Hn He2). exact Hd2.
    - intros (a & b & r1 & r2 & Hab & Ha & Hb & Da & Db).
      apply (table_names terminal_names predefs ds a) in Ha. apply in_map_iff in Ha as [e1 [Hn1 He1]].
      apply (table_names terminal_names predefs ds b) in Hb. apply in_map_iff in Hb as [e2 [Hn2 He2]].
      assert (S1 : In (a, v, r1) (single_defs (tbl ds))).
      { apply in_single_defs. exists e1. repeat split; [exact He1 | exact Hn1|].
        rewrite (entry_carries_the_declarations terminal_names predefs ds e1 Hn He1), Hn1. exact Da. }
      assert (S2 : In (b, v, r2) (single_defs (tbl ds))).
      { apply in_single_defs. exists e2. repeat split; [exact He2 | exact Hn2|].
        rewrite (entry_carries_the_declarations terminal_names predefs ds e2 Hn He2), Hn2. exact Db. }
      assert (L : 2 <= length (filter (val_is v) (single_defs (tbl ds)))).
      { apply (two_in_length _ (a, v, r1) (b, v, r2)).
        - apply filter_In. split; [exact S1 | apply String.eqb_refl].
        - apply filter_In. split; [exact S2 | apply String.eqb_refl].
        - intros H. inversion H. apply Hab. assumption. }
      destruct (same_value_part_complete _ v L) as [ts H]. exists ts.
      apply final_diags_same_value, table_diags_same_value. exact H.
  Qed.
End SameValue.
