(* Iteration-order independence (C15).

   Go randomises the order in which a `range` over a map visits its entries.  The pipeline is
   single-threaded, so these ranges (listed from the source by the translator, mode "sites") are its only
   source of nondeterminism besides the decorative emoji.  Each site is modelled as a fold over an ARBITRARY
   permutation of the map's keys; the theorems say the result does not depend on the permutation.

   Shapes of sites and the lemma that covers each:
     collect_keys_sorted   keys appended to a slice which is then sorted        isort_canonical
     insert_into_ordered   each key inserted into an ordered (canonical) store   fold_insert_canonical
     per_entry_update      each entry's value updated from that value alone      pointwise_update_independent
   plus the models of the two sites that feed output: the terminal map of Spec.DFA (final-state lists and
   conflict diagnostics) and the duplicate-value diagnostics of the symbol table. *)
From Coq Require Import List Bool Arith NArith Lia Permutation Sorted String.
Import ListNotations.

(* ---- canonical sorting over a decidable total order ---- *)
Section Sort.
  Variable A : Type.
  Variable leb : A -> A -> bool.
  Hypothesis leb_total : forall x y, leb x y = true \/ leb y x = true.
  Hypothesis leb_antisym : forall x y, leb x y = true -> leb y x = true -> x = y.
  Hypothesis leb_trans : forall x y z, leb x y = true -> leb y z = true -> leb x z = true.

  Fixpoint insert (x : A) (l : list A) : list A :=
    match l with
    | [] => [x]
    | y :: t => if leb x y then x :: l else y :: insert x t
    end.
  Definition isort (l : list A) : list A := fold_right insert [] l.

  Definition le (x y : A) : Prop := leb x y = true.

  Lemma insert_perm x l : Permutation (insert x l) (x :: l).
  Proof.
    induction l as [|y t IH]; simpl; [apply Permutation_refl|].
    destruct (leb x y); [apply Permutation_refl|].
    eapply Permutation_trans; [apply perm_skip; exact IH | apply perm_swap].
  Qed.

  Lemma isort_perm l : Permutation (isort l) l.
  Proof.
    induction l as [|x l IH]; simpl; [constructor|].
    eapply Permutation_trans; [apply insert_perm | apply perm_skip; exact IH].
  Qed.

  Lemma insert_sorted x l : StronglySorted le l -> StronglySorted le (insert x l).
  Proof.
    induction l as [|y t IH]; intros Hs; simpl.
    - constructor; constructor.
    - inversion Hs as [|y' t' Ht Hall]; subst.
      destruct (leb x y) eqn:E.
      + constructor; [exact Hs|]. constructor; [exact E|].
        rewrite Forall_forall in *. intros z Hz. eapply leb_trans; [exact E | apply Hall; exact Hz].
      + constructor; [apply IH; exact Ht|].
        rewrite Forall_forall in *. intros z Hz.
        apply (Permutation_in _ (insert_perm x t)) in Hz. destruct Hz as [<-|Hz].
        * destruct (leb_total x y) as [H|H]; [congruence | exact H].
        * apply Hall; exact Hz.
  Qed.

  Lemma isort_sorted l : StronglySorted le (isort l).
  Proof. induction l as [|x l IH]; simpl; [constructor | apply insert_sorted; exact IH]. Qed.

  (* antisymmetry is only needed among the elements being sorted (e.g. definitions of distinct terminals) *)
  Definition antisym_on (l : list A) : Prop :=
    forall x y, In x l -> In y l -> leb x y = true -> leb y x = true -> x = y.

  Lemma sorted_perm_unique l1 : forall l2,
    antisym_on l1 -> StronglySorted le l1 -> StronglySorted le l2 -> Permutation l1 l2 -> l1 = l2.
  Proof.
    induction l1 as [|a t1 IH]; intros l2 Hanti H1 H2 Hp.
    - apply Permutation_nil in Hp. symmetry; exact Hp.
    - destruct l2 as [|b t2]; [apply Permutation_sym, Permutation_nil in Hp; discriminate Hp|].
      inversion H1 as [|? ? Ht1 Ha]; subst. inversion H2 as [|? ? Ht2 Hb]; subst.
      rewrite Forall_forall in Ha, Hb.
      assert (Hab : a = b).
      { assert (Hin_a : In a (b :: t2)) by (eapply Permutation_in; [exact Hp | left; reflexivity]).
        assert (Hin_b : In b (a :: t1)) by (eapply Permutation_in; [apply Permutation_sym; exact Hp | left; reflexivity]).
        destruct Hin_a as [->|Hin_a]; [reflexivity|].
        destruct Hin_b as [->|Hin_b]; [reflexivity|].
        apply Hanti; [left; reflexivity | right; exact Hin_b | apply Ha; exact Hin_b | apply Hb; exact Hin_a]. }
      subst b. f_equal. apply IH; [| exact Ht1 | exact Ht2 | eapply Permutation_cons_inv; exact Hp].
      intros x y Hx Hy. apply Hanti; right; assumption.
  Qed.

  Lemma antisym_on_perm l1 l2 : Permutation l1 l2 -> antisym_on l1 -> antisym_on l2.
  Proof.
    intros Hp H x y Hx Hy. apply H; eapply Permutation_in; try (apply Permutation_sym; exact Hp); assumption.
  Qed.

  Theorem isort_canonical_on l1 l2 : antisym_on l1 -> Permutation l1 l2 -> isort l1 = isort l2.
  Proof.
    intros Hanti Hp. apply sorted_perm_unique; try apply isort_sorted.
    - eapply antisym_on_perm; [apply Permutation_sym, isort_perm | exact Hanti].
    - eapply Permutation_trans; [apply isort_perm|].
      eapply Permutation_trans; [exact Hp | apply Permutation_sym, isort_perm].
  Qed.

  (* the sorted slice is the same whatever order the map delivered its keys in *)
  Theorem isort_canonical l1 l2 : Permutation l1 l2 -> isort l1 = isort l2.
  Proof. apply isort_canonical_on. intros x y _ _. apply leb_antisym. Qed.

  (* inserting the keys one by one into an ordered store (fold_left, the order of a Go loop) *)
  Lemma fold_insert_is_isort l : forall acc, StronglySorted le acc ->
    fold_left (fun s x => insert x s) l acc = isort (l ++ acc).
  Proof.
    induction l as [|x l IH]; intros acc Hs; simpl.
    - symmetry. apply sorted_perm_unique; [intros x y _ _; apply leb_antisym | apply isort_sorted | exact Hs | apply isort_perm].
    - rewrite IH by (apply insert_sorted; exact Hs).
      change (isort (l ++ insert x acc) = isort (x :: l ++ acc)). apply isort_canonical.
      eapply Permutation_trans; [apply Permutation_app_head, insert_perm|].
      apply Permutation_sym, Permutation_middle.
  Qed.

  Theorem fold_insert_canonical l1 l2 :
    Permutation l1 l2 -> fold_left (fun s x => insert x s) l1 [] = fold_left (fun s x => insert x s) l2 [].
  Proof.
    intros Hp. rewrite !fold_insert_is_isort by constructor. rewrite !app_nil_r. apply isort_canonical; exact Hp.
  Qed.
End Sort.

Arguments insert {A} leb x l.
Arguments isort {A} leb l.

(* ---- the two concrete orders: states / runes (N) and strings as byte lists (lexicographic) ---- *)
Lemma Nleb_total x y : N.leb x y = true \/ N.leb y x = true.
Proof. rewrite !N.leb_le. lia. Qed.
Lemma Nleb_antisym x y : N.leb x y = true -> N.leb y x = true -> x = y.
Proof. rewrite !N.leb_le. lia. Qed.
Lemma Nleb_trans x y z : N.leb x y = true -> N.leb y z = true -> N.leb x z = true.
Proof. rewrite !N.leb_le. lia. Qed.

Fixpoint lex_leb (a b : list N) : bool :=
  match a, b with
  | [], _ => true
  | _ :: _, [] => false
  | x :: a', y :: b' => if N.ltb x y then true else if N.eqb x y then lex_leb a' b' else false
  end.

Lemma lex_total a : forall b, lex_leb a b = true \/ lex_leb b a = true.
Proof.
  induction a as [|x a IH]; intros [|y b]; simpl; auto.
  destruct (N.ltb_spec x y), (N.ltb_spec y x), (N.eqb_spec x y), (N.eqb_spec y x); auto; try lia; try apply IH.
Qed.
Lemma lex_antisym a : forall b, lex_leb a b = true -> lex_leb b a = true -> a = b.
Proof.
  induction a as [|x a IH]; intros [|y b]; simpl; try discriminate; auto.
  destruct (N.ltb_spec x y), (N.ltb_spec y x), (N.eqb_spec x y), (N.eqb_spec y x); try discriminate; try lia.
  intros H1 H2. subst y. f_equal. apply IH; assumption.
Qed.
Lemma lex_trans a : forall b c, lex_leb a b = true -> lex_leb b c = true -> lex_leb a c = true.
Proof.
  induction a as [|x a IH]; intros [|y b] [|z c]; simpl; try discriminate; auto.
  destruct (N.ltb_spec x y), (N.ltb_spec y z), (N.ltb_spec x z), (N.eqb_spec x y), (N.eqb_spec y z), (N.eqb_spec x z);
    try discriminate; try lia; auto; try apply IH.
Qed.

Definition sortN := isort N.leb.
Definition sortS := isort lex_leb.

Theorem sortN_canonical l1 l2 : Permutation l1 l2 -> sortN l1 = sortN l2.
Proof. apply isort_canonical; [apply Nleb_total | apply Nleb_antisym | apply Nleb_trans]. Qed.
Theorem sortS_canonical l1 l2 : Permutation l1 l2 -> sortS l1 = sortS l2.
Proof. apply isort_canonical; [apply lex_total | apply lex_antisym | apply lex_trans]. Qed.

(* ---- per-entry update: m[k] := f k (m[k]) for every key, in any order ---- *)
Section Pointwise.
  Variable V : Type.
  Variable f : N -> V -> V.
  Definition upd (m : list (N * V)) (k : N) : list (N * V) :=
    map (fun e => if N.eqb (fst e) k then (fst e, f k (snd e)) else e) m.

  Lemma upd_comm m j k : j <> k -> upd (upd m j) k = upd (upd m k) j.
  Proof.
    intros Hjk. unfold upd. rewrite !map_map. apply map_ext. intros [a v]; simpl.
    destruct (N.eqb_spec a j), (N.eqb_spec a k); simpl; subst; try congruence;
      repeat match goal with |- context [N.eqb ?p ?q] => destruct (N.eqb_spec p q); try congruence end.
  Qed.

  Theorem pointwise_update_independent l1 l2 :
    Permutation l1 l2 -> NoDup l1 -> forall m, fold_left upd l1 m = fold_left upd l2 m.
  Proof.
    induction 1 as [|x l l' Hp IH|x y l|l l' l'' H1 IH1 H2 IH2]; intros Hnd m; simpl.
    - reflexivity.
    - inversion Hnd; subst. apply IH; assumption.
    - inversion Hnd as [|? ? Hx Hnd']; subst. rewrite (upd_comm m y x); [reflexivity|].
      intros ->. apply Hx. left; reflexivity.
    - rewrite IH1 by assumption. apply IH2. eapply Permutation_NoDup; eassumption.
  Qed.
End Pointwise.

(* ---- the terminal map of Spec.DFA ---- *)
Record tdef := { td_term : string; td_regex : bool; td_pos : string }.

Definition tdef_eqb (a b : tdef) : bool :=
  String.eqb (td_term a) (td_term b) && Bool.eqb (td_regex a) (td_regex b) && String.eqb (td_pos a) (td_pos b).

(* stateDefs[f]: the definitions whose automaton accepts in the combined state f, in definition order *)
Definition state_defs (state_map : list (list N)) (defs : list tdef) (f : N) : list tdef :=
  flat_map (fun fd => map (fun _ => snd fd) (filter (N.eqb f) (fst fd))) (combine state_map defs).

Definition keys_of (state_map : list (list N)) : list N := nodup N.eq_dec (List.concat state_map).

Inductive verdict := Owner (a : string) | Conflict (ds : list tdef) | Nobody.

Definition judge (ds : list tdef) : verdict :=
  match ds with
  | [] => Nobody
  | [d] => Owner (td_term d)
  | _ => match filter (fun d => negb (td_regex d)) ds with
         | [d] => Owner (td_term d)
         | _ => Conflict ds
         end
  end.

Definition tmap := list (string * list N).
Fixpoint tm_add (m : tmap) (a : string) (f : N) : tmap :=
  match m with
  | [] => [(a, [f])]
  | (b, l) :: t => if String.eqb a b then (b, l ++ [f]) :: t else (b, l) :: tm_add t a f
  end.
Fixpoint tm_get (m : tmap) (a : string) : list N :=
  match m with
  | [] => []
  | (b, l) :: t => if String.eqb a b then l else tm_get t a
  end.

Definition visit (sd : N -> list tdef) (acc : tmap * list (list tdef)) (f : N) : tmap * list (list tdef) :=
  match judge (sd f) with
  | Nobody => acc
  | Owner a => (tm_add (fst acc) a f, snd acc)
  | Conflict ds => (fst acc, snd acc ++ [ds])
  end.

(* the loop over the map, visiting the keys in the order given *)
Definition dfa_tail (order : list N) (sd : N -> list tdef) : tmap * list (list tdef) :=
  fold_left (visit sd) order ([], []).

(* what the caller sees: the error when there is a conflict, otherwise the list of states per definition
   (the emitted lexer prints them in this order) *)
Definition observable (defs : list tdef) (r : tmap * list (list tdef)) : list (string * list N) * list (list tdef) :=
  match snd r with
  | [] => (map (fun d => (td_term d, tm_get (fst r) (td_term d))) defs, [])
  | cs => ([], cs)
  end.

(* the code as repaired: keys collected, sorted, then visited *)
Definition dfa_result (order : list N) (state_map : list (list N)) (defs : list tdef) :=
  observable defs (dfa_tail (sortN order) (state_defs state_map defs)).

Theorem dfa_result_independent state_map defs o1 o2 :
  Permutation o1 o2 -> dfa_result o1 state_map defs = dfa_result o2 state_map defs.
Proof. intros Hp. unfold dfa_result. rewrite (sortN_canonical _ _ Hp). reflexivity. Qed.

(* closed form: the states of a terminal are the owned keys in ascending order; the conflicts are the
   conflicting keys in ascending order *)
Lemma tm_get_add m a b f : tm_get (tm_add m a f) b = if String.eqb b a then tm_get m b ++ [f] else tm_get m b.
Proof.
  induction m as [|[c l] t IH]; simpl.
  - destruct (String.eqb b a); reflexivity.
  - destruct (String.eqb_spec a c) as [->|Hac]; simpl.
    + destruct (String.eqb_spec b c) as [->|Hbc]; reflexivity.
    + destruct (String.eqb_spec b c) as [->|Hbc].
      * destruct (String.eqb_spec c a) as [->|_]; [contradiction | reflexivity].
      * apply IH.
Qed.

Definition owned (sd : N -> list tdef) (a : string) (f : N) : bool :=
  match judge (sd f) with Owner b => String.eqb a b | _ => false end.
Definition conflict_of (sd : N -> list tdef) (f : N) : list (list tdef) :=
  match judge (sd f) with Conflict ds => [ds] | _ => [] end.

Lemma dfa_tail_closed sd l : forall acc,
  let r := fold_left (visit sd) l acc in
  (forall a, tm_get (fst r) a = tm_get (fst acc) a ++ filter (owned sd a) l)
  /\ snd r = snd acc ++ flat_map (conflict_of sd) l.
Proof.
  induction l as [|f l IH]; intros acc; simpl.
  - split; [intros a; rewrite app_nil_r; reflexivity | rewrite app_nil_r; reflexivity].
  - destruct (IH (visit sd acc f)) as [IH1 IH2]. split.
    + intros a. rewrite IH1. unfold visit, owned, conflict_of. destruct (judge (sd f)) as [b|ds|]; simpl.
      * rewrite tm_get_add. destruct (String.eqb a b); [rewrite <- app_assoc; reflexivity | reflexivity].
      * reflexivity.
      * reflexivity.
    + rewrite IH2. unfold visit, conflict_of. destruct (judge (sd f)) as [b|ds|]; simpl; try reflexivity.
      rewrite <- app_assoc. reflexivity.
Qed.

Theorem states_ascending order sd a :
  tm_get (fst (dfa_tail (sortN order) sd)) a = filter (owned sd a) (sortN order).
Proof. unfold dfa_tail. destruct (dfa_tail_closed sd (sortN order) ([], [])) as [H _]. apply H. Qed.

Theorem conflicts_ascending order sd :
  snd (dfa_tail (sortN order) sd) = flat_map (conflict_of sd) (sortN order).
Proof. unfold dfa_tail. destruct (dfa_tail_closed sd (sortN order) ([], [])) as [_ H]. apply H. Qed.

(* the code before the repair (range over the map itself): the observable depends on the order *)
Definition dfa_result_unsorted (order : list N) (state_map : list (list N)) (defs : list tdef) :=
  observable defs (dfa_tail order (state_defs state_map defs)).

Definition w_defs : list tdef := [ {| td_term := "ID"; td_regex := true; td_pos := "" |} ].
Theorem unsorted_iteration_refuted :
  exists state_map defs o1 o2, Permutation o1 o2 /\ dfa_result_unsorted o1 state_map defs <> dfa_result_unsorted o2 state_map defs.
Proof.
  exists [[3; 4]%N], w_defs, [3; 4]%N, [4; 3]%N. split; [apply perm_swap|]. vm_compute. discriminate.
Qed.

(* ---- duplicate-value diagnostics of the symbol table ---- *)
(* entries: the singly-defined terminals in the (fixed) order of the table; value as bytes *)
Definition dup_defs (entries : list (list N * tdef)) (v : list N) : list tdef :=
  map snd (filter (fun e => if list_eq_dec N.eq_dec (fst e) v then true else false) entries).

Definition dup_diags (order : list (list N)) (entries : list (list N * tdef)) : list (list N * list tdef) :=
  flat_map (fun v => let ds := dup_defs entries v in if Nat.ltb 1 (List.length ds) then [(v, ds)] else []) (sortS order).

Theorem dup_diags_independent entries o1 o2 :
  Permutation o1 o2 -> dup_diags o1 entries = dup_diags o2 entries.
Proof. intros Hp. unfold dup_diags. rewrite (sortS_canonical _ _ Hp). reflexivity. Qed.

Definition dup_diags_unsorted (order : list (list N)) (entries : list (list N * tdef)) : list (list N * list tdef) :=
  flat_map (fun v => let ds := dup_defs entries v in if Nat.ltb 1 (List.length ds) then [(v, ds)] else []) order.

Theorem unsorted_diagnostics_refuted :
  exists entries o1 o2, Permutation o1 o2 /\ dup_diags_unsorted o1 entries <> dup_diags_unsorted o2 entries.
Proof.
  exists [([120%N], {| td_term := "AA"; td_regex := false; td_pos := "2:1" |});
          ([120%N], {| td_term := "BB"; td_regex := false; td_pos := "3:1" |});
          ([121%N], {| td_term := "CC"; td_regex := false; td_pos := "4:1" |});
          ([121%N], {| td_term := "DD"; td_regex := false; td_pos := "5:1" |})],
         [[120%N]; [121%N]], [[121%N]; [120%N]].
  split; [apply perm_swap|]. vm_compute. discriminate.
Qed.

(* non-vacuity: a keyword inside an identifier pattern, two states for ID, one shared state owned by the keyword *)
Example dfa_result_example :
  dfa_result [5; 3; 4]%N [[5]; [3; 4; 5]]%N
             [ {| td_term := "if"; td_regex := false; td_pos := "" |}; {| td_term := "ID"; td_regex := true; td_pos := "" |} ]
  = ([("if"%string, [5%N]); ("ID"%string, [3; 4]%N)], []).
Proof. vm_compute. reflexivity. Qed.

(* ---- SymbolTable.Definitions(): the singly-defined entries, collected in the (random) order of the hash
        table, then sorted: literals before patterns, shorter names first, then by name ---- *)
Fixpoint bytes (s : string) : list N :=
  match s with
  | EmptyString => []
  | String c t => Ascii.N_of_ascii c :: bytes t
  end.

Lemma bytes_inj s : forall t, bytes s = bytes t -> s = t.
Proof.
  induction s as [|c s IH]; intros [|d t]; simpl; try discriminate; [reflexivity|].
  intros H. injection H as Hc Ht. f_equal; [|apply IH; exact Ht].
  rewrite <- (Ascii.ascii_N_embedding c), <- (Ascii.ascii_N_embedding d), Hc. reflexivity.
Qed.

Definition def_key (d : tdef) : list N :=
  (if td_regex d then 1%N else 0%N) :: N.of_nat (String.length (td_term d)) :: bytes (td_term d).
Definition def_leb (d1 d2 : tdef) : bool := lex_leb (def_key d1) (def_key d2).

Definition sort_defs := isort def_leb.

Lemma def_key_term d1 d2 : def_key d1 = def_key d2 -> td_term d1 = td_term d2.
Proof. unfold def_key. intros H. injection H as _ _ H. apply bytes_inj; exact H. Qed.

Lemma in_same_term_eq (l : list tdef) : NoDup (map td_term l) ->
  forall x y, In x l -> In y l -> td_term x = td_term y -> x = y.
Proof.
  induction l as [|d l IH]; intros Hnd x y Hx Hy Hxy; [destruct Hx|].
  simpl in Hnd. inversion Hnd as [|? ? Hnotin Hnd']; subst.
  destruct Hx as [<-|Hx], Hy as [<-|Hy].
  - reflexivity.
  - exfalso. apply Hnotin. rewrite Hxy. apply in_map; exact Hy.
  - exfalso. apply Hnotin. rewrite <- Hxy. apply in_map; exact Hx.
  - apply IH; assumption.
Qed.

(* every terminal has one entry in the table, so the collected definitions have distinct terminals *)
Theorem definitions_independent l1 l2 :
  NoDup (map td_term l1) -> Permutation l1 l2 -> sort_defs l1 = sort_defs l2.
Proof.
  intros Hnd Hp. unfold sort_defs. apply isort_canonical_on.
  - intros x y. apply lex_total.
  - intros x y z. apply lex_trans.
  - intros x y Hx Hy H1 H2. apply (in_same_term_eq l1 Hnd x y Hx Hy).
    apply def_key_term. apply lex_antisym; assumption.
  - exact Hp.
Qed.

(* the terminals in ascending order (orderedTerminals) *)
Definition ordered_terminals (l : list string) : list (list N) := sortS (map bytes l).
Theorem ordered_terminals_independent l1 l2 : Permutation l1 l2 -> ordered_terminals l1 = ordered_terminals l2.
Proof. intros Hp. apply sortS_canonical. apply Permutation_map. exact Hp. Qed.

(* ---- SymbolTable.Verify: ensureSingleDefs and ensureDistinctDefs ---- *)
(* tab: terminal (bytes) -> the values (bytes) of its definitions, one entry per terminal *)
Inductive sdiag :=
| NoDef (a : list N)
| MultiDef (a : list N)
| SameVal (v : list N) (holders : list (list N)).

Definition bytes_eqb (a b : list N) : bool := if list_eq_dec N.eq_dec a b then true else false.

Fixpoint tab_get (tab : list (list N * list (list N))) (a : list N) : list (list N) :=
  match tab with
  | [] => []
  | (b, vs) :: t => if bytes_eqb a b then vs else tab_get t a
  end.

Definition single_diags (tab : list (list N * list (list N))) (ordered : list (list N)) : list sdiag :=
  flat_map (fun a => match tab_get tab a with [] => [NoDef a] | [_] => [] | _ => [MultiDef a] end) ordered.

Definition single_entries (tab : list (list N * list (list N))) (ordered : list (list N)) : list (list N * list N) :=
  flat_map (fun a => match tab_get tab a with [v] => [(v, a)] | _ => [] end) ordered.

Definition same_diags (entries : list (list N * list N)) (vals : list (list N)) : list sdiag :=
  flat_map (fun v => let hs := map snd (filter (fun e => bytes_eqb (fst e) v) entries) in
                     if Nat.ltb 1 (List.length hs) then [SameVal v hs] else []) vals.

(* pi1, pi2: the two traversals of the terminal hash table; pi3: the traversal of the `reverse` map *)
Definition verify_diags (tab : list (list N * list (list N))) (pi1 pi2 pi3 : list (list N)) : list sdiag :=
  single_diags tab (sortS pi1) ++ same_diags (single_entries tab (sortS pi2)) (sortS pi3).

Theorem verify_diags_independent tab p1 p2 p3 q1 q2 q3 :
  Permutation p1 q1 -> Permutation p2 q2 -> Permutation p3 q3 ->
  verify_diags tab p1 p2 p3 = verify_diags tab q1 q2 q3.
Proof.
  intros H1 H2 H3. unfold verify_diags.
  rewrite (sortS_canonical _ _ H1), (sortS_canonical _ _ H2), (sortS_canonical _ _ H3). reflexivity.
Qed.

(* before the repair: the traversal orders were used as delivered *)
Definition verify_diags_unsorted (tab : list (list N * list (list N))) (pi1 pi2 pi3 : list (list N)) : list sdiag :=
  single_diags tab pi1 ++ same_diags (single_entries tab pi2) pi3.

Theorem unsorted_verify_refuted :
  exists tab p q, Permutation p q /\ verify_diags_unsorted tab p p [] <> verify_diags_unsorted tab q q [].
Proof.
  exists [([65%N], []); ([66%N], [])], [[65%N]; [66%N]], [[66%N]; [65%N]].
  split; [apply perm_swap|]. vm_compute. discriminate.
Qed.
