(* The symbol-table model computes the translation it is specified by: under the naming the memo ends up with,
   the alternatives the model computes for a right-hand side are [Ebnf.sigma] of it, the production set is exactly
   [Translate.P_pure] (one production per alternative of every written rule, plus the expansion of every bracket
   occurrence), and the recorded precedence levels are exactly [SpecWf.directive_levels] - for EVERY declaration
   list, with no premise about names (two brackets that get the same name contribute under that one name on both
   sides).  What remains a premise of the language theorem (C01) is only that names are well chosen (D2). *)
From Coq Require Import String List Bool Arith Lia.
From Verif Require Import Cfg.Ebnf Cfg.Translate Emerge.SpecModel Emerge.SpecWf Emerge.SpecRules Emerge.SpecMemo.
Import ListNotations.

Definition bprods (nu : strings -> kind -> string) (r : erhs) : list (string * sstr) :=
  flat_map (fun kx => req_here nu (fst kx) (snd kx)) (brackets_of r).

Lemma bprods_app nu l1 l2 :
  flat_map (fun kx : kind * erhs => req_here nu (fst kx) (snd kx)) (l1 ++ l2)
  = flat_map (fun kx : kind * erhs => req_here nu (fst kx) (snd kx)) l1 ++ flat_map (fun kx : kind * erhs => req_here nu (fst kx) (snd kx)) l2.
Proof. apply flat_map_app. Qed.

Section Sigma.
  Variable terminal_names : list (string * string).
  Variable predefs : list (string * string).

  Definition tr_ok (r : erhs) : Prop :=
    forall s, memo_inv (s_memo s) ->
      memo_inv (s_memo (snd (tr terminal_names r s))) /\
      extends (s_memo s) (s_memo (snd (tr terminal_names r s))) /\
      (forall m', extends (s_memo (snd (tr terminal_names r s))) m' ->
         sigma (nu_of m') r = fst (tr terminal_names r s) /\
         (forall p, In p (s_prods (snd (tr terminal_names r s))) <-> In p (s_prods s) \/ In p (bprods (nu_of m') r))).

  Lemma bracket_ok k x : tr_ok x ->
    forall s, memo_inv (s_memo s) ->
      let res := finish_bracket terminal_names k (tr terminal_names x s) in
      memo_inv (s_memo (snd res)) /\
      extends (s_memo s) (s_memo (snd res)) /\
      (forall m', extends (s_memo (snd res)) m' ->
         sigma (nu_of m') (wrap k x) = fst res /\
         (forall p, In p (s_prods (snd res)) <-> In p (s_prods s) \/ In p (bprods (nu_of m') (wrap k x)))).
  Proof.
    intros IH s M. destruct (IH s M) as (M1 & E1 & F1). destruct (tr terminal_names x s) as [sg st1]. simpl in M1, E1, F1.
    unfold finish_bracket.
    destruct (get_name_memo terminal_names st1 sg k M1) as (M2 & E2 & N2 & Hne).
    destruct M1 as [Mok1 _].
    destruct (get_name_spec terminal_names st1 sg k Mok1) as (_ & _ & Ep & _).
    destruct (get_name terminal_names st1 sg k) as [X st2]. simpl in *.
    split; [rewrite fold_add_prod_memo, add_nt_memo; exact M2|].
    split; [rewrite fold_add_prod_memo, add_nt_memo; apply (extends_trans _ _ _ E1 E2)|].
    intros m' Em'. rewrite fold_add_prod_memo, add_nt_memo in Em'.
    assert (Em1 : extends (s_memo st1) m') by (apply (extends_trans _ _ _ E2 Em')).
    destruct (F1 m' Em1) as [Sx Px].
    assert (HX : nu_of m' sg k = X).
    { rewrite (Em' sg k); [exact N2|]. rewrite N2. exact Hne. }
    split.
    - destruct k; simpl; rewrite Sx, HX; reflexivity.
    - intros p. rewrite fold_add_prod_in, add_nt_prods, Ep, Px.
      assert (Hb : forall q, In q (bprods (nu_of m') (wrap k x)) <-> In q (req_here (nu_of m') k x) \/ In q (bprods (nu_of m') x)).
      { intros q. unfold bprods. destruct k; simpl; rewrite in_app_iff; reflexivity. }
      rewrite Hb. unfold req_here. rewrite Sx, HX. destruct k; tauto.
  Qed.

  Lemma tr_sigma r : tr_ok r.
  Proof.
    induction r as [a lit|A|x IHx y IHy|x IHx y IHy|x IHx|x IHx|x IHx|x IHx|x IHx].
    - intros s M. simpl. assert (Em : s_memo (if lit then add_string_terminal s a else add_token_terminal s a) = s_memo s) by (destruct lit; reflexivity).
      assert (Ep : s_prods (if lit then add_string_terminal s a else add_token_terminal s a) = s_prods s) by (destruct lit; reflexivity).
      rewrite Em, Ep. split; [exact M|]. split; [apply extends_refl|]. intros m' _. split; [reflexivity|].
      intros p. unfold bprods. simpl. tauto.
    - intros s M. simpl. rewrite add_nt_memo, add_nt_prods. split; [exact M|]. split; [apply extends_refl|].
      intros m' _. split; [reflexivity|]. intros p. unfold bprods. simpl. tauto.
    - intros s M. simpl tr. destruct (IHx s M) as (M1 & E1 & F1). destruct (tr terminal_names x s) as [s1 st1]. simpl in M1, E1, F1.
      destruct (IHy st1 M1) as (M2 & E2 & F2). destruct (tr terminal_names y st1) as [s2 st2]. simpl in *.
      split; [exact M2|]. split; [apply (extends_trans _ _ _ E1 E2)|]. intros m' Em'.
      destruct (F2 m' Em') as [Sy Py]. destruct (F1 m' (extends_trans _ _ _ E2 Em')) as [Sx Px].
      split; [rewrite Sx, Sy; reflexivity|]. intros p. rewrite Py, Px. unfold bprods. simpl. rewrite bprods_app, in_app_iff. tauto.
    - intros s M. simpl tr. destruct (IHx s M) as (M1 & E1 & F1). destruct (tr terminal_names x s) as [s1 st1]. simpl in M1, E1, F1.
      destruct (IHy st1 M1) as (M2 & E2 & F2). destruct (tr terminal_names y st1) as [s2 st2]. simpl in *.
      split; [exact M2|]. split; [apply (extends_trans _ _ _ E1 E2)|]. intros m' Em'.
      destruct (F2 m' Em') as [Sy Py]. destruct (F1 m' (extends_trans _ _ _ E2 Em')) as [Sx Px].
      split; [rewrite Sx, Sy; reflexivity|]. intros p. rewrite Py, Px. unfold bprods. simpl. rewrite bprods_app, in_app_iff. tauto.
    - intros s M. simpl tr. destruct (IHx s M) as (M1 & E1 & F1). destruct (tr terminal_names x s) as [s1 st1]. simpl in *.
      split; [exact M1|]. split; [exact E1|]. intros m' Em'. destruct (F1 m' Em') as [Sx Px].
      split; [rewrite Sx; reflexivity|]. intros p. rewrite Px. unfold bprods. simpl. tauto.
    - intros s M. exact (bracket_ok KGroup x IHx s M).
    - intros s M. exact (bracket_ok KOpt x IHx s M).
    - intros s M. exact (bracket_ok KStar x IHx s M).
    - intros s M. exact (bracket_ok KPlus x IHx s M).
  Qed.

  (* ---- rules ---- *)
  Definition rule_prods (nu : strings -> kind -> string) (A : string) (b : option erhs) : list (string * sstr) :=
    match b with Some r => map (fun a => (A, a)) (sigma nu r) | None => [(A, [])] end.
  Definition body_bprods (nu : strings -> kind -> string) (b : option erhs) : list (string * sstr) :=
    match b with Some r => bprods nu r | None => [] end.

  Lemma tr_rule_sigma A b s :
    memo_inv (s_memo s) ->
    memo_inv (s_memo (snd (tr_rule terminal_names A b s))) /\
    extends (s_memo s) (s_memo (snd (tr_rule terminal_names A b s))) /\
    (forall m', extends (s_memo (snd (tr_rule terminal_names A b s))) m' ->
       fst (tr_rule terminal_names A b s) = rule_prods (nu_of m') A b /\
       (forall p, In p (s_prods (snd (tr_rule terminal_names A b s))) <->
                  In p (s_prods s) \/ In p (rule_prods (nu_of m') A b) \/ In p (body_bprods (nu_of m') b))).
  Proof.
    intros M. unfold tr_rule. destruct b as [r|].
    - assert (M0 : memo_inv (s_memo (add_nt s A))) by (rewrite add_nt_memo; exact M).
      destruct (tr_sigma r (add_nt s A) M0) as (M1 & E1 & F1).
      destruct (tr terminal_names r (add_nt s A)) as [sg s1]. simpl in *. rewrite add_nt_memo in E1.
      split; [rewrite fold_add_prod_memo; exact M1|]. split; [rewrite fold_add_prod_memo; exact E1|].
      intros m' Em'. rewrite fold_add_prod_memo in Em'. destruct (F1 m' Em') as [Sr Pr]. rewrite add_nt_prods in Pr.
      split; [rewrite Sr; reflexivity|]. intros p. rewrite fold_add_prod_in, Pr, Sr. tauto.
    - simpl. rewrite add_prod_memo, add_nt_memo. split; [exact M|]. split; [apply extends_refl|].
      intros m' _. split; [reflexivity|]. intros p. rewrite add_prod_in, add_nt_prods. simpl. split.
      + intros [H|H]; [left; exact H | right; left; left; symmetry; exact H].
      + intros [H|[[H|[]]|[]]]; [left; exact H | right; symmetry; exact H].
  Qed.

  (* ---- handles ---- *)
  Lemma tr_handles_sigma hs : forall s,
    memo_inv (s_memo s) ->
    memo_inv (s_memo (snd (tr_handles terminal_names hs s))) /\
    extends (s_memo s) (s_memo (snd (tr_handles terminal_names hs s))) /\
    (forall m', extends (s_memo (snd (tr_handles terminal_names hs s))) m' ->
       fst (tr_handles terminal_names hs s) = flat_map (handle_keys (nu_of m')) hs /\
       (forall p, In p (s_prods (snd (tr_handles terminal_names hs s))) <->
                  In p (s_prods s) \/
                  In p (flat_map (fun ab : rule => rule_prods (nu_of m') (fst ab) (snd ab) ++ body_bprods (nu_of m') (snd ab)) (handle_rules hs)))).
  Proof.
    induction hs as [|h hs IH]; intros s M; simpl.
    - split; [exact M|]. split; [apply extends_refl|]. intros m' _. split; [reflexivity|]. intros p. tauto.
    - destruct h as [a lit|A b].
      + assert (M1 : memo_inv (s_memo (if lit then add_string_terminal s a else add_token_terminal s a))) by (destruct lit; exact M).
        assert (Em : s_memo (if lit then add_string_terminal s a else add_token_terminal s a) = s_memo s) by (destruct lit; reflexivity).
        assert (Ep : s_prods (if lit then add_string_terminal s a else add_token_terminal s a) = s_prods s) by (destruct lit; reflexivity).
        destruct (IH _ M1) as (M2 & E2 & F2). destruct (tr_handles terminal_names hs _) as [r s2]. simpl in *.
        rewrite Em in E2. split; [exact M2|]. split; [exact E2|]. intros m' Em'. destruct (F2 m' Em') as [Hr Hp].
        split; [rewrite Hr; reflexivity|]. intros p. rewrite Hp, Ep. tauto.
      + destruct (tr_rule_sigma A b s M) as (M1 & E1 & F1). destruct (tr_rule terminal_names A b s) as [ps s1]. simpl in *.
        destruct (IH s1 M1) as (M2 & E2 & F2). destruct (tr_handles terminal_names hs s1) as [r s2]. simpl in *.
        split; [exact M2|]. split; [apply (extends_trans _ _ _ E1 E2)|]. intros m' Em'.
        destruct (F2 m' Em') as [Hr Hp]. destruct (F1 m' (extends_trans _ _ _ E2 Em')) as [Hps Hp1].
        split.
        * rewrite Hr, Hps. f_equal. destruct b as [r0|]; simpl; [rewrite map_map; reflexivity | reflexivity].
        * intros p. rewrite Hp, Hp1, !in_app_iff. tauto.
  Qed.

  (* ---- declarations ---- *)
  Definition rules_prods (nu : strings -> kind -> string) (R : list rule) : list (string * sstr) :=
    flat_map (fun ab : rule => rule_prods nu (fst ab) (snd ab) ++ body_bprods nu (snd ab)) R.

  Definition K (D : list decl) (s : st) : Prop :=
    memo_inv (s_memo s) /\
    forall m', extends (s_memo s) m' ->
      (forall p, In p (s_prods s) <-> In p (rules_prods (nu_of m') (rules_of_decls D))) /\
      s_precs s = directive_levels (nu_of m') D.

  Lemma rules_of_decls_app D1 D2 : rules_of_decls (D1 ++ D2) = rules_of_decls D1 ++ rules_of_decls D2.
  Proof. unfold rules_of_decls. apply flat_map_app. Qed.
  Lemma directive_levels_app nu D1 D2 : directive_levels nu (D1 ++ D2) = directive_levels nu D1 ++ directive_levels nu D2.
  Proof. unfold directive_levels. apply flat_map_app. Qed.
  Lemma rules_prods_app nu R1 R2 : rules_prods nu (R1 ++ R2) = rules_prods nu R1 ++ rules_prods nu R2.
  Proof. unfold rules_prods. apply flat_map_app. Qed.

  Lemma tr_decl_K D s d : K D s -> K (D ++ [d]) (tr_decl terminal_names predefs s d).
  Proof.
    intros [M F]. destruct d as [n k v|a hs|A b].
    - assert (X : forall s', s_memo s' = s_memo s -> s_prods s' = s_prods s -> s_precs s' = s_precs s -> K (D ++ [DToken n k v]) s').
      { intros s' Em Ep Ec. split; [rewrite Em; exact M|]. intros m' Em'. rewrite Em in Em'. destruct (F m' Em') as [Fp Fl].
        rewrite Ep, Ec, rules_of_decls_app, directive_levels_app. simpl. rewrite !app_nil_r. split; assumption. }
      simpl. destruct k as [|[|k]]; try (apply X; reflexivity). destruct (find _ predefs); apply X; reflexivity.
    - simpl. destruct (tr_handles_sigma hs s M) as (M1 & E1 & F1).
      pose proof (tr_handles_precs terminal_names hs s) as Hc.
      destruct (tr_handles terminal_names hs s) as [phs s1]. simpl in *.
      split; [exact M1|]. intros m' Em'. destruct (F1 m' Em') as [Hphs Hp]. destruct (F m' (extends_trans _ _ _ E1 Em')) as [Fp Fl].
      rewrite rules_of_decls_app, directive_levels_app, rules_prods_app. split.
      + intros p. rewrite Hp, Fp, in_app_iff. unfold rules_of_decls at 2. simpl. rewrite app_nil_r. reflexivity.
      + rewrite Hc, Fl, Hphs. unfold directive_levels at 3. simpl. reflexivity.
    - simpl. destruct (tr_rule_sigma A b s M) as (M1 & E1 & F1).
      pose proof (tr_rule_precs terminal_names A b s) as Hc.
      split; [exact M1|]. intros m' Em'. destruct (F1 m' Em') as [_ Hp]. destruct (F m' (extends_trans _ _ _ E1 Em')) as [Fp Fl].
      rewrite rules_of_decls_app, directive_levels_app, rules_prods_app. split.
      + intros p. rewrite Hp, Fp, !in_app_iff. unfold rules_of_decls at 2. simpl. rewrite app_nil_r, in_app_iff. tauto.
      + rewrite Hc, Fl. unfold directive_levels at 3. simpl. rewrite app_nil_r. reflexivity.
  Qed.

  Theorem translate_K ds : K ds (translate terminal_names predefs ds).
  Proof.
    unfold translate.
    assert (H : forall D s, K D s -> K (D ++ ds) (fold_left (tr_decl terminal_names predefs) ds s)).
    { induction ds as [|d ds IH]; intros D s HK; simpl; [rewrite app_nil_r; exact HK|].
      replace (D ++ d :: ds) with ((D ++ [d]) ++ ds) by (rewrite <- app_assoc; reflexivity).
      apply IH, tr_decl_K, HK. }
    apply (H [] st0). split.
    - split; [intros e k [] | exact I].
    - intros m' _. split; [|reflexivity]. intros p. simpl. tauto.
  Qed.

  (* ---- the production set is the specified one ---- *)
  Lemma rules_prods_is_P_pure nu R p : In p (rules_prods nu R) <-> In p (P_pure R nu).
  Proof.
    unfold rules_prods, P_pure, user_prods, brackets, bodies. rewrite in_app_iff, !in_flat_map. split.
    - intros [[A b] [Hin H]]. simpl in H. apply in_app_or in H as [H|H].
      + left. exists (A, b). split; [exact Hin|]. simpl. destruct b; exact H.
      + right. destruct b as [r|]; [|destruct H]. simpl in H. unfold bprods in H. apply in_flat_map in H as [kx [Hkx H]].
        exists kx. split; [|exact H]. apply in_flat_map. exists r. split; [|exact Hkx].
        apply in_flat_map. exists (A, Some r). split; [exact Hin | left; reflexivity].
    - intros [[[A b] [Hin H]]|[kx [Hkx H]]].
      + exists (A, b). split; [exact Hin|]. simpl in *. apply in_or_app. left. destruct b; exact H.
      + apply in_flat_map in Hkx as [r [Hr Hkx]]. apply in_flat_map in Hr as [[A b] [Hin Hr]]. simpl in Hr.
        destruct b as [r0|]; [|destruct Hr]. destruct Hr as [<-|[]]. exists (A, Some r0). split; [exact Hin|]. simpl.
        apply in_or_app. right. unfold bprods. apply in_flat_map. exists kx. split; assumption.
  Qed.

  Theorem production_set_is_the_specified_one ds p :
    In p (s_prods (translate terminal_names predefs ds)) <->
    In p (P_pure (rules_of_decls ds) (nu_of (s_memo (translate terminal_names predefs ds)))).
  Proof.
    destruct (translate_K ds) as [_ F]. destruct (F _ (extends_refl _)) as [Fp _].
    rewrite Fp. apply rules_prods_is_P_pure.
  Qed.

  Theorem recorded_levels_are_the_directives ds :
    s_precs (translate terminal_names predefs ds)
    = directive_levels (nu_of (s_memo (translate terminal_names predefs ds))) ds.
  Proof. destruct (translate_K ds) as [_ F]. destruct (F _ (extends_refl _)) as [_ Fl]. exact Fl. Qed.
End Sigma.
