(* The typed tree of a whole specification: declarations in source order, each with its typed reading (C11). *)
From Coq Require Import String List Bool Arith.
From Verif Require Import Cfg.Ebnf Emerge.SpecModel Emerge.TypedTree.
Import ListNotations.

Inductive thandle := THTerm (name : string) (lit : bool) | THProd (lhs : string) (r : trhs).
Inductive tdecl :=
| TDString (n v : string)
| TDRegex (n v : string)
| TDBadPredef (n v : string)          (* the action returns an error: invalid predefined regex *)
| TDPrec (assoc : nat) (hs : list thandle)
| TDRule (lhs : string) (r : trhs).

Definition body_value (b : option erhs) : trhs := match b with Some e => ast_value e | None => TEmpty end.

Section Typed.
  Variable predefs : list (string * string).

  Definition thandle_of (h : handle) : thandle :=
    match h with
    | HTerm a lit => THTerm a lit
    | HRule A b => THProd A (body_value b)
    end.

  Definition tdecl_of (d : decl) : tdecl :=
    match d with
    | DToken n 0 v => TDString n v
    | DToken n 1 v => TDRegex n v
    | DToken n _ v => match find (fun e => String.eqb (fst e) v) predefs with
                      | Some e => TDRegex n (snd e)
                      | None => TDBadPredef n v
                      end
    | DDirective a hs => TDPrec a (map thandle_of hs)
    | DRule A b => TDRule A (body_value b)
    end.

  Definition typed_spec (ds : list decl) : list tdecl := map tdecl_of ds.

  (* declarations keep their number, kind and order *)
  Theorem declarations_in_source_order ds : length (typed_spec ds) = length ds.
  Proof. apply map_length. Qed.

  Theorem nth_declaration ds i d : nth_error ds i = Some d -> nth_error (typed_spec ds) i = Some (tdecl_of d).
  Proof. intros H. unfold typed_spec. rewrite nth_error_map, H. reflexivity. Qed.
End Typed.

(* decidable equality of typed trees, for the correspondence *)
Fixpoint trhs_eqb (a b : trhs) {struct a} : bool :=
  match a, b with
  | TTerm x l, TTerm y m => String.eqb x y && Bool.eqb l m
  | TNT x, TNT y => String.eqb x y
  | TConcat l, TConcat m | TAlt l, TAlt m =>
    (fix go (l m : list trhs) : bool :=
       match l, m with
       | [], [] => true
       | x :: l', y :: m' => trhs_eqb x y && go l' m'
       | _, _ => false
       end) l m
  | TOpt x, TOpt y | TStar x, TStar y | TPlus x, TPlus y => trhs_eqb x y
  | TEmpty, TEmpty => true
  | _, _ => false
  end.

Definition thandle_eqb (a b : thandle) : bool :=
  match a, b with
  | THTerm x l, THTerm y m => String.eqb x y && Bool.eqb l m
  | THProd x r, THProd y s => String.eqb x y && trhs_eqb r s
  | _, _ => false
  end.

Fixpoint list_eqb {A} (f : A -> A -> bool) (a b : list A) : bool :=
  match a, b with [], [] => true | x :: a', y :: b' => f x y && list_eqb f a' b' | _, _ => false end.

Definition tdecl_eqb (a b : tdecl) : bool :=
  match a, b with
  | TDString n v, TDString m w | TDRegex n v, TDRegex m w | TDBadPredef n v, TDBadPredef m w => String.eqb n m && String.eqb v w
  | TDPrec x hs, TDPrec y ks => Nat.eqb x y && list_eqb thandle_eqb hs ks
  | TDRule x r, TDRule y s => String.eqb x y && trhs_eqb r s
  | _, _ => false
  end.

(* from a typed tree back to declarations (printing), for `structure gives the grammar` *)
Definition decl_of_tdecl (d : tdecl) : decl :=
  match d with
  | TDString n v => DToken n 0 v
  | TDRegex n v => DToken n 1 v
  | TDBadPredef n v => DToken n 2 v
  | TDPrec a hs => DDirective a (map (fun h => match h with
                                               | THTerm x l => HTerm x l
                                               | THProd A TEmpty => HRule A None
                                               | THProd A r => HRule A (Some (unparse r))
                                               end) hs)
  | TDRule A TEmpty => DRule A None
  | TDRule A r => DRule A (Some (unparse r))
  end.
