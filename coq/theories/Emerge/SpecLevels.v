(* The recorded precedence levels against the directives, beyond their associativity (SpecWf.levels_in_source_order):
   for every declaration list,
     - the terminal handles of the levels are exactly the terminals written in the directives, level by level, in order;
     - every production handle of a recorded level is one of the grammar's own productions (a rule handle adds its
       productions to the grammar and contributes exactly those as handles). *)
From Coq Require Import String List Bool Arith Lia.
From Verif Require Import Cfg.Ebnf Cfg.Translate Emerge.SpecModel Emerge.SpecWf Emerge.SpecRules.
Import ListNotations.

Definition handle_terms (phs : list phandle) : list string :=
  flat_map (fun ph => match ph with PHTerm a => [a] | PHProd _ _ => [] end) phs.
Definition written_terms (hs : list handle) : list string :=
  flat_map (fun h => match h with HTerm a _ => [a] | HRule _ _ => [] end) hs.

Lemma handle_terms_of_prods (ps : list (string * sstr)) :
  handle_terms (map (fun p : string * sstr => PHProd (fst p) (snd p)) ps) = [].
Proof. unfold handle_terms. induction ps as [|p ps IH]; [reflexivity | simpl; exact IH]. Qed.

Lemma handle_terms_app a b : handle_terms (a ++ b) = handle_terms a ++ handle_terms b.
Proof. unfold handle_terms. apply flat_map_app. Qed.

Definition prods_ok (s : st) (phs : list phandle) : Prop := forall A b, In (PHProd A b) phs -> In (A, b) (s_prods s).

Section Levels.
  Variable terminal_names : list (string * string).
  Variable predefs : list (string * string).

  Lemma tr_rule_mono A b s :
    memo_ok (s_memo s) ->
    memo_ok (s_memo (snd (tr_rule terminal_names A b s))) /\
    (forall p, In p (s_prods s) -> In p (s_prods (snd (tr_rule terminal_names A b s)))) /\
    (forall p, In p (fst (tr_rule terminal_names A b s)) -> In p (s_prods (snd (tr_rule terminal_names A b s)))).
  Proof.
    intros M. unfold tr_rule. destruct b as [r|].
    - assert (M0 : memo_ok (s_memo (add_nt s A))) by (rewrite add_nt_memo; exact M).
      destruct (tr_ext terminal_names r (add_nt s A) M0) as [(M' & Q1 & _) _].
      destruct (tr terminal_names r (add_nt s A)) as [sg s1]. simpl in *. repeat split.
      + rewrite fold_add_prod_memo. exact M'.
      + intros p H. apply fold_add_prod_in. left. apply Q1. rewrite add_nt_prods. exact H.
      + intros p H. apply fold_add_prod_in. right. exact H.
    - simpl. repeat split.
      + rewrite add_prod_memo, add_nt_memo. exact M.
      + intros p H. apply add_prod_in. left. rewrite add_nt_prods. exact H.
      + intros p [<-|[]]. apply add_prod_in. right. reflexivity.
  Qed.

  Lemma tr_handles_spec hs : forall s,
    memo_ok (s_memo s) ->
    memo_ok (s_memo (snd (tr_handles terminal_names hs s))) /\
    (forall p, In p (s_prods s) -> In p (s_prods (snd (tr_handles terminal_names hs s)))) /\
    prods_ok (snd (tr_handles terminal_names hs s)) (fst (tr_handles terminal_names hs s)) /\
    handle_terms (fst (tr_handles terminal_names hs s)) = written_terms hs.
  Proof.
    induction hs as [|h hs IH]; intros s M; simpl.
    - repeat split; auto. intros A b [].
    - destruct h as [a lit|A b].
      + specialize (IH (if lit then add_string_terminal s a else add_token_terminal s a)).
        assert (M1 : memo_ok (s_memo (if lit then add_string_terminal s a else add_token_terminal s a))) by (destruct lit; exact M).
        destruct (IH M1) as (M2 & P & O & T). destruct (tr_handles terminal_names hs _) as [r s2]. simpl in *. repeat split.
        * exact M2.
        * intros p H. apply P. destruct lit; exact H.
        * intros A b [H|H]; [discriminate | apply O; exact H].
        * unfold handle_terms in *. simpl. rewrite T. reflexivity.
      + destruct (tr_rule_mono A b s M) as (M1 & P1 & O1). destruct (tr_rule terminal_names A b s) as [ps s1]. simpl in *.
        destruct (IH s1 M1) as (M2 & P & O & T). destruct (tr_handles terminal_names hs s1) as [r s2]. simpl in *. repeat split.
        * exact M2.
        * intros p H. apply P, P1, H.
        * intros A' b' H. apply in_app_or in H as [H|H]; [|apply O; exact H].
          apply in_map_iff in H as [[A0 b0] [E H]]. simpl in E. inversion E; subst. apply P, O1, H.
        * rewrite handle_terms_app, handle_terms_of_prods, T. reflexivity.
  Qed.

  Definition J (s : st) : Prop := memo_ok (s_memo s) /\ forall lv, In lv (s_precs s) -> prods_ok s (snd lv).

  Lemma tr_decl_J s d : J s -> J (tr_decl terminal_names predefs s d).
  Proof.
    intros [M H]. destruct d as [n k v|a hs|A b]; simpl.
    - destruct k as [|[|k]]; try (split; [exact M | exact H]). destruct (find _ predefs); split; try exact M; exact H.
    - destruct (tr_handles_spec hs s M) as (M2 & P & O & _).
      pose proof (tr_handles_precs terminal_names hs s) as Hp.
      destruct (tr_handles terminal_names hs s) as [phs s1]. simpl in *. split; [exact M2|].
      intros lv Hin. apply in_app_or in Hin as [Hin|[<-|[]]].
      + rewrite Hp in Hin. intros A b Hab. apply P. exact (H lv Hin A b Hab).
      + exact O.
    - destruct (tr_rule_mono A b s M) as (M1 & P1 & _). pose proof (tr_rule_precs terminal_names A b s) as Hp. split; [exact M1|].
      intros lv Hin. rewrite Hp in Hin. intros A' b' Hab. apply P1. exact (H lv Hin A' b' Hab).
  Qed.

  Theorem production_handles_are_productions ds lv A b :
    In lv (s_precs (translate terminal_names predefs ds)) -> In (PHProd A b) (snd lv) ->
    In (A, b) (s_prods (translate terminal_names predefs ds)).
  Proof.
    assert (H : forall s, J s -> J (fold_left (tr_decl terminal_names predefs) ds s)).
    { clear lv. induction ds as [|d ds IH]; intros s HJ; simpl; [exact HJ|]. apply IH, tr_decl_J, HJ. }
    assert (J0 : J st0) by (split; [intros e0 k0 [] | intros l0 []]).
    destruct (H st0 J0) as [_ HJ]. intros Hin Hab. exact (HJ lv Hin A b Hab).
  Qed.

  Definition directive_terms (d : decl) : list (list string) :=
    match d with DDirective _ hs => [written_terms hs] | _ => [] end.

  Lemma tr_decl_level_terms s d :
    map (fun lv => handle_terms (snd lv)) (s_precs (tr_decl terminal_names predefs s d))
    = map (fun lv => handle_terms (snd lv)) (s_precs s) ++ directive_terms d.
  Proof.
    destruct d as [n k v|a hs|A b]; simpl.
    - destruct k as [|[|k]]; simpl; rewrite ?app_nil_r; try reflexivity.
      destruct (find _ predefs); simpl; rewrite ?app_nil_r; reflexivity.
    - pose proof (tr_handles_precs terminal_names hs s) as Hp.
      assert (T : forall s0, handle_terms (fst (tr_handles terminal_names hs s0)) = written_terms hs).
      { clear. induction hs as [|h hs IH]; intros s0; simpl; [reflexivity|]. destruct h as [a lit|A b].
        - specialize (IH (if lit then add_string_terminal s0 a else add_token_terminal s0 a)).
          destruct (tr_handles terminal_names hs _) as [r s2]. simpl in *. unfold handle_terms in *. simpl. rewrite IH. reflexivity.
        - destruct (tr_rule terminal_names A b s0) as [ps s1]. specialize (IH s1).
          destruct (tr_handles terminal_names hs s1) as [r s2]. simpl in *.
          rewrite handle_terms_app, handle_terms_of_prods, IH. reflexivity. }
      specialize (T s). destruct (tr_handles terminal_names hs s) as [phs s1]. simpl in *.
      rewrite map_app, Hp. simpl. rewrite T. reflexivity.
    - rewrite tr_rule_precs, app_nil_r. reflexivity.
  Qed.

  Theorem level_terminals_are_the_written_ones ds :
    map (fun lv => handle_terms (snd lv)) (s_precs (translate terminal_names predefs ds)) = flat_map directive_terms ds.
  Proof.
    unfold translate.
    assert (H : forall s, map (fun lv => handle_terms (snd lv)) (s_precs (fold_left (tr_decl terminal_names predefs) ds s))
                          = map (fun lv => handle_terms (snd lv)) (s_precs s) ++ flat_map directive_terms ds).
    { induction ds as [|d ds IH]; intros s; simpl; [rewrite app_nil_r; reflexivity|].
      rewrite IH, tr_decl_level_terms, <- app_assoc. reflexivity. }
    apply (H st0).
  Qed.
End Levels.
