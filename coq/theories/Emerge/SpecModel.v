(* Model of internal/ebnf/parser/spec: the reduce actions of spec.Parse (by production index, as in
   the Go switch) and the symbol table (terminals with definitions and occurrences, non-terminals,
   productions as a set, the memo of synthesised non-terminals, precedence levels), Verify, and the
   final assembly.  The front end (scanner, LR driver, tree) is the models of C05 / C18. *)
From Coq Require Import String Ascii List Bool Arith NArith Lia.
From Verif Require Import Cfg.LR Cfg.LRSafe Cfg.Ebnf Cfg.Translate.
Import ListNotations.

(* ---- declarations, as the typed reading of the parse tree ---- *)
Inductive handle := HTerm (a : string) (lit : bool) | HRule (A : string) (b : option erhs).
Inductive decl :=
| DToken (name : string) (kind : nat) (value : string)     (* 0 STRING, 1 REGEX, 2 PREDEF *)
| DDirective (assoc : nat) (hs : list handle)              (* 0 left, 1 right, 2 none *)
| DRule (A : string) (b : option erhs).

(* terminal occurrences in reduction order (name, is a string literal) are recorded separately *)

Fixpoint string_of_digits (n fuel : nat) (acc : string) : string :=
  match fuel with
  | O => acc
  | S f =>
    let d := String (ascii_of_nat (48 + n mod 10)) acc in
    if Nat.eqb (n / 10) 0 then d else string_of_digits (n / 10) f d
  end.
Definition string_of_nat (n : nat) : string := string_of_digits n (S n) ""%string.

Fixpoint string_ltb (a b : string) : bool :=
  match a, b with
  | EmptyString, EmptyString => false
  | EmptyString, _ => true
  | _, EmptyString => false
  | String x a', String y b' =>
    if Nat.ltb (nat_of_ascii x) (nat_of_ascii y) then true
    else if Nat.ltb (nat_of_ascii y) (nat_of_ascii x) then false
    else string_ltb a' b'
  end.

(* ---- symbol table ---- *)
Record tentry := { te_name : string; te_defs : list (string * bool); te_occ : nat }.
Inductive phandle := PHTerm (a : string) | PHProd (A : string) (b : sstr).
Record memo_entry := { m_key : strings; m_group : string; m_opt : string; m_star : string; m_plus : string }.

Record st := {
  s_prods : list (string * sstr);
  s_memo : list memo_entry;
  s_counter : nat;
  s_terms : list tentry;
  s_nts : list string;
  s_precs : list (nat * list phandle);
  s_errs : list string
}.

Definition st0 : st :=
  {| s_prods := []; s_memo := []; s_counter := 0; s_terms := []; s_nts := []; s_precs := []; s_errs := [] |}.

Definition add_nt (s : st) (A : string) : st :=
  if existsb (String.eqb A) (s_nts s) then s
  else {| s_prods := s_prods s; s_memo := s_memo s; s_counter := s_counter s; s_terms := s_terms s;
          s_nts := s_nts s ++ [A]; s_precs := s_precs s; s_errs := s_errs s |}.

Definition add_prod (s : st) (p : string * sstr) : st :=
  if pmem p (s_prods s) then s
  else {| s_prods := s_prods s ++ [p]; s_memo := s_memo s; s_counter := s_counter s; s_terms := s_terms s;
          s_nts := s_nts s; s_precs := s_precs s; s_errs := s_errs s |}.

Definition with_terms (s : st) (ts : list tentry) : st :=
  {| s_prods := s_prods s; s_memo := s_memo s; s_counter := s_counter s; s_terms := ts;
     s_nts := s_nts s; s_precs := s_precs s; s_errs := s_errs s |}.

Fixpoint upd_term (ts : list tentry) (a : string) (f : tentry -> tentry) (fresh : tentry) : list tentry :=
  match ts with
  | [] => [fresh]
  | e :: t => if String.eqb (te_name e) a then f e :: t else e :: upd_term t a f fresh
  end.

(* AddStringTerminal: a literal used in a rule defines itself (only when the terminal is new) *)
Definition add_string_terminal (s : st) (a : string) : st :=
  with_terms s (upd_term (s_terms s) a
                         (fun e => {| te_name := te_name e; te_defs := te_defs e; te_occ := S (te_occ e) |})
                         {| te_name := a; te_defs := [(a, false)]; te_occ := 1 |}).

Definition add_token_terminal (s : st) (a : string) : st :=
  with_terms s (upd_term (s_terms s) a
                         (fun e => {| te_name := te_name e; te_defs := te_defs e; te_occ := S (te_occ e) |})
                         {| te_name := a; te_defs := []; te_occ := 1 |}).

Definition add_token_def (s : st) (a value : string) (isregex : bool) : st :=
  with_terms s (upd_term (s_terms s) a
                         (fun e => {| te_name := te_name e; te_defs := te_defs e ++ [(value, isregex)]; te_occ := te_occ e |})
                         {| te_name := a; te_defs := [(value, isregex)]; te_occ := 0 |}).

(* ---- the memo of synthesised non-terminals ---- *)
Fixpoint count_s (a : sstr) (s : strings) : nat :=
  match s with [] => 0 | b :: t => (if sstr_eqb a b then 1 else 0) + count_s a t end.
(* the hash table is keyed by the hash of the SORTED list of alternatives: two keys meet iff they are
   equal as multisets (and then eqStrings, set equality, holds as well) *)
Definition key_eqb (s t : strings) : bool :=
  Nat.eqb (length s) (length t) && forallb (fun a => Nat.eqb (count_s a s) (count_s a t)) s.

Definition kind_suffix (k : kind) : string :=
  match k with KGroup => "group"%string | KOpt => "opt"%string | KStar => "star"%string | KPlus => "plus"%string end.

Section Naming.
  Variable terminal_names : list (string * string).      (* terminalNames, translated *)

  Definition tname (a : string) : string :=
    match find (fun e => String.eqb (fst e) a) terminal_names with Some e => snd e | None => ""%string end.

  (* mapStringToNoneTerminal: returns the name and the new counter *)
  Definition synth_name (s : strings) (k : kind) (counter : nat) : string * nat :=
    let base := match s with
                | [[SN v]] => v
                | [[ST v]] => tname v
                | _ => ""%string
                end in
    if String.eqb base "" then
      (String.append (String.append "gen" (string_of_nat (S counter))) (String.append "_" (kind_suffix k)), S counter)
    else (String.append (String.append "gen_" base) (String.append "_" (kind_suffix k)), counter).

  Definition m_get (e : memo_entry) (k : kind) : string :=
    match k with KGroup => m_group e | KOpt => m_opt e | KStar => m_star e | KPlus => m_plus e end.
  Definition m_set (e : memo_entry) (k : kind) (n : string) : memo_entry :=
    match k with
    | KGroup => {| m_key := m_key e; m_group := n; m_opt := m_opt e; m_star := m_star e; m_plus := m_plus e |}
    | KOpt => {| m_key := m_key e; m_group := m_group e; m_opt := n; m_star := m_star e; m_plus := m_plus e |}
    | KStar => {| m_key := m_key e; m_group := m_group e; m_opt := m_opt e; m_star := n; m_plus := m_plus e |}
    | KPlus => {| m_key := m_key e; m_group := m_group e; m_opt := m_opt e; m_star := m_star e; m_plus := n |}
    end.

  (* GetGroup / GetOpt / GetStar / GetPlus (after the fix of D1: a name is synthesised per KIND) *)
  Definition get_name (s : st) (sg : strings) (k : kind) : string * st :=
    let mk memo counter :=
      {| s_prods := s_prods s; s_memo := memo; s_counter := counter; s_terms := s_terms s;
         s_nts := s_nts s; s_precs := s_precs s; s_errs := s_errs s |} in
    match find (fun e => key_eqb (m_key e) sg) (s_memo s) with
    | Some e =>
      if String.eqb (m_get e k) ""%string then
        let '(n, c) := synth_name sg k (s_counter s) in
        (n, mk (map (fun e' => if key_eqb (m_key e') sg then m_set e' k n else e') (s_memo s)) c)
      else (m_get e k, s)
    | None =>
      let '(n, c) := synth_name sg k (s_counter s) in
      (n, mk (s_memo s ++ [m_set {| m_key := sg; m_group := ""%string; m_opt := ""%string; m_star := ""%string; m_plus := ""%string |} k n]) c)
    end.

  (* the naming function the symbol table ends up with *)
  Definition nu_of (memo : list memo_entry) (sg : strings) (k : kind) : string :=
    match find (fun e => key_eqb (m_key e) sg) memo with
    | Some e => m_get e k
    | None => ""%string
    end.

  (* ---- reduce actions for right-hand sides (productions 23..34), in reduction order ---- *)
  Definition finish_bracket (k : kind) (res : strings * st) : strings * st :=
    let '(sg, st1) := res in
    let '(X, st2) := get_name st1 sg k in
    let st3 := add_nt st2 X in
    let ps := match k with
              | KGroup => map (fun a => (X, a)) sg
              | KOpt => map (fun a => (X, a)) sg ++ [(X, [])]
              | KStar => map (fun a => (X, SN X :: a)) sg ++ [(X, [])]
              | KPlus => flat_map (fun a => [(X, SN X :: a); (X, a)]) sg
              end in
    ([[SN X]], fold_left add_prod ps st3).

  Fixpoint tr (r : erhs) (s : st) : strings * st :=
    match r with
    | ETerm a lit => ([[ST a]], if lit then add_string_terminal s a else add_token_terminal s a)
    | ENT A => ([[SN A]], add_nt s A)
    | ECat x y =>
      let '(s1, st1) := tr x s in
      let '(s2, st2) := tr y st1 in
      (cross s1 s2, st2)
    | EAlt x y =>
      let '(s1, st1) := tr x s in
      let '(s2, st2) := tr y st1 in
      (s1 ++ s2, st2)
    | EAltE x =>
      let '(s1, st1) := tr x s in (s1 ++ [[]], st1)
    | EGroup x => finish_bracket KGroup (tr x s)
    | EOpt x => finish_bracket KOpt (tr x s)
    | EStar x => finish_bracket KStar (tr x s)
    | EPlus x => finish_bracket KPlus (tr x s)
    end.

  (* rule → lhs "=" [rhs]: the head is registered first (lhs is reduced before the body) *)
  Definition tr_rule (A : string) (b : option erhs) (s : st) : list (string * sstr) * st :=
    let s0 := add_nt s A in
    match b with
    | None => ([(A, [])], add_prod s0 (A, []))
    | Some r =>
      let '(sg, s1) := tr r s0 in
      let ps := map (fun a => (A, a)) sg in
      (ps, fold_left add_prod ps s1)
    end.

  Variable predefs : list (string * string).

  Definition with_precs (s : st) (pl : list (nat * list phandle)) : st :=
    {| s_prods := s_prods s; s_memo := s_memo s; s_counter := s_counter s; s_terms := s_terms s;
       s_nts := s_nts s; s_precs := pl; s_errs := s_errs s |}.
  Definition with_err (s : st) (e : string) : st :=
    {| s_prods := s_prods s; s_memo := s_memo s; s_counter := s_counter s; s_terms := s_terms s;
       s_nts := s_nts s; s_precs := s_precs s; s_errs := s_errs s ++ [e] |}.

  Fixpoint tr_handles (hs : list handle) (s : st) : list phandle * st :=
    match hs with
    | [] => ([], s)
    | HTerm a lit :: t =>
      let s1 := if lit then add_string_terminal s a else add_token_terminal s a in
      let '(r, s2) := tr_handles t s1 in (PHTerm a :: r, s2)
    | HRule A b :: t =>
      let '(ps, s1) := tr_rule A b s in
      let '(r, s2) := tr_handles t s1 in (map (fun p => PHProd (fst p) (snd p)) ps ++ r, s2)
    end.

  Definition tr_decl (s : st) (d : decl) : st :=
    match d with
    | DToken name 0 value => add_token_def s name value false
    | DToken name 1 value => add_token_def s name value true
    | DToken name _ value =>
      match find (fun e => String.eqb (fst e) value) predefs with
      | Some e => add_token_def s name (snd e) true
      | None => with_err s value
      end
    | DDirective assoc hs =>
      let '(phs, s1) := tr_handles hs s in
      with_precs s1 (s_precs s1 ++ [(assoc, phs)])
    | DRule A b => snd (tr_rule A b s)
    end.

  Definition translate (ds : list decl) : st := fold_left tr_decl ds st0.
End Naming.

(* ---- from the parse tree to declarations (the typed reading of each production, by index) ---- *)
Section OfTree.
  Variable lex : nat -> string.        (* lexeme of token number i *)
  Local Open Scope N_scope.

  Definition leaf_lex (t : tree) : option string :=
    match t with Leaf _ i => Some (lex i) | Node _ _ => None end.

  Fixpoint rhs_of (t : tree) : option erhs :=
    match t with
    | Node 31 [Node 33 [l]] => option_map (fun a => ETerm a false) (leaf_lex l)
    | Node 31 [Node 34 [l]] => option_map (fun a => ETerm a true) (leaf_lex l)
    | Node 30 [Node 32 [l]] => option_map ENT (leaf_lex l)
    | Node 23 [a; b] =>
      match rhs_of a, rhs_of b with Some x, Some y => Some (ECat x y) | _, _ => None end
    | Node 28 [a; _; b] =>
      match rhs_of a, rhs_of b with Some x, Some y => Some (EAlt x y) | _, _ => None end
    | Node 29 [a; _] => option_map EAltE (rhs_of a)
    | Node 24 [_; a; _] => option_map EGroup (rhs_of a)
    | Node 25 [_; a; _] => option_map EOpt (rhs_of a)
    | Node 26 [_; a; _] => option_map EStar (rhs_of a)
    | Node 27 [_; a; _] => option_map EPlus (rhs_of a)
    | _ => None
    end.

  Definition rule_of (t : tree) : option (string * option erhs) :=
    match t with
    | Node 20 [Node 22 [Node 32 [l]]; _; r] =>
      match leaf_lex l, rhs_of r with Some A, Some b => Some (A, Some b) | _, _ => None end
    | Node 21 [Node 22 [Node 32 [l]]; _] => option_map (fun A => (A, None)) (leaf_lex l)
    | _ => None
    end.

  Definition handle_of_tree (t : tree) : option handle :=
    match t with
    | Node 33 [l] => option_map (fun a => HTerm a false) (leaf_lex l)
    | Node 34 [l] => option_map (fun a => HTerm a true) (leaf_lex l)
    | Node 19 [_; r; _] => option_map (fun ab => HRule (fst ab) (snd ab)) (rule_of r)
    | _ => None
    end.

  Fixpoint handles_of (t : tree) : option (list handle) :=
    match t with
    | Node 15 [hs; h] | Node 16 [hs; h] =>
      match handles_of hs, handle_of_tree h with Some l, Some x => Some (l ++ [x])%list | _, _ => None end
    | Node 17 [h] | Node 18 [h] => option_map (fun x => [x]) (handle_of_tree h)
    | _ => None
    end.

  Definition decl_of (t : tree) : option decl :=
    match t with
    | Node 4 [Node p [n; _; v]; _] =>
      match leaf_lex n, leaf_lex v with
      | Some name, Some value =>
        if p =? 9 then Some (DToken name 0 value)
        else if p =? 10 then Some (DToken name 1 value)
        else if p =? 11 then Some (DToken name 2 value) else None
      | _, _ => None
      end
    | Node 5 [Node p [_; hs]; _] =>
      match handles_of hs with
      | Some l => if p =? 12 then Some (DDirective 0 l) else if p =? 13 then Some (DDirective 1 l)
                  else if p =? 14 then Some (DDirective 2 l) else None
      | None => None
      end
    | Node 6 [r; _] => option_map (fun ab => DRule (fst ab) (snd ab)) (rule_of r)
    | _ => None
    end.

  Fixpoint decls_of (t : tree) : option (list decl) :=
    match t with
    | Node 3 [] => Some []
    | Node 2 [ds; d] =>
      match decls_of ds, decl_of d with Some l, Some x => Some (l ++ [x])%list | _, _ => None end
    | _ => None
    end.

  Definition spec_of (t : tree) : option (string * list decl) :=
    match t with
    | Node 0 [Node 1 [_; n; _]; ds] =>
      match leaf_lex n, decls_of ds with Some name, Some l => Some (name, l) | _, _ => None end
    | _ => None
    end.
End OfTree.

(* every rule of a specification: declared rules and the rules written inside directives *)
Definition rules_of_decls (ds : list decl) : list rule :=
  flat_map (fun d => match d with
                     | DRule A b => [(A, b)]
                     | DDirective _ hs => flat_map (fun h => match h with HRule A b => [(A, b)] | HTerm _ _ => [] end) hs
                     | DToken _ _ _ => []
                     end) ds.

(* ---- Verify, CFG.Verify, Precedences.Verify and the final assembly (production 0) ---- *)
Inductive diag :=
| NoDefinition (a : string)
| MultipleDefinitions (a : string)
| SameValue (v : string) (ts : list string)
| NoStartRule
| NoProductionFor (A : string)
| HandleInTwoLevels
| InvalidPredef (v : string).

Definition single_defs (s : st) : list (string * string * bool) :=
  flat_map (fun e => match te_defs e with [(v, r)] => [(te_name e, v, r)] | _ => [] end) (s_terms s).

Definition table_diags (s : st) : list diag :=
  flat_map (fun e => match te_defs e with
                     | [] => [NoDefinition (te_name e)]
                     | [_] => []
                     | _ => [MultipleDefinitions (te_name e)]
                     end) (s_terms s)
  ++ (let sd := single_defs s in
      flat_map (fun d => let '(a, v, _) := d in
                         let same := filter (fun d' => String.eqb (snd (fst d')) v) sd in
                         match same with
                         | _ :: _ :: _ =>
                           (* reported once per value: at its first holder *)
                           match same with
                           | (a0, _, _) :: _ => if String.eqb a0 a then [SameValue v (map (fun d' => fst (fst d')) same)] else []
                           | [] => []
                           end
                         | _ => []
                         end) sd)
  ++ (if existsb (fun p => String.eqb (fst p) "start") (s_prods s) then [] else [NoStartRule]).

Definition phandle_eqb (x y : phandle) : bool :=
  match x, y with
  | PHTerm a, PHTerm b => String.eqb a b
  | PHProd A a, PHProd B b => String.eqb A B && sstr_eqb a b
  | _, _ => false
  end.

Fixpoint levels_overlap (l : list (nat * list phandle)) : bool :=
  match l with
  | [] => false
  | (_, hs) :: t =>
    existsb (fun lv => existsb (fun h => existsb (phandle_eqb h) (snd lv)) hs) t || levels_overlap t
  end.

Definition final_diags (s : st) : list diag :=
  let pre := map InvalidPredef (s_errs s) in
  match table_diags s with
  | (_ :: _) as td => pre ++ td                   (* table.Verify failed: returned at once *)
  | [] =>
    pre
    ++ flat_map (fun A => if existsb (fun p => String.eqb (fst p) A) (s_prods s) then [] else [NoProductionFor A]) (s_nts s)
    ++ (if levels_overlap (s_precs s) then [HandleInTwoLevels] else [])
  end.

(* Definitions(): singly-defined terminals; literals first, then by length of the name, then by name *)
Definition def_lt (x y : string * string * bool) : bool :=
  let '(a, _, ra) := x in let '(b, _, rb) := y in
  if negb ra && rb then true else if ra && negb rb then false
  else if Nat.ltb (String.length a) (String.length b) then true
  else if Nat.ltb (String.length b) (String.length a) then false
  else string_ltb a b.

Fixpoint insert_def (x : string * string * bool) (l : list (string * string * bool)) :=
  match l with
  | [] => [x]
  | y :: t => if def_lt x y then x :: l else y :: insert_def x t
  end.
Definition definitions (s : st) : list (string * string * bool) := fold_right insert_def [] (single_defs s).
