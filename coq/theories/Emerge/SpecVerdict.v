(* The verdict of the symbol-table model, read off the declaration list: a specification is accepted iff
   every terminal name that occurs has exactly one definition, no unknown predefined name is written, no two
   terminals have the same value, a rule for [start] is written, every mentioned non-terminal has a written
   rule, and no handle sits in two of the recorded precedence levels.  Universal (every declaration list, any
   order); premises: no literal shares its text with a token name (D7), no mentioned non-terminal begins
   with "gen" (D2).  The last conjunct is still stated on the model's recorded levels. *)
From Coq Require Import String List Bool Arith Lia.
From Verif Require Import Cfg.Ebnf Cfg.Translate Emerge.SpecModel Emerge.SpecWf Emerge.SpecTable Emerge.SpecRules.
Import ListNotations.

Lemma nil_iff_no_member {A : Type} (l : list A) : l = [] <-> forall x, ~ In x l.
Proof.
  split; [intros -> x []|]. destruct l as [|a l]; [reflexivity|]. intros H. destruct (H a (or_introl eq_refl)).
Qed.

Lemma table_diags_kinds s d :
  In d (table_diags s) ->
  (exists a, d = NoDefinition a) \/ (exists a, d = MultipleDefinitions a) \/ (exists v ts, d = SameValue v ts) \/ d = NoStartRule.
Proof.
  unfold table_diags. rewrite !in_app_iff. intros [H|[H|H]].
  - apply entry_diags_kinds in H as [H|H]; auto.
  - apply same_value_diags_kinds in H. auto.
  - destruct (existsb _ _); [destruct H|]. destruct H as [<-|[]]. auto.
Qed.

Lemma table_in_final s d : In d (table_diags s) -> In d (final_diags s).
Proof.
  unfold final_diags. destruct (table_diags s) as [|x t]; [intros []|]. intros H. apply in_or_app. right. exact H.
Qed.

Lemma final_nil_iff s :
  final_diags s = [] <->
  table_diags s = [] /\ s_errs s = [] /\
  (forall A, In A (s_nts s) -> existsb (fun p => String.eqb (fst p) A) (s_prods s) = true) /\
  levels_overlap (s_precs s) = false.
Proof.
  unfold final_diags. destruct (table_diags s) as [|x t] eqn:E.
  - split.
    + intros H. apply app_eq_nil in H as [H1 H2]. apply app_eq_nil in H2 as [H2 H3]. repeat split.
      * destruct (s_errs s); [reflexivity | discriminate].
      * intros A HA. destruct (existsb (fun p => String.eqb (fst p) A) (s_prods s)) eqn:EA; [reflexivity|]. exfalso.
        assert (X : In (NoProductionFor A) (flat_map (fun A => if existsb (fun p => String.eqb (fst p) A) (s_prods s) then [] else [NoProductionFor A]) (s_nts s))).
        { apply in_flat_map. exists A. split; [exact HA|]. rewrite EA. left. reflexivity. }
        rewrite H2 in X. destruct X.
      * destruct (levels_overlap _); [discriminate | reflexivity].
    + intros (_ & He & Hn & Hl). rewrite He, Hl. simpl. rewrite app_nil_r. apply flat_map_nil_all.
      intros A HA. rewrite (Hn A HA). reflexivity.
  - split; [|intros [H _]; discriminate]. intros H. apply app_eq_nil in H as [_ H]. discriminate.
Qed.

Section Verdict.
  Variable terminal_names : list (string * string).
  Variable predefs : list (string * string).
  Let tbl ds := translate terminal_names predefs ds.

  Definition user_names_ok (ds : list decl) : Prop := forall A, In A (mentioned_nts ds) -> is_gen A = false.

  Definition well_formed (ds : list decl) : Prop :=
    (forall a, in_table predefs ds a -> exists d, defs_of predefs ds a = [d]) /\
    unknown_predefs predefs ds = [] /\
    (forall a b v r1 r2, a <> b -> in_table predefs ds a -> in_table predefs ds b ->
                         defs_of predefs ds a = [(v, r1)] -> defs_of predefs ds b = [(v, r2)] -> False) /\
    In "start"%string (rules_heads ds) /\
    (forall A, In A (mentioned_nts ds) -> In A (rules_heads ds)).

  Theorem accepted_iff_well_formed ds :
    names_distinct predefs ds = true -> user_names_ok ds ->
    (final_diags (tbl ds) = [] <-> well_formed ds /\ levels_overlap (s_precs (tbl ds)) = false).
  Proof.
    intros Hn Hu. split.
    - intros Hnil. assert (Hno : forall d, ~ In d (final_diags (tbl ds))) by (apply nil_iff_no_member; exact Hnil).
      apply final_nil_iff in Hnil as (Ht & He & Hp & Hl). split; [|exact Hl]. unfold well_formed. repeat split.
      + intros a Ha. destruct (defs_of predefs ds a) as [|d [|d' t]] eqn:Ed.
        * exfalso. apply (Hno (NoDefinition a)). apply (no_definition_reported_iff terminal_names predefs ds a Hn). split; assumption.
        * exists d. reflexivity.
        * exfalso. apply (Hno (MultipleDefinitions a)). apply (multiple_definitions_reported_iff terminal_names predefs ds a Hn).
          rewrite Ed. simpl. lia.
      + rewrite <- (recorded_errors_are_the_unknown_predefs terminal_names predefs ds). exact He.
      + intros a b v r1 r2 Hab Ha Hb Da Db.
        assert (X : exists ts, In (SameValue v ts) (final_diags (tbl ds))).
        { apply (same_value_reported_iff terminal_names predefs ds v Hn). exists a, b, r1, r2. repeat split; assumption. }
        destruct X as [ts X]. apply (Hno _ X).
      + destruct (in_dec string_dec "start"%string (rules_heads ds)) as [H|H]; [exact H|]. exfalso.
        apply (Hno NoStartRule). apply no_start_rule_reported_iff. unfold tbl. rewrite start_production_iff_start_rule.
        destruct (existsb (String.eqb "start") (rules_heads ds)) eqn:E; [|reflexivity]. exfalso. apply H.
        apply existsb_exists in E as [A [HA EA]]. apply String.eqb_eq in EA. subst A. exact HA.
      + intros A HA. destruct (in_dec string_dec A (rules_heads ds)) as [H|H]; [exact H|]. exfalso.
        destruct (mentioned_without_a_rule_is_unproductive terminal_names predefs ds A HA H (Hu A HA)) as [Hin Hnp].
        fold (tbl ds) in Hin, Hnp. unfold has_prod in Hnp. rewrite (Hp A Hin) in Hnp. discriminate.
    - intros [(Hdefs & Hpre & Hsame & Hstart & Hrules) Hl]. apply final_nil_iff.
      assert (Ht : table_diags (tbl ds) = []).
      { apply nil_iff_no_member. intros d Hd. pose proof (table_in_final _ _ Hd) as Hf.
        apply table_diags_kinds in Hd as [[a ->]|[[a ->]|[[v [ts ->]]| ->]]].
        - apply (no_definition_reported_iff terminal_names predefs ds a Hn) in Hf as [Ha Hd]. destruct (Hdefs a Ha) as [d Hd']. rewrite Hd in Hd'. discriminate.
        - apply (multiple_definitions_reported_iff terminal_names predefs ds a Hn) in Hf.
          destruct (defs_of predefs ds a) as [|d0 [|d1 t]] eqn:Ed; simpl in Hf; try lia.
          assert (Ha : in_table predefs ds a).
          { apply (table_names terminal_names predefs ds a).
            pose proof (table_carries_the_declarations terminal_names predefs ds a Hn) as Hc. unfold defs_in in Hc.
            destruct (find (nm a) (s_terms (translate terminal_names predefs ds))) as [e|] eqn:Ef; [|rewrite Ed in Hc; discriminate].
            apply find_some in Ef as [He Hname]. unfold nm in Hname. apply String.eqb_eq in Hname. rewrite <- Hname. apply in_map. exact He. }
          destruct (Hdefs a Ha) as [d Hd']. rewrite Ed in Hd'. discriminate.
        - assert (X : exists ts, In (SameValue v ts) (final_diags (tbl ds))) by (exists ts; exact Hf).
          apply (same_value_reported_iff terminal_names predefs ds v Hn) in X as (a & b & r1 & r2 & Hab & Ha & Hb & Da & Db).
          exact (Hsame a b v r1 r2 Hab Ha Hb Da Db).
        - apply no_start_rule_reported_iff in Hf. unfold tbl in Hf. rewrite start_production_iff_start_rule in Hf.
          assert (X : existsb (String.eqb "start") (rules_heads ds) = true).
          { apply existsb_exists. exists "start"%string. split; [exact Hstart | reflexivity]. }
          rewrite X in Hf. discriminate. }
      repeat split.
      + exact Ht.
      + unfold tbl. rewrite recorded_errors_are_the_unknown_predefs. exact Hpre.
      + intros A HA. destruct (existsb (fun p => String.eqb (fst p) A) (s_prods (tbl ds))) eqn:E; [reflexivity|]. exfalso.
        destruct (unproductive_is_mentioned_without_a_rule terminal_names predefs ds A HA E) as [Hm Hh]. apply Hh, Hrules, Hm.
      + exact Hl.
  Qed.
End Verdict.
