(* The verdict of the symbol-table model, read off the declaration list: a specification is accepted iff
   every terminal name that occurs has exactly one definition, no unknown predefined name is written, no two
   terminals have the same value, a rule for [start] is written, every mentioned non-terminal has a written
   rule, and no handle sits in two of the recorded precedence levels.  Universal (every declaration list, any
   order); premises: no literal shares its text with a token name (D7), no mentioned non-terminal begins
   with "gen" (D2).  The last conjunct is still stated on the model's recorded levels. *)
From Coq Require Import String List Bool Arith Lia.
From Verif Require Import Cfg.Ebnf Cfg.Translate Emerge.SpecModel Emerge.SpecWf Emerge.SpecTable Emerge.SpecRules.
Import ListNotations.

Lemma nil_iff_no_member {A : Type} (l : list A) : l = [] <-> forall x, ~ In x l.
Proof.
  split; [intros -> x []|]. destruct l as [|a l]; [reflexivity|]. intros H. destruct (H a (or_introl eq_refl)).
Qed.

Lemma table_diags_kinds s d :
  In d (table_diags s) ->
  (exists a, d = NoDefinition a) \/ (exists a, d = MultipleDefinitions a) \/ (exists v ts, d = SameValue v ts) \/ d = NoStartRule.
Proof.
  unfold table_diags. rewrite !in_app_iff. intros [H|[H|H]].
  - apply entry_diags_kinds in H as [H|H]; auto.
  - apply same_value_diags_kinds in H. auto.
  - destruct (existsb _ _); [destruct H|]. destruct H as [<-|[]]. auto.
Qed.

Lemma table_in_final s d : In d (table_diags s) -> In d (final_diags s).
Proof.
  unfold final_diags. destruct (table_diags s) as [|x t]; [intros []|]. intros H. apply in_or_app. right. exact H.
Qed.

Lemma final_nil_iff s :
  final_diags s = [] <->
  table_diags s = [] /\ s_errs s = [] /\
  (forall A, In A (s_nts s) -> existsb (fun p => String.eqb (fst p) A) (s_prods s) = true) /\
  levels_overlap (s_precs s) = false.
Proof.
  unfold final_diags. destruct (table_diags s) as [|x t] eqn:E.
  - split.
    + intros H. apply app_eq_nil in H as [H1 H2]. apply app_eq_nil in H2 as [H2 H3]. repeat split.
      * destruct (s_errs s); [reflexivity | discriminate].
      * intros A HA. destruct (existsb (fun p => String.eqb (fst p) A) (s_prods s)) eqn:EA; [reflexivity|]. exfalso.
        assert (X : In (NoProductionFor A) (flat_map (fun A => if existsb (fun p => String.eqb (fst p) A) (s_prods s) then [] else [NoProductionFor A]) (s_nts s))).
        { apply in_flat_map. exists A. split; [exact HA|]. rewrite EA. left. reflexivity. }
        rewrite H2 in X. destruct X.
      * destruct (levels_overlap _); [discriminate | reflexivity].
    + intros (_ & He & Hn & Hl). rewrite He, Hl. simpl. rewrite app_nil_r. apply flat_map_nil_all.
      intros A HA. rewrite (Hn A HA). reflexivity.
  - split; [|intros [H _]; discriminate]. intros H. apply app_eq_nil in H as [_ H]. discriminate.
Qed.

Section Verdict.
  Variable terminal_names : list (string * string).
  Variable predefs : list (string * string).
  Let tbl ds := translate terminal_names predefs ds.

  Definition user_names_ok (ds : list decl) : Prop := forall A, In A (mentioned_nts ds) -> is_gen A = false.

  Definition well_formed (ds : list decl) : Prop :=
    (forall a, in_table predefs ds a -> exists d, defs_of predefs ds a = [d]) /\
    unknown_predefs predefs ds = [] /\
    (forall a b v r1 r2, a <> b -> in_table predefs ds a -> in_table predefs ds b ->
                         defs_of predefs ds a = [(v, r1)] -> defs_of predefs ds b = [(v, r2)] -> False) /\
    In "start"%string (rules_heads ds) /\
    (forall A, In A (mentioned_nts ds) -> In A (rules_heads ds)).

  Theorem accepted_iff_well_formed ds :
    names_distinct predefs ds = true -> user_names_ok ds ->
    (final_diags (tbl ds) = [] <-> well_formed ds /\ levels_overlap (s_precs (tbl ds)) = false).
  Proof.
    intros Hn Hu. split.
    - intros Hnil. assert (Hno : forall d, ~ In d (final_diags (tbl ds))) by (apply nil_iff_no_member; exact Hnil).
      apply final_nil_iff in Hnil as (Ht & He & Hp & Hl). split; [|exact Hl]. unfold well_formed. repeat split.
      + intros a Ha. destruct (defs_of predefs ds a) as [|d [|d' t]] eqn:Ed.
        * exfalso. apply (Hno (NoDefinition a)). apply (no_definition_reported_iff terminal_names predefs ds a Hn). split; assumption.
        * exists d. reflexivity.
        * exfalso. apply (Hno (MultipleDefinitions a)). apply (multiple_definitions_reported_iff terminal_names predefs ds a Hn).
          rewrite Ed. simpl. lia.
      + rewrite <- (recorded_errors_are_the_unknown_predefs terminal_names predefs ds). exact He.
      + intros a b v r1 r2 Hab Ha Hb Da Db.
        assert (X : exists ts, In (SameValue v ts) (final_diags (tbl ds))).
        { apply (same_value_reported_iff terminal_names predefs ds v Hn). exists a, b, r1, r2. repeat split; assumption. }
        destruct X as [ts X]. apply (Hno _ X).
      + destruct (in_dec string_dec "start"%string (rules_heads ds)) as [H|H]; [exact H|]. exfalso.
        apply (Hno NoStartRule). apply no_start_rule_reported_iff. unfold tbl. rewrite start_production_iff_start_rule.
        destruct (existsb (String.eqb "start") (rules_heads ds)) eqn:E; [|reflexivity]. exfalso. apply H.
        apply existsb_exists in E as [A [HA EA]]. apply String.eqb_eq in EA. subst A. exact HA.
      + intros A HA. destruct (in_dec string_dec A (rules_heads ds)) as [H|H]; [exact H|]. exfalso.
        destruct (mentioned_without_a_rule_is_unproductive terminal_names predefs ds A HA H (Hu A HA)) as [Hin Hnp].
        fold (tbl ds) in Hin, Hnp. unfold has_prod in Hnp. rewrite (Hp A Hin) in Hnp. discriminate.
    - intros [(Hdefs & Hpre & Hsame & Hstart & Hrules) Hl]. apply final_nil_iff.
      assert (Ht : table_diags (tbl ds) = []).
      { apply nil_iff_no_member. intros d Hd. pose proof (table_in_final _ _ Hd) as Hf.
        apply table_diags_kinds in Hd as [[a ->]|[[a ->]|[[v [ts ->]]| ->]]].
        - apply (no_definition_reported_iff terminal_names predefs ds a Hn) in Hf as [Ha Hd]. destruct (Hdefs a Ha) as [d Hd']. rewrite Hd in Hd'. discriminate.
        - apply (multiple_definitions_reported_iff terminal_names predefs ds a Hn) in Hf.
          destruct (defs_of predefs ds a) as [|d0 [|d1 t]] eqn:Ed; simpl in Hf; try lia.
          assert (Ha : in_table predefs ds a).
          { apply (table_names terminal_names predefs ds a).
            pose proof (table_carries_the_declarations terminal_names predefs ds a Hn) as Hc. unfold defs_in in Hc.
            destruct (find (nm a) (s_terms (translate terminal_names predefs ds))) as [e|] eqn:Ef; [|rewrite Ed in Hc; discriminate].
            apply find_some in Ef as [He Hname]. unfold nm in Hname. apply String.eqb_eq in Hname. rewrite <- Hname. apply in_map. exact He. }
          destruct (Hdefs a Ha) as [d Hd']. rewrite Ed in Hd'. discriminate.
        - assert (X : exists ts, In (SameValue v ts) (final_diags (tbl ds))) by (exists ts; exact Hf).
          apply (same_value_reported_iff terminal_names predefs ds v Hn) in X as (a & b & r1 & r2 & Hab & Ha & Hb & Da & Db).
          exact (Hsame a b v r1 r2 Hab Ha Hb Da Db).
        - apply no_start_rule_reported_iff in Hf. unfold tbl in Hf. rewrite start_production_iff_start_rule in Hf.
          assert (X : existsb (String.eqb "start") (rules_heads ds) = true).
          { apply existsb_exists. exists "start"%string. split; [exact Hstart | reflexivity]. }
          rewrite X in Hf. discriminate. }
      repeat split.
      + exact Ht.
      + unfold tbl. rewrite recorded_errors_are_the_unknown_predefs. exact Hpre.
      + intros A HA. destruct (existsb (fun p => String.eqb (fst p) A) (s_prods (tbl ds))) eqn:E; [reflexivity|]. exfalso.
        destruct (unproductive_is_mentioned_without_a_rule terminal_names predefs ds A HA E) as [Hm Hh]. apply Hh, Hrules, Hm.
      + exact Hl.
  Qed.
End Verdict.

(* ---- the boolean well-formedness of SpecWf.v (the one evaluated per specification) is [well_formed] ---- *)
Section Boolean.
  Variable predefs : list (string * string).

  Lemma unknown_predefs_nil_iff ds :
    unknown_predefs predefs ds = [] <-> (forall e, In e (declared predefs ds) -> snd e <> None).
  Proof.
    unfold unknown_predefs, declared. split.
    - intros H [n o] Hin Ho. simpl in Ho. subst o. apply in_flat_map in Hin as [d [Hd Hin]].
      destruct d as [n0 k v|a hs|A b]; simpl in Hin; try destruct Hin.
      destruct k as [|[|k]]; simpl in Hin.
      + destruct Hin as [Hin|[]]; discriminate.
      + destruct Hin as [Hin|[]]; discriminate.
      + destruct (find (fun e => String.eqb (fst e) v) predefs) as [p|] eqn:Ef; [destruct Hin as [Hin|[]]; discriminate|].
        assert (X : In v (flat_map (fun d => match d with
                       | DToken _ (S (S _)) v => match find (fun e => String.eqb (fst e) v) predefs with Some _ => [] | None => [v] end
                       | _ => [] end) ds)).
        { apply in_flat_map. exists (DToken n0 (S (S k)) v). split; [exact Hd|]. rewrite Ef. left. reflexivity. }
        rewrite H in X. destruct X.
    - intros H. apply flat_map_nil_all. intros d Hd. destruct d as [n k v|a hs|A b]; try reflexivity.
      destruct k as [|[|k]]; try reflexivity.
      destruct (find (fun e => String.eqb (fst e) v) predefs) as [p|] eqn:Ef; [reflexivity|]. exfalso.
      apply (H (n, None)); [|reflexivity]. apply in_flat_map. exists (DToken n (S (S k)) v). split; [exact Hd|]. simpl. rewrite Ef. left. reflexivity.
  Qed.

  Lemma in_names_iff ds a :
    In a (names predefs ds) <-> (exists o, In (a, o) (declared predefs ds)) \/ (exists lit, In (a, lit) (used_terms ds)).
  Proof.
    unfold names. rewrite nodup_In, in_app_iff, !in_map_iff. split.
    - intros [[[n o] [E H]]|[[n lit] [E H]]]; simpl in E; subst n; [left; exists o | right; exists lit]; exact H.
    - intros [[o H]|[lit H]]; [left; exists (a, o) | right; exists (a, lit)]; split; try reflexivity; exact H.
  Qed.

  Lemma names_are_the_table ds :
    unknown_predefs predefs ds = [] -> forall a, In a (names predefs ds) <-> in_table predefs ds a.
  Proof.
    intros Hu a. rewrite in_names_iff. unfold in_table. split.
    - intros [[o H]|H]; [|right; exact H]. destruct o as [d|]; [left; exists d; exact H|].
      exfalso. apply (proj1 (unknown_predefs_nil_iff ds) Hu (a, None) H). reflexivity.
    - intros [[d H]|H]; [left; exists (Some d); exact H | right; exact H].
  Qed.

  Theorem wf_spec_is_well_formed nu ds :
    wf_spec predefs nu ds = true <-> well_formed predefs ds /\ levels_overlap (directive_levels nu ds) = false.
  Proof.
    unfold wf_spec, well_formed. rewrite !andb_true_iff, negb_true_iff. split.
    - intros [[[[[W1 W2] W3] W4] W5] W6].
      assert (Hu : unknown_predefs predefs ds = []).
      { apply unknown_predefs_nil_iff. intros e He Hn. rewrite forallb_forall in W2. specialize (W2 e He). rewrite Hn in W2. discriminate. }
      pose proof (names_are_the_table ds Hu) as Hnames. rewrite forallb_forall in W1, W3, W5.
      split; [|exact W6]. repeat split.
      + intros a Ha. apply Hnames in Ha. specialize (W1 a Ha). apply Nat.eqb_eq in W1.
        destruct (defs_of predefs ds a) as [|d [|d' t]]; simpl in W1; try discriminate. exists d. reflexivity.
      + exact Hu.
      + intros a b v r1 r2 Hab Ha Hb Da Db. apply Hnames in Ha. apply Hnames in Hb. specialize (W3 a Ha).
        rewrite forallb_forall in W3. specialize (W3 b Hb). destruct (String.eqb a b) eqn:E.
        * apply String.eqb_eq in E. exact (Hab E).
        * rewrite Da, Db, String.eqb_refl in W3. discriminate.
      + apply existsb_exists in W4 as [A [HA E]]. apply String.eqb_eq in E. subst A. exact HA.
      + intros A HA. specialize (W5 A HA). apply existsb_exists in W5 as [B [HB E]]. apply String.eqb_eq in E. subst B. exact HB.
    - intros [(P1 & P2 & P3 & P4 & P5) W6]. pose proof (names_are_the_table ds P2) as Hnames.
      repeat split; try exact W6.
      + apply forallb_forall. intros a Ha. apply Hnames in Ha. destruct (P1 a Ha) as [d Hd]. rewrite Hd. reflexivity.
      + apply forallb_forall. intros [n o] He. destruct o as [d|]; [reflexivity|]. exfalso.
        apply (proj1 (unknown_predefs_nil_iff ds) P2 (n, None) He). reflexivity.
      + apply forallb_forall. intros a Ha. apply forallb_forall. intros b Hb. destruct (String.eqb a b) eqn:E; [reflexivity|].
        apply Hnames in Ha. apply Hnames in Hb.
        destruct (defs_of predefs ds a) as [|[v r1] [|x t]] eqn:Da; try reflexivity.
        destruct (defs_of predefs ds b) as [|[w r2] [|y u]] eqn:Db; try reflexivity.
        destruct (String.eqb v w) eqn:Evw; [|reflexivity]. exfalso. apply String.eqb_eq in Evw. subst w.
        apply (P3 a b v r1 r2); try assumption. intros Hab. subst b. rewrite String.eqb_refl in E. discriminate.
      + apply existsb_exists. exists "start"%string. split; [exact P4 | reflexivity].
      + apply forallb_forall. intros A HA. apply existsb_exists. exists A. split; [apply P5; exact HA | apply String.eqb_refl].
  Qed.
End Boolean.
