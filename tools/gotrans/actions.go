package main

// Mode "actions <repo root> <package dir> <func>": the typing facts of an evaluation callback handed to ParseAndEvaluate.
// For each `case N:` of the switch on the production index: the type assertions made on the values of the body
// symbols (rhs[k].Val.(T), with or without the comma-ok form), the largest constant index into rhs, indexes that are
// not constants, assertions on anything else, and for each successful return the dynamic type of the value returned:
// a concrete type (the static type Go's checker assigns, when it is not an interface), the value of body symbol k
// passed through, the untyped nil, or unknown.  Also the assertion made on the final result after the call.

import (
	"go/ast"
	"go/constant"
	"go/importer"
	"go/parser"
	"go/token"
	"go/types"
	"os"
	"path/filepath"
	"sort"
	"strings"
)

type assertJ struct {
	K        int    `json:"k"`
	Type     string `json:"type"`
	CommaOK  bool   `json:"comma_ok"`
	NilGuard bool   `json:"nil_guard"` // inside `if rhs[k].Val != nil { ... }`
	Iface    bool   `json:"iface"`
	Line     int    `json:"line"`
}

type retJ struct {
	Kind string `json:"kind"` // lit | pass | nil | unknown
	Type string `json:"type,omitempty"`
	K    int    `json:"k"`
	Text string `json:"text,omitempty"`
	Line int    `json:"line"`
}

type actionJ struct {
	Prods       []int     `json:"prods"`
	Asserts     []assertJ `json:"asserts"`
	MaxIndex    int       `json:"max_index"` // -1: rhs is not indexed
	NonConst    []string  `json:"non_const_index"`
	OtherAssert []string  `json:"other_asserts"`
	OtherUses   []string  `json:"other_uses"` // uses of rhs / rhs[k] / rhs[k].Val that the analysis does not account for
	Returns     []retJ    `json:"returns"`
}

func transActions(args []string) any {
	root, dir, fn := args[0], args[1], args[2]
	if err := os.Chdir(root); err != nil {
		fail("chdir: %v", err)
	}
	fset := token.NewFileSet()
	files := []*ast.File{}
	names, _ := filepath.Glob(filepath.Join(root, dir, "*.go"))
	sort.Strings(names)
	for _, p := range names {
		if strings.HasSuffix(p, "_test.go") || isBuildTagged(p) {
			continue
		}
		f, err := parser.ParseFile(fset, p, nil, parser.ParseComments)
		if err != nil {
			fail("parse %s: %v", p, err)
		}
		files = append(files, f)
	}
	info := &types.Info{Types: map[ast.Expr]types.TypeAndValue{}, Uses: map[*ast.Ident]types.Object{}, Defs: map[*ast.Ident]types.Object{}}
	typeErrors := []string{}
	conf := types.Config{Importer: importer.ForCompiler(fset, "source", nil), Error: func(err error) { typeErrors = append(typeErrors, err.Error()) }}
	pkg, _ := conf.Check(filepath.Join(root, dir), fset, files, info)
	qual := types.RelativeTo(pkg)

	var fd *ast.FuncDecl
	for _, f := range files {
		for _, d := range f.Decls {
			if x, ok := d.(*ast.FuncDecl); ok && x.Name.Name == fn && x.Recv == nil {
				fd = x
			}
		}
	}
	if fd == nil {
		fail("function %s not found in %s", fn, dir)
	}
	// the callback: a function literal with parameters (i int, rhs []*lr.Value) given to ParseAndEvaluate
	var lit *ast.FuncLit
	var resName string
	ast.Inspect(fd.Body, func(n ast.Node) bool {
		if as, ok := n.(*ast.AssignStmt); ok && len(as.Rhs) == 1 {
			if c, ok := as.Rhs[0].(*ast.CallExpr); ok {
				if se, ok := c.Fun.(*ast.SelectorExpr); ok && se.Sel.Name == "ParseAndEvaluate" && len(c.Args) == 1 {
					if fl, ok := c.Args[0].(*ast.FuncLit); ok {
						lit = fl
						if id, ok := as.Lhs[0].(*ast.Ident); ok {
							resName = id.Name
						}
					}
				}
			}
		}
		return true
	})
	if lit == nil || len(lit.Type.Params.List) != 2 {
		fail("callback of ParseAndEvaluate not found in %s", fn)
	}
	idxName := lit.Type.Params.List[0].Names[0].Name
	rhsName := lit.Type.Params.List[1].Names[0].Name

	isRhsVal := func(e ast.Expr) (int, bool) { // rhs[k].Val with constant k
		se, ok := e.(*ast.SelectorExpr)
		if !ok || se.Sel.Name != "Val" {
			return 0, false
		}
		ix, ok := se.X.(*ast.IndexExpr)
		if !ok {
			return 0, false
		}
		id, ok := ix.X.(*ast.Ident)
		if !ok || id.Name != rhsName {
			return 0, false
		}
		tv, ok := info.Types[ix.Index]
		if !ok || tv.Value == nil {
			return 0, false
		}
		k, _ := constant.Int64Val(tv.Value)
		return int(k), true
	}

	var sw *ast.SwitchStmt
	for _, s := range lit.Body.List {
		if x, ok := s.(*ast.SwitchStmt); ok {
			if id, ok := x.Tag.(*ast.Ident); ok && id.Name == idxName {
				sw = x
			}
		}
	}
	if sw == nil {
		fail("switch on the production index not found")
	}
	out := []actionJ{}
	for _, st := range sw.Body.List {
		cc := st.(*ast.CaseClause)
		a := actionJ{MaxIndex: -1, Asserts: []assertJ{}, NonConst: []string{}, OtherAssert: []string{}, OtherUses: []string{}, Returns: []retJ{}}
		for _, e := range cc.List {
			if tv, ok := info.Types[e]; ok && tv.Value != nil {
				v, _ := constant.Int64Val(tv.Value)
				a.Prods = append(a.Prods, int(v))
			}
		}
		if len(cc.List) == 0 {
			a.Prods = []int{-1} // default clause
		}
		// comma-ok contexts
		commaOK := map[*ast.TypeAssertExpr]bool{}
		// simple local variables: name -> the expressions assigned to it in this clause
		assigned := map[string][]ast.Expr{}
		for _, s := range cc.Body {
			ast.Inspect(s, func(n ast.Node) bool {
				switch x := n.(type) {
				case *ast.AssignStmt:
					if len(x.Lhs) == 2 && len(x.Rhs) == 1 {
						if ta, ok := x.Rhs[0].(*ast.TypeAssertExpr); ok {
							commaOK[ta] = true
						}
					}
					if len(x.Lhs) == len(x.Rhs) {
						for i, l := range x.Lhs {
							if id, ok := l.(*ast.Ident); ok {
								assigned[id.Name] = append(assigned[id.Name], x.Rhs[i])
							}
						}
					}
				case *ast.ValueSpec:
					if len(x.Names) == 2 && len(x.Values) == 1 {
						if ta, ok := x.Values[0].(*ast.TypeAssertExpr); ok {
							commaOK[ta] = true
						}
					}
				case *ast.TypeSwitchStmt:
					ast.Inspect(x.Assign, func(m ast.Node) bool {
						if ta, ok := m.(*ast.TypeAssertExpr); ok {
							commaOK[ta] = true
						}
						return true
					})
				}
				return true
			})
		}
		// assertions guarded by a nil test of the same value
		nilGuarded := map[*ast.TypeAssertExpr]bool{}
		for _, s := range cc.Body {
			ast.Inspect(s, func(n ast.Node) bool {
				if is, ok := n.(*ast.IfStmt); ok {
					if be, ok := is.Cond.(*ast.BinaryExpr); ok && be.Op == token.NEQ {
						if id, ok := be.Y.(*ast.Ident); ok && id.Name == "nil" {
							if k, ok := isRhsVal(be.X); ok {
								ast.Inspect(is.Body, func(m ast.Node) bool {
									if ta, ok := m.(*ast.TypeAssertExpr); ok {
										if k2, ok := isRhsVal(ta.X); ok && k2 == k {
											nilGuarded[ta] = true
										}
									}
									return true
								})
							}
						}
					}
				}
				return true
			})
		}
		for _, s := range cc.Body {
			ast.Inspect(s, func(n ast.Node) bool {
				switch x := n.(type) {
				case *ast.FuncLit:
					return true
				case *ast.TypeAssertExpr:
					line := fset.Position(x.Pos()).Line
					if k, ok := isRhsVal(x.X); ok {
						if x.Type == nil {
							a.Asserts = append(a.Asserts, assertJ{K: k, Type: "(type switch)", CommaOK: true, Line: line})
						} else {
							t := info.Types[x.Type].Type
							_, iface := t.Underlying().(*types.Interface)
							a.Asserts = append(a.Asserts, assertJ{K: k, Type: types.TypeString(t, qual), CommaOK: commaOK[x], NilGuard: nilGuarded[x], Iface: iface, Line: line})
						}
					} else if !commaOK[x] {
						a.OtherAssert = append(a.OtherAssert, nodeText(fset, x))
					}
				case *ast.IndexExpr:
					if id, ok := x.X.(*ast.Ident); ok && id.Name == rhsName {
						if tv, ok := info.Types[x.Index]; ok && tv.Value != nil {
							k, _ := constant.Int64Val(tv.Value)
							if int(k) > a.MaxIndex {
								a.MaxIndex = int(k)
							}
						} else {
							a.NonConst = append(a.NonConst, nodeText(fset, x))
						}
					}
				case *ast.ReturnStmt:
					if len(x.Results) != 2 {
						return true
					}
					if id, ok := x.Results[1].(*ast.Ident); !ok || id.Name != "nil" {
						return true // an error return
					}
					a.Returns = append(a.Returns, classifyReturn(fset, info, qual, x.Results[0], isRhsVal, assigned, 0))
				}
				return true
			})
		}
		// every occurrence of rhs must be one of: rhs[k].Pos, rhs[k].Val under a type assertion, as a returned value,
		// compared with nil, or as an argument of fmt.Sprintf (formatting cannot fail); anything else (rhs handed to a
		// helper, len(rhs), a loop over rhs, rhs[k].Val stored in a variable) is outside the analysis
		for _, s := range cc.Body {
			var stack []ast.Node
			ast.Inspect(s, func(n ast.Node) bool {
				if n == nil {
					stack = stack[:len(stack)-1]
					return true
				}
				stack = append(stack, n)
				id, ok := n.(*ast.Ident)
				if !ok || id.Name != rhsName {
					return true
				}
				up := func(k int) ast.Node {
					if len(stack)-1-k >= 0 {
						return stack[len(stack)-1-k]
					}
					return nil
				}
				ix, isIx := up(1).(*ast.IndexExpr)
				if !isIx || ix.X != ast.Expr(id) {
					a.OtherUses = append(a.OtherUses, nodeText(fset, up(1)))
					return true
				}
				sel, isSel := up(2).(*ast.SelectorExpr)
				if !isSel {
					a.OtherUses = append(a.OtherUses, nodeText(fset, up(2)))
					return true
				}
				if sel.Sel.Name == "Pos" {
					return true
				}
				if sel.Sel.Name != "Val" {
					a.OtherUses = append(a.OtherUses, nodeText(fset, sel))
					return true
				}
				switch p := up(3).(type) {
				case *ast.TypeAssertExpr:
					if p.X == ast.Expr(sel) {
						return true
					}
				case *ast.ReturnStmt:
					return true
				case *ast.BinaryExpr:
					if other, ok := p.Y.(*ast.Ident); ok && other.Name == "nil" && (p.Op == token.NEQ || p.Op == token.EQL) {
						return true
					}
				case *ast.CallExpr:
					if nodeText(fset, p.Fun) == "fmt.Sprintf" {
						return true
					}
				}
				a.OtherUses = append(a.OtherUses, nodeText(fset, up(3)))
				return true
			})
		}
		out = append(out, a)
	}
	// the assertion on the final result
	final := ""
	ast.Inspect(fd.Body, func(n ast.Node) bool {
		if ta, ok := n.(*ast.TypeAssertExpr); ok && ta.Type != nil {
			if se, ok := ta.X.(*ast.SelectorExpr); ok && se.Sel.Name == "Val" {
				if id, ok := se.X.(*ast.Ident); ok && id.Name == resName {
					final = types.TypeString(info.Types[ta.Type].Type, qual)
				}
			}
		}
		return true
	})
	// which concrete types implement the interfaces asserted
	implements := map[string][]string{}
	concrete := map[string]types.Type{}
	for _, a := range out {
		for _, r := range a.Returns {
			if r.Kind == "lit" {
				for e, tv := range info.Types {
					_ = e
					if types.TypeString(tv.Type, qual) == r.Type {
						concrete[r.Type] = tv.Type
						break
					}
				}
			}
		}
	}
	for _, a := range out {
		for _, as := range a.Asserts {
			if !as.Iface {
				continue
			}
			var it *types.Interface
			for _, tv := range info.Types {
				if types.TypeString(tv.Type, qual) == as.Type {
					it, _ = tv.Type.Underlying().(*types.Interface)
					break
				}
			}
			if it == nil {
				continue
			}
			l := []string{}
			for name, t := range concrete {
				if types.Implements(t, it) {
					l = append(l, name)
				}
			}
			sort.Strings(l)
			implements[as.Type] = l
		}
	}
	return map[string]any{"actions": out, "final_assert": final, "implements": implements, "type_errors": typeErrors}
}

func classifyReturn(fset *token.FileSet, info *types.Info, qual types.Qualifier, e ast.Expr,
	isRhsVal func(ast.Expr) (int, bool), assigned map[string][]ast.Expr, depth int) retJ {
	line := fset.Position(e.Pos()).Line
	if id, ok := e.(*ast.Ident); ok && id.Name == "nil" {
		return retJ{Kind: "nil", Line: line}
	}
	if k, ok := isRhsVal(e); ok {
		return retJ{Kind: "pass", K: k, Line: line}
	}
	tv, ok := info.Types[e]
	if !ok {
		return retJ{Kind: "unknown", Text: nodeText(fset, e), Line: line}
	}
	if _, iface := tv.Type.Underlying().(*types.Interface); !iface {
		return retJ{Kind: "lit", Type: types.TypeString(tv.Type, qual), Line: line}
	}
	// a local variable of interface type with a single classifiable assignment
	if id, ok := e.(*ast.Ident); ok && depth < 3 {
		if as := assigned[id.Name]; len(as) == 1 {
			return classifyReturn(fset, info, qual, as[0], isRhsVal, assigned, depth+1)
		}
	}
	return retJ{Kind: "unknown", Text: nodeText(fset, e) + " : " + types.TypeString(tv.Type, qual), Line: line}
}
