package main

func transVars(paths []string) any { fail("vars: not implemented"); return nil }
