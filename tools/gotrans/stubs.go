package main

func transTable(path string) any  { fail("table: not implemented"); return nil }
func transVars(paths []string) any { fail("vars: not implemented"); return nil }
