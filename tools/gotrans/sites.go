package main

// Mode "sites": every place in /repo's own (non-test, non-hook) code where the order of evaluation is not fixed
// by the program text or where state outlives one call:
//   - range statements whose operand has map type (Go randomises the order), with the syntactic shape of the
//     loop body, so that each site can be matched with the lemma that makes it order-independent;
//   - go statements and select statements (scheduling);
//   - package-level variables with their type and every write to them outside their declaration;
//   - calls into time, math/rand, os.Getenv/Getpid/Hostname (inputs other than the arguments).
// Types come from go/types with the source importer, run from inside the module.

import (
	"bytes"
	"go/ast"
	"go/build"
	"go/importer"
	"go/parser"
	"go/printer"
	"go/token"
	"go/types"
	"os"
	"path/filepath"
	"sort"
	"strings"
)

type rangeSite struct {
	File    string       `json:"file"`
	Func    string       `json:"func"`
	Line    int          `json:"line"`
	Operand string       `json:"operand"`
	Type    string       `json:"type"`
	Key     string       `json:"key"`
	Value   string       `json:"value"`
	Shape   string       `json:"shape"`
	Body    string       `json:"body"`
	After   string       `json:"after"`
	Collect *collectInfo `json:"collect"`
}

// collectInfo describes a loop whose body only appends the key or the value to a slice (possibly under a condition),
// and the sort applied to that slice by the statement that follows the loop.
type collectInfo struct {
	Slice      string `json:"slice"`
	Element    string `json:"element"` // key | value | other
	Filtered   bool   `json:"filtered"`
	Sorter     string `json:"sorter"`      // e.g. slices.Sort, sort.Quick
	SorterPkg  string `json:"sorter_pkg"`  // import path of the sorter's package
	SorterArgs string `json:"sorter_args"` // arguments after the slice
}

type iterSite struct {
	File    string       `json:"file"`
	Func    string       `json:"func"`
	Line    int          `json:"line"`
	Operand string       `json:"operand"`
	Type    string       `json:"type"`
	Key     string       `json:"key"`
	Value   string       `json:"value"`
	Body    string       `json:"body"`
	After   string       `json:"after"`
	Collect *collectInfo `json:"collect"`
}

type ctorSite struct {
	File string `json:"file"`
	Func string `json:"func"`
	Lhs  string `json:"lhs"`
	Ctor string `json:"ctor"`
}

type varSite struct {
	File   string   `json:"file"`
	Name   string   `json:"name"`
	Type   string   `json:"type"`
	Kind   string   `json:"kind"` // value | reference (map, slice, pointer, interface, chan, func)
	Writes []string `json:"writes"`
	Calls  []string `json:"calls"`  // method calls with the variable as receiver: func:method
	Passed []string `json:"passed"` // the variable itself given as an argument, returned, assigned or its address taken
}

type callSite struct {
	File string `json:"file"`
	Func string `json:"func"`
	Line int    `json:"line"`
	Call string `json:"call"`
}

func nodeText(fset *token.FileSet, n ast.Node) string {
	if n == nil {
		return ""
	}
	var b bytes.Buffer
	_ = printer.Fprint(&b, fset, n)
	return strings.Join(strings.Fields(b.String()), " ")
}

func isBuildTagged(path string) bool {
	data, err := os.ReadFile(path)
	if err != nil {
		return false
	}
	for _, line := range strings.Split(string(data), "\n") {
		t := strings.TrimSpace(line)
		if strings.HasPrefix(t, "package ") {
			break
		}
		if strings.HasPrefix(t, "//go:build") && strings.Contains(t, "verif") {
			return true
		}
	}
	return false
}

// collectOf recognises `for k, v := range X { [if c {] xs = append(xs, k|v) [}] }` followed by a sort of xs.
func collectOf(fset *token.FileSet, info *types.Info, rs *ast.RangeStmt, next ast.Stmt) *collectInfo {
	if len(rs.Body.List) != 1 {
		return nil
	}
	st := rs.Body.List[0]
	filtered := false
	if is, ok := st.(*ast.IfStmt); ok && is.Else == nil && is.Init == nil && len(is.Body.List) == 1 {
		st = is.Body.List[0]
		filtered = true
	}
	as, ok := st.(*ast.AssignStmt)
	if !ok || len(as.Lhs) != 1 || len(as.Rhs) != 1 {
		return nil
	}
	call, ok := as.Rhs[0].(*ast.CallExpr)
	if !ok || nodeText(fset, call.Fun) != "append" || len(call.Args) != 2 || nodeText(fset, call.Args[0]) != nodeText(fset, as.Lhs[0]) {
		return nil
	}
	ci := &collectInfo{Slice: nodeText(fset, as.Lhs[0]), Element: "other", Filtered: filtered}
	el := nodeText(fset, call.Args[1])
	if rs.Key != nil && el == nodeText(fset, rs.Key) {
		ci.Element = "key"
	} else if rs.Value != nil && el == nodeText(fset, rs.Value) {
		ci.Element = "value"
	} else {
		ci.Element = "other: " + el
	}
	if es, ok := next.(*ast.ExprStmt); ok {
		if c2, ok := es.X.(*ast.CallExpr); ok && len(c2.Args) >= 1 && nodeText(fset, c2.Args[0]) == ci.Slice {
			if se, ok := c2.Fun.(*ast.SelectorExpr); ok {
				if id, ok := se.X.(*ast.Ident); ok {
					if pn, ok := info.Uses[id].(*types.PkgName); ok {
						ci.Sorter = nodeText(fset, c2.Fun)
						ci.SorterPkg = pn.Imported().Path()
						rest := []string{}
						for _, a := range c2.Args[1:] {
							rest = append(rest, nodeText(fset, a))
						}
						ci.SorterArgs = strings.Join(rest, ", ")
					}
				}
			}
		}
	}
	return ci
}

func transSites(args []string) any {
	root := args[0]
	if err := os.Chdir(root); err != nil {
		fail("chdir: %v", err)
	}
	fset := token.NewFileSet()
	pkgDirs := map[string][]string{}
	_ = filepath.Walk(root, func(p string, info os.FileInfo, err error) error {
		if err != nil {
			return nil
		}
		if info.IsDir() {
			b := filepath.Base(p)
			if b == "verifhook" || b == "testdata" || strings.HasPrefix(b, ".") && p != root {
				return filepath.SkipDir
			}
			return nil
		}
		if strings.HasSuffix(p, ".go") && !strings.HasSuffix(p, "_test.go") && !isBuildTagged(p) {
			pkgDirs[filepath.Dir(p)] = append(pkgDirs[filepath.Dir(p)], p)
		}
		return nil
	})
	dirs := make([]string, 0, len(pkgDirs))
	for d := range pkgDirs {
		dirs = append(dirs, d)
	}
	sort.Strings(dirs)

	ctx := build.Default
	imp := importer.ForCompiler(fset, "source", nil)
	_ = ctx

	ranges := []rangeSite{}
	iters := []iterSite{}
	vars := []varSite{}
	gos := []callSite{}
	ambient := []callSite{}
	unordered := []callSite{}
	ctors := []ctorSite{}
	typeErrors := []string{}
	type pkgData struct {
		files []*ast.File
		info  *types.Info
	}
	allPkgs := []pkgData{}
	module := modulePath(root)

	for _, d := range dirs {
		files := []*ast.File{}
		sort.Strings(pkgDirs[d])
		for _, p := range pkgDirs[d] {
			f, err := parser.ParseFile(fset, p, nil, parser.ParseComments)
			if err != nil {
				fail("parse %s: %v", p, err)
			}
			files = append(files, f)
		}
		info := &types.Info{Types: map[ast.Expr]types.TypeAndValue{}, Uses: map[*ast.Ident]types.Object{}, Defs: map[*ast.Ident]types.Object{}}
		conf := types.Config{Importer: imp, Error: func(err error) { typeErrors = append(typeErrors, err.Error()) }}
		pkg, _ := conf.Check(d, fset, files, info)
		allPkgs = append(allPkgs, pkgData{files, info})

		// package-level variables
		pkgVars := map[types.Object]*varSite{}
		order := []types.Object{}
		for _, f := range files {
			for _, decl := range f.Decls {
				gd, ok := decl.(*ast.GenDecl)
				if !ok || gd.Tok != token.VAR {
					continue
				}
				for _, s := range gd.Specs {
					vs := s.(*ast.ValueSpec)
					for _, n := range vs.Names {
						if n.Name == "_" {
							continue
						}
						obj := info.Defs[n]
						if obj == nil {
							continue
						}
						kind := "value"
						switch obj.Type().Underlying().(type) {
						case *types.Map, *types.Slice, *types.Pointer, *types.Interface, *types.Chan, *types.Signature:
							kind = "reference"
						}
						rel, _ := filepath.Rel(root, fset.Position(n.Pos()).Filename)
						v := &varSite{File: rel, Name: n.Name, Type: types.TypeString(obj.Type(), types.RelativeTo(pkg)), Kind: kind, Writes: []string{}, Calls: []string{}, Passed: []string{}}
						pkgVars[obj] = v
						order = append(order, obj)
					}
				}
			}
		}

		for _, f := range files {
			rel, _ := filepath.Rel(root, fset.Position(f.Pos()).Filename)
			for _, decl := range f.Decls {
				fd, ok := decl.(*ast.FuncDecl)
				if !ok || fd.Body == nil {
					continue
				}
				fname := fd.Name.Name
				if fd.Recv != nil && len(fd.Recv.List) > 0 {
					fname = nodeText(fset, fd.Recv.List[0].Type) + "." + fname
				}
				// statement lists, to see what follows a range statement
				var walkBlock func(list []ast.Stmt)
				visitRange := func(rs *ast.RangeStmt, next ast.Stmt) {
					tv, ok := info.Types[rs.X]
					if !ok {
						return
					}
					line := fset.Position(rs.Pos()).Line
					switch tv.Type.Underlying().(type) {
					case *types.Map:
						site := rangeSite{File: rel, Func: fname, Line: line, Operand: nodeText(fset, rs.X),
							Type: types.TypeString(tv.Type, types.RelativeTo(pkg)), Key: nodeText(fset, rs.Key), Value: nodeText(fset, rs.Value),
							Shape: "other", Body: nodeText(fset, rs.Body), After: nodeText(fset, next), Collect: collectOf(fset, info, rs, next)}
						// shape: for k := range m { xs = append(xs, k) } ; slices.Sort(xs)
						if rs.Value == nil && len(rs.Body.List) == 1 {
							if as, ok := rs.Body.List[0].(*ast.AssignStmt); ok && len(as.Lhs) == 1 && len(as.Rhs) == 1 {
								if call, ok := as.Rhs[0].(*ast.CallExpr); ok && nodeText(fset, call.Fun) == "append" && len(call.Args) == 2 &&
									nodeText(fset, call.Args[0]) == nodeText(fset, as.Lhs[0]) && nodeText(fset, call.Args[1]) == site.Key {
									xs := nodeText(fset, as.Lhs[0])
									if es, ok := next.(*ast.ExprStmt); ok {
										if c2, ok := es.X.(*ast.CallExpr); ok && len(c2.Args) == 1 && nodeText(fset, c2.Args[0]) == xs {
											fn := nodeText(fset, c2.Fun)
											if fn == "slices.Sort" || fn == "sort.Strings" || fn == "sort.Ints" {
												if se, ok := c2.Fun.(*ast.SelectorExpr); ok {
													if id, ok := se.X.(*ast.Ident); ok {
														if pn, ok := info.Uses[id].(*types.PkgName); ok && (pn.Imported().Path() == "slices" || pn.Imported().Path() == "sort") {
															site.Shape = "collect_keys_sorted"
														}
													}
												}
											}
										}
									}
								}
							}
						}
						ranges = append(ranges, site)
					case *types.Signature:
						iters = append(iters, iterSite{File: rel, Func: fname, Line: line, Operand: nodeText(fset, rs.X), Type: types.TypeString(tv.Type, types.RelativeTo(pkg)),
							Key: nodeText(fset, rs.Key), Value: nodeText(fset, rs.Value), Body: nodeText(fset, rs.Body), After: nodeText(fset, next), Collect: collectOf(fset, info, rs, next)})
					case *types.Chan:
						gos = append(gos, callSite{File: rel, Func: fname, Line: line, Call: "range over channel " + nodeText(fset, rs.X)})
					}
				}
				walkBlock = func(list []ast.Stmt) {
					for i, s := range list {
						if rs, ok := s.(*ast.RangeStmt); ok {
							var next ast.Stmt
							if i+1 < len(list) {
								next = list[i+1]
							}
							visitRange(rs, next)
						}
					}
				}
				// a package variable of reference kind stored somewhere (alias, struct field, slice element, closure capture is not
				// detected): afterwards it can be modified through the other name
				{
					var stack []ast.Node
					ast.Inspect(fd.Body, func(n ast.Node) bool {
						if n == nil {
							stack = stack[:len(stack)-1]
							return true
						}
						stack = append(stack, n)
						id, ok := n.(*ast.Ident)
						if !ok {
							return true
						}
						v, ok := pkgVars[info.Uses[id]]
						if !ok || v.Kind != "reference" || len(stack) < 2 {
							return true
						}
						switch p := stack[len(stack)-2].(type) {
						case *ast.AssignStmt:
							for _, r := range p.Rhs {
								if r == ast.Expr(id) {
									v.Passed = append(v.Passed, fname+": alias "+nodeText(fset, p))
								}
							}
						case *ast.ValueSpec:
							for _, r := range p.Values {
								if r == ast.Expr(id) {
									v.Passed = append(v.Passed, fname+": alias "+nodeText(fset, p))
								}
							}
						case *ast.KeyValueExpr:
							if p.Value == ast.Expr(id) {
								v.Passed = append(v.Passed, fname+": stored in a composite literal")
							}
						case *ast.CompositeLit:
							v.Passed = append(v.Passed, fname+": stored in a composite literal")
						}
						return true
					})
				}
				ast.Inspect(fd.Body, func(n ast.Node) bool {
					switch x := n.(type) {
					case *ast.BlockStmt:
						walkBlock(x.List)
					case *ast.CaseClause:
						walkBlock(x.Body)
					case *ast.CommClause:
						walkBlock(x.Body)
					case *ast.GoStmt:
						gos = append(gos, callSite{File: rel, Func: fname, Line: fset.Position(x.Pos()).Line, Call: "go " + nodeText(fset, x.Call.Fun)})
					case *ast.SelectStmt:
						gos = append(gos, callSite{File: rel, Func: fname, Line: fset.Position(x.Pos()).Line, Call: "select"})
					case *ast.AssignStmt:
						if len(x.Lhs) == 1 && len(x.Rhs) == 1 {
							if c, ok := x.Rhs[0].(*ast.CallExpr); ok {
								fn := c.Fun
								if ix, ok := fn.(*ast.IndexListExpr); ok {
									fn = ix.X
								} else if ix, ok := fn.(*ast.IndexExpr); ok {
									fn = ix.X
								}
								if se, ok := fn.(*ast.SelectorExpr); ok {
									if id, ok := se.X.(*ast.Ident); ok {
										if pn, ok := info.Uses[id].(*types.PkgName); ok && strings.HasSuffix(pn.Imported().Path(), "/symboltable") && strings.HasPrefix(se.Sel.Name, "New") {
											ctors = append(ctors, ctorSite{File: rel, Func: fname, Lhs: nodeText(fset, x.Lhs[0]), Ctor: se.Sel.Name})
										}
									}
								}
							}
						}
						for _, l := range x.Lhs {
							base := l
							for {
								switch b := base.(type) {
								case *ast.IndexExpr:
									base = b.X
									continue
								case *ast.SelectorExpr:
									if _, isPkg := info.Uses[identOf(b.X)].(*types.PkgName); isPkg {
										break
									}
									base = b.X
									continue
								case *ast.StarExpr:
									base = b.X
									continue
								case *ast.ParenExpr:
									base = b.X
									continue
								}
								break
							}
							if id, ok := base.(*ast.Ident); ok {
								if v, ok := pkgVars[info.Uses[id]]; ok {
									v.Writes = append(v.Writes, fname+": "+nodeText(fset, x))
								}
							}
						}
					case *ast.IncDecStmt:
						if id, ok := x.X.(*ast.Ident); ok {
							if v, ok := pkgVars[info.Uses[id]]; ok {
								v.Writes = append(v.Writes, fname+": "+nodeText(fset, x))
							}
						}
					case *ast.UnaryExpr:
						if x.Op == token.AND {
							if id, ok := x.X.(*ast.Ident); ok {
								if v, ok := pkgVars[info.Uses[id]]; ok {
									v.Passed = append(v.Passed, fname+": "+nodeText(fset, x))
								}
							}
						}
					case *ast.ReturnStmt:
						for _, r := range x.Results {
							if id, ok := r.(*ast.Ident); ok {
								if v, ok := pkgVars[info.Uses[id]]; ok {
									v.Passed = append(v.Passed, fname+": return "+id.Name)
								}
							}
						}
					case *ast.CallExpr:
						for _, a := range x.Args {
							if id, ok := a.(*ast.Ident); ok {
								if v, ok := pkgVars[info.Uses[id]]; ok {
									if fn := nodeText(fset, x.Fun); fn == "delete" || fn == "clear" {
										v.Writes = append(v.Writes, fname+": "+nodeText(fset, x))
									} else if fn != "len" && fn != "cap" {
										v.Passed = append(v.Passed, fname+": "+fn+"(.."+id.Name+"..)")
									}
								}
							}
						}
						if se, ok := x.Fun.(*ast.SelectorExpr); ok {
							if tv, ok := info.Types[se.X]; ok && se.Sel.Name == "Range" && strings.Contains(tv.Type.String(), "sync.Map") {
								unordered = append(unordered, callSite{File: rel, Func: fname, Line: fset.Position(x.Pos()).Line, Call: "sync.Map.Range"})
							}
							if id, ok := se.X.(*ast.Ident); ok {
								if v, ok := pkgVars[info.Uses[id]]; ok {
									v.Calls = append(v.Calls, fname+": "+se.Sel.Name)
								}
								if pn, ok := info.Uses[id].(*types.PkgName); ok {
									p := pn.Imported().Path()
									full := p + "." + se.Sel.Name
									if (p == "maps" && (se.Sel.Name == "Keys" || se.Sel.Name == "Values" || se.Sel.Name == "All")) ||
										(p == "reflect" && (se.Sel.Name == "MapKeys" || se.Sel.Name == "MapRange")) {
										unordered = append(unordered, callSite{File: rel, Func: fname, Line: fset.Position(x.Pos()).Line, Call: full})
									}
									if p == "time" || p == "math/rand" || p == "math/rand/v2" || p == "crypto/rand" ||
										full == "os.Getenv" || full == "os.Getpid" || full == "os.Hostname" || full == "os.Environ" || full == "os.LookupEnv" {
										ambient = append(ambient, callSite{File: rel, Func: fname, Line: fset.Position(x.Pos()).Line, Call: full})
									}
								}
							}
						}
					}
					return true
				})
			}
		}
		for _, o := range order {
			v := pkgVars[o]
			sort.Strings(v.Writes)
			sort.Strings(v.Calls)
			sort.Strings(v.Passed)
			vars = append(vars, *v)
		}
	}
	// pass 2: uses of an exported package variable from ANOTHER package of the module (pkg.Var), classified by context
	byKey := map[string]*varSite{}
	for i := range vars {
		byKey[filepath.ToSlash(filepath.Dir(vars[i].File))+"."+vars[i].Name] = &vars[i]
	}
	for _, pd := range allPkgs {
		for _, f := range pd.files {
			rel, _ := filepath.Rel(root, fset.Position(f.Pos()).Filename)
			var stack []ast.Node
			ast.Inspect(f, func(n ast.Node) bool {
				if n == nil {
					stack = stack[:len(stack)-1]
					return true
				}
				stack = append(stack, n)
				se, ok := n.(*ast.SelectorExpr)
				if !ok {
					return true
				}
				id, ok := se.X.(*ast.Ident)
				if !ok {
					return true
				}
				pn, ok := pd.info.Uses[id].(*types.PkgName)
				if !ok || !strings.HasPrefix(pn.Imported().Path(), module+"/") {
					return true
				}
				v, ok := byKey[strings.TrimPrefix(pn.Imported().Path(), module+"/")+"."+se.Sel.Name]
				if !ok {
					return true
				}
				where := rel + ": "
				// climb through index / field / star to the statement that uses the variable
				k := len(stack) - 2
				cur := ast.Node(se)
				for k >= 0 {
					switch p := stack[k].(type) {
					case *ast.IndexExpr:
						if p.X == cur {
							cur = p
							k--
							continue
						}
					case *ast.SelectorExpr:
						if p.X == cur {
							cur = p
							k--
							continue
						}
					case *ast.StarExpr, *ast.ParenExpr:
						cur = stack[k]
						k--
						continue
					}
					break
				}
				if k < 0 {
					return true
				}
				switch p := stack[k].(type) {
				case *ast.AssignStmt:
					for _, l := range p.Lhs {
						if l == cur {
							v.Writes = append(v.Writes, where+nodeText(fset, p))
						}
					}
					for _, r := range p.Rhs {
						if r == cur && cur == ast.Node(se) && v.Kind == "reference" {
							v.Passed = append(v.Passed, where+"alias "+nodeText(fset, p))
						}
					}
				case *ast.IncDecStmt:
					v.Writes = append(v.Writes, where+nodeText(fset, p))
				case *ast.CallExpr:
					if p.Fun == cur {
						if cs, ok := cur.(*ast.SelectorExpr); ok && cs != se {
							v.Calls = append(v.Calls, where+cs.Sel.Name)
						}
					} else if cur == ast.Node(se) {
						fn := nodeText(fset, p.Fun)
						if fn == "delete" || fn == "clear" || fn == "append" {
							v.Writes = append(v.Writes, where+nodeText(fset, p))
						} else if fn != "len" && fn != "cap" && v.Kind == "reference" {
							v.Passed = append(v.Passed, where+fn+"(.."+se.Sel.Name+"..)")
						}
					}
				case *ast.UnaryExpr:
					if p.Op == token.AND {
						v.Passed = append(v.Passed, where+nodeText(fset, p))
					}
				case *ast.KeyValueExpr, *ast.CompositeLit, *ast.ReturnStmt, *ast.ValueSpec:
					if cur == ast.Node(se) && v.Kind == "reference" {
						v.Passed = append(v.Passed, where+"stored or returned")
					}
				}
				return true
			})
		}
	}
	return map[string]any{"map_ranges": ranges, "iterator_ranges": iters, "package_vars": vars, "scheduling": gos, "ambient": ambient, "unordered_calls": unordered, "constructors": ctors, "type_errors": typeErrors}
}

func modulePath(root string) string {
	data, err := os.ReadFile(filepath.Join(root, "go.mod"))
	if err != nil {
		return ""
	}
	for _, line := range strings.Split(string(data), "\n") {
		if strings.HasPrefix(line, "module ") {
			return strings.TrimSpace(strings.TrimPrefix(line, "module "))
		}
	}
	return ""
}

func identOf(e ast.Expr) *ast.Ident {
	if id, ok := e.(*ast.Ident); ok {
		return id
	}
	return nil
}
