// Command gotrans transliterates table-like Go source of gardenbed/emerge into JSON facts.
// It does no reasoning: it accepts exactly the syntactic shapes listed below and fails loudly otherwise.
//
//	gotrans lexer <file.go>        advanceDFA / evalDFA / NextToken skip set / constants
//	gotrans table <file.go>        productions / terminals / nonTerminals / precedences / ACTION / GOTO
//	gotrans vars  <dir>...         package-level vars and map-typed range sites (best effort, syntactic)
package main

import (
	"encoding/json"
	"fmt"
	"go/ast"
	"go/parser"
	"go/token"
	"os"
	"sort"
	"strconv"
)

func fail(format string, a ...any) {
	fmt.Fprintf(os.Stderr, "gotrans: "+format+"\n", a...)
	os.Exit(2)
}

func main() {
	if len(os.Args) < 3 {
		fail("usage: gotrans <mode> <path>...")
	}
	var out any
	switch os.Args[1] {
	case "lexer":
		out = transLexer(os.Args[2])
	case "table":
		out = transTable(os.Args[2])
	case "vars":
		out = transVars(os.Args[2:])
	case "misc":
		out = transMisc(os.Args[2:])
	case "sites":
		out = transSites(os.Args[2:])
	case "cli":
		out = transCli(os.Args[2:])
	case "actions":
		out = transActions(os.Args[2:])
	default:
		fail("unknown mode %q", os.Args[1])
	}
	enc := json.NewEncoder(os.Stdout)
	enc.SetEscapeHTML(false)
	if err := enc.Encode(out); err != nil {
		fail("%v", err)
	}
}

func parseFile(path string) (*token.FileSet, *ast.File) {
	fset := token.NewFileSet()
	f, err := parser.ParseFile(fset, path, nil, parser.ParseComments)
	if err != nil {
		fail("parse %s: %v", path, err)
	}
	return fset, f
}

func findFunc(f *ast.File, name string) *ast.FuncDecl {
	for _, d := range f.Decls {
		if fd, ok := d.(*ast.FuncDecl); ok && fd.Name.Name == name {
			return fd
		}
	}
	fail("function %s not found", name)
	return nil
}

func where(fset *token.FileSet, n ast.Node) string { return fset.Position(n.Pos()).String() }

// intLit evaluates an integer literal, a negated one, a rune literal, or a named int constant.
func intLit(fset *token.FileSet, e ast.Expr, consts map[string]int) int {
	switch x := e.(type) {
	case *ast.BasicLit:
		switch x.Kind {
		case token.INT:
			v, err := strconv.ParseInt(x.Value, 0, 64)
			if err != nil {
				fail("%s: bad int %s", where(fset, e), x.Value)
			}
			return int(v)
		case token.CHAR:
			s, err := strconv.Unquote(x.Value)
			if err != nil {
				fail("%s: bad char %s", where(fset, e), x.Value)
			}
			r := []rune(s)
			if len(r) != 1 {
				fail("%s: bad char %s", where(fset, e), x.Value)
			}
			return int(r[0])
		}
	case *ast.UnaryExpr:
		if x.Op == token.SUB {
			return -intLit(fset, x.X, consts)
		}
	case *ast.Ident:
		if v, ok := consts[x.Name]; ok {
			return v
		}
	case *ast.ParenExpr:
		return intLit(fset, x.X, consts)
	}
	fail("%s: expected an integer/rune constant", where(fset, e))
	return 0
}

func strLit(fset *token.FileSet, e ast.Expr) string {
	if x, ok := e.(*ast.BasicLit); ok && x.Kind == token.STRING {
		s, err := strconv.Unquote(x.Value)
		if err != nil {
			fail("%s: bad string %s", where(fset, e), x.Value)
		}
		return s
	}
	fail("%s: expected a string literal", where(fset, e))
	return ""
}

// intConsts collects `const name = <int literal>` declarations.
func intConsts(fset *token.FileSet, f *ast.File) map[string]int {
	m := map[string]int{}
	for _, d := range f.Decls {
		gd, ok := d.(*ast.GenDecl)
		if !ok || gd.Tok != token.CONST {
			continue
		}
		for _, s := range gd.Specs {
			vs := s.(*ast.ValueSpec)
			for i, n := range vs.Names {
				if i < len(vs.Values) {
					switch v := vs.Values[i].(type) {
					case *ast.BasicLit:
						if v.Kind == token.INT {
							m[n.Name] = intLit(fset, v, nil)
						}
					case *ast.UnaryExpr:
						if bl, ok := v.X.(*ast.BasicLit); ok && bl.Kind == token.INT && v.Op == token.SUB {
							m[n.Name] = -intLit(fset, bl, nil)
						}
					}
				}
			}
		}
	}
	return m
}

// termConsts collects `NAME = grammar.Terminal("...")` constants.
func termConsts(fset *token.FileSet, f *ast.File) map[string]string {
	m := map[string]string{}
	for _, d := range f.Decls {
		gd, ok := d.(*ast.GenDecl)
		if !ok || gd.Tok != token.CONST {
			continue
		}
		for _, s := range gd.Specs {
			vs := s.(*ast.ValueSpec)
			for i, n := range vs.Names {
				if i >= len(vs.Values) {
					continue
				}
				if ce, ok := vs.Values[i].(*ast.CallExpr); ok && len(ce.Args) == 1 {
					if se, ok := ce.Fun.(*ast.SelectorExpr); ok && se.Sel.Name == "Terminal" {
						m[n.Name] = strLit(fset, ce.Args[0])
					}
					if id, ok := ce.Fun.(*ast.Ident); ok && id.Name == "Terminal" {
						m[n.Name] = strLit(fset, ce.Args[0])
					}
				}
			}
		}
	}
	return m
}

type edge [4]int // from, lo, hi, to

func compress(from int, runes []int, to int) []edge {
	sort.Ints(runes)
	var es []edge
	for i := 0; i < len(runes); {
		j := i
		for j+1 < len(runes) && runes[j+1] <= runes[j]+1 {
			j++
		}
		es = append(es, edge{from, runes[i], runes[j], to})
		i = j + 1
	}
	return es
}

// transAdvance reads `switch state { case N: switch r { case 'a','b': return M } } return errorState`.
func transAdvance(fset *token.FileSet, fd *ast.FuncDecl, consts map[string]int) (edges []edge, pairs int) {
	if len(fd.Type.Params.List) != 2 {
		fail("%s: advance function must take (state, rune)", where(fset, fd))
	}
	stateName := fd.Type.Params.List[0].Names[0].Name
	runeName := fd.Type.Params.List[1].Names[0].Name
	if len(fd.Body.List) != 2 {
		fail("%s: advance body must be one switch and one return", where(fset, fd))
	}
	sw, ok := fd.Body.List[0].(*ast.SwitchStmt)
	if !ok || sw.Init != nil {
		fail("%s: expected switch", where(fset, fd.Body.List[0]))
	}
	if id, ok := sw.Tag.(*ast.Ident); !ok || id.Name != stateName {
		fail("%s: outer switch must be on %s", where(fset, sw), stateName)
	}
	ret, ok := fd.Body.List[1].(*ast.ReturnStmt)
	if !ok || len(ret.Results) != 1 || intLit(fset, ret.Results[0], consts) != -1 {
		fail("%s: final statement must return the error state (-1)", where(fset, fd.Body.List[1]))
	}
	seenState := map[int]bool{}
	for _, c := range sw.Body.List {
		cc := c.(*ast.CaseClause)
		if cc.List == nil {
			fail("%s: default clause not supported", where(fset, cc))
		}
		var states []int
		for _, e := range cc.List {
			s := intLit(fset, e, consts)
			if seenState[s] {
				fail("%s: duplicate state %d", where(fset, e), s)
			}
			seenState[s] = true
			states = append(states, s)
		}
		if len(cc.Body) != 1 {
			fail("%s: state clause must hold exactly one inner switch", where(fset, cc))
		}
		isw, ok := cc.Body[0].(*ast.SwitchStmt)
		if !ok || isw.Init != nil {
			fail("%s: expected inner switch", where(fset, cc.Body[0]))
		}
		if id, ok := isw.Tag.(*ast.Ident); !ok || id.Name != runeName {
			fail("%s: inner switch must be on %s", where(fset, isw), runeName)
		}
		seenRune := map[int]bool{}
		for _, ic := range isw.Body.List {
			icc := ic.(*ast.CaseClause)
			if icc.List == nil {
				fail("%s: default clause not supported", where(fset, icc))
			}
			if len(icc.Body) != 1 {
				fail("%s: rune clause must be a single return", where(fset, icc))
			}
			r, ok := icc.Body[0].(*ast.ReturnStmt)
			if !ok || len(r.Results) != 1 {
				fail("%s: expected return", where(fset, icc.Body[0]))
			}
			to := intLit(fset, r.Results[0], consts)
			var runes []int
			for _, e := range icc.List {
				v := intLit(fset, e, consts)
				if seenRune[v] {
					fail("%s: duplicate rune %d in one state", where(fset, e), v)
				}
				seenRune[v] = true
				runes = append(runes, v)
			}
			pairs += len(runes) * len(states)
			for _, s := range states {
				if to >= 0 {
					edges = append(edges, compress(s, append([]int(nil), runes...), to)...)
				}
			}
		}
	}
	return edges, pairs
}

type evalEntry struct {
	State int    `json:"state"`
	Kind  string `json:"kind"`
	Mode  string `json:"mode"` // fixed | whole | strip1 | trimcut
	Fixed string `json:"fixed,omitempty"`
	Cut   int    `json:"cut,omitempty"`
}

func isCallOn(e ast.Expr, method string) bool {
	ce, ok := e.(*ast.CallExpr)
	if !ok {
		return false
	}
	se, ok := ce.Fun.(*ast.SelectorExpr)
	return ok && se.Sel.Name == method
}

// transEval reads evalDFA: `switch state { case N,...: <stmts>; return lexer.Token{Terminal: K, Lexeme: L, Pos: pos} }`.
func transEval(fset *token.FileSet, fd *ast.FuncDecl, consts map[string]int, terms map[string]string) []evalEntry {
	var sw *ast.SwitchStmt
	for _, st := range fd.Body.List {
		if s, ok := st.(*ast.SwitchStmt); ok {
			if sw != nil {
				fail("%s: more than one switch in eval function", where(fset, fd))
			}
			sw = s
		}
	}
	if sw == nil {
		fail("%s: no switch in eval function", where(fset, fd))
	}
	var out []evalEntry
	seen := map[int]bool{}
	for _, c := range sw.Body.List {
		cc := c.(*ast.CaseClause)
		if cc.List == nil {
			fail("%s: default clause not supported", where(fset, cc))
		}
		mode, fixed, cut := "", "", 0
		var kind string
		lexVar := ""
		for _, st := range cc.Body {
			switch s := st.(type) {
			case *ast.AssignStmt:
				if len(s.Rhs) != 1 {
					fail("%s: unsupported assignment", where(fset, s))
				}
				switch {
				case isCallOn(s.Rhs[0], "Skip") && len(s.Lhs) == 1:
					mode = "fixed"
				case isCallOn(s.Rhs[0], "Lexeme") && len(s.Lhs) == 2:
					mode = "whole"
					lexVar = s.Lhs[0].(*ast.Ident).Name
				default:
					// lexeme = lexeme[1 : len(lexeme)-1]   |   lexeme = strings.Trim(lexeme, "/")
					id, ok := s.Lhs[0].(*ast.Ident)
					if !ok || id.Name != lexVar || mode != "whole" {
						fail("%s: unsupported assignment", where(fset, s))
					}
					switch r := s.Rhs[0].(type) {
					case *ast.SliceExpr:
						x, ok := r.X.(*ast.Ident)
						if !ok || x.Name != lexVar || r.Slice3 || intLit(fset, r.Low, consts) != 1 {
							fail("%s: unsupported slice", where(fset, r))
						}
						be, ok := r.High.(*ast.BinaryExpr)
						if !ok || be.Op != token.SUB || intLit(fset, be.Y, consts) != 1 || !isLenOf(be.X, lexVar) {
							fail("%s: unsupported slice bound", where(fset, r))
						}
						mode = "strip1"
					case *ast.CallExpr:
						se, ok := r.Fun.(*ast.SelectorExpr)
						if !ok || se.Sel.Name != "Trim" || len(r.Args) != 2 {
							fail("%s: unsupported call", where(fset, r))
						}
						if x, ok := r.Args[0].(*ast.Ident); !ok || x.Name != lexVar {
							fail("%s: unsupported call", where(fset, r))
						}
						cs := []rune(strLit(fset, r.Args[1]))
						if len(cs) != 1 {
							fail("%s: Trim cutset must be one character", where(fset, r))
						}
						mode, cut = "trimcut", int(cs[0])
					default:
						fail("%s: unsupported lexeme rewrite", where(fset, s))
					}
				}
			case *ast.ReturnStmt:
				cl, ok := s.Results[0].(*ast.CompositeLit)
				if !ok {
					fail("%s: expected a Token literal", where(fset, s))
				}
				for _, el := range cl.Elts {
					kv := el.(*ast.KeyValueExpr)
					switch kv.Key.(*ast.Ident).Name {
					case "Terminal":
						switch tv := kv.Value.(type) {
						case *ast.Ident:
							k, ok := terms[tv.Name]
							if !ok {
								fail("%s: unknown terminal constant %s", where(fset, kv), tv.Name)
							}
							kind = k
						case *ast.CallExpr: // Terminal("...")
							fn, ok := tv.Fun.(*ast.Ident)
							if !ok || fn.Name != "Terminal" || len(tv.Args) != 1 {
								fail("%s: Terminal must be a named constant or Terminal(\"...\")", where(fset, kv))
							}
							kind = strLit(fset, tv.Args[0])
						default:
							fail("%s: Terminal must be a named constant or Terminal(\"...\")", where(fset, kv))
						}
					case "Lexeme":
						if mode == "fixed" {
							fixed = strLit(fset, kv.Value)
						} else if id, ok := kv.Value.(*ast.Ident); !ok || id.Name != lexVar {
							fail("%s: Lexeme must be the lexeme variable", where(fset, kv))
						}
					case "Pos":
					default:
						fail("%s: unexpected field", where(fset, kv))
					}
				}
			default:
				fail("%s: unsupported statement in eval clause", where(fset, st))
			}
		}
		if mode == "" || kind == "" {
			fail("%s: incomplete eval clause", where(fset, cc))
		}
		for _, e := range cc.List {
			s := intLit(fset, e, consts)
			if seen[s] {
				fail("%s: duplicate state %d", where(fset, e), s)
			}
			seen[s] = true
			out = append(out, evalEntry{State: s, Kind: kind, Mode: mode, Fixed: fixed, Cut: cut})
		}
	}
	sort.Slice(out, func(i, j int) bool { return out[i].State < out[j].State })
	return out
}

func isLenOf(e ast.Expr, v string) bool {
	ce, ok := e.(*ast.CallExpr)
	if !ok || len(ce.Args) != 1 {
		return false
	}
	f, ok := ce.Fun.(*ast.Ident)
	a, ok2 := ce.Args[0].(*ast.Ident)
	return ok && ok2 && f.Name == "len" && a.Name == v
}

// transSkip finds, inside NextToken, the `switch token.Terminal` clauses: which kinds recurse (skipped), which is the error.
func transSkip(fset *token.FileSet, fd *ast.FuncDecl, terms map[string]string) (skip []string, errKind string) {
	ast.Inspect(fd.Body, func(n ast.Node) bool {
		sw, ok := n.(*ast.SwitchStmt)
		if !ok {
			return true
		}
		se, ok := sw.Tag.(*ast.SelectorExpr)
		if !ok || se.Sel.Name != "Terminal" {
			return true
		}
		for _, c := range sw.Body.List {
			cc := c.(*ast.CaseClause)
			if cc.List == nil || len(cc.Body) == 0 {
				continue
			}
			ret, ok := cc.Body[len(cc.Body)-1].(*ast.ReturnStmt)
			if !ok {
				continue
			}
			recurse := len(ret.Results) == 1 && isCallOn(ret.Results[0], "NextToken")
			for _, e := range cc.List {
				id, ok := e.(*ast.Ident)
				if !ok {
					fail("%s: case must be a terminal constant", where(fset, e))
				}
				k, ok := terms[id.Name]
				if !ok {
					fail("%s: unknown terminal constant %s", where(fset, e), id.Name)
				}
				if recurse {
					skip = append(skip, k)
				} else {
					errKind = k
				}
			}
		}
		return false
	})
	sort.Strings(skip)
	return
}

func transLexer(path string) any {
	fset, f := parseFile(path)
	consts := intConsts(fset, f)
	terms := termConsts(fset, f)
	edges, pairs := transAdvance(fset, findFunc(f, "advanceDFA"), consts)
	eval := transEval(fset, findFunc(f, "evalDFA"), consts, terms)
	skip, errKind := transSkip(fset, findFunc(f, "NextToken"), terms)
	return map[string]any{
		"edges": edges, "listed_pairs": pairs, "eval": eval, "skip": skip, "err_kind": errKind,
		"buffer_size": consts["bufferSize"], "terminals": terms,
	}
}
