package main

// Mode "cli": the parts of the command-line tool and the generator that the file-system model (Emerge/Cli.v) is built from:
// the reserved-word list and identifier pattern of isIDValid with the conjuncts of its result, what main does with an error
// of flag parsing, the files each generate step renders, and the flags renderTemplate opens its file with.

import (
	"go/ast"
	"go/token"
	"path/filepath"
	"strconv"
	"strings"
)

func conjuncts(e ast.Expr) []ast.Expr {
	if b, ok := e.(*ast.BinaryExpr); ok && b.Op == token.LAND {
		return append(conjuncts(b.X), conjuncts(b.Y)...)
	}
	if p, ok := e.(*ast.ParenExpr); ok {
		return conjuncts(p.X)
	}
	return []ast.Expr{e}
}

func transCli(paths []string) any {
	root := paths[0]
	out := map[string]any{}

	fset, f := parseFile(filepath.Join(root, "internal/generate/golang/code.go"))
	words := []string{}
	if cl, ok := findVar(f, "builtin").(*ast.CompositeLit); ok {
		for _, e := range cl.Elts {
			if bl, ok := e.(*ast.BasicLit); ok && bl.Kind == token.STRING {
				s, _ := strconv.Unquote(bl.Value)
				words = append(words, s)
			}
		}
	}
	out["builtin"] = words
	if call, ok := findVar(f, "idRegex").(*ast.CallExpr); ok && len(call.Args) == 1 {
		if bl, ok := call.Args[0].(*ast.BasicLit); ok {
			s, _ := strconv.Unquote(bl.Value)
			out["id_regex"] = s
		}
	}
	fd := findFunc(f, "isIDValid")
	cj := []string{}
	if fd != nil && len(fd.Body.List) == 1 {
		if rs, ok := fd.Body.List[0].(*ast.ReturnStmt); ok && len(rs.Results) == 1 {
			for _, c := range conjuncts(rs.Results[0]) {
				cj = append(cj, nodeText(fset, c))
			}
		}
	}
	out["id_valid_conjuncts"] = cj

	// main: the statement list guarded by the error of fs.Parse
	fset, f = parseFile(filepath.Join(root, "cmd/emerge/main.go"))
	fd = findFunc(f, "main")
	flagErr := []string{}
	cases := []string{}
	ast.Inspect(fd.Body, func(n ast.Node) bool {
		if is, ok := n.(*ast.IfStmt); ok && is.Init != nil && strings.Contains(nodeText(fset, is.Init), "fs.Parse(") {
			for _, s := range is.Body.List {
				flagErr = append(flagErr, nodeText(fset, s))
			}
		}
		if cc, ok := n.(*ast.CaseClause); ok {
			cond := "default"
			if len(cc.List) > 0 {
				cond = nodeText(fset, cc.List[0])
			}
			body := []string{}
			for _, s := range cc.Body {
				body = append(body, nodeText(fset, s))
			}
			cases = append(cases, cond+" => "+strings.Join(body, " ; "))
		}
		return true
	})
	out["flag_error_handling"] = flagErr
	out["main_cases"] = cases
	last := fd.Body.List[len(fd.Body.List)-1]
	out["main_last"] = nodeText(fset, last)

	// generator: files per step, open flags, prepare's order of checks
	fset, f = parseFile(filepath.Join(root, "internal/generate/golang/golang.go"))
	steps := map[string][]string{}
	for _, name := range []string{"generateCore", "generateLexer", "generateParser"} {
		g := findFunc(f, name)
		files := []string{}
		ast.Inspect(g.Body, func(n ast.Node) bool {
			if rs, ok := n.(*ast.RangeStmt); ok {
				if cl, ok := rs.X.(*ast.CompositeLit); ok && strings.Contains(nodeText(fset, rs.Body), "renderTemplate") {
					for _, e := range cl.Elts {
						if bl, ok := e.(*ast.BasicLit); ok {
							s, _ := strconv.Unquote(bl.Value)
							files = append(files, s)
						}
					}
				}
			}
			return true
		})
		steps[name] = files
	}
	out["step_files"] = steps
	g := findFunc(f, "Generate")
	order := []string{}
	ast.Inspect(g.Body, func(n ast.Node) bool {
		if c, ok := n.(*ast.CallExpr); ok {
			t := nodeText(fset, c.Fun)
			if strings.HasPrefix(t, "g.") {
				order = append(order, strings.TrimPrefix(t, "g."))
			}
		}
		return true
	})
	out["generate_order"] = order
	rt := findFunc(f, "renderTemplate")
	ast.Inspect(rt.Body, func(n ast.Node) bool {
		if c, ok := n.(*ast.CallExpr); ok && nodeText(fset, c.Fun) == "os.OpenFile" && len(c.Args) == 3 {
			out["open_flags"] = nodeText(fset, c.Args[1])
		}
		return true
	})
	pr := findFunc(f, "prepare")
	checks := []string{}
	ast.Inspect(pr.Body, func(n ast.Node) bool {
		if c, ok := n.(*ast.CallExpr); ok {
			switch t := nodeText(fset, c.Fun); t {
			case "os.Stat", "info.IsDir", "isIDValid", "os.Mkdir", "os.MkdirAll", "os.RemoveAll", "os.Remove", "os.Create", "os.WriteFile":
				checks = append(checks, t)
			}
		}
		return true
	})
	out["prepare_calls"] = checks

	// Run: how the name flag is applied
	fset, f = parseFile(filepath.Join(root, "internal/command/command.go"))
	run := findFunc(f, "Run")
	stmts := []string{}
	for _, s := range run.Body.List {
		stmts = append(stmts, nodeText(fset, s))
	}
	out["run_statements"] = stmts
	return out
}
