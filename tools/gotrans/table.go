package main

import (
	"go/ast"
	"go/token"
)

type prodJ struct {
	Head string     `json:"head"`
	Body [][2]string `json:"body"` // ["t"|"n", name]
}

type levelJ struct {
	Assoc   string  `json:"assoc"`
	Terms   []string `json:"terms"`
	Prods   []prodJ `json:"prods"`
}

// transTable reads parsing_table.go: terminals, nonTerminals, productions, precedences, ACTION, GOTO.
func transTable(path string) any {
	fset, f := parseFile(path)
	out := map[string]any{}
	out["terminals"] = stringSliceVar(fset, f, "terminals")
	out["nonterminals"] = stringSliceVar(fset, f, "nonTerminals")

	pl, ok := findVar(f, "productions").(*ast.CompositeLit)
	if !ok {
		fail("productions: expected a composite literal")
	}
	var prods []prodJ
	for _, e := range pl.Elts {
		prods = append(prods, readProd(fset, e))
	}
	out["productions"] = prods

	// start symbol: last argument of grammar.NewCFG(...)
	if ce, ok := findVar(f, "G").(*ast.CallExpr); ok && len(ce.Args) == 4 {
		out["start"] = strLit(fset, ce.Args[3])
	} else {
		fail("G: expected grammar.NewCFG(terminals, nonTerminals, productions, start)")
	}

	lv, ok := findVar(f, "precedences").(*ast.CompositeLit)
	if !ok {
		fail("precedences: expected a composite literal")
	}
	var levels []levelJ
	for _, e := range lv.Elts {
		cl, ok := e.(*ast.CompositeLit)
		if !ok {
			fail("%s: precedence level must be a literal", where(fset, e))
		}
		var L levelJ
		for _, el := range cl.Elts {
			kv := el.(*ast.KeyValueExpr)
			switch kv.Key.(*ast.Ident).Name {
			case "Associativity":
				L.Assoc = kv.Value.(*ast.SelectorExpr).Sel.Name
			case "Handles":
				ce, ok := kv.Value.(*ast.CallExpr)
				if !ok {
					fail("%s: Handles must be lr.NewPrecedenceHandles(...)", where(fset, kv))
				}
				for _, a := range ce.Args {
					h, ok := a.(*ast.CallExpr)
					if !ok {
						fail("%s: handle must be a call", where(fset, a))
					}
					switch h.Fun.(*ast.SelectorExpr).Sel.Name {
					case "PrecedenceHandleForTerminal":
						L.Terms = append(L.Terms, strLit(fset, h.Args[0]))
					case "PrecedenceHandleForProduction":
						u, ok := h.Args[0].(*ast.UnaryExpr)
						if !ok {
							fail("%s: production handle must be &grammar.Production{...}", where(fset, h))
						}
						L.Prods = append(L.Prods, readProd(fset, u.X))
					default:
						fail("%s: unknown handle constructor", where(fset, h))
					}
				}
			default:
				fail("%s: unexpected field", where(fset, kv))
			}
		}
		levels = append(levels, L)
	}
	out["precedences"] = levels

	out["action"] = readAction(fset, findFunc(f, "ACTION"))
	out["goto"] = readGoto(fset, findFunc(f, "GOTO"))
	return out
}

func stringSliceVar(fset *token.FileSet, f *ast.File, name string) []string {
	cl, ok := findVar(f, name).(*ast.CompositeLit)
	if !ok {
		fail("%s: expected a composite literal", name)
	}
	var out []string
	for _, e := range cl.Elts {
		out = append(out, strLit(fset, e))
	}
	return out
}

func readProd(fset *token.FileSet, e ast.Expr) prodJ {
	cl, ok := e.(*ast.CompositeLit)
	if !ok {
		fail("%s: production must be a literal", where(fset, e))
	}
	var p prodJ
	p.Body = [][2]string{}
	for _, el := range cl.Elts {
		kv := el.(*ast.KeyValueExpr)
		switch kv.Key.(*ast.Ident).Name {
		case "Head":
			p.Head = strLit(fset, kv.Value)
		case "Body":
			switch b := kv.Value.(type) {
			case *ast.SelectorExpr: // grammar.E
				if b.Sel.Name != "E" {
					fail("%s: unknown body", where(fset, b))
				}
			case *ast.CompositeLit:
				for _, s := range b.Elts {
					ce, ok := s.(*ast.CallExpr)
					if !ok || len(ce.Args) != 1 {
						fail("%s: body symbol must be grammar.Terminal(..)/grammar.NonTerminal(..)", where(fset, s))
					}
					switch ce.Fun.(*ast.SelectorExpr).Sel.Name {
					case "Terminal":
						p.Body = append(p.Body, [2]string{"t", strLit(fset, ce.Args[0])})
					case "NonTerminal":
						p.Body = append(p.Body, [2]string{"n", strLit(fset, ce.Args[0])})
					default:
						fail("%s: unknown symbol constructor", where(fset, ce))
					}
				}
			default:
				fail("%s: unknown body", where(fset, kv.Value))
			}
		default:
			fail("%s: unexpected field", where(fset, kv))
		}
	}
	return p
}

// tableSwitch walks `switch <p0> { case N: switch <p1> { case "x": return ... } }`.
func tableSwitch(fset *token.FileSet, fd *ast.FuncDecl, each func(state int, sym string, ret *ast.ReturnStmt)) {
	p0 := fd.Type.Params.List[0].Names[0].Name
	p1 := fd.Type.Params.List[1].Names[0].Name
	if len(fd.Body.List) != 2 {
		fail("%s: body must be one switch and one return", where(fset, fd))
	}
	sw, ok := fd.Body.List[0].(*ast.SwitchStmt)
	if !ok {
		fail("%s: expected switch", where(fset, fd))
	}
	if id, ok := sw.Tag.(*ast.Ident); !ok || id.Name != p0 {
		fail("%s: outer switch must be on %s", where(fset, sw), p0)
	}
	seen := map[int]bool{}
	for _, c := range sw.Body.List {
		cc := c.(*ast.CaseClause)
		if cc.List == nil || len(cc.List) != 1 || len(cc.Body) != 1 {
			fail("%s: state clause must be `case N:` with one inner switch", where(fset, cc))
		}
		s := intLit(fset, cc.List[0], nil)
		if seen[s] {
			fail("%s: duplicate state %d", where(fset, cc), s)
		}
		seen[s] = true
		isw, ok := cc.Body[0].(*ast.SwitchStmt)
		if !ok {
			fail("%s: expected inner switch", where(fset, cc))
		}
		if id, ok := isw.Tag.(*ast.Ident); !ok || id.Name != p1 {
			fail("%s: inner switch must be on %s", where(fset, isw), p1)
		}
		seenSym := map[string]bool{}
		for _, ic := range isw.Body.List {
			icc := ic.(*ast.CaseClause)
			if icc.List == nil || len(icc.Body) != 1 {
				fail("%s: symbol clause must be a single return", where(fset, icc))
			}
			ret, ok := icc.Body[0].(*ast.ReturnStmt)
			if !ok {
				fail("%s: expected return", where(fset, icc))
			}
			for _, e := range icc.List {
				var sym string
				switch x := e.(type) {
				case *ast.BasicLit:
					sym = strLit(fset, x)
				case *ast.SelectorExpr:
					if x.Sel.Name != "Endmarker" {
						fail("%s: unknown symbol constant", where(fset, x))
					}
					sym = "$"
				default:
					fail("%s: symbol must be a string literal or grammar.Endmarker", where(fset, e))
				}
				if seenSym[sym] {
					fail("%s: duplicate symbol %q in state %d", where(fset, e), sym, s)
				}
				seenSym[sym] = true
				each(s, sym, ret)
			}
		}
	}
}

func readAction(fset *token.FileSet, fd *ast.FuncDecl) [][]any {
	var out [][]any
	tableSwitch(fset, fd, func(s int, a string, ret *ast.ReturnStmt) {
		if len(ret.Results) != 3 {
			fail("%s: ACTION must return (type, param, error)", where(fset, ret))
		}
		kind := ret.Results[0].(*ast.SelectorExpr).Sel.Name
		if id, ok := ret.Results[2].(*ast.Ident); !ok || id.Name != "nil" {
			fail("%s: listed ACTION entries must return a nil error", where(fset, ret))
		}
		out = append(out, []any{s, a, kind, intLit(fset, ret.Results[1], nil)})
	})
	last := fd.Body.List[1].(*ast.ReturnStmt)
	if len(last.Results) != 3 || last.Results[0].(*ast.SelectorExpr).Sel.Name != "ERROR" {
		fail("%s: final statement of ACTION must return lr.ERROR", where(fset, last))
	}
	if id, ok := last.Results[2].(*ast.Ident); ok && id.Name == "nil" {
		fail("%s: final statement of ACTION must return an error", where(fset, last))
	}
	return out
}

func readGoto(fset *token.FileSet, fd *ast.FuncDecl) [][]any {
	var out [][]any
	tableSwitch(fset, fd, func(s int, A string, ret *ast.ReturnStmt) {
		if len(ret.Results) != 1 {
			fail("%s: GOTO must return one value", where(fset, ret))
		}
		out = append(out, []any{s, A, intLit(fset, ret.Results[0], nil)})
	})
	last := fd.Body.List[1].(*ast.ReturnStmt)
	if len(last.Results) != 1 || intLit(fset, last.Results[0], nil) != -1 {
		fail("%s: final statement of GOTO must return -1", where(fset, last))
	}
	return out
}
