package main

import (
	"go/ast"
	"go/token"
	"path/filepath"
)

// transMisc reads, from the repository root given as the only argument:
//   - internal/regex/parser/parser.go : escapedChars; the ordered ExpectString arguments of
//     p.charClass, p.asciiCharClass, p.unicodeCategory
//   - internal/regex/parser/rune.go   : RuneClasses (runeRange{a,b} / runeList{...} literals)
//   - internal/ebnf/parser/parser.go  : Predefs
func transMisc(paths []string) any {
	root := paths[0]
	out := map[string]any{}

	fset, f := parseFile(filepath.Join(root, "internal/regex/parser/parser.go"))
	out["escaped"] = runeSliceVar(fset, f, "escapedChars")
	fd := findFunc(f, "New")
	for _, name := range []string{"charClass", "asciiCharClass", "unicodeCategory"} {
		out[name] = expectStrings(fset, fd, name)
	}

	fset, f = parseFile(filepath.Join(root, "internal/regex/parser/rune.go"))
	out["rune_classes"] = runeClasses(fset, f)

	fset, f = parseFile(filepath.Join(root, "internal/ebnf/parser/parser.go"))
	out["predefs"] = stringMapVar(fset, f, "Predefs")

	fset, f = parseFile(filepath.Join(root, "internal/ebnf/parser/spec/symbol_table.go"))
	out["terminal_names"] = stringMapVar(fset, f, "terminalNames")
	return out
}

func findVar(f *ast.File, name string) ast.Expr {
	for _, d := range f.Decls {
		gd, ok := d.(*ast.GenDecl)
		if !ok || gd.Tok != token.VAR {
			continue
		}
		for _, s := range gd.Specs {
			vs := s.(*ast.ValueSpec)
			for i, n := range vs.Names {
				if n.Name == name && i < len(vs.Values) {
					return vs.Values[i]
				}
			}
		}
	}
	fail("variable %s not found", name)
	return nil
}

func runeSliceVar(fset *token.FileSet, f *ast.File, name string) []int {
	cl, ok := findVar(f, name).(*ast.CompositeLit)
	if !ok {
		fail("%s: expected a composite literal", name)
	}
	var out []int
	for _, e := range cl.Elts {
		out = append(out, intLit(fset, e, nil))
	}
	return out
}

func stringMapVar(fset *token.FileSet, f *ast.File, name string) map[string]string {
	cl, ok := findVar(f, name).(*ast.CompositeLit)
	if !ok {
		fail("%s: expected a composite literal", name)
	}
	out := map[string]string{}
	for _, e := range cl.Elts {
		kv := e.(*ast.KeyValueExpr)
		out[strLit(fset, kv.Key)] = strLit(fset, kv.Value)
	}
	return out
}

// expectStrings finds `p.<field> = <expr>` inside fd and returns every ExpectString("...") argument in source order.
func expectStrings(fset *token.FileSet, fd *ast.FuncDecl, field string) []string {
	var out []string
	found := false
	ast.Inspect(fd.Body, func(n ast.Node) bool {
		as, ok := n.(*ast.AssignStmt)
		if !ok || len(as.Lhs) != 1 {
			return true
		}
		se, ok := as.Lhs[0].(*ast.SelectorExpr)
		if !ok || se.Sel.Name != field {
			return true
		}
		found = true
		type lit struct {
			pos token.Pos
			s   string
		}
		var lits []lit
		ast.Inspect(as.Rhs[0], func(m ast.Node) bool {
			ce, ok := m.(*ast.CallExpr)
			if !ok {
				return true
			}
			if s, ok := ce.Fun.(*ast.SelectorExpr); ok && s.Sel.Name == "ExpectString" && len(ce.Args) == 1 {
				lits = append(lits, lit{ce.Pos(), strLit(fset, ce.Args[0])})
			}
			return true
		})
		// source order = order of ordered choice (receiver first, then ALT arguments left to right)
		for i := 0; i < len(lits); i++ {
			for j := i + 1; j < len(lits); j++ {
				if lits[j].pos < lits[i].pos {
					lits[i], lits[j] = lits[j], lits[i]
				}
			}
		}
		for _, l := range lits {
			out = append(out, l.s)
		}
		return false
	})
	if !found {
		fail("assignment to p.%s not found", field)
	}
	return out
}

func runeClasses(fset *token.FileSet, f *ast.File) map[string][][2]int {
	cl, ok := findVar(f, "RuneClasses").(*ast.CompositeLit)
	if !ok {
		fail("RuneClasses: expected a composite literal")
	}
	out := map[string][][2]int{}
	for _, e := range cl.Elts {
		kv := e.(*ast.KeyValueExpr)
		name := strLit(fset, kv.Key)
		val, ok := kv.Value.(*ast.CompositeLit)
		if !ok {
			fail("%s: RuneClasses value must be a literal", where(fset, kv))
		}
		ivs := [][2]int{}
		for _, part := range val.Elts {
			pl, ok := part.(*ast.CompositeLit)
			if !ok {
				fail("%s: class part must be runeRange{..} or runeList{..}", where(fset, part))
			}
			tn, ok := pl.Type.(*ast.Ident)
			if !ok {
				fail("%s: class part must be runeRange{..} or runeList{..}", where(fset, part))
			}
			switch tn.Name {
			case "runeRange":
				if len(pl.Elts) != 2 {
					fail("%s: runeRange needs two bounds", where(fset, pl))
				}
				ivs = append(ivs, [2]int{intLit(fset, pl.Elts[0], nil), intLit(fset, pl.Elts[1], nil)})
			case "runeList":
				for _, r := range pl.Elts {
					v := intLit(fset, r, nil)
					ivs = append(ivs, [2]int{v, v})
				}
			default:
				fail("%s: unknown class part type %s", where(fset, pl), tn.Name)
			}
		}
		out[name] = ivs
	}
	return out
}
