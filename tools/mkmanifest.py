#!/usr/bin/env python3
"""Writes /verif/MANIFEST.json from the table below (one entry per claimed property)."""
import json
import os

V = os.path.dirname(os.path.dirname(os.path.abspath(__file__)))

TB = ("Trusted: Coq 8.16.1 kernel + vm_compute (no native_compute, no axioms: Print Assumptions = closed); the translator tools/gotrans "
      "(go/ast transliteration, self-checked by execution where a Go function exists) and the Python renderer of Coq terms; the hook "
      "internal/verifhook (tag verif) and the comparison harness. ")

CHECKS = {
 "C05": dict(cat="proof",
   text="Coq theorems over ALL code points and ALL texts: the scanner's transition function and accepting-state table (regenerated from lexer.go on every run) are a labelled bisimulation of the documented automaton (docs program executed + token table), closed by a certified checker and vm_compute; the NextToken loop model computes exactly the maximal-munch stream (kinds, lexemes, positions, skipping, lexical error position) of the documented automaton, and that stream is unique. The hand model of the NextToken loop is tied to the Go code by a correspondence run on generated texts.",
   note=TB + "docref reads the documentation with the overrides listed in docref_overrides.json; the NextToken loop is modelled by hand (correspondence-tested); the two-buffer reader is C13's subject.",
   tech="Coq proof: certified bisimulation checker + maximal-munch refinement theorem on regenerated tables; differential correspondence for the loop"),
 "C02": dict(cat="proof",
   text="Universal Coq theorem: emerge's expansion of every documented construct (model of quantifyNFA/concat/class mappers) denotes exactly the documented meaning, for all patterns and all strings; class tables regenerated from rune.go are proved standard. Per explored pattern, every automaton of the real pipeline (after ToDFA, Minimize, EliminateDeadStates, ReindexStates, and the token pipeline's result) is certified by a proved checker (partial derivatives) to accept exactly that language for ALL strings — the dependency's automata algebra is validated per instance, never sampled on strings. Known finding D3 (NUL is the library's epsilon) is reproduced by the model, guarded and refuted by a witness theorem.",
   note=TB + "The PEG parser and the mappers are modelled by hand (Reg/Pattern.v, Reg/PatSem.v), tied to the code by the per-pattern certified instances and the accept/reject correspondence; the automata library is validated per instance, not modelled.",
   tech="Coq proof (desugar_correct) + certified DFA-vs-regex checker (translation validation per automaton, all strings)"),
 "C09": dict(cat="proof",
   text="Coq theorem for ALL strings: the model of emerge's PEG pattern parser (ordered choice and greedy repetition as written with the combinators) accepts a text only if it is, as a whole, the print of a concrete syntax tree of the documented grammar, and only if no range is descending / min>max. The model is tied to both entry points (nfa.Parse, ast.Parse) by an accept / syntax-reject / semantic-reject correspondence on every short string over the metacharacters, named problem patterns, valid patterns and single-edit mutations.",
   note=TB + "The combinator primitives of the dependency are modelled (Reg/Peg.v) and their use by parser.go is transcribed by hand; alternatives' ORDER for class names is regenerated from the source. Completeness for canonical prints is covered by the correspondence only.",
   tech="Coq proof: PEG combinators with printer-soundness lemmas; differential correspondence for both entry points"),
 "C10": dict(cat="proof",
   text="Per explored pattern, the followpos-route automaton and the NFA-route automaton are both certified (proved checker, all strings) equal to the model's expression, hence to each other and — outside known finding D3 — to the documented meaning (three_way_agreement, three_way_agreement_guarded). Patterns stress nullable operands, empty-matching patterns and duplicated sub-expressions.",
   note=TB + "nullable/firstpos/lastpos/followpos are not modelled function by function: the automaton they produce is validated per instance for all strings; Berry-Sethi correctness for all patterns is not proved (partial).",
   tech="certified DFA-vs-regex checker applied to both routes (translation validation, all strings) + Coq three-way theorem"),
 "C18": dict(cat="proof",
   text="Coq theorems over ALL token sequences, on the table regenerated from parsing_table.go: the embedded table passes a proved static safety check (known-suffix analysis); hence for every accepted input the callback log is exactly the post-order of THE parse tree (tokens in source order, productions as a rightmost derivation in reverse), the tree applies one grammar production per interior node and has the tokens as leaves; a failing callback cuts the log at that call and its error is returned (for every callback predicate); ParseAndEvaluate's value stack is the tree-fold image of the node stack (arguments left to right, head position = first body symbol's). The three Go loops are tied to the model by replaying generated token streams (real scanner output, mutations, lexical-error endings, random sequences) and by injecting a failure at every callback of short streams.",
   note=TB + "The driver loops are modelled by hand (Cfg/LR.v); the translated table is additionally executed against ACTION/GOTO on every (state, symbol) pair. The known-suffix annotation is computed by the harness and CHECKED by the kernel (safe_check), not trusted.",
   tech="Coq proof: LR safety check + soundness/post-order/abort/plumbing theorems on the regenerated table; differential correspondence with failure injection"),
 "C04": dict(cat="proof",
   text="Kernel-checked, completely enumerated: the embedded ACTION/GOTO tables (regenerated from parsing_table.go on every run) are, entry for entry and with no extra entries, the LALR(1) tables of the embedded grammar and precedence levels as defined independently in Coq (Cfg/Lalr.v: LR(0) automaton, LALR(1) look-aheads, documented resolution rule), modulo renumbering of states, with no unresolved entry. Coq theorem over ALL token sequences: every accepted sequence is a sentence (tree with the tokens as leaves, one production per node). Byte-for-byte regeneration is re-run on a scratch copy. PARTIAL: completeness with the documented disambiguation is decided per explored sequence by an exact Earley recogniser of the documented grammar (docs block parsed, not re-typed) and an independent recursive-descent builder of the dictated tree; it is not yet a Coq theorem.",
   note=TB + "Cfg/Lalr.v is an executable definition (unproved) of LALR(1) + the documented resolution rule; the driver loop is the C18 model. The Earley oracle and the dictated-tree builder are Python (correspondence only).",
   tech="Coq: independent LALR(1) definition evaluated by vm_compute + table isomorphism; lr_sound; differential completeness/disambiguation test"),
 "C20": dict(cat="proof",
   text="Coq theorems over ALL token sequences on the regenerated table: nothing after the offending token influences the error index or the callbacks before it; every token before the reported one had been shifted in source order; a premature end is reported at the end marker (no position). Lexical error positions follow from C05's scanner_stream (error at the START of the first unclassifiable lexeme, including unterminated strings, patterns and comments), instantiated by kernel-evaluated examples. PARTIAL: 'the prefix is viable and the reported token admits no continuation' is decided per explored case by an exact Earley oracle for the documented grammar (every single-token insertion/deletion/replacement/truncation at every position; stray/unterminated elements at every gap of texts), not by a Coq theorem.",
   note=TB + "Driver model as in C18; scanner model as in C05. The Earley oracle is Python.",
   tech="Coq proof (suffix independence, shifted-prefix) + exact Earley oracle per case"),
 "C06": dict(cat="translation_validation",
   text="Per explored grammar (textbook families, random grammars, operator grammars with random precedence tables), kernel-evaluated: the table dumped from Spec.LALRParsingTable is, entry for entry, the LALR(1) table of the dumped grammar and precedence levels according to the independent Coq definition (Cfg/Lalr.v), and passes the proved safety check (hence, by certified_table_is_sound, every accepted input of ANY length is a sentence with the callbacks in derivation order); when emerge rejects, the reference construction leaves exactly the reported entries unresolved (no silent resolution, no false rejection). Universal Coq theorems state the documented resolution rule as decision rules. Operator grammars additionally run random expressions on the table and compare with precedence climbing. Known finding D25 (dependency merges GOTO targets into superset states; wrong acceptance exhibited) is reported, not certified.",
   note=TB + "The LALR(1) construction and resolution are the dependency's: validated per instance against an executable Coq reference definition (unproved), not modelled. Completeness for conflict-free tables is not proved (lr_complete missing).",
   tech="translation validation: per-instance kernel check against a Coq LALR(1) reference + proved safety check; Coq decision-rule theorems"),
 "C01": dict(cat="proof",
   text="Universal Coq theorem (Cfg/Ebnf.v, Cfg/Translate.v): for every rule list, naming of synthesised non-terminals and production set satisfying a decidable premise (the production set is one production per alternative plus the expansions gen->a|eps, gen->gen a|eps, gen->gen a|a, gen->a; synthesised names distinct per (alternatives, kind) and distinct from every user-mentioned name), every user rule generates exactly the terminal strings its EBNF text denotes — for all nestings/combinations of ( ) [ ] { } {{ }} | and trailing |, all sentences of all lengths. The production set and naming are those of the Coq model of emerge's symbol table (reduce actions by production index, memo keyed by multiset of alternatives, name synthesis, counter), run through the full front-end model (scanner, LR driver, tree) on each generated specification; the kernel evaluates the premise per specification and the production set is compared with spec.Parse. Known finding D2 (name collisions) is refuted by a witness theorem and reported; D1 was found by this check and fixed.",
   note=TB + "The symbol table and reduce actions are modelled by hand (Emerge/SpecModel.v) and tied to spec.Parse by comparing the production set on generated specifications; the failing-input search uses an independent bounded EBNF evaluator (Python).",
   tech="Coq proof (translate_preserves / pure_ok_sound) + kernel-evaluated premise per specification + differential correspondence of the production set"),
 "C07": dict(cat="proof",
   text="Coq model of emerge's terminal table, Verify (single / distinct definitions, start rule), CFG.Verify, Precedences.Verify and Definitions(), run through the full front-end model. Universal theorems: an accepted specification has exactly one definition for every terminal; the definition list is a permutation of the singly-defined terminals. Per generated specification (every single listed defect and random combinations, shuffled declarations), kernel-evaluated: the model's verdict and definitions equal an independent declarative reading written over the declaration list (claimed under names_distinct; known finding D7 refuted by a witness), and verdict, diagnostics as (kind, symbol) sets, and the ORDERED definition list of spec.Parse / Spec.DFA equal the model's (invalid patterns decided through the C09 pattern model).",
   note=TB + "The 'iff' between the model and the declarative well-formedness is evaluated per specification, not proved for all specifications (needs the symbol-table invariants); the model itself is tied to the code by the correspondence.",
   tech="Coq model + universal lemmas; per-instance kernel evaluation of model == declarative spec; differential correspondence of verdict/diagnostics/definitions"),
 "C12": dict(cat="proof",
   text="Universal Coq theorem: for every declaration list the symbol-table model records exactly one level per directive, in source order, with the associativity written. Per generated specification (0-8 levels, every associativity, string/named terminals, rule handles with alternation and extended operators and empty bodies, duplicates inside a level, interleaved declarations), kernel-evaluated: the handle sets of every level equal the declarative reading (one production handle per alternative of a rule handle's expansion), every production handle is one of the grammar's productions, and the levels equal Spec.Precedences of the implementation.",
   note=TB + "Handle sets are validated per specification (the naming of synthesised non-terminals is state-dependent); order/associativity/count is a theorem.",
   tech="Coq proof (levels_in_source_order) + per-instance kernel evaluation + differential correspondence"),
 "C03": dict(cat="translation_validation",
   text="Universal Coq theorems about a certified product checker (Reg/Scanner.v): for ANY definition list, automaton and terminal map, if the check evaluates to true then for EVERY text the state reached is accepting iff some definition matches and is attributed to the one terminal that must win (only match, or the single literal among several), and no text is in conflict; a reported conflict witness is a real conflict; a string literal denotes its own characters with escapes resolved. Per explored definition set (disjoint, identical-language, keyword/identifier, prefix chains, nested, overlapping with/without a tie-breaking literal, escaped literals, predefined patterns), kernel-evaluated on the (automaton, terminal map) or conflict verdict dumped from Spec.DFA(): full product of the definitions' partial-derivative automata, not string sampling.",
   note=TB + "CombineDFA is the dependency's and is validated per instance; the per-definition expressions are the C02 model of each pattern (code-faithful about NUL). D4 was found by this check and fixed.",
   tech="certified product checker (all texts) per dumped scanner automaton; Coq theorems for the ownership rule, conflicts and literal denotation"),
 "C13": dict(cat="proof",
   text="Coq theorem for EVERY buffer half size n>=1 and EVERY NUL-free file: reading sequentially through the two-half reader (model of moorara/algo lexer/input, copied in templates/input.go.tmpl) returns exactly the file's bytes and then end of input — independent of boundaries and length (read_all_correct, with load/sentinel/sticky-error semantics). The model is tied to the real reader by replaying random files and Next/Retract scripts at half sizes 1..6. Known finding D14 (Retract at a half boundary reloads the half: input skipped, or an endless Lexeme loop) is a kernel-evaluated witness theorem and paddings are classified by the exact predicate 'a lexeme's look-ahead byte is the last byte of a half'. Layout invariance (separators, comments, final newline) and the padding sweep (every alignment in the listed ranges against both boundaries; all of 0..2*4096+64 in the thorough tier) compare the derived specification of the real pipeline; the scanner model's token signature of each layout pair is evaluated by the kernel.",
   note=TB + "Single-byte characters only in the reader model; Retract is modelled and witnessed but the refinement under the scanner protocol is not proved (partial); layout invariance of the token stream is per layout, not a universal theorem.",
   tech="Coq proof (read_all_correct, all n and files) + witness theorems for D14/D13 + differential sweeps (reader scripts, layouts, paddings)"),
 "C08": dict(cat="translation_validation",
   text="Per emitted package (generated by the real CLI for specifications whose automata contain quotes, backslashes, control and non-ASCII characters, keyword prefix chains, terminals owning no state, plus random ones): the Go front end (go vet, standard library only) type-checks the six files, and advanceDFA/evalDFA are READ BACK from the emitted lexer.go by the translator and compared, by the kernel, with the automaton and terminal map dumped from Spec.DFA(). Universal Coq theorem: when the comparison evaluates to true the emitted transition function equals the automaton's for EVERY state and EVERY code point and the emitted table equals the terminal map for EVERY state (nothing elsewhere).",
   note=TB + "Validity of Go source is decided by the Go front end (trusted); the renderer (templates, formatRunes) is not modelled: its output is validated per package. D8 (no emitted package ever compiled) was found by this check and fixed.",
   tech="translation validation: emitted source read back by the translator, extensional comparison certified in Coq (all states x all code points); Go front end for validity"),
 "C19": dict(cat="proof",
   text="Universal Coq theorems (Props/C19.v) about the emitted loop as a function of an ARBITRARY automaton, terminal table and text: the token stream it returns is the unique stream the maximal-munch relation allows (longest run from each start, owner of the state reached, lexical error with the exact lexeme and position when not accepting, WS/EOL/COMMENT skipped, unmatched whitespace discarded, end-of-input after the last token), and the two-half reader delivers exactly the file for every half size and every NUL-free file. Tie: five specifications are generated by the real CLI, compiled with a driver program and RUN on fragments, pairs, near-misses, multi-byte characters, random compositions, long lexemes, exact multiples of the half size and paddings across both 4096-byte boundaries; every output is compared with the Coq model evaluated on the dumped automaton and with an independent maximal-munch oracle.",
   note=TB + "The emitted reader's Retract/pending-lexeme bookkeeping is validated by the padding sweep, not proved; multi-byte decoding is exercised, not modelled. D21-D24 and D26 (five defects of the emitted lexer/reader) were found by this check and fixed.",
   tech="refinement: Gallina model of the emitted scanning loop proved against the maximal-munch specification; correspondence by compiling and running the emitted package"),
 "C15": dict(cat="proof",
   text="Every place where the order of evaluation is not fixed by the program text is listed from the current source by the translator (ranges over maps, traversals of the dependency's shuffling hash table, go/select statements, writes to package variables, time/random/environment calls). Each traversal is modelled in Coq as a fold over an ARBITRARY permutation of the keys and the theorems of Props/C15.v say the observable result does not depend on it: keys collected then sorted (canonical sort over a total order, for states and for strings), insertion into an ordered store, per-entry update, and the concrete models of the terminal map of Spec.DFA (closed form: the owned states in ascending order; conflicts in ascending state order), of SymbolTable.Verify's diagnostics and of Definitions(). The check matches every site with the theorem that covers its loop shape; the models are compared (content AND order) with spec.Parse / Spec.DFA under two delivery orders; each specification is re-run in-process (new map orders each time) and in fresh processes, comparing the bytes of every file, the messages without emoji and the status.",
   note=TB + "Determinism of the dependency's ordered containers (red-black tables, automata) is trusted and exercised by the repeated runs; scheduling/OS-level determinism is runtime. D18, D19 were found and fixed; D19c (order of the dependency's grammar.Verify lines) is a known finding.",
   tech="proof over permutation-parametrised models of every iteration site; site list regenerated from source (go/types); correspondence and repeated runs"),
 "C17": dict(cat="proof",
   text="The translator lists every package-level variable of /repo with every write, method call and escape; the check accepts only variables never modified after initialisation (so a new cache or shared buffer is an unproved obligation). The one variable that was modified, the hasher of hashStrings, is modelled (FNV-1 64, Reset / Write per symbol / Sum64 as atomic steps) and the theorems of Props/C17.v say: a call's result does not depend on the hasher's history; ANY computation using the hasher only through hashStrings returns the result of a fresh process whatever was processed before (sequential independence, all histories); with a hasher per call EVERY interleaving of two goroutines' steps gives each its isolated result; with a shared hasher some interleaving does not (refuted statement = the repaired defect). Tie: hashStrings vs the model on calls made in one process; random orders of specifications and patterns in one process vs fresh-process results; concurrent parses under the race detector with every report attributed to the owner of the state.",
   note=TB + "The Go memory model and the scheduler are not modelled; interleavings are proved for /repo's own state only. The dependency's shared hash functions make concurrent parses race and panic (known finding D20). D20a (/repo's own shared hasher) was found and fixed.",
   tech="proof over a shared-state model (history independence, interleaving safety of private state); package-variable list regenerated from source; race detector and order sweeps for correspondence"),
 "C16": dict(cat="proof",
   text="The command-line tool and the generator's file handling are modelled over an explicit file system (Emerge/Cli.v) as a function of PARAMETERS that the translator reads from the current source on every run (reserved-word list, conjuncts of isIDValid, main's reaction to a flag error, files of each generation step, O_EXCL, Mkdir vs MkdirAll, order of the checks in prepare, the -name override). Theorems, for every command line, every outcome of parsing and EVERY pre-existing file system: nothing that existed is modified (frame); status 0 implies success announced, specification accepted and all six files present with their own content in <out>/<name>, and conversely; anything else exits 1 with nothing created; a name that is not a usable Go package identifier (syntax, 25 keywords, blank; written from the language specification) is rejected before anything is created; -name replaces the grammar's name; everything created lies under <out>/<name>; flag errors never panic. Props/C16*.v instantiate them with the translated record and discharge the side conditions by computation. Tie: the real binary is run in sandbox directories over the product of flags x names x input classes x pre-states of the output location; the tree is snapshotted before and after and compared with the model's result, and isIDValid is compared with the model on ASCII names.",
   note=TB + "Kernel/file-system semantics (permissions, races with other processes) are runtime: the sandbox runs as root, so permission-denied pre-states cannot be exercised. Non-ASCII names are outside the identifier model (run, checked against the frame property only). D17 (panic on flag errors) and D27 (blank identifier accepted) were found and fixed.",
   tech="proof over a file-system model parametrised by a record translated from the source; correspondence by sandboxed runs of the real binary with before/after snapshots"),
}

ORDER = sorted(CHECKS)


def main():
    checks = []
    for pid in ORDER:
        c = CHECKS[pid]
        checks.append({
            "property_id": pid,
            "quick_cmd": "./check %s --tier quick" % pid,
            "thorough_cmd": "./check %s --tier thorough" % pid,
            "evidence_file": "evidence/%s.json" % pid,
            "replay_cmd_template": "./check %s --replay {path}" % pid,
            "engine": "coq",
            "level_claimed": {"category": c["cat"], "text": c["text"], "design_ref": "DESIGN.md section 5, " + pid},
            "level_note": c["note"],
            "technique": c["tech"],
        })
    props = [json.loads(l)["id"] for l in open(os.path.join(V, "properties.jsonl"))]
    na = [{"property_id": p, "reason": "machinery under construction in this session (claimed in DESIGN.md; the check is not yet registered)"}
          for p in props if p not in CHECKS]
    hooks = os.popen("git -C /repo log --format=%h --grep='^verif hook'").read().split()
    m = {
        "version": 1,
        "setup_cmd": "./check setup",
        "hooks": {
            "guard": "verif",
            "enable": "go build -tags verif ./internal/verifhook (add-only files internal/verifhook/*.go and */verif_export.go, all behind //go:build verif)",
            "baseline_off_cmd": "cd /repo && go test -mod=mod -json -vet=off -count=1 -timeout 25m ./...",
            "source_commits": hooks,
            "add_only": True,
        },
        "engines": [
            {"name": "coq", "path": "coq", "serves_properties": ORDER,
             "kind_free_text": "Coq 8.16.1 development: proved libraries (theories/), regenerated tables (gen/), property theorems (theories/Props)"},
            {"name": "vcheck", "path": "tools/vcheck", "serves_properties": ORDER,
             "kind_free_text": "orchestrator: translators (tools/gotrans, docref), hook driver, generators, certified-instance / correspondence case files, failing-input search, evidence"},
        ],
        "checks": checks,
        "not_applicable": na,
        "notes": "fix: commits in /repo and known findings are listed in known_findings.jsonl; DESIGN.md section 6 explains each.",
    }
    with open(os.path.join(V, "MANIFEST.json"), "w") as f:
        json.dump(m, f, indent=1)


if __name__ == "__main__":
    main()
