// Package docshim records the calls made by the "Lexer DFA Code" program of docs/6-design.md
// (NewDFA, Add) so that the documented automaton can be executed rather than re-typed.
package docshim

import (
	"encoding/json"
	"sort"
)

type State int
type Symbol rune
type States []State

type DFA struct {
	Start  State
	Finals States
	Trans  [][3]int
}

func NewDFA(start State, finals States) *DFA { return &DFA{Start: start, Finals: finals} }

func (d *DFA) Add(s State, a Symbol, t State) { d.Trans = append(d.Trans, [3]int{int(s), int(a), int(t)}) }

// DOT returns the recorded automaton as JSON (the documented program prints this value).
func (d *DFA) DOT() string {
	fin := make([]int, len(d.Finals))
	for i, f := range d.Finals {
		fin[i] = int(f)
	}
	sort.Ints(fin)
	b, _ := json.Marshal(map[string]any{"start": int(d.Start), "finals": fin, "trans": d.Trans})
	return string(b)
}
