#!/bin/sh
# usage: seedtest.sh <seed-id> <property> [<worktree>]   — copies a seeded change from a worktree (first time), applies it to /repo,
# runs the property's quick check, and restores /repo.
set -u
ID="$1"; PROP="$2"; WT="${3:-}"
D=/verif/seeded/$ID
if [ -n "$WT" ] && [ ! -f "$D/patch.diff" ]; then
  mkdir -p "$D"
  cp "$WT/SEED_patch.diff" "$D/patch.diff"
  [ -f "$WT/SEED_README.md" ] && cp "$WT/SEED_README.md" "$D/README.md"
  find "$WT" -name 'zz_seed_demo_test.go' -exec cp {} "$D/demo_test.go" \;
  [ -d "$WT/demo_seed" ] && cp -r "$WT/demo_seed" "$D/demo_seed"
fi
cd /repo || exit 2
if [ -n "$(git status --porcelain --untracked-files=no)" ]; then echo "/repo is dirty"; exit 2; fi
git apply "$D/patch.diff" || { echo "patch does not apply"; exit 2; }
cd /verif && ./check "$PROP" --tier quick > "$D/check_output.txt" 2>&1
RC=$?
git -C /repo checkout -- .
echo "check $PROP on seed $ID: exit $RC"
grep -E "^VIOLATION|^KNOWN" "$D/check_output.txt" | cut -c1-200 | head -5
exit 0
