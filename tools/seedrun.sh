#!/bin/sh
# usage: seedrun.sh <seed-name> <source dir with patch.diff README.md meta.json demo*> <property> [<property> ...]
# copies the seeded change into /verif/seeded/<seed-name>, applies it to /repo, runs the quick check of each property, restores /repo.
set -u
NAME="$1"; SRC="$2"; shift 2
D=/verif/seeded/$NAME
mkdir -p "$D"
for f in "$SRC"/*; do [ -f "$f" ] && [ "$(stat -c %s "$f")" -lt 400000 ] && cp "$f" "$D/" 2>/dev/null; done
cd /repo || exit 2
if [ -n "$(git status --porcelain --untracked-files=no)" ]; then echo "/repo is dirty"; exit 2; fi
git apply "$D/patch.diff" || { echo "patch does not apply"; exit 2; }
: > "$D/check_output.txt"
for PROP in "$@"; do
  cd /verif && timeout -k 5 1800 ./check "$PROP" --tier quick > "$D/check_$PROP.txt" 2>&1
  RC=$?
  echo "== check $PROP on seed $NAME: exit $RC" | tee -a "$D/check_output.txt"
  grep -E "^VIOLATION|^KNOWN" "$D/check_$PROP.txt" | cut -c1-220 | head -6 | tee -a "$D/check_output.txt"
  for r in $(grep -E "^VIOLATION" "$D/check_$PROP.txt" | sed 's/.*replay=\([^ ]*\).*/\1/' | head -2); do
    [ -f "$r" ] && { echo "--- $r" >> "$D/check_output.txt"; head -c 1500 "$r" >> "$D/check_output.txt"; echo >> "$D/check_output.txt"; }
  done
  rm -f "$D/check_$PROP.txt"
done
git -C /repo checkout -- .
git -C /repo status --porcelain --untracked-files=no
exit 0
