#!/usr/bin/env python3
"""Records in each seeded/<name>/meta.json what was run on the seed: the confirmation in a scratch worktree (tools/seedconfirm.sh)
and the quick checks on /repo with the change applied (tools/seedrun.sh -> check_output.txt)."""
import json, os, re, sys
root = os.path.join(os.path.dirname(os.path.abspath(__file__)), "..", "seeded")
for name in sorted(os.listdir(root)):
    d = os.path.join(root, name)
    mp = os.path.join(d, "meta.json")
    if not os.path.isfile(mp):
        continue
    try:
        meta = json.load(open(mp))
    except Exception as e:
        print(name, "meta.json unreadable:", e)
        continue
    ran = {}
    cf = os.path.join(d, "confirm.txt")
    if os.path.isfile(cf):
        ran["confirmation"] = {"command": "tools/seedconfirm.sh %s (scratch worktree of /repo HEAD: git apply, go build ./..., go test -vet=off -count=1 ./..., "
                                          "the demonstration with the change and after git apply -R)" % name,
                               "result": open(cf).read().strip()}
    co = os.path.join(d, "check_output.txt")
    if os.path.isfile(co):
        txt = open(co).read()
        runs = re.findall(r"== check (C\d\d) on seed \S+ exit (\d+)", txt.replace(":", ""))
        if not runs:
            runs = re.findall(r"check (C\d\d) on seed \S+ exit (\d+)", txt.replace(":", ""))
        viol = sorted(set(re.findall(r"^VIOLATION property=(C\d\d) replay=\S+/(C\d\d_[A-Za-z0-9-]+?)_\d+\.json( no-failing-input-found)?", txt, re.M)))
        ran["checks"] = {"command": "tools/seedrun.sh %s <dir> %s (git -C /repo apply patch.diff; ./check <id> --tier quick; git -C /repo checkout -- .)"
                                    % (name, " ".join(sorted({r[0] for r in runs})) or meta.get("property", "")),
                         "exit": {r[0]: int(r[1]) for r in runs},
                         "violations": ["%s%s" % (v[1], v[2]) for v in viol]}
    if ran:
        meta["ran"] = ran
        json.dump(meta, open(mp, "w"), indent=2, ensure_ascii=False)
        open(mp, "a").write("\n")
