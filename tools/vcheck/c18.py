"""C18 — parse callbacks fire in derivation order with the right values; errors abort."""
import json
import os

from . import common as C
from . import lrfam as L

PROP = "C18"

CASES_V = """(* GENERATED: correspondence cases for C18 — token sequences the real drivers were run on *)
From Coq Require Import String List Bool Arith NArith.
From Verif Require Import Cfg.LR Cfg.LRSafe Reg.MaxMunch.
From VerifGen Require Import TableGo.
Import ListNotations.
Local Open Scope N_scope.
Definition ev_eqb (a b : event) : bool :=
  match a, b with
  | EvTok i, EvTok j => Nat.eqb i j
  | EvProd p, EvProd q => p =? q
  | _, _ => false
  end.
Fixpoint evs_eqb (a b : list event) : bool :=
  match a, b with
  | [], [] => true
  | x :: a', y :: b' => ev_eqb x y && evs_eqb a' b'
  | _, _ => false
  end.
Fixpoint tree_eqb (a b : tree) {struct a} : bool :=
  match a, b with
  | Leaf x i, Leaf y j => (x =? y) && Nat.eqb i j
  | Node p cs, Node q ds =>
    (p =? q) && (fix go (l : list tree) (m : list tree) : bool :=
                   match l, m with
                   | [], [] => true
                   | c :: l', d :: m' => tree_eqb c d && go l' m'
                   | _, _ => false
                   end) cs ds
  | _, _ => false
  end.
(* outcome code: 0 accept, 1 syntax error at token i, 2 lexical error *)
Definition out_ok (o : outcome) (code : N) (i : nat) : bool :=
  match o, code with
  | OAccept, 0 => true
  | OSyntaxError j, 1 => Nat.eqb i j
  | OLexError, 2 => true
  | _, _ => false
  end.
Definition agrees (c : list N * bool * list event * N * nat * option tree) : bool :=
  let '(toks, lexerr, evs, code, i, otree) := c in
  let '(tr, o) := run ebnf_grammar ebnf_table ebnf_eof ebnf_err_state toks (if lexerr then LexError else EndOfInput) (N.to_nat 100000) init in
  evs_eqb tr evs && out_ok o code i &&
  match otree with
  | None => true
  | Some t => match build ebnf_grammar toks tr with [t'] => tree_eqb t t' | _ => false end
  end.
Definition cases : list (list N * bool * list event * N * nat * option tree) := [
%s
].
Definition M := Eval vm_compute in mismatches agrees 0 cases.
Print M.
"""


def tree_term(t):
    if t[0] == "leaf":
        return "Leaf %d %d" % (t[1], t[2])
    return "Node %d [%s]" % (t[1], "; ".join("(" + tree_term(c) + ")" if c[0] != "leaf" or True else tree_term(c) for c in t[2]))


def case_term(c):
    toks, lexerr, evs, code, i, tree = c
    ev = "; ".join("EvTok %d" % e[1] if e[0] == "tok" else "EvProd %d" % e[1] for e in evs)
    tr = "Some (%s)" % tree_term(tree) if tree is not None else "None"
    return "(%s, %s, [%s], %d, %d%%nat, %s)" % (C.coq_nat_list(toks), "true" if lexerr else "false", ev, code, i, tr)


def outcome_of(res, ntoks):
    """(code, index) from the hook's error description; None if it cannot be classified."""
    err = res.get("error")
    if err is None:
        return (0, 0)
    if err.get("injected"):
        return ("injected", err["injected"])
    cause = err.get("cause", "")
    if "no action exists" in cause:
        if err.get("pos_zero"):
            return (1, ntoks)
        return (1, err["pos"][0])
    if "lexical error at fake" in cause or "lexical error at fake" in err.get("message", ""):
        return (2, 0)
    return None


def convert_tree(T, node, leaf_counter):
    """hook tree dump -> ('leaf', terminal idx, token idx) | ('node', production idx, children)."""
    if node[0] == "leaf":
        i = leaf_counter[0]
        leaf_counter[0] += 1
        return ("leaf", T.tidx[node[1]], i)
    head, body = node[2], node[3]
    cs = [convert_tree(T, c, leaf_counter) for c in node[4]]
    key = None
    for idx, (h, b) in enumerate(T.prods):
        names = []
        for k, x in b:
            names.append(json.dumps(T.terms[x]) if k == "t" else T.nts[x])
        if T.nts[h] == head and names == list(body):
            key = idx
            break
    if key is None:
        # fall back: match by head and body length / child roots
        for idx, (h, b) in enumerate(T.prods):
            if T.nts[h] == head and len(b) == len(cs):
                ok = True
                for (k, x), c in zip(b, cs):
                    if k == "t" and not (c[0] == "leaf" and c[1] == x):
                        ok = False
                    if k == "n" and not (c[0] == "node" and T.prods[c[1]][0] == x):
                        ok = False
                if ok:
                    key = idx
                    break
    if key is None:
        raise ValueError("production of tree node not found: %r -> %r" % (head, body))
    return ("node", key, cs)


def tree_from_eval_log(T, log, toks):
    """Rebuild the tree from ParseAndEvaluate's calls; also check the position rule. Returns (tree, problems)."""
    problems = []
    made = {}
    leaf_of = {}

    def val_tree(v, pos):
        if isinstance(v, str) and v.startswith("#"):
            return made[v]
        # a token value: lexeme "t<i>"
        i = int(v[1:])
        if pos is None or pos[0] != i:
            problems.append("token value %r carries position %r" % (v, pos))
        return ("leaf", toks[i], i)

    def first_pos(t):
        return t[3] if t[0] == "node" else t[2]

    last = None
    for e in log:
        _, p, args, rid = e
        cs = []
        for v, pos in args:
            cs.append((val_tree(v, pos), pos))
        node = ("node", p, [c for c, _ in cs])
        made[rid] = node
        last = node
    return last, problems


def gen_token_seqs(rng, T, n):
    """Random token sequences: mostly near-valid (mutations of valid streams are added by the caller)."""
    out = []
    nt = len(T.terms)
    for _ in range(n):
        k = rng.randint(0, 8)
        out.append([rng.randrange(nt) for _ in range(k)])
    return out


def check(tier):
    rep = C.Report(PROP, tier, "proof")
    rng = C.rng_for(PROP)
    try:
        tr, T = L.regen()
    except C.BuildError as e:
        rep.obligation("translate parsing_table.go", False)
        rep.violation("translator", {"theorem": "gen/TableGo.v cannot be regenerated", "detail": str(e)}, no_input=True)
        return rep.finish()
    hook = C.Hook()

    # (a) translator self-check: every (state, terminal) and (state, non-terminal) pair through ACTION/GOTO
    apairs = [[s, a] for s in T.states + [T.err_state] for a in T.terms + ["$"]]
    gpairs = [[s, A] for s in T.states + [T.err_state] for A in T.nts]
    pr = hook.call({"op": "table_probe", "action": apairs, "goto": gpairs})
    bad = []
    for (s, a), got in zip(apairs, pr.get("action", [])):
        exp = T.action.get((s, T.tidx[a]))
        if (exp is None) != (got[0] == "ERROR") or (exp is not None and (exp[0] != got[0] or (exp[0] != "ACCEPT" and exp[1] != got[1]))):
            bad.append(["ACTION", s, a, exp, got])
    for (s, A), got in zip(gpairs, pr.get("goto", [])):
        exp = T.goto.get((s, T.nidx[A]), -1)
        if exp != got:
            bad.append(["GOTO", s, A, exp, got])
    rep.obligation("translation self-check: ACTION/GOTO == translated table on %d pairs" % (len(apairs) + len(gpairs)),
                   not bad and pr.get("outcome") == "ok")
    if bad:
        rep.violation("translator-selfcheck", {"theorem": "gen/TableGo.v does not reproduce ACTION/GOTO", "entries": bad[:20]}, no_input=True)

    # (b) theorems on the regenerated table
    ok, log = C.coq_make(["theories/Props/C18.vo"])
    for t in ["ebnf_table_safe", "callbacks_in_derivation_order", "error_aborts_at_that_point", "evaluation_plumbing", "accepted_example"]:
        rep.obligation("Props/C18.v: " + t, ok)
    rep.cov["print_assumptions"] = "Closed under the global context x%d" % log.count("Closed under the global context") if ok else "n/a"

    # (c) inputs: token streams of generated specifications (through the real scanner), their mutations, random sequences
    nspec = 60 if tier == "quick" else 1200
    # long flat shapes (the stack grows with every alternative: `|` is shifted up to the end of the rule) and deep nesting
    long_specs = ["grammar g; s = " + " | ".join('"k%d"' % i for i in range(n)) + ";" for n in (99, 150, 260)] + \
                 ["grammar g; s = " + " ".join('"k%d"' % i for i in range(300)) + ";",
                  "grammar g; s = " + "(" * 60 + '"x"' + ")" * 60 + ";",
                  "grammar g; s = " + "[{" * 40 + '"x"' + "}]" * 40 + " | ;",
                  "grammar g; " + " ".join('r%d = "x";' % i for i in range(220))]
    specs = list(L.FIXTURE_SPECS) + long_specs + [L.gen_spec(rng) for _ in range(nspec)]
    seqs = []
    for sp in specs:
        toks, end = L.lex_kinds(hook, sp)
        if end == "eof" and all(k in T.tidx for k, _ in toks):
            seqs.append(([T.tidx[k] for k, _ in toks], False))
    base = [s for s, _ in seqs]
    for s in base[: (40 if tier == "quick" else 600)]:
        if not s:
            continue
        i = rng.randrange(len(s) + 1)
        k = rng.random()
        if k < 0.3:
            seqs.append((s[:i] + [rng.randrange(len(T.terms))] + s[i:], False))
        elif k < 0.6 and i < len(s):
            seqs.append((s[:i] + s[i + 1:], False))
        elif k < 0.8:
            seqs.append((s[:i], False))            # truncation
        else:
            seqs.append((s[:i], True))             # lexical error after i tokens
    for s in gen_token_seqs(rng, T, 60 if tier == "quick" else 1500):
        seqs.append((s, False))
    seen, uniq = set(), []
    for s, le in seqs:
        key = (tuple(s), le)
        if key not in seen:
            seen.add(key)
            uniq.append((s, le))
    seqs = uniq

    def fake(s):
        return [[T.terms[a], "t%d" % i] for i, a in enumerate(s)]

    cases, problems, dist = [], [], {"accept": 0, "syntax": 0, "lex": 0, "injections": 0, "ast": 0, "eval": 0}
    accepted = []
    for s, le in seqs:
        r = hook.call({"op": "parse_trace", "mode": "parse", "tokens": fake(s), "lex_error": le})
        oc = outcome_of(r, len(s))
        evs = [(e[0], e[1]) for e in r.get("log", [])]
        if r.get("outcome") != "ok" or oc is None or oc[0] == "injected":
            problems.append(("unclassified", s, le, r))
            continue
        tree = None
        if oc[0] == 0:
            accepted.append((s, evs))
            ra = hook.call({"op": "parse_trace", "mode": "ast", "tokens": fake(s)})
            if ra.get("tree") is None:
                problems.append(("ast-mode-failed", s, le, ra))
            else:
                try:
                    tree = convert_tree(T, ra["tree"], [0])
                    dist["ast"] += 1
                except ValueError as e:
                    problems.append(("tree-shape", s, le, str(e)))
            re_ = hook.call({"op": "parse_trace", "mode": "eval", "tokens": fake(s)})
            # the same stream with REPEATED lexemes (every token of a kind spelled alike): call by call, argument by argument,
            # a leaf value must be the one of the same token as in the run with unique lexemes "t<i>", with that token's position
            rep_toks = [[T.terms[a], "same_%s" % T.terms[a]] for a in s]
            rr = hook.call({"op": "parse_trace", "mode": "eval", "tokens": rep_toks})
            ulog, rlog = re_.get("log", []), rr.get("log", [])
            if len(ulog) != len(rlog) or rr.get("error") is not None:
                problems.append(("eval-leaf", s, le, {"note": "with repeated lexemes the evaluation takes another course",
                                                      "calls_unique": len(ulog), "calls_repeated": len(rlog), "error": rr.get("error")}))
            else:
                for eu, er in zip(ulog, rlog):
                    bad_ = None
                    if eu[1] != er[1] or len(eu[2]) != len(er[2]):
                        bad_ = {"note": "another production or arity", "unique": eu[:2], "repeated": er[:2]}
                    else:
                        for (vu, pu), (vr, pr) in zip(eu[2], er[2]):
                            if isinstance(vu, str) and vu.startswith("t") and vu[1:].isdigit():
                                i_ = int(vu[1:])
                                if vr != rep_toks[i_][1] or pr != [i_, 1, i_ + 1]:
                                    bad_ = {"token_number": i_, "value": vr, "position": pr, "expected_position": [i_, 1, i_ + 1],
                                            "note": "all tokens of a kind share one lexeme"}
                                    break
                    if bad_:
                        problems.append(("eval-leaf", s, le, bad_))
                        break
            # the callback's result IS the head's value, also when it is nil: the same stream with a nil result at chosen
            # reductions; every other call must then see nil exactly where the run above saw the result of such a reduction
            if ulog and re_.get("error") is None:
                nn = len(ulog)
                picks = [sorted(rng.sample(range(nn), max(1, nn // 3))), [nn - 1], list(range(nn))]
                for nil_at in picks[: (2 if len(s) > 40 else 3)]:
                    rn = hook.call({"op": "parse_trace", "mode": "eval", "tokens": fake(s), "nil_at": nil_at})
                    dist["nil_results"] = dist.get("nil_results", 0) + 1
                    nlog = rn.get("log", [])
                    nil_ids = {"#%d" % k for k in nil_at}
                    bad_ = None
                    if rn.get("error") is not None or len(nlog) != nn:
                        bad_ = {"note": "with nil results the evaluation takes another course", "error": rn.get("error"), "calls": len(nlog)}
                    else:
                        for eu, en in zip(ulog, nlog):
                            exp_args = [[None if (isinstance(v, str) and v in nil_ids) else v, pos] for v, pos in eu[2]]
                            if eu[1] != en[1] or [list(a) for a in en[2]] != exp_args:
                                bad_ = {"note": "a head whose callback returned nil must carry nil (and its first body symbol's position)",
                                        "call": eu[3], "production": eu[1], "received": en[2], "expected": exp_args}
                                break
                        if bad_ is None and (nn - 1) in nil_at:
                            expv = [None, re_["value"][1]] if re_.get("value") else None
                            if rn.get("nil_result") or rn.get("value") != expv:
                                bad_ = {"note": "the value returned to the caller is not the last callback's (nil) result",
                                        "returned": rn.get("value"), "expected": expv}
                    if bad_:
                        bad_["nil_at"] = nil_at
                        problems.append(("eval-nil-result", s, le, bad_))
                        break
            if re_.get("error") is not None or re_.get("nil_result"):
                problems.append(("eval-mode-failed", s, le, re_))
            elif tree is not None:
                t2, pp = tree_from_eval_log(T, re_.get("log", []), s)
                dist["eval"] += 1
                # the values handed over stay the ones handed over: the hook keeps each argument slice and renders it
                # again after the parse (a callback that builds a tree keeps them in just this way)
                after = re_.get("args_after")
                if after is not None and after != [e[2] for e in re_.get("log", [])]:
                    k = next((i for i, (a, e) in enumerate(zip(after, re_["log"])) if a != e[2]), None)
                    problems.append(("eval-values-kept", s, le, {"note": "the arguments of an evaluation call read differently after the parse",
                                                                  "call": k, "at_call": re_["log"][k][2] if k is not None else None,
                                                                  "after_parse": after[k] if k is not None else None}))
                strip = lambda t: t if t[0] == "leaf" else ("node", t[1], [strip(c) for c in t[2]])
                if pp or strip(t2) != strip(tree):
                    problems.append(("eval-plumbing", s, le, {"problems": pp, "eval_tree": t2, "ast_tree": tree}))
                else:
                    # position rule: head position = first body symbol's position (none for an empty body)
                    posmap = {}
                    for e in re_["log"]:
                        _, p, args, rid = e
                        exp = args[0][1] if args else None
                        posmap[rid] = exp
                    root_id = re_["log"][-1][3] if re_["log"] else None
                    if root_id is not None and re_.get("value") and re_["value"][1] != posmap[root_id]:
                        problems.append(("eval-position", s, le, {"value": re_["value"], "expected_pos": posmap[root_id]}))
                    for e in re_["log"]:
                        for v, pos in e[2]:
                            if isinstance(v, str) and v.startswith("#") and pos != posmap[v]:
                                problems.append(("eval-position", s, le, {"arg": v, "pos": pos, "expected_pos": posmap[v]}))
                                break
        dist[["accept", "syntax", "lex"][oc[0]]] += 1
        cases.append((s, le, evs, oc[0], oc[1], tree))

    # (d) failure injection: at every step of short accepted streams, at sampled steps of long ones
    for s, evs in accepted[: (25 if tier == "quick" else 400)]:
        steps = list(range(len(evs))) if len(evs) <= 24 else sorted(rng.sample(range(len(evs)), 12))
        for k in steps:
            kind = evs[k][0]
            idx = sum(1 for e in evs[:k] if e[0] == kind)
            r = hook.call({"op": "parse_trace", "mode": "parse", "tokens": fake(s), "fail_at": {"kind": kind, "index": idx}})
            got = [(e[0], e[1]) for e in r.get("log", [])]
            oc = outcome_of(r, len(s))
            dist["injections"] += 1
            if got != evs[:k + 1] or oc is None or oc[0] != "injected" or oc[1] != "%s%d" % (kind, idx):
                problems.append(("abort", s, False, {"fail_at": [kind, idx], "log": got, "expected_log": evs[:k + 1], "error": r.get("error")}))
    # (d') the same through ParseAndEvaluate: the evaluation callback fails at reduction k; the caller must get that
    #      very error (identity, not a textual copy) after exactly the first k+1 evaluation calls
    dist["eval_injections"] = 0
    for s, evs in accepted[: (25 if tier == "quick" else 400)]:
        nred = sum(1 for e in evs if e[0] == "prod")
        full = hook.call({"op": "parse_trace", "mode": "eval", "tokens": fake(s)}).get("log", [])
        steps = list(range(nred)) if nred <= 30 else sorted(rng.sample(range(nred), 14))
        for k in steps:
            r = hook.call({"op": "parse_trace", "mode": "eval", "tokens": fake(s), "fail_at": {"kind": "eval", "index": k}})
            oc = outcome_of(r, len(s))
            dist["eval_injections"] += 1
            if r.get("log", []) != full[:k + 1] or oc is None or oc[0] != "injected" or oc[1] != "eval%d" % k or "value" in r:
                problems.append(("abort", s, False, {"fail_at": ["eval", k], "log": [(e[0], e[1]) for e in r.get("log", [])],
                                                     "expected_log": [(e[0], e[1]) for e in full[:k + 1]], "error": r.get("error")}))
    hook.close()

    # (e) Coq model on the same cases
    paths, offs = [], []
    shard = 150
    for o in range(0, len(cases), shard):
        path = os.path.join(C.GEN, "cases_C18_%d.v" % (o // shard))
        with open(path, "w") as f:
            f.write(CASES_V % ";\n".join(case_term(c) for c in cases[o:o + shard]))
        paths.append(path)
        offs.append(o)
    badidx, cerr = [], None
    for (okc, out), o in zip(C.coqc_many(paths), offs):
        m = C.parse_mismatches(out) if okc else None
        if m is None:
            cerr = out
            break
        badidx.extend(o + x for x in m)
    rep.cov["evaluations"] = len(cases) + dist["injections"]
    rep.cov["distinct_nontrivial"] = sum(1 for c in cases if len(c[2]) >= 5)
    rep.cov["rule"] = ("token streams of generated specifications (lexed by the real scanner, replayed through a fake lexer), single-token "
                       "insertions/deletions/truncations, lexical-error endings, random sequences; for each: callback log and error of Parse vs "
                       "the Coq driver model; accepted ones also through ParseAndBuildAST (tree == replay of the log) and ParseAndEvaluate "
                       "(arguments/positions == tree fold; repeated lexemes; nil results at a third of / the last / all reductions must reach the parent and the caller as nil); callback failure injected at every step of short streams; non-trivial = log of >= 5 callbacks")
    rep.cov["input_distribution"] = dist
    rep.cov["samples"] = [{"tokens": [T.terms[a] for a in c[0]], "lex_error": c[1], "outcome": c[3], "callbacks": len(c[2])} for c in cases[7:11]]
    if cerr is not None:
        rep.obligation("correspondence cases compile", False)
        if ok:
            rep.violation("cases", {"theorem": "gen/cases_C18_*.v does not compile", "log": cerr[-3000:]}, no_input=True)
    else:
        rep.obligation("correspondence: Parse/ParseAndBuildAST vs Coq driver on %d token streams" % len(cases), not badidx)
    rep.obligation("correspondence: ParseAndEvaluate arguments/positions and abort-at-injected-failure (%d injections through Parse, %d through ParseAndEvaluate)" % (dist["injections"], dist["eval_injections"]),
                   not problems)
    for i in badidx[:3]:
        c = cases[i]
        mt, mo = T.run(c[0], c[1])
        rep.failure("trace", {"trace"}, {"tokens": [T.terms[a] for a in c[0]], "lex_error": c[1],
                                         "observed_log": c[2], "observed_outcome": [c[3], c[4]],
                                         "model_log": mt, "model_outcome": mo})
    kinds = set()
    for p in problems:
        if p[0] in kinds:
            continue
        kinds.add(p[0])
        rep.failure(p[0], {p[0]}, {"tokens": [T.terms[a] for a in p[1]], "lex_error": p[2], "detail": p[3]})
    if not ok and not rep.violations:
        wit = search_bad_derivation(T)
        if wit:
            rep.violation("derivation", wit)
        else:
            rep.violation("proof", {"theorem": "Props/C18.v", "log": log[-2500:]}, no_input=True)
    return rep.finish()


def search_bad_derivation(T):
    """The table no longer passes the safety check: look for a token sequence the real parser accepts although no derivation of
    the grammar yields it (then the production callbacks cannot be a derivation), or whose tree applies a production to the wrong symbols."""
    import itertools
    from . import docgrammar as D
    from . import c04
    g = D.doc_grammar()
    hook = C.Hook()
    try:
        seqs = []
        for n in range(0, 4):
            for t in itertools.product(c04.REDUCED, repeat=n):
                seqs.append(["grammar", "IDENT"] + list(t))
        for o in range(0, len(seqs), 2000):
            res = hook.call({"op": "parse_many", "seqs": seqs[o:o + 2000]}).get("results", [])
            for s, r in zip(seqs[o:o + 2000], res):
                if r and r[0] == 0 and not g.earley(s)[0]:
                    ra = hook.call({"op": "parse_trace", "mode": "parse", "tokens": [[k, "t%d" % i] for i, k in enumerate(s)]})
                    return {"tokens": s, "lex_error": False, "observed_log": [(e[0], e[1]) for e in ra.get("log", [])],
                            "why": "accepted, but the token sequence has no derivation in the grammar: the production callbacks are not a derivation"}
    finally:
        hook.close()
    return None


def replay(path):
    d = json.load(open(path))
    if "tokens" not in d:
        print("replay names an obligation:", d.get("theorem"))
        return 1
    tr, T = L.regen()
    s = [T.tidx[t] for t in d["tokens"]]
    hook = C.Hook()
    r = hook.call({"op": "parse_trace", "mode": "parse", "tokens": [[t, "t%d" % i] for i, t in enumerate(d["tokens"])],
                   "lex_error": d.get("lex_error", False)})
    hook.close()
    got = [(e[0], e[1]) for e in r.get("log", [])]
    mt, mo = T.run(s, d.get("lex_error", False))
    print("observed:", got, r.get("error"))
    print("model   :", mt, mo)
    return 0 if got == mt else 1
