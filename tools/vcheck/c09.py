"""C09 — a pattern is accepted only as a whole sentence of the documented pattern grammar."""
import json

from . import common as C
from . import regexfam as R
from . import c02

PROP = "C09"
# every metacharacter plus representatives of letters, digits, hex letters, class letters, separators
ALPHABET = list("\\|.?*+()[]{}$^-,:") + ["a", "0", "A", "x", "p", "s", "2"]


def patterns_for(tier, rng):
    pats = R.corpus(PROP) + list(R.PROBLEM) + list(R.EVERY_CONSTRUCT) + list(R.EDGE_BLANKS) + list(R.EXTREME_GROUPS) + list(R.ALL_ESCAPES)
    maxlen = 3 if tier == "quick" else 4
    alpha = ALPHABET if tier != "quick" else ALPHABET[:17] + ["a", "0", "A"]
    pats += list(R.short_strings(alpha, maxlen if tier == "quick" else 3))
    if tier != "quick":
        # length 4 over the metacharacters and three representatives
        pats += list(R.short_strings(list("\\|.?*+()[]{}$^-,") + ["a", "1"], 4))
    valid = [R.gen_tree(rng, rng.randint(1, 4)) for _ in range(200 if tier == "quick" else 3000)]
    pats += valid
    pats += R.mutations(rng, valid + list(R.EVERY_CONSTRUCT), 600 if tier == "quick" else 20000)
    seen, out = set(), []
    for p in pats:
        if p not in seen and "\x00" not in p and len(p) < 60 and all(ord(ch) < 0x110000 for ch in p):
            seen.add(p)
            out.append(p)
    return out


def check(tier):
    rep = C.Report(PROP, tier, "proof")
    rng = C.rng_for(PROP)
    try:
        R.regen()
    except C.BuildError as e:
        rep.obligation("translate regex tables", False)
        rep.violation("translator", {"theorem": "gen/RuneGo.v cannot be regenerated", "detail": str(e)}, no_input=True)
        return rep.finish()
    ok, log = C.coq_make(["theories/Props/C09.vo"])
    for t in ["accepted_only_as_whole_sentence", "parser_consumes_what_it_prints", "accepted_is_meaningful",
              "rejected_examples", "accepted_examples"]:
        rep.obligation("Props/C09.v: " + t, ok)
    rep.cov["print_assumptions"] = "Closed under the global context x%d" % log.count("Closed under the global context") if ok else "n/a"

    pats = patterns_for(tier, rng)
    res = C.hook_map([{"op": "regex_parse", "pattern": p} for p in pats], timeout_each=10)
    cases_n, cases_a = [], []
    dist = {"accepted": 0, "syntax": 0, "semantic": 0, "other": 0, "nil_result": 0}
    for p, r in zip(pats, res):
        cn, ca = R.impl_code(r.get("nfa", {})), R.impl_code(r.get("ast", {}))
        if r.get("nfa", {}).get("nil") or r.get("ast", {}).get("nil"):
            dist["nil_result"] += 1
            cn = 3
        dist[["accepted", "syntax", "semantic", "other"][cn]] += 1
        cases_n.append((p, cn, []))
        cases_a.append((p, ca, []))
    bad_n, out = R.run_case_file("cases_C09n", cases_n, shard=2500)
    bad_a, out2 = (R.run_case_file("cases_C09a", cases_a, shard=2500) if bad_n is not None else (None, out))
    rep.cov["evaluations"] = 2 * len(pats)
    rep.cov["distinct_nontrivial"] = sum(1 for p in pats if len(p) >= 2)
    rep.cov["rule"] = ("every string up to a length bound over the reduced alphabet (all metacharacters + representatives), the named problem "
                       "patterns, random valid patterns and single-edit mutations of valid ones; for both entry points (nfa.Parse, ast.Parse) "
                       "accept / syntax-reject / semantic-reject is compared with the Coq model of the PEG parser; non-trivial = length >= 2")
    rep.cov["exhaustive"] = False
    rep.cov["input_distribution"] = dist
    rep.cov["samples"] = [{"pattern": p, "nfa": a[1], "ast": b[1]} for p, a, b in list(zip(pats, cases_n, cases_a))[60:68]]
    if bad_n is None or bad_a is None:
        rep.obligation("case files compile", False)
        rep.violation("cases", {"theorem": "gen/cases_C09*.v does not compile", "log": (out or out2)[-3000:]}, no_input=True)
        return rep.finish()
    rep.obligation("correspondence nfa.Parse vs model on %d patterns" % len(pats), not bad_n)
    rep.obligation("correspondence ast.Parse vs model on %d patterns" % len(pats), not bad_a)
    found = False
    if bad_n:
        found = c02.explain(rep, [cases_n[i] for i in bad_n], prop=PROP) or found
    if bad_a:
        found = c02.explain(rep, [cases_a[i] for i in bad_a], prop=PROP) or found
    if not ok and not found:
        rep.violation("proof", {"theorem": "Props/C09.v", "log": log[-2500:]}, no_input=True)
    return rep.finish()


def replay(path):
    return c02.replay(path)
