"""Python mirrors of the Coq definitions of Reg/Dfa.v and Reg/MaxMunch.v.
They are used only to SEARCH for failing inputs and to prepare case files; nothing here is trusted
for a verdict: every verdict comes from coqc or from the real code."""


class Dfa:
    def __init__(self, start, edges):
        self.start = start
        self.edges = [tuple(e) for e in edges]
        self.by = {}
        for e in self.edges:
            self.by.setdefault(e[0], []).append(e)

    def step(self, q, c):
        if q is None:
            return None
        for (_, lo, hi, t) in self.by.get(q, []):
            if lo <= c <= hi:
                return t
        return None

    def run(self, w, q="start"):
        q = self.start if q == "start" else q
        for c in w:
            q = self.step(q, c)
            if q is None:
                return None
        return q

    def bounds(self):
        b = set()
        for (_, lo, hi, _) in self.edges:
            b.add(lo)
            b.add(hi + 1)
        return b

    def states(self):
        s = {self.start}
        for e in self.edges:
            s.add(e[0])
            s.add(e[3])
        return s


def product_search(d1, lab1, d2, lab2, extra_atoms=()):
    """BFS over the product; returns (None, npairs) if bisimilar, else (witness string, npairs)
    for the first pair whose labels differ (dead vs live counts as different)."""
    atoms = sorted({0} | d1.bounds() | d2.bounds() | set(extra_atoms))
    start = (d1.start, d2.start)
    seen = {start: []}
    queue = [start]
    while queue:
        nxt = []
        for p in queue:
            w = seen[p]
            q1, q2 = p
            l1 = lab1(q1) if q1 is not None else "DEAD"
            l2 = lab2(q2) if q2 is not None else "DEAD"
            if l1 != l2:
                return w, len(seen)
            if q1 is None and q2 is None:
                continue
            for c in atoms:
                n = (d1.step(q1, c), d2.step(q2, c))
                if n not in seen:
                    seen[n] = w + [c]
                    nxt.append(n)
        queue = nxt
    return None, len(seen)


def pos_adv(p, u):
    off, line, col = p
    for c in u:
        if c == 10:
            off, line, col = off + 1, line + 1, 1
        else:
            off, col = off + 1, col + 1
    return (off, line, col)


def apply_mode(label, u):
    """label = ['tok', kind, mode, fixed-or-cut]"""
    mode = label[2]
    if mode == "fixed":
        return [ord(ch) for ch in label[3]]
    if mode == "whole":
        return list(u)
    if mode == "strip1":
        return list(u[1:-1]) if len(u) >= 1 else []
    if mode == "trimcut":
        c = label[3]
        v = list(u)
        while v and v[0] == c:
            v.pop(0)
        while v and v[-1] == c:
            v.pop()
        return v
    raise ValueError(mode)


def max_munch(dfa, label, text, eval_at_eof=True):
    """Declarative maximal-munch stream over an ideal reader.
    label(q) -> ['tok',kind,mode,x] | ['skip'] | None (non accepting).
    Returns (tokens [[kind, lexeme(list), off, line, col]], ending) with ending 'eof' | ['error', off,line,col, lexeme]."""
    toks = []
    p = (0, 1, 1)
    i = 0
    n = len(text)
    while i < n:
        q = dfa.start
        j = i
        while j < n:
            t = dfa.step(q, text[j])
            if t is None:
                break
            q = t
            j += 1
        if j == n and not eval_at_eof:
            return toks, "eof"
        u = text[i:j]
        lab = label(q)
        if lab is None:
            return toks, ["error", p[0], p[1], p[2], u]
        if not u:
            return toks, "diverge"
        if lab[0] == "tok":
            toks.append([lab[1], apply_mode(lab, u), p[0], p[1], p[2]])
        p = pos_adv(p, u)
        i = j
    return toks, "eof"
